/-
C37 — HTML and Markdown formatting stay within the text.

The tokenizers (golang.org/x/net/html, github.com/yuin/goldmark) are third-party and are NOT
modelled.  The model is the interface between the parsers and the message: the parsers live in
other packages than `entity.Builder`, so they can change a message only through the exported
methods of `Builder` and `Token`.  `Call` lists those methods (the state-changing ones; the list
is compared with the regenerated method and call-site lists in Props/C37.lean), `toOp` maps each
to an operation of the builder model of C35, and a parser run is an ARBITRARY list of calls.
-/
import TdModel.Model.C35
import TdModel.Gen.C37

namespace TdModel.C37
open TdModel.C35

/-- One state-changing call a parser can make on `entity.Builder` / `entity.Token`. -/
inductive Call where
  | write (s : List Char)                  -- Write, WriteString, WriteByte(ASCII)
  | writeRune (r : Int)                    -- WriteRune (any rune value)
  | plain (s : List Char)                  -- Plain
  | format (s : List Char) (fs : List Fmt) -- Format and the generated Bold(s), Italic(s), …
  | token                                  -- Token
  | apply (k : Nat) (fs : List Fmt)        -- Token.Apply on the k-th token taken
  | shrinkPreCode                          -- ShrinkPreCode
  deriving Repr

def toOp : Call → Op
  | .write s => .write s
  | .writeRune r => .writeRune r
  | .plain s => .plain s
  | .format s fs => .format s fs
  | .token => .token
  | .apply k fs => .apply k fs
  | .shrinkPreCode => .shrink

/-- What the caller of `html.HTML` / `markdown.Markdown` obtains from `Builder.Complete`. -/
def result (calls : List Call) : List Char × List Ent := complete (run (calls.map toOp))

/-- Methods of `Builder`/`Token` that change the builder and are modelled by a `Call`. -/
def modelled : List String :=
  ["Apply", "Format", "Plain", "ShrinkPreCode", "Token", "Write", "WriteByte", "WriteRune", "WriteString"]

/-- Methods that only read the builder or only change capacity. -/
def readOnly : List String :=
  ["EntitiesLen", "GrowEntities", "GrowText", "LastEntity", "Text", "TextRange", "UTF16Len",
   "UTF16Length", "UTF16Offset", "UTF8Len", "UTF8Length", "UTF8Offset"]

/-- Methods that end or restart a message (called by the user of the parsers, not by them). -/
def final : List String := ["Complete", "Raw", "Reset"]

/-- Unexported helpers, reachable only through the methods above. -/
def internal : List String := ["appendEntities", "appendMessage", "fixEntities"]

def subset (a b : List String) : Bool := a.all (fun x => b.contains x)

end TdModel.C37
