/-
C04/C05 — MTProto 2.0 message encryption: `crypto.Cipher.Encrypt` (crypto/cipher_encrypt.go),
`crypto.Cipher.DecryptFromBuffer` / `Decrypt` / `decryptMessage` (crypto/cipher_decrypt.go),
`EncryptedMessageData` / `EncryptedMessage` layouts.

Regenerated parts (`TdModel.Facts.C04`): `countPadding` (translated Go function), the ordered
validity checks of the `switch` in `Cipher.Decrypt` (`decryptChecks`, interpreted by `firstFailing`),
the alignment modulus and the presence of the key-id / msg_key comparisons, the `Put*` sequences of
`EncryptedMessageData.Encode` / `EncodeWithoutCopy`, the reads of `DecodeWithoutCopy` (interpreted by
`encodeWith` / `decodeFields`) and the `EncryptedMessage` frame lengths.  Key derivation is the
code-shaped `C06.Impl` (itself regenerated tables); AES-IGE is `TdModel.Ige`.  Core Lean only.
-/
import TdModel.Model.C06
import TdModel.Model.C04Ige
import TdModel.Model.Bin
import TdModel.Gen.C04

namespace TdModel.C04
open TdModel TdModel.Bin
open TdModel.C06 (Side)
open TdModel.Facts.C04 (Chk Lhs Op Put Width Fld)

/-- `crypto.countPadding(l, randByte)`: the regenerated translation, on naturals. -/
def countPadding (l : Nat) (r : UInt8) : Nat :=
  (Facts.C04.countPadding (l : Int) (r.toNat : Int)).toNat

/-- Decoded `crypto.EncryptedMessageData`: 64-bit fields and `seq`, `len` as unsigned views of the
wire values; `body` = `MessageDataWithPadding`. -/
structure Data where
  salt : Nat
  sid : Nat
  mid : Nat
  seq : Nat
  len : Nat
  body : Bytes
  deriving DecidableEq, Repr

/-- `EncryptedMessageData.Data()` = `MessageDataWithPadding[:MessageDataLen]`. -/
def Data.payload (d : Data) : Bytes := d.body.take d.len

/-- Value of a header field. -/
def fldVal (salt sid mid seq len : Nat) : Fld → Nat
  | .salt => salt
  | .sid => sid
  | .mid => mid
  | .seq => seq
  | .len => len
  | .body => 0

/-- Interpreter of a regenerated `b.PutX(e.Field)` sequence. -/
def encodeWith (ps : List Put) (salt sid mid seq len : Nat) (body : Bytes) : Bytes :=
  ps.flatMap fun p =>
    match p.w with
    | .u32 => putU32 (fldVal salt sid mid seq len p.f)
    | .u64 => putU64 (fldVal salt sid mid seq len p.f)
    | .raw => body

/-- `EncryptedMessageData.Encode` — the `Put*` sequence is regenerated (`Facts.C04.dataEncode`). -/
def encodeData (salt sid mid seq len : Nat) (body : Bytes) : Bytes :=
  encodeWith Facts.C04.dataEncode salt sid mid seq len body

/-- `EncryptedMessageData.EncodeWithoutCopy` with `Message ≠ nil`: the regenerated sequence with the
length placeholder patched to the encoded size of `Message` (`payload` = what `Message` encodes to). -/
def encodeDataNoCopy (salt sid mid seq : Nat) (payload : Bytes) : Bytes :=
  encodeWith Facts.C04.dataEncodeNoCopy salt sid mid seq payload.length payload

inductive Err where
  | rand
  | eof
  | keyId
  | align
  | msgKey
  | dataLen
  | check (c : Chk)
  deriving DecidableEq, Repr

def Err.tag : Err → String
  | .rand => "rand"
  | .eof => "eof"
  | .keyId => "key-id"
  | .align => "align"
  | .msgKey => "msg-key"
  | .dataLen => "data-len"
  | .check ⟨.n, _, _⟩ => "len-negative"
  | .check ⟨.nMod _, _, _⟩ => "len-mod"
  | .check ⟨.pad, .lt, _⟩ => "pad-small"
  | .check ⟨.pad, .le, _⟩ => "pad-small"
  | .check ⟨.pad, _, _⟩ => "pad-big"

/-- `Cipher.Encrypt` with the general `EncryptedMessageData{MessageDataLen, MessageDataWithPadding}`
input; `rnd` is the byte stream delivered by the cipher's random reader (`io.ReadFull`: one byte for
`countPadding`, then the padding itself). -/
def encryptData (P : Prims) (side : Side) (authKey keyId : Bytes) (salt sid mid seq len : Nat)
    (body rnd : Bytes) : Except Err Bytes :=
  let pt := encodeData salt sid mid seq len body
  match rnd with
  | [] => .error .rand
  | r :: rest =>
    let pad := countPadding pt.length r
    if rest.length < pad then .error .rand
    else
      let padded := pt ++ rest.take pad
      let mk := C06.Impl.msgKey P authKey padded side
      let kiv := C06.Impl.keys P authKey mk side
      .ok (keyId ++ mk ++ Ige.enc (P.aesEnc kiv.1) kiv.2 padded)

/-- `Cipher.Encrypt` of a payload (`Message` encoder or raw bytes with `MessageDataLen = len`). -/
def encrypt (P : Prims) (side : Side) (authKey keyId : Bytes) (salt sid mid seq : Nat)
    (payload rnd : Bytes) : Except Err Bytes :=
  encryptData P side authKey keyId salt sid mid seq payload.length payload rnd

/-- `Cipher.encryptMessage` on an already encoded plaintext. -/
def encryptPlain (P : Prims) (side : Side) (authKey keyId pt rnd : Bytes) : Except Err Bytes :=
  match rnd with
  | [] => .error .rand
  | r :: rest =>
    let pad := countPadding pt.length r
    if rest.length < pad then .error .rand
    else
      let padded := pt ++ rest.take pad
      let mk := C06.Impl.msgKey P authKey padded side
      let kiv := C06.Impl.keys P authKey mk side
      .ok (keyId ++ mk ++ Ige.enc (P.aesEnc kiv.1) kiv.2 padded)

/-- `Cipher.Encrypt` with `Message ≠ nil` (the `EncodeWithoutCopy` path). -/
def encryptMessage (P : Prims) (side : Side) (authKey keyId : Bytes) (salt sid mid seq : Nat)
    (payload rnd : Bytes) : Except Err Bytes :=
  encryptPlain P side authKey keyId (encodeDataNoCopy salt sid mid seq payload) rnd

def chkFails (c : Chk) (n pad : Int) : Bool :=
  let l := match c.lhs with
    | .n => n
    | .nMod k => Int.tmod n k
    | .pad => pad
  match c.op with
  | .lt => decide (l < c.rhs)
  | .gt => decide (l > c.rhs)
  | .le => decide (l ≤ c.rhs)
  | .ge => decide (l ≥ c.rhs)
  | .ne => decide (l ≠ c.rhs)
  | .eq => decide (l = c.rhs)

/-- Go `switch { case c1: return err; case c2: … }`: the first case whose condition holds. -/
def firstFailing : List Chk → Int → Int → Option Chk
  | [], _, _ => none
  | c :: cs, n, pad => if chkFails c n pad then some c else firstFailing cs n pad

/-- `Cipher.decryptMessage` (`side` is the cipher's own `encryptSide`). -/
def decryptMessage (P : Prims) (side : Side) (authKey keyId kid mk body : Bytes) : Except Err Bytes :=
  if Facts.C04.checksKeyID && keyId != kid then .error .keyId
  else if body.length % Facts.C04.alignment ≠ 0 then .error .align
  else
    let kiv := C06.Impl.keys P authKey mk side.flip
    .ok (Ige.dec (P.aesDec kiv.1) kiv.2 body)

def setFld (d : Data) (f : Fld) (v : Nat) : Data :=
  match f with
  | .salt => { d with salt := v }
  | .sid => { d with sid := v }
  | .mid => { d with mid := v }
  | .seq => { d with seq := v }
  | .len => { d with len := v }
  | .body => d

/-- Interpreter of a regenerated `v := b.X(); e.Field = v` sequence (any read error is `eof`). -/
def decodeFields : List Put → Data → Bytes → Except Err (Data × Bytes)
  | [], d, b => .ok (d, b)
  | p :: ps, d, b =>
    match (match p.w with | .u32 => getU32 b | .u64 => getU64 b | .raw => .error .eof) with
    | .ok (v, r) => decodeFields ps (setFld d p.f v) r
    | .error _ => .error .eof

/-- `EncryptedMessageData.DecodeWithoutCopy` — the reads are regenerated (`Facts.C04.dataDecode`), the
rest of the buffer is `MessageDataWithPadding`, then the `MessageDataLen > len(rest)` test. -/
def decodeData (pt : Bytes) : Except Err Data :=
  match decodeFields Facts.C04.dataDecode ⟨0, 0, 0, 0, 0, []⟩ pt with
  | .error e => .error e
  | .ok (d, r) =>
    if Facts.C04.dataLenChecked && decide (toInt32 d.len > (r.length : Int)) then .error .dataLen
    else .ok { d with body := r }

/-- The same decoder written out (`decodeData_def` proves they coincide). -/
def decodeDataLit (pt : Bytes) : Except Err Data :=
  match getU64 pt with
  | .ok (salt, r) =>
    match getU64 r with
    | .ok (sid, r) =>
      match getU64 r with
      | .ok (mid, r) =>
        match getU32 r with
        | .ok (seq, r) =>
          match getU32 r with
          | .ok (len, r) =>
            if toInt32 len > (r.length : Int) then .error .dataLen
            else .ok ⟨salt, sid, mid, seq, len, r⟩
          | .error _ => .error .eof
        | .error _ => .error .eof
      | .error _ => .error .eof
    | .error _ => .error .eof
  | .error _ => .error .eof

/-- The plaintext the receiving cipher (`encryptSide = side`) obtains from frame `c`: AES-IGE
decryption of `c[24:]` under the keys derived from `c[8:24]` for the *decrypt* side. -/
def plaintextOf (P : Prims) (side : Side) (authKey c : Bytes) : Bytes :=
  let kiv := C06.Impl.keys P authKey ((c.drop 8).take 16) side.flip
  Ige.dec (P.aesDec kiv.1) kiv.2 (c.drop 24)

/-- `Cipher.DecryptFromBuffer` = `EncryptedMessage.DecodeWithoutCopy` then `Cipher.Decrypt`. -/
def decrypt (P : Prims) (side : Side) (authKey keyId c : Bytes) : Except Err Data :=
  if c.length < Facts.C04.frameKeyIdLen + Facts.C04.frameMsgKeyLen then .error .eof
  else
    let kid := c.take Facts.C04.frameKeyIdLen
    let mk := (c.drop Facts.C04.frameKeyIdLen).take Facts.C04.frameMsgKeyLen
    let body := c.drop (Facts.C04.frameKeyIdLen + Facts.C04.frameMsgKeyLen)
    match decryptMessage P side authKey keyId kid mk body with
    | .error e => .error e
    | .ok pt =>
      if Facts.C04.checksMsgKey && C06.Impl.msgKey P authKey pt side.flip != mk then .error .msgKey
      else
        match decodeData pt with
        | .error e => .error e
        | .ok d =>
          let n := toInt32 d.len
          let pad := (d.body.length : Int) - n
          match firstFailing Facts.C04.decryptChecks n pad with
          | some c => .error (.check c)
          | none => .ok d

end TdModel.C04
