/-
C04/C05 — MTProto 2.0 message encryption: `crypto.Cipher.Encrypt` (crypto/cipher_encrypt.go),
`crypto.Cipher.DecryptFromBuffer` / `Decrypt` / `decryptMessage` (crypto/cipher_decrypt.go),
`EncryptedMessageData` / `EncryptedMessage` layouts.

Regenerated parts (`TdModel.Facts.C04`): `countPadding` (translated Go function), the ordered
validity checks of the `switch` in `Cipher.Decrypt` (`decryptChecks`, interpreted by `firstFailing`),
the alignment modulus and the presence of the key-id / msg_key comparisons.  Key derivation is the
code-shaped `C06.Impl` (itself regenerated tables); AES-IGE is `TdModel.Ige`.  Core Lean only.
-/
import TdModel.Model.C06
import TdModel.Model.C04Ige
import TdModel.Model.Bin
import TdModel.Gen.C04

namespace TdModel.C04
open TdModel TdModel.Bin
open TdModel.C06 (Side)
open TdModel.Facts.C04 (Chk Lhs Op)

/-- `crypto.countPadding(l, randByte)`: the regenerated translation, on naturals. -/
def countPadding (l : Nat) (r : UInt8) : Nat :=
  (Facts.C04.countPadding (l : Int) (r.toNat : Int)).toNat

/-- Decoded `crypto.EncryptedMessageData`: 64-bit fields and `seq`, `len` as unsigned views of the
wire values; `body` = `MessageDataWithPadding`. -/
structure Data where
  salt : Nat
  sid : Nat
  mid : Nat
  seq : Nat
  len : Nat
  body : Bytes
  deriving DecidableEq, Repr

/-- `EncryptedMessageData.Data()` = `MessageDataWithPadding[:MessageDataLen]`. -/
def Data.payload (d : Data) : Bytes := d.body.take d.len

/-- `EncryptedMessageData.Encode` (and `EncodeWithoutCopy`, which writes the same bytes with
`len = len(encoded Message)`). -/
def encodeData (salt sid mid seq len : Nat) (body : Bytes) : Bytes :=
  putU64 salt ++ putU64 sid ++ putU64 mid ++ putU32 seq ++ putU32 len ++ body

inductive Err where
  | rand
  | eof
  | keyId
  | align
  | msgKey
  | dataLen
  | check (c : Chk)
  deriving DecidableEq, Repr

def Err.tag : Err → String
  | .rand => "rand"
  | .eof => "eof"
  | .keyId => "key-id"
  | .align => "align"
  | .msgKey => "msg-key"
  | .dataLen => "data-len"
  | .check ⟨.n, _, _⟩ => "len-negative"
  | .check ⟨.nMod _, _, _⟩ => "len-mod"
  | .check ⟨.pad, .lt, _⟩ => "pad-small"
  | .check ⟨.pad, .le, _⟩ => "pad-small"
  | .check ⟨.pad, _, _⟩ => "pad-big"

/-- `Cipher.Encrypt` with the general `EncryptedMessageData{MessageDataLen, MessageDataWithPadding}`
input; `rnd` is the byte stream delivered by the cipher's random reader (`io.ReadFull`: one byte for
`countPadding`, then the padding itself). -/
def encryptData (P : Prims) (side : Side) (authKey keyId : Bytes) (salt sid mid seq len : Nat)
    (body rnd : Bytes) : Except Err Bytes :=
  let pt := encodeData salt sid mid seq len body
  match rnd with
  | [] => .error .rand
  | r :: rest =>
    let pad := countPadding pt.length r
    if rest.length < pad then .error .rand
    else
      let padded := pt ++ rest.take pad
      let mk := C06.Impl.msgKey P authKey padded side
      let kiv := C06.Impl.keys P authKey mk side
      .ok (keyId ++ mk ++ Ige.enc (P.aesEnc kiv.1) kiv.2 padded)

/-- `Cipher.Encrypt` of a payload (`Message` encoder or raw bytes with `MessageDataLen = len`). -/
def encrypt (P : Prims) (side : Side) (authKey keyId : Bytes) (salt sid mid seq : Nat)
    (payload rnd : Bytes) : Except Err Bytes :=
  encryptData P side authKey keyId salt sid mid seq payload.length payload rnd

def chkFails (c : Chk) (n pad : Int) : Bool :=
  let l := match c.lhs with
    | .n => n
    | .nMod k => Int.tmod n k
    | .pad => pad
  match c.op with
  | .lt => decide (l < c.rhs)
  | .gt => decide (l > c.rhs)
  | .le => decide (l ≤ c.rhs)
  | .ge => decide (l ≥ c.rhs)
  | .ne => decide (l ≠ c.rhs)
  | .eq => decide (l = c.rhs)

/-- Go `switch { case c1: return err; case c2: … }`: the first case whose condition holds. -/
def firstFailing : List Chk → Int → Int → Option Chk
  | [], _, _ => none
  | c :: cs, n, pad => if chkFails c n pad then some c else firstFailing cs n pad

/-- `Cipher.decryptMessage` (`side` is the cipher's own `encryptSide`). -/
def decryptMessage (P : Prims) (side : Side) (authKey keyId kid mk body : Bytes) : Except Err Bytes :=
  if Facts.C04.checksKeyID && keyId != kid then .error .keyId
  else if body.length % Facts.C04.alignment ≠ 0 then .error .align
  else
    let kiv := C06.Impl.keys P authKey mk side.flip
    .ok (Ige.dec (P.aesDec kiv.1) kiv.2 body)

/-- `EncryptedMessageData.DecodeWithoutCopy`. -/
def decodeData (pt : Bytes) : Except Err Data :=
  match getU64 pt with
  | .ok (salt, r) =>
    match getU64 r with
    | .ok (sid, r) =>
      match getU64 r with
      | .ok (mid, r) =>
        match getU32 r with
        | .ok (seq, r) =>
          match getU32 r with
          | .ok (len, r) =>
            if toInt32 len > (r.length : Int) then .error .dataLen
            else .ok ⟨salt, sid, mid, seq, len, r⟩
          | .error _ => .error .eof
        | .error _ => .error .eof
      | .error _ => .error .eof
    | .error _ => .error .eof
  | .error _ => .error .eof

/-- The plaintext the receiving cipher (`encryptSide = side`) obtains from frame `c`: AES-IGE
decryption of `c[24:]` under the keys derived from `c[8:24]` for the *decrypt* side. -/
def plaintextOf (P : Prims) (side : Side) (authKey c : Bytes) : Bytes :=
  let kiv := C06.Impl.keys P authKey ((c.drop 8).take 16) side.flip
  Ige.dec (P.aesDec kiv.1) kiv.2 (c.drop 24)

/-- `Cipher.DecryptFromBuffer` = `EncryptedMessage.DecodeWithoutCopy` then `Cipher.Decrypt`. -/
def decrypt (P : Prims) (side : Side) (authKey keyId c : Bytes) : Except Err Data :=
  if c.length < 8 + 16 then .error .eof
  else
    let kid := c.take 8
    let mk := (c.drop 8).take 16
    let body := c.drop 24
    match decryptMessage P side authKey keyId kid mk body with
    | .error e => .error e
    | .ok pt =>
      if Facts.C04.checksMsgKey && C06.Impl.msgKey P authKey pt side.flip != mk then .error .msgKey
      else
        match decodeData pt with
        | .error e => .error e
        | .ok d =>
          let n := toInt32 d.len
          let pad := (d.body.length : Int) - n
          match firstFailing Facts.C04.decryptChecks n pad with
          | some c => .error (.check c)
          | none => .ok d

end TdModel.C04
