/-
C38 — model of /repo/fileid: rle.go, encode.go, decode.go, file_id.go, photo_size_source.go.

Integers are carried as unsigned bit patterns (`Nat`): `u32` fields `< 2^32`, `u64` fields
`< 2^64`; the Go side converts with `uint32(..)`/`uint64(..)`.  The field order and widths of the four (de)serialisers are NOT written here: they are the
wire programs `Facts.C38.encLatest decLatest pssEncodeHead pssEncodeSwitch pssDecode
pssDecodeSwitch`, regenerated from the source on every run (harness/c38/wire.go) and INTERPRETED
below.  A step is `(cond, kind, field)`; kinds: 4 = 32-bit word, 8 = 64-bit word, 1 = TL bytes,
9 = return, 7 = photo size source, 2 = one raw byte, 6 = switch over the photo size source type.
The zero-run counter of
`rleEncode` is a Go `byte`, modelled as a `Nat` kept `≤ 255` by the flush-at-255 branch
(the code after the `fix:` commit for D9); `rleEncodeWrap` is the pre-fix code, kept to state
the counterexample.
-/
import TdModel.Model.Bin
import TdModel.Gen.C38

namespace TdModel.C38
open TdModel TdModel.Bin

/-- Readable transliteration of `fileid.rleEncode` (the counter is flushed before it would wrap);
`c` = `count`.  Used in the proofs; `rleEnc_eq_ref` (Lemmas) shows the source-derived `rleEnc`
below computes the same function. -/
def rleEncRef : Nat → Bytes → Bytes
  | c, [] => if c > 0 then [0, UInt8.ofNat c] else []
  | c, x :: rest =>
    if x = 0 then
      if c = 255 then 0 :: 255 :: rleEncRef 1 rest else rleEncRef (c + 1) rest
    else
      (if c > 0 then [0, UInt8.ofNat c] else []) ++ x :: rleEncRef 0 rest

def byteOf (i : Int) : UInt8 := UInt8.ofNat i.toNat

/-- `fileid.rleEncode`: the loop body and the final flush are the terms `rleStepCount`,
`rleStepOut`, `rleFlushOut` obtained by symbolic execution of the source (harness/c38/rle.go);
`c` = `count` (a Go `byte`). -/
def rleEnc : Nat → Bytes → Bytes
  | c, [] => (Facts.C38.rleFlushOut c).map byteOf
  | c, x :: rest =>
    (Facts.C38.rleStepOut c x.toNat).map byteOf ++ rleEnc (Facts.C38.rleStepCount c x.toNat).toNat rest

def rleEncode (s : Bytes) : Bytes := rleEnc 0 s

/-- The pre-fix `rleEncode`: `count++` on a `byte` wraps at 256. -/
def rleEncWrap : Nat → Bytes → Bytes
  | c, [] => if c > 0 then [0, UInt8.ofNat c] else []
  | c, x :: rest =>
    if x = 0 then rleEncWrap ((c + 1) % 256) rest
    else (if c > 0 then [0, UInt8.ofNat c] else []) ++ x :: rleEncWrap 0 rest

/-- `fileid.rleDecode`; `last` is the Go variable `last` (`nil` or one byte). -/
def rleDec : Option UInt8 → Bytes → Bytes
  | last, [] => last.toList
  | last, cur :: rest =>
    if last = some 0 then List.replicate cur.toNat 0 ++ rleDec none rest
    else last.toList ++ rleDec (some cur) rest

def rleDecode (s : Bytes) : Bytes := rleDec none s

structure PSS where
  type : Nat := 0          -- PhotoSizeSourceType, int → int32 on the wire
  volumeID : Nat := 0      -- u64
  localID : Nat := 0       -- u32 pattern of int32
  secret : Nat := 0        -- u64
  fileType : Nat := 0      -- u32
  thumbType : Nat := 0     -- u32 pattern of rune
  dialogID : Nat := 0      -- u64
  dialogAH : Nat := 0      -- u64
  setID : Nat := 0         -- u64
  setAH : Nat := 0         -- u64
  stickerVersion : Nat := 0 -- u32
  deriving Repr, DecidableEq, BEq

structure FileID where
  type : Nat := 0          -- < 18
  dc : Nat := 0            -- u32
  id : Nat := 0            -- u64
  accessHash : Nat := 0    -- u64
  fileRef : Bytes := []
  url : Bytes := []
  pss : PSS := {}
  deriving Repr, DecidableEq, BEq

-- constants regenerated from /repo/fileid on every run
def webLocationFlag : Nat := Facts.C38.webLocationFlag
def fileReferenceFlag : Nat := Facts.C38.fileReferenceFlag
def lastType : Nat := Facts.C38.lastType
def lastPSSType : Nat := Facts.C38.lastPSSType
def latestSubVersion : Nat := Facts.C38.latestSubVersion
def persistentIDVersion : Nat := Facts.C38.persistentIDVersion

def isPhotoType (t : Nat) : Bool :=
  t = Facts.C38.typeThumbnail ∨ t = Facts.C38.typeProfilePhoto ∨ t = Facts.C38.typePhoto

inductive DErr where
  | empty | base64 | tooSmall | unsupported | unknownVersion | unknownType | unknownPSS | eof | invalidLength
  deriving Repr, DecidableEq, BEq

def DErr.tag : DErr → String
  | .empty => "empty" | .base64 => "base64" | .tooSmall => "too-small" | .unsupported => "unsupported"
  | .unknownVersion => "unknown-version" | .unknownType => "unknown-type" | .unknownPSS => "unknown-pss"
  | .eof => "eof" | .invalidLength => "invalid-length"

def liftE {α} : Except Bin.Err α → Except DErr α
  | .ok a => .ok a
  | .error .invalidLength => .error .invalidLength
  | .error _ => .error .eof

def rdU32 (b : Bytes) : Except DErr (Nat × Bytes) := liftE (getU32 b)
def rdU64 (b : Bytes) : Except DErr (Nat × Bytes) := liftE (getU64 b)
def rdBytes (b : Bytes) : Except DErr (Bytes × Bytes) := liftE (getBytes b)

abbrev WStep := Nat × Nat × Nat

/-- Field table of `PhotoSizeSource` (order = `fieldsPSS` in harness/c38/wire.go). -/
def PSS.get (p : PSS) : Nat → Nat
  | 0 => p.type | 1 => p.volumeID | 2 => p.localID | 3 => p.secret | 4 => p.fileType
  | 5 => p.thumbType | 6 => p.dialogID | 7 => p.dialogAH | 8 => p.setID | 9 => p.setAH
  | 10 => p.stickerVersion | _ => 0

def PSS.set (p : PSS) (f v : Nat) : PSS :=
  match f with
  | 0 => { p with type := v } | 1 => { p with volumeID := v } | 2 => { p with localID := v }
  | 3 => { p with secret := v } | 4 => { p with fileType := v } | 5 => { p with thumbType := v }
  | 6 => { p with dialogID := v } | 7 => { p with dialogAH := v } | 8 => { p with setID := v }
  | 9 => { p with setAH := v } | 10 => { p with stickerVersion := v } | _ => p

def putW (k v : Nat) : Bytes := if k = 8 then putU64 v else putU32 v
def rdW (k : Nat) (b : Bytes) : Except DErr (Nat × Bytes) := if k = 8 then rdU64 b else rdU32 b

/-- Row of a switch table whose case labels contain `t`. -/
def caseOf {α} : List (List Nat × α) → Nat → Option α
  | [], _ => none
  | (ls, a) :: rest, t => if ls.contains t then some a else caseOf rest t

def PSS.writeSteps (p : PSS) : List WStep → Bytes
  | [] => []
  | (_, k, f) :: rest => putW k (p.get f) ++ PSS.writeSteps p rest

/-- `PhotoSizeSource.encode`. -/
def PSS.encode (p : PSS) : Bytes :=
  p.writeSteps Facts.C38.pssEncodeHead ++ p.writeSteps ((caseOf Facts.C38.pssEncodeSwitch p.type).getD [])

def PSS.readSteps (p : PSS) : List WStep → Bytes → Except DErr (PSS × Bytes)
  | [], b => pure (p, b)
  | (_, k, f) :: rest, b => do
    let (v, b1) ← rdW k b
    PSS.readSteps (p.set f v) rest b1

/-- `PhotoSizeSource.decode`: `t` is the local `photoSizeType`; a step runs iff the
sub-version lies in its range `[cond / 1000, cond % 1000)`. -/
def PSS.decodeProg (sv : Nat) : List WStep → PSS → Nat → Bytes → Except DErr (PSS × Bytes)
  | [], p, _, b => pure (p, b)
  | (c, k, f) :: rest, p, t, b =>
    if c / 1000 ≤ sv ∧ sv < c % 1000 then
      if k = 9 then pure (p, b)
      else if k = 6 then
        if t ≥ lastPSSType then throw .unknownPSS
        else do
          let (p1, b1) ← PSS.readSteps { p with type := t } ((caseOf Facts.C38.pssDecodeSwitch t).getD []) b
          PSS.decodeProg sv rest p1 t b1
      else do
        let (v, b1) ← rdW k b
        if f = 0 then PSS.decodeProg sv rest p v b1
        else PSS.decodeProg sv rest (p.set f v) t b1
    else PSS.decodeProg sv rest p t b

def PSS.decode (p : PSS) (b : Bytes) (sv : Nat) : Except DErr (PSS × Bytes) :=
  PSS.decodeProg sv Facts.C38.pssDecode p 0 b

/-- Does a step of a `FileID` program run? (`cond`: 0 always, 1 hasReference, 2 hasWebLocation,
3 photo type, 4 not a photo type). -/
def condOn (c : Nat) (hasRef hasWeb photo : Bool) : Bool :=
  c = 0 || (c = 1 && hasRef) || (c = 2 && hasWeb) || (c = 3 && photo) || (c = 4 && !photo)

/-- `FileID.encodeLatestFileID` (`typeID` = type with the two flag bits). -/
def FileID.encodeProg (f : FileID) (hasRef hasWeb : Bool) (typeID : Nat) : List WStep → Bytes
  | [] => []
  | (c, k, fld) :: rest =>
    if condOn c hasRef hasWeb (Facts.C38.encPhotoTypes.contains f.type) then
      if k = 9 then []
      else
        (if k = 4 then putU32 (if fld = 0 then typeID else f.dc)
         else if k = 8 then putU64 (if fld = 4 then f.id else f.accessHash)
         else if k = 1 then putBytes (if fld = 2 then f.fileRef else f.url)
         else if k = 7 then f.pss.encode
         else [UInt8.ofNat latestSubVersion]) ++ FileID.encodeProg f hasRef hasWeb typeID rest
    else FileID.encodeProg f hasRef hasWeb typeID rest

def FileID.encodeLatest (f : FileID) : Bytes :=
  let hasWeb : Bool := f.url ≠ []
  let hasRef : Bool := f.fileRef ≠ []
  let typeID := f.type ||| (if hasWeb then webLocationFlag else 0) ||| (if hasRef then fileReferenceFlag else 0)
  FileID.encodeProg f hasRef hasWeb typeID Facts.C38.encLatest

def encodeRaw (f : FileID) : Bytes :=
  rleEncode (f.encodeLatest ++ [UInt8.ofNat persistentIDVersion])

/-- `FileID.decodeLatestFileID`. The first word is the type id: it yields the two
flags and the type (range-checked against `lastType`). -/
def decodeProg (sv : Nat) : List WStep → FileID → (hasRef hasWeb : Bool) → Bytes → Except DErr FileID
  | [], f, _, _, _ => pure f
  | (c, k, fld) :: rest, f, hasRef, hasWeb, b =>
    if condOn c hasRef hasWeb (Facts.C38.decPhotoTypes.contains f.type) then
      if k = 9 then pure f
      else if k = 4 ∧ fld = 0 then do
        let (typeID, b1) ← rdU32 b
        let hw : Bool := typeID / webLocationFlag % 2 = 1
        let hr : Bool := typeID / fileReferenceFlag % 2 = 1
        let t := typeID - (if hw then webLocationFlag else 0) - (if hr then fileReferenceFlag else 0)
        if t ≥ lastType then throw .unknownType
        decodeProg sv rest { f with type := t } hr hw b1
      else if k = 4 then do
        let (v, b1) ← rdU32 b
        decodeProg sv rest { f with dc := v } hasRef hasWeb b1
      else if k = 8 then do
        let (v, b1) ← rdU64 b
        decodeProg sv rest (if fld = 4 then { f with id := v } else { f with accessHash := v }) hasRef hasWeb b1
      else if k = 1 then do
        let (v, b1) ← rdBytes b
        decodeProg sv rest (if fld = 2 then { f with fileRef := v } else { f with url := v }) hasRef hasWeb b1
      else do
        let (p, b1) ← PSS.decode f.pss b sv
        decodeProg sv rest { f with pss := p } hasRef hasWeb b1
    else decodeProg sv rest f hasRef hasWeb b

def decodeLatest (b : Bytes) : Except DErr FileID :=
  match b.getLast? with
  | none => .error .eof
  | some sv => decodeProg sv.toNat Facts.C38.decLatest {} false false b

/-- `DecodeFileID` after base64, with the interpreted decoder. -/
def decodeRaw (data : Bytes) : Except DErr FileID :=
  let d := rleDecode data
  if d.length < 2 then .error .tooSmall
  else
    match d.getLast? with
    | none => .error .tooSmall
    | some v =>
      if v.toNat = Facts.C38.persistentIDVersionOld ∨ v.toNat = Facts.C38.persistentIDVersionMap then .error .unsupported
      else if v.toNat = persistentIDVersion then decodeLatest d.dropLast
      else .error .unknownVersion

/-! ### Panic-explicit layer for the glue code of `DecodeFileID` / `decodeLatestFileID`

The only slice/index expressions outside `bin.Buffer` are `data[len(data)-1]`, `data[:len(data)-1]`
and `b.Buf[len(b.Buf)-1]` (Go `int` arithmetic, modelled in `Int` so that a missing length check
would show up as a negative index).  The field reads themselves go through `bin.Buffer`, whose
panic-freedom is `getU32P_eq` / `getU64P_eq` / `getBytesP_eq` in Lemmas/Bin.lean. -/

inductive POut (α : Type) where
  | ok (a : α)
  | err (e : DErr)
  | panic
  deriving Repr, DecidableEq

def POut.ofExcept {α} : Except DErr α → POut α
  | .ok a => .ok a
  | .error e => .err e

/-- `b[i]` for a Go `int` index. -/
def idxP (b : Bytes) (i : Int) : POut UInt8 :=
  if i < 0 then .panic else
  match b[i.toNat]? with
  | some x => .ok x
  | none => .panic

/-- `b[:hi]` for a Go `int` bound. -/
def sliceToP (b : Bytes) (hi : Int) : POut Bytes :=
  if 0 ≤ hi ∧ hi.toNat ≤ b.length then .ok (b.take hi.toNat) else .panic

/-- `FileID.decodeLatestFileID` with its index expression explicit. -/
def decodeLatestP (b : Bytes) : POut FileID :=
  if b.length < 1 then .err .eof
  else
    match idxP b ((b.length : Int) - 1) with
    | .ok sv => .ofExcept (decodeProg sv.toNat Facts.C38.decLatest {} false false b)
    | .err e => .err e
    | .panic => .panic

/-- `DecodeFileID` after base64 with its index and slice expressions explicit. -/
def decodeRawP (data : Bytes) : POut FileID :=
  let d := rleDecode data
  if d.length < 2 then .err .tooSmall
  else
    match idxP d ((d.length : Int) - 1) with
    | .err e => .err e
    | .panic => .panic
    | .ok v =>
      if v.toNat = Facts.C38.persistentIDVersionOld ∨ v.toNat = Facts.C38.persistentIDVersionMap then .err .unsupported
      else if v.toNat = persistentIDVersion then
        match sliceToP d ((d.length : Int) - 1) with
        | .ok d' => decodeLatestP d'
        | .err e => .err e
        | .panic => .panic
      else .err .unknownVersion

/-- The fields of a photo size source that its type actually uses (all others zero). -/
def PSS.shape (p : PSS) : PSS :=
  match p.type with
  | 0 => { type := 0, secret := p.secret }
  | 1 => { type := 1, fileType := p.fileType, thumbType := p.thumbType }
  | 2 => { type := 2, dialogID := p.dialogID, dialogAH := p.dialogAH }
  | 3 => { type := 3, dialogID := p.dialogID, dialogAH := p.dialogAH }
  | 4 => { type := 4, setID := p.setID, setAH := p.setAH }
  | 5 => { type := 5, volumeID := p.volumeID, secret := p.secret, localID := p.localID }
  | 6 => { type := 6, dialogID := p.dialogID, dialogAH := p.dialogAH, volumeID := p.volumeID, localID := p.localID }
  | 7 => { type := 7, dialogID := p.dialogID, dialogAH := p.dialogAH, volumeID := p.volumeID, localID := p.localID }
  | 8 => { type := 8, setID := p.setID, setAH := p.setAH, volumeID := p.volumeID, localID := p.localID }
  | 9 => { type := 9, setID := p.setID, setAH := p.setAH, stickerVersion := p.stickerVersion }
  | _ => p

/-- Canonical-form predicate: exactly the values `EncodeFileID` represents faithfully. -/
def PSS.canon (p : PSS) : Prop :=
  p.type < lastPSSType ∧ p.volumeID < 2^64 ∧ p.localID < 2^32 ∧ p.secret < 2^64 ∧ p.fileType < 2^32 ∧
  p.thumbType < 2^32 ∧ p.dialogID < 2^64 ∧ p.dialogAH < 2^64 ∧ p.setID < 2^64 ∧ p.setAH < 2^64 ∧
  p.stickerVersion < 2^32 ∧ p = p.shape

instance (p : PSS) : Decidable p.canon := by unfold PSS.canon; infer_instance

def FileID.canon (f : FileID) : Prop :=
  f.type < lastType ∧ f.dc < 2^32 ∧ f.id < 2^64 ∧ f.accessHash < 2^64 ∧
  f.fileRef.length < 2^24 ∧ f.url.length < 2^24 ∧
  (if f.url ≠ [] then f.id = 0 ∧ f.accessHash = 0 ∧ f.pss = {}
   else if isPhotoType f.type then f.pss.canon else f.pss = {})

instance (f : FileID) : Decidable f.canon := by unfold FileID.canon; infer_instance

/-! ### Constructors (`fileid/from.go`) -/

/-- A `tg.DocumentAttributeClass` as far as `FromDocument` looks at it. -/
inductive DocAttr where
  | animated | sticker | video (round : Bool) | audio (voice : Bool) | other
  deriving Repr, DecidableEq

/-- The type chosen by the loop of `FromDocument` (later attributes override earlier ones). -/
def docType : Nat → List DocAttr → Nat
  | t, [] => t
  | t, a :: rest =>
    docType (match a with
      | .animated => Facts.C38.typeAnimation
      | .sticker => Facts.C38.typeSticker
      | .video r => if r then Facts.C38.typeVideoNote else Facts.C38.typeVideo
      | .audio v => if v then Facts.C38.typeVoice else Facts.C38.typeAudio
      | .other => t) rest

/-- `FromDocument`. -/
def fromDocument (attrs : List DocAttr) (dc id ah : Nat) (ref : Bytes) : FileID :=
  { type := docType Facts.C38.typeDocumentAsFile attrs, dc := dc, id := id, accessHash := ah, fileRef := ref }

/-- `FromPhoto`. -/
def fromPhoto (thumb dc id ah : Nat) (ref : Bytes) : FileID :=
  { type := Facts.C38.typePhoto, dc := dc, id := id, accessHash := ah, fileRef := ref,
    pss := { type := Facts.C38.pssThumbnail, fileType := Facts.C38.typePhoto, thumbType := thumb } }

/-- `FromChatPhoto`. -/
def fromChatPhoto (big : Bool) (peer ah dc photoID : Nat) : FileID :=
  { type := Facts.C38.typeProfilePhoto, dc := dc, id := photoID,
    pss := { type := if big then Facts.C38.pssDialogPhotoBig else Facts.C38.pssDialogPhotoSmall,
             dialogID := peer, dialogAH := ah } }

end TdModel.C38
