/-
C38 — model of /repo/fileid: rle.go, encode.go, decode.go, file_id.go, photo_size_source.go.

Integers are carried as unsigned bit patterns (`Nat`): `u32` fields `< 2^32`, `u64` fields
`< 2^64`; the Go side converts with `uint32(..)`/`uint64(..)`.  The zero-run counter of
`rleEncode` is a Go `byte`, modelled as a `Nat` kept `≤ 255` by the flush-at-255 branch
(the code after the `fix:` commit for D9); `rleEncodeWrap` is the pre-fix code, kept to state
the counterexample.
-/
import TdModel.Model.Bin
import TdModel.Gen.C38

namespace TdModel.C38
open TdModel TdModel.Bin

/-- `fileid.rleEncode` (fixed: the counter is flushed before it would wrap). `c` = `count`. -/
def rleEnc : Nat → Bytes → Bytes
  | c, [] => if c > 0 then [0, UInt8.ofNat c] else []
  | c, x :: rest =>
    if x = 0 then
      if c = 255 then 0 :: 255 :: rleEnc 1 rest else rleEnc (c + 1) rest
    else
      (if c > 0 then [0, UInt8.ofNat c] else []) ++ x :: rleEnc 0 rest

def rleEncode (s : Bytes) : Bytes := rleEnc 0 s

/-- The pre-fix `rleEncode`: `count++` on a `byte` wraps at 256. -/
def rleEncWrap : Nat → Bytes → Bytes
  | c, [] => if c > 0 then [0, UInt8.ofNat c] else []
  | c, x :: rest =>
    if x = 0 then rleEncWrap ((c + 1) % 256) rest
    else (if c > 0 then [0, UInt8.ofNat c] else []) ++ x :: rleEncWrap 0 rest

/-- `fileid.rleDecode`; `last` is the Go variable `last` (`nil` or one byte). -/
def rleDec : Option UInt8 → Bytes → Bytes
  | last, [] => last.toList
  | last, cur :: rest =>
    if last = some 0 then List.replicate cur.toNat 0 ++ rleDec none rest
    else last.toList ++ rleDec (some cur) rest

def rleDecode (s : Bytes) : Bytes := rleDec none s

structure PSS where
  type : Nat := 0          -- PhotoSizeSourceType, int → int32 on the wire
  volumeID : Nat := 0      -- u64
  localID : Nat := 0       -- u32 pattern of int32
  secret : Nat := 0        -- u64
  fileType : Nat := 0      -- u32
  thumbType : Nat := 0     -- u32 pattern of rune
  dialogID : Nat := 0      -- u64
  dialogAH : Nat := 0      -- u64
  setID : Nat := 0         -- u64
  setAH : Nat := 0         -- u64
  stickerVersion : Nat := 0 -- u32
  deriving Repr, DecidableEq, BEq

structure FileID where
  type : Nat := 0          -- < 18
  dc : Nat := 0            -- u32
  id : Nat := 0            -- u64
  accessHash : Nat := 0    -- u64
  fileRef : Bytes := []
  url : Bytes := []
  pss : PSS := {}
  deriving Repr, DecidableEq, BEq

-- constants regenerated from /repo/fileid on every run
def webLocationFlag : Nat := Facts.C38.webLocationFlag
def fileReferenceFlag : Nat := Facts.C38.fileReferenceFlag
def lastType : Nat := Facts.C38.lastType
def lastPSSType : Nat := Facts.C38.lastPSSType
def latestSubVersion : Nat := Facts.C38.latestSubVersion
def persistentIDVersion : Nat := Facts.C38.persistentIDVersion

def isPhotoType (t : Nat) : Bool :=
  t = Facts.C38.typeThumbnail ∨ t = Facts.C38.typeProfilePhoto ∨ t = Facts.C38.typePhoto

/-- `PhotoSizeSource.encode`. -/
def PSS.encode (p : PSS) : Bytes :=
  putU32 p.type ++
  match p.type with
  | 0 => putU64 p.secret
  | 1 => putU32 p.fileType ++ putU32 p.thumbType
  | 2 | 3 => putU64 p.dialogID ++ putU64 p.dialogAH
  | 4 => putU64 p.setID ++ putU64 p.setAH
  | 5 => putU64 p.volumeID ++ putU64 p.secret ++ putU32 p.localID
  | 6 | 7 => putU64 p.dialogID ++ putU64 p.dialogAH ++ putU64 p.volumeID ++ putU32 p.localID
  | 8 => putU64 p.setID ++ putU64 p.setAH ++ putU64 p.volumeID ++ putU32 p.localID
  | 9 => putU64 p.setID ++ putU64 p.setAH ++ putU32 p.stickerVersion
  | _ => []

/-- `FileID.encodeLatestFileID`. -/
def FileID.encodeLatest (f : FileID) : Bytes :=
  let hasWeb := f.url ≠ []
  let hasRef := f.fileRef ≠ []
  let typeID := f.type ||| (if hasWeb then webLocationFlag else 0) ||| (if hasRef then fileReferenceFlag else 0)
  putU32 typeID ++ putU32 f.dc ++ (if hasRef then putBytes f.fileRef else []) ++
  (if hasWeb then putBytes f.url
   else putU64 f.id ++ putU64 f.accessHash ++ (if isPhotoType f.type then f.pss.encode else [])
        ++ [UInt8.ofNat latestSubVersion])

/-- Bytes handed to base64 by `EncodeFileID`. -/
def encodeRaw (f : FileID) : Bytes :=
  rleEncode (f.encodeLatest ++ [UInt8.ofNat persistentIDVersion])

inductive DErr where
  | empty | base64 | tooSmall | unsupported | unknownVersion | unknownType | unknownPSS | eof | invalidLength
  deriving Repr, DecidableEq, BEq

def DErr.tag : DErr → String
  | .empty => "empty" | .base64 => "base64" | .tooSmall => "too-small" | .unsupported => "unsupported"
  | .unknownVersion => "unknown-version" | .unknownType => "unknown-type" | .unknownPSS => "unknown-pss"
  | .eof => "eof" | .invalidLength => "invalid-length"

def liftE {α} : Except Bin.Err α → Except DErr α
  | .ok a => .ok a
  | .error .invalidLength => .error .invalidLength
  | .error _ => .error .eof

def rdU32 (b : Bytes) : Except DErr (Nat × Bytes) := liftE (getU32 b)
def rdU64 (b : Bytes) : Except DErr (Nat × Bytes) := liftE (getU64 b)
def rdBytes (b : Bytes) : Except DErr (Bytes × Bytes) := liftE (getBytes b)

def readDialog (p : PSS) (b : Bytes) : Except DErr (PSS × Bytes) := do
  let (d, b) ← rdU64 b
  let (h, b) ← rdU64 b
  pure ({ p with dialogID := d, dialogAH := h }, b)

def readStickerSet (p : PSS) (b : Bytes) : Except DErr (PSS × Bytes) := do
  let (d, b) ← rdU64 b
  let (h, b) ← rdU64 b
  pure ({ p with setID := d, setAH := h }, b)

def readLocalVolume (p : PSS) (b : Bytes) : Except DErr (PSS × Bytes) := do
  let (v, b) ← rdU64 b
  let (l, b) ← rdU32 b
  pure ({ p with volumeID := v, localID := l }, b)

/-- The `switch photoSizeType` of `PhotoSizeSource.decode`. -/
def PSS.decodeBody (p : PSS) (t : Nat) (b : Bytes) : Except DErr (PSS × Bytes) :=
  match t with
  | 0 => do
    let (s, b1) ← rdU64 b
    pure ({ p with secret := s }, b1)
  | 1 => do
    let (ft, b1) ← rdU32 b
    let (tt, b2) ← rdU32 b1
    pure ({ p with fileType := ft, thumbType := tt }, b2)
  | 2 | 3 => readDialog p b
  | 4 => readStickerSet p b
  | 5 => do
    let (v, b1) ← rdU64 b
    let (s, b2) ← rdU64 b1
    let (l, b3) ← rdU32 b2
    pure ({ p with volumeID := v, secret := s, localID := l }, b3)
  | 6 | 7 => do
    let (p1, b1) ← readDialog p b
    readLocalVolume p1 b1
  | 8 => do
    let (p1, b1) ← readStickerSet p b
    readLocalVolume p1 b1
  | 9 => do
    let (p1, b1) ← readStickerSet p b
    let (v, b2) ← rdU32 b1
    pure ({ p1 with stickerVersion := v }, b2)
  | _ => pure (p, b)

/-- `PhotoSizeSource.decode` from the point where the type is read. -/
def PSS.decodeTyped (p : PSS) (b : Bytes) (subVersion : Nat) : Except DErr (PSS × Bytes) := do
  let (t, b) ← (if subVersion ≥ 4 then rdU32 b else pure (0, b))
  -- `photoSizeType < 0 || photoSizeType >= last`: as an int32 pattern, negatives are ≥ 2^31
  if t ≥ lastPSSType then throw .unknownPSS
  let (p, b) ← PSS.decodeBody { p with type := t } t b
  if subVersion < 32 ∧ subVersion ≥ 22 then
    let (l, b1) ← rdU32 b
    pure ({ p with localID := l }, b1)
  else pure (p, b)

/-- `PhotoSizeSource.decode` (all sub-versions). -/
def PSS.decode (p : PSS) (b : Bytes) (subVersion : Nat) : Except DErr (PSS × Bytes) :=
  if subVersion < 32 then do
    let (v, b1) ← rdU64 b
    let p := { p with volumeID := v }
    if subVersion < 22 then
      let (s, b2) ← rdU64 b1
      let (l, b3) ← rdU32 b2
      pure ({ p with secret := s, localID := l }, b3)
    else PSS.decodeTyped p b1 subVersion
  else PSS.decodeTyped p b subVersion

/-- Tail of `decodeLatestFileID` after the optional file reference. -/
def decodeTail (f : FileID) (hasWeb : Bool) (sv : Nat) (b : Bytes) : Except DErr FileID :=
  if hasWeb then do
    let (u, _) ← rdBytes b
    pure { f with url := u }
  else do
    let (id, b1) ← rdU64 b
    let (ah, b2) ← rdU64 b1
    let f := { f with id := id, accessHash := ah }
    if isPhotoType f.type then
      let (p, _) ← PSS.decode f.pss b2 sv
      pure { f with pss := p }
    else pure f

/-- `FileID.decodeLatestFileID` once the sub-version (last byte of the buffer) is known. -/
def decodeLatestBody (sv : Nat) (b : Bytes) : Except DErr FileID := do
  let (typeID, b) ← rdU32 b
  let hasWeb : Bool := typeID / webLocationFlag % 2 = 1
  let hasRef : Bool := typeID / fileReferenceFlag % 2 = 1
  let typeID := typeID - (if hasWeb then webLocationFlag else 0) - (if hasRef then fileReferenceFlag else 0)
  if typeID ≥ lastType then throw .unknownType
  let (dc, b) ← rdU32 b
  let f : FileID := { type := typeID, dc := dc }
  if hasRef then
    let (r, b1) ← rdBytes b
    decodeTail { f with fileRef := r } hasWeb sv b1
  else decodeTail f hasWeb sv b

/-- `FileID.decodeLatestFileID`. -/
def decodeLatest (b : Bytes) : Except DErr FileID :=
  match b.getLast? with
  | none => .error .eof
  | some sv => decodeLatestBody sv.toNat b

/-- `DecodeFileID` after base64 (`data` = base64-decoded bytes). -/
def decodeRaw (data : Bytes) : Except DErr FileID :=
  let d := rleDecode data
  if d.length < 2 then .error .tooSmall
  else
    match d.getLast? with
    | none => .error .tooSmall
    | some v =>
      if v.toNat = Facts.C38.persistentIDVersionOld ∨ v.toNat = Facts.C38.persistentIDVersionMap then .error .unsupported
      else if v.toNat = persistentIDVersion then decodeLatest d.dropLast
      else .error .unknownVersion

/-- The fields of a photo size source that its type actually uses (all others zero). -/
def PSS.shape (p : PSS) : PSS :=
  match p.type with
  | 0 => { type := 0, secret := p.secret }
  | 1 => { type := 1, fileType := p.fileType, thumbType := p.thumbType }
  | 2 => { type := 2, dialogID := p.dialogID, dialogAH := p.dialogAH }
  | 3 => { type := 3, dialogID := p.dialogID, dialogAH := p.dialogAH }
  | 4 => { type := 4, setID := p.setID, setAH := p.setAH }
  | 5 => { type := 5, volumeID := p.volumeID, secret := p.secret, localID := p.localID }
  | 6 => { type := 6, dialogID := p.dialogID, dialogAH := p.dialogAH, volumeID := p.volumeID, localID := p.localID }
  | 7 => { type := 7, dialogID := p.dialogID, dialogAH := p.dialogAH, volumeID := p.volumeID, localID := p.localID }
  | 8 => { type := 8, setID := p.setID, setAH := p.setAH, volumeID := p.volumeID, localID := p.localID }
  | 9 => { type := 9, setID := p.setID, setAH := p.setAH, stickerVersion := p.stickerVersion }
  | _ => p

/-- Canonical-form predicate: exactly the values `EncodeFileID` represents faithfully. -/
def PSS.canon (p : PSS) : Prop :=
  p.type < lastPSSType ∧ p.volumeID < 2^64 ∧ p.localID < 2^32 ∧ p.secret < 2^64 ∧ p.fileType < 2^32 ∧
  p.thumbType < 2^32 ∧ p.dialogID < 2^64 ∧ p.dialogAH < 2^64 ∧ p.setID < 2^64 ∧ p.setAH < 2^64 ∧
  p.stickerVersion < 2^32 ∧ p = p.shape

instance (p : PSS) : Decidable p.canon := by unfold PSS.canon; infer_instance

def FileID.canon (f : FileID) : Prop :=
  f.type < lastType ∧ f.dc < 2^32 ∧ f.id < 2^64 ∧ f.accessHash < 2^64 ∧
  f.fileRef.length < 2^24 ∧ f.url.length < 2^24 ∧
  (if f.url ≠ [] then f.id = 0 ∧ f.accessHash = 0 ∧ f.pss = {}
   else if isPhotoType f.type then f.pss.canon else f.pss = {})

instance (f : FileID) : Decidable f.canon := by unfold FileID.canon; infer_instance

end TdModel.C38
