/-
C13 — model of /repo/crypto: check_gp.go (CheckGP, checkSubgroup), check_dh.go (CheckDH,
checkPrime), dh.go (CheckDHParams, InRange — both *translated* from the source on every run), pq.go (DecomposePQ).

`*big.Int` values are `Int` (sign included: `Rem`/`Quo` are truncated, `BitLen` is of the absolute
value); the factorisation works on non-negative numbers only and uses `Nat`.
Primality (`crypto.Prime` = `ProbablyPrime(64)`) is an oracle parameter `isPrime`.
The random source of `DecomposePQ` is a tape of 64-bit words (`rand.Int(src, 2^64)` reads exactly
eight bytes, big endian, and never rejects).
-/
import TdModel.Util
import TdModel.Gen.C13

namespace TdModel.C13
open TdModel

/-! ## CheckGP -/

inductive GPRes where
  | ok | badG | notResidue
  deriving Repr, DecidableEq

/-- `crypto.checkSubgroup`: `Rem(p, divider)` (truncated remainder) equals one of `expected`. -/
def checkSubgroup (p : Int) (divider : Nat) (expected : List Nat) : Bool :=
  expected.any (fun e => Int.tmod p (divider : Int) == (e : Int))

/-- `crypto.CheckGP` over an explicit switch table (first matching `case`; no row = `default`). -/
def checkGPWith (table : List (Nat × Option (Nat × List Nat))) (g p : Int) : GPRes :=
  match table.find? (fun r => (r.1 : Int) == g) with
  | none => .badG
  | some (_, none) => .ok
  | some (_, some (d, es)) => if checkSubgroup p d es then .ok else .notResidue

/-- `crypto.CheckGP` with the switch table regenerated from the source. -/
def checkGP (g p : Int) : GPRes := checkGPWith Facts.C13.gpTable g p

/-! ## CheckDH -/

/-- `(*big.Int).BitLen`: bit length of the absolute value, 0 for 0. -/
def bitLen (p : Int) : Nat :=
  if p.natAbs = 0 then 0 else p.natAbs.log2 + 1

inductive DHRes where
  | ok | badBits | badG | notResidue | notPrime | notSafe
  deriving Repr, DecidableEq

/-- `crypto.CheckDH` (+ `checkPrime`), `isPrime` = `crypto.Prime`. -/
def checkDH (isPrime : Int → Bool) (g p : Int) : DHRes :=
  if bitLen p ≠ Facts.C13.rsaKeyBits then .badBits
  else match checkGP g p with
    | .badG => .badG
    | .notResidue => .notResidue
    | .ok =>
      if !isPrime p then .notPrime
      else if !isPrime (Int.tdiv (p - 1) 2) then .notSafe
      else .ok

/-! ## CheckDHParams -/

/-- `crypto.InRange`: **regenerated** — `Facts.C13.inRangeT` is the translation of the current Go
source (harness/c13/bigtr.go). -/
def inRange (x lo hi : Int) : Bool := Facts.C13.inRangeT x lo hi

/-- `crypto.CheckDHParams`: **regenerated** translation of the current Go source; `none` = accepted
(`return nil`), `some i` = the i-th `return <error>` in source order. -/
def checkDHParams (p g ga gb : Int) : Option Nat := Facts.C13.checkDHParamsT p g ga gb

/-! ## DecomposePQ

The straight-line pieces and the loop conditions are **translated from the Go source**
(`Facts.C13.pqDrawVT … pqMulContT`, harness/c13/pqtr.go); here only the skeleton of the three nested
loops (as fuel-bounded recursions), the draw of the random words and the division-by-zero panics are
written by hand. -/

/-- the `for b.Cmp(value0) == 1 { … }` loop (binary multiplication), at most `fuel` iterations;
returns `c`. -/
def mulLoop (what : Nat) : Nat → Nat → Nat → Nat → Nat
  | 0, _, _, c => c
  | fuel + 1, a, b, c =>
    if Facts.C13.pqMulContT b then
      let r := Facts.C13.pqMulStepT a b c what -- (b2, c, a, b)
      mulLoop what fuel r.2.2.1 r.2.2.2 r.2.1
    else c

/-- the innermost loop with enough fuel (`b` halves in every iteration). -/
def mulAddLoop (what a b c : Nat) : Nat := mulLoop what (b + 1) a b c

/-- the `for j < lim && flag { … }` loop, at most `fuel` iterations; returns the final `g`. -/
def rhoInner (what v : Nat) : Nat → Nat → Nat → Bool → Nat → Nat → Nat → Nat
  | 0, _, _, _, _, _, g => g
  | fuel + 1, j, lim, flag, x, y, g =>
    if Facts.C13.pqInnerContT j lim flag then
      let i3 := Facts.C13.pqInnerInitT x v -- (a, b, c)
      let c := mulAddLoop what i3.1 i3.2.1 i3.2.2
      let t := Facts.C13.pqInnerTailT c y what j flag -- (x, z, g, y, j, flag)
      rhoInner what v fuel t.2.2.2.2.1 lim t.2.2.2.2.2 t.1 t.2.2.2.1 t.2.2.1
    else g

inductive PQErr where
  | tape
  /-- `pq = 0` (`v.Mod(v, what)`) and `pq = 1` (`x.Mod(x, whatNext)`): division by zero, a Go panic. -/
  | panic
  deriving Repr, DecidableEq

/-- the outer `for !(1 < g < what)` loop; `i` = round counter, `tape` = remaining random words
(`rand.Int(src, 2^64)`); a result carries the number of rounds done.  Each round first draws `v`
(panics for `what = 0`), then `x` (panics for `what = 1`). -/
def pqLoop (what : Nat) : List Nat → Nat → Nat → Except PQErr (Nat × Nat × Nat)
  | tape, i, g =>
    if !Facts.C13.pqOuterContT g what then
      .ok ((Facts.C13.pqFinishT g what).1, (Facts.C13.pqFinishT g what).2, i)
    else match tape with
      | [] => .error .tape
      | [_] => if what = 0 then .error .panic else .error .tape
      | r1 :: r2 :: rest =>
        if what = 0 ∨ what = 1 then .error .panic
        else
          let v := Facts.C13.pqDrawVT (r1 % 2 ^ Facts.C13.pqRndBits) what
          let ri := Facts.C13.pqRoundInitT (r2 % 2 ^ Facts.C13.pqRndBits) what i -- (whatNext, x, y, lim, j, flag)
          let lim := ri.2.2.2.1
          pqLoop what rest (i + 1)
            (rhoInner what v lim ri.2.2.2.2.1 lim ri.2.2.2.2.2 ri.2.1 ri.2.2.1 g)

/-- `crypto.DecomposePQ pq randSource` for `pq ≥ 0` (`.panic` = the division-by-zero panics of `pq ∈ {0, 1}`). -/
def decomposePQ (pq : Nat) (tape : List Nat) : Except PQErr (Nat × Nat) :=
  match pqLoop pq tape 0 0 with
  | .ok (p, q, _) => .ok (p, q)
  | .error e => .error e

/-- Number of rounds of the outer loop (= pairs of random words consumed) of a successful run: an
observable of the path taken, compared with the implementation's consumption of its random source. -/
def decomposeRounds (pq : Nat) (tape : List Nat) : Option Nat :=
  match pqLoop pq tape 0 0 with
  | .ok (_, _, k) => some k
  | .error _ => none

/-! ### Specification-side readings of the translated pieces (used to state what they compute) -/

/-- `c + a mod what` for `a, c < what`. -/
def addMod (what a c : Nat) : Nat := if c + a ≥ what then c + a - what else c + a

/-- `x − y mod what` for `x, y < what`. -/
def subMod (what x y : Nat) : Nat := if x < y then what + x - y else x - y

/-- `(g, what / g)` in ascending order. -/
def pqFinish (what g : Nat) : Nat × Nat :=
  let p := g
  let q := what / g
  if p > q then (q, p) else (p, q)

end TdModel.C13
