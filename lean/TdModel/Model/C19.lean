/-
C19 — model of /repo/mtproxy/faketls: record.go (`writeRecord`, `readRecord`), faketls.go
(`FakeTLS.Write`, `FakeTLS.Read`), server_hello.go (`readServerHello`).

The 16-bit length field is modelled with its truncation (`uint16(len(r.Data))` = length mod 65536).
`FakeTLS.Write` after the `fix:` commit for D7 loops over the data in chunks of at most
`maxTLSRecordDataLength`; `writePinned` is the code before the fix (one record per call) and is kept
for the counterexample.  Which of the two the source currently has is a regenerated fact
(`Facts.C19.writeSplits`).  HMAC-SHA256 is a parameter (`hmac key msg`).

`io.ReadFull` is `take n` on the whole remaining connection stream, so the reading side is
independent of how the connection chunks its reads.
-/
import TdModel.Util
import TdModel.Gen.C19

namespace TdModel.C19
open TdModel

def maxRecord : Nat := Facts.C19.maxRecord
def tCCS : UInt8 := UInt8.ofNat Facts.C19.typeChangeCipherSpec
def tHandshake : UInt8 := UInt8.ofNat Facts.C19.typeHandshake
def tApp : UInt8 := UInt8.ofNat Facts.C19.typeApplication
/-- `o.version` = `Version12Bytes`. -/
def writeVersion : Bytes := Facts.C19.version12
/-- Versions `readRecord` accepts. -/
def versions : List Bytes := [Facts.C19.version13, Facts.C19.version12, Facts.C19.version11, Facts.C19.version10]

/-- Big-endian 16-bit value (`binary.BigEndian.PutUint16(uint16(n))`: truncating). -/
def be16 (n : Nat) : Bytes := [UInt8.ofNat (n / 256 % 256), UInt8.ofNat (n % 256)]

def fromBE16 (b : Bytes) : Nat :=
  match b with
  | [hi, lo] => hi.toNat * 256 + lo.toNat
  | _ => 0

/-- `writeRecord`: type, version, `uint16(len(data))`, data. -/
def record (ty : UInt8) (ver : Bytes) (data : Bytes) : Bytes :=
  ty :: ver ++ be16 data.length ++ data

/-- `len(chunk) > maxTLSRecordDataLength` — the translation of the Go condition found in the loop of
`FakeTLS.Write` (constantly false when there is no loop). -/
def splitNeeded (n : Nat) : Bool := Facts.C19.splitNeeded n
/-- `chunk[:maxTLSRecordDataLength]` — the translated cut position. -/
def splitAt : Nat := (Facts.C19.splitAt).toNat

/-- The chunks `FakeTLS.Write` cuts its argument into (at least one, possibly empty).
`fuel` bounds the recursion; `b.length` is always enough. -/
def chunksF : Nat → Bytes → List Bytes
  | 0, b => [b]
  | fuel + 1, b =>
    if splitNeeded b.length then b.take splitAt :: chunksF fuel (b.drop splitAt) else [b]

def chunks (b : Bytes) : List Bytes := chunksF b.length b

/-- Application records of one `Write` call (repaired code). -/
def writeSplit (b : Bytes) : Bytes :=
  ((chunks b).map (record tApp writeVersion)).flatten

/-- Application record of one `Write` call on the pinned tree: a single record whatever the size. -/
def writePinned (b : Bytes) : Bytes := record tApp writeVersion b

/-- The first-packet record (`ChangeCipherSpec` with payload `01`). -/
def firstPacket : Bytes := record tCCS writeVersion [1]

/-- Bytes put on the connection by a sequence of `Write` calls on a fresh `FakeTLS`. -/
def writeAllWith (w : Bytes → Bytes) : Bool → List Bytes → Bytes
  | _, [] => []
  | first, b :: bs => (if first then [] else firstPacket) ++ w b ++ writeAllWith w true bs

/-- As the current source does it. -/
def writeOne (b : Bytes) : Bytes := if Facts.C19.writeSplits then writeSplit b else writePinned b

def writeAll (ws : List Bytes) : Bytes := writeAllWith writeOne false ws

inductive Err where
  | eof | ueof | badVersion | handshake | unsupported (ty : Nat)
  | notHandshake | tooShort | noChangeCipher | certNotApp | digest
  deriving Repr, DecidableEq

def Err.tag : Err → String
  | .eof => "eof" | .ueof => "ueof" | .badVersion => "version" | .handshake => "handshake"
  | .unsupported t => s!"unsupported:{t}" | .notHandshake => "type" | .tooShort => "short"
  | .noChangeCipher => "type" | .certNotApp => "type" | .digest => "digest"

structure Rec where
  ty : UInt8
  ver : Bytes
  data : Bytes
  deriving Repr, DecidableEq

/-- `readRecord`: the record and the rest of the stream. -/
def readRecord (s : Bytes) : Except Err (Rec × Bytes) :=
  if s.length < 5 then .error (if s.length = 0 then .eof else .ueof)
  else
    let ver := (s.drop 1).take 2
    if ver ∉ versions then .error .badVersion
    else
      let len := fromBE16 ((s.drop 3).take 2)
      let rest := s.drop 5
      if rest.length < len then .error (if rest.length = 0 then .eof else .ueof)
      else .ok (⟨s.headD 0, ver, rest.take len⟩, rest.drop len)

/-- What `FakeTLS.Read` does with a record of a given type. -/
inductive RAct where
  | skip | deliver | errHandshake | errOther
  deriving Repr, DecidableEq

/-- The `switch rec.Type` of `FakeTLS.Read`, read from the source as a table (`Facts.C19.readSwitch`:
0 = `continue`, 1 = fall out of the switch and buffer the data, 2 = "unexpected record type
handshake", 3 = "unsupported record type"; `readDefault` for the default case). -/
def actionOf (ty : UInt8) : RAct :=
  match (Facts.C19.readSwitch.lookup ty.toNat).getD Facts.C19.readDefault with
  | 0 => .skip
  | 1 => .deliver
  | 2 => .errHandshake
  | _ => .errOther

/-- Everything a peer's `FakeTLS.Read` calls deliver from a connection stream, and the error that
ends it (`eof` at a clean end).  ChangeCipherSpec records are skipped. -/
def appData : Nat → Bytes → Bytes × Err
  | 0, _ => ([], .ueof)
  | fuel + 1, s =>
    match readRecord s with
    | .error e => ([], e)
    | .ok (r, rest) =>
      match actionOf r.ty with
      | .skip => appData fuel rest
      | .deliver =>
        let (d, e) := appData fuel rest
        (r.data ++ d, e)
      | .errHandshake => ([], .handshake)
      | .errOther => ([], .unsupported r.ty.toNat)

/-- Reader state: the internal `readBuf` and the unread connection stream. -/
structure RState where
  buf : Bytes
  conn : Bytes
  deriving Repr, DecidableEq

/-- One `FakeTLS.Read(p)` with `len(p) = k`. -/
def readCall : Nat → Nat → RState → Except Err (Bytes × RState)
  | 0, _, _ => .error .ueof
  | fuel + 1, k, st =>
    if st.buf ≠ [] then .ok (st.buf.take k, { st with buf := st.buf.drop k })
    else
      match readRecord st.conn with
      | .error e => .error e
      | .ok (r, rest) =>
        match actionOf r.ty with
        | .skip => readCall fuel k { buf := [], conn := rest }
        | .deliver => readCall fuel k { buf := r.data, conn := rest }
        | .errHandshake => .error .handshake
        | .errOther => .error (.unsupported r.ty.toNat)

/-! ## ServerHello -/

def randomOffset : Nat := Facts.C19.serverRandomOffset
def randomEnd : Nat := Facts.C19.serverRandomOffset + 32
def maxHandshakeRecords : Nat := Facts.C19.maxHandshakeRecords

/-- The loop over up to `maxHandshakeRecords` records after the first: extra handshake records are
skipped, the first other record must be ChangeCipherSpec.  Returns the stream after it. -/
def skipToCCS : Nat → Bytes → Except Err Bytes
  | 0, _ => .error .noChangeCipher
  | n + 1, s =>
    match readRecord s with
    | .error e => .error e
    | .ok (r, rest) =>
      if r.ty = tHandshake then skipToCCS n rest
      else if r.ty = tCCS then .ok rest
      else .error .noChangeCipher

/-- Packet with the 32 digest bytes zeroed. -/
def zeroDigest (packet : Bytes) : Bytes :=
  packet.take randomOffset ++ List.replicate 32 0 ++ packet.drop randomEnd

/-- The record structure `readServerHello` insists on (everything except the digest check): a
handshake record reaching at least to the end of the server random, up to `maxHandshakeRecords - 1`
further handshake records, ChangeCipherSpec, one application record.  Returns the unread stream. -/
def helloShape (s : Bytes) : Except Err Bytes :=
  match readRecord s with
  | .error e => .error e
  | .ok (hs, s1) =>
    if hs.ty ≠ tHandshake then .error .notHandshake
    else if 5 + hs.data.length < randomEnd then .error .tooShort
    else
      match skipToCCS maxHandshakeRecords s1 with
      | .error e => .error e
      | .ok s2 =>
        match readRecord s2 with
        | .error e => .error e
        | .ok (cert, s3) => if cert.ty ≠ tApp then .error .certNotApp else .ok s3

/-- The bytes `readServerHello` consumed (what its `TeeReader` collected). -/
def packetOf (s rest : Bytes) : Bytes := s.take (s.length - rest.length)

def digestOf (packet : Bytes) : Bytes := (packet.drop randomOffset).take 32

/-- `readServerHello`: `.ok rest` (the unread stream) when the hello is accepted. -/
def readServerHello (hmac : Bytes → Bytes → Bytes) (clientRandom secret : Bytes) (s : Bytes) : Except Err Bytes :=
  match helloShape s with
  | .error e => .error e
  | .ok rest =>
    let packet := packetOf s rest
    -- the comparison covers `digestCmpLen` bytes (read from the source; 32 = the whole digest)
    if (hmac secret (clientRandom ++ zeroDigest packet)).take Facts.C19.digestCmpLen
        = (digestOf packet).take Facts.C19.digestCmpLen then .ok rest else .error .digest

/-! ## ClientHello (`writeClientHello` after `generateClientHello`) -/

def clientRandomOffset : Nat := Facts.C19.clientRandomOffset
def clientRandomLength : Nat := Facts.C19.clientRandomLength

/-- Bytewise XOR of two byte strings (the shorter decides the length). -/
def xorBytes : Bytes → Bytes → Bytes
  | a :: as, b :: bs => (a ^^^ b) :: xorBytes as bs
  | _, _ => []

/-- Little-endian bytes of `uint32(now.Unix())`. -/
def tsBytes (now : Int) : Bytes :=
  let t := (now % 4294967296).toNat
  [UInt8.ofNat (t % 256), UInt8.ofNat (t / 256 % 256), UInt8.ofNat (t / 65536 % 256), UInt8.ofNat (t / 16777216 % 256)]

/-- The ClientHello record with its random field zeroed. -/
def zeroRandom (record : Bytes) : Bytes :=
  record.take clientRandomOffset ++ List.replicate clientRandomLength 0
    ++ record.drop (clientRandomOffset + clientRandomLength)

/-- `writeClientHello` on the record produced by `generateClientHello`: the record written and the
client random returned.  The random field is zeroed, the HMAC of the whole record under the secret is
put there, and its last four bytes are XORed with the little-endian Unix time
(`old ^= uint32(now.Unix())` on the little-endian word = bytewise XOR with the little-endian bytes). -/
def finishClientHello (hmac : Bytes → Bytes → Bytes) (secret : Bytes) (now : Int) (record : Bytes) :
    Except Err (Bytes × Bytes) :=
  if record.length < clientRandomOffset + clientRandomLength then .error .tooShort
  else
    let z := zeroRandom record
    let d := (hmac secret z).take clientRandomLength
    let random := d.take (clientRandomLength - 4) ++ xorBytes (d.drop (clientRandomLength - 4)) (tsBytes now)
    .ok (record.take clientRandomOffset ++ random ++ record.drop (clientRandomOffset + clientRandomLength), random)

end TdModel.C19
