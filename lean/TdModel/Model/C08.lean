/-
C08 — model of outgoing message id / sequence number generation.

Go code modelled:
* /repo/proto/message_id.go: `newMessageID`, `NewMessageIDNano`, `MessageIDGen.New`,
  `MessageID.Time`, `MessageID.Type`
* /repo/mtproto/write.go: `Conn.nextMsgSeq`;  /repo/mtproto/message_id.go: `Conn.newMessageID`

Integers.  The generator's `nano` field is a Go `int64` that starts at 0 and only grows, so it
is a `Nat` here; a *clock reading* (`g.now().UnixNano()`) is an `Int` (it may jump backwards,
even before 1970).  Message ids are `Nat`; Go's `int64` holds them exactly while the generator's
time is before 2038-01-19 (`newMessageID_lt_2_63`), which is the range hypothesis under which
the model is compared with the implementation.

`x &^ (messageIDModulo-1)` and `x &= -messageIDModulo` on a two's-complement integer clear the
low two bits, i.e. `x - x % 4` with the *floor* remainder (Lean's `%` on `Int`, and on `Nat`).

`genNext` is the code after the `fix:` commit for D3; `genNextOld` is the pre-fix code, kept to
state the counterexample.
-/
import TdModel.Util
import TdModel.Gen.C08

namespace TdModel.C08
open TdModel

-- constants regenerated from /repo/proto/message_id.go on every run
def modulo : Nat := Facts.C08.messageIDModulo
def minRes : Nat := Facts.C08.minResolutionNanos
def nanoPerSec : Nat := Facts.C08.nanoPerSec
def idShift : Nat := Facts.C08.idShift
def yieldClient : Nat := Facts.C08.yieldClient
def yieldServerResponse : Nat := Facts.C08.yieldServerResponse
def yieldFromServer : Nat := Facts.C08.yieldFromServer

/-- `proto.newMessageID(nowNano, yield)` for `nowNano ≥ 0`. -/
def newMessageID (nowNano yield : Nat) : Nat :=
  let intPart := nowNano / nanoPerSec
  let fracPart := nowNano % nanoPerSec
  -- fracPart &= -messageIDModulo
  let fracPart := fracPart - fracPart % modulo
  -- fracPart += int64(yield)
  let fracPart := fracPart + yield
  (intPart <<< idShift) ||| fracPart

/-- `proto.MessageType` values (iota): Unknown, FromClient, ServerResponse, FromServer. -/
def typUnknown : Nat := Facts.C08.typeUnknown
def typFromClient : Nat := Facts.C08.typeFromClient
def typServerResponse : Nat := Facts.C08.typeServerResponse
def typFromServer : Nat := Facts.C08.typeFromServer

/-- The `switch typ` of `proto.NewMessageIDNano`. -/
def yieldOf (typ : Nat) : Nat :=
  if typ = typFromClient then yieldClient
  else if typ = typFromServer then yieldFromServer
  else if typ = typServerResponse then yieldServerResponse
  else yieldClient

/-- `proto.NewMessageIDNano(nano, typ)`. -/
def newMessageIDNano (nano typ : Nat) : Nat := newMessageID nano (yieldOf typ)

/-- `x &^ (messageIDModulo-1)` on an `int64` (two's complement, no overflow). -/
def clearLow (x : Int) : Int := x - x % (modulo : Int)

/-- State update of `MessageIDGen.New` (repaired): the clock reading is taken only when it
changes the value the id is built from; otherwise the stored time is bumped. -/
def genNext (g : Nat) (clock : Int) : Nat :=
  if clearLow clock > clearLow g then clock.toNat else g + minRes

/-- State update of `MessageIDGen.New` before the repair (`if nano > g.nano`). -/
def genNextOld (g : Nat) (clock : Int) : Nat :=
  if clock > g then clock.toNat else g + minRes

/-- The generator's `nano` after each of a sequence of calls. -/
def genRunWith (next : Nat → Int → Nat) : Nat → List Int → List Nat
  | _, [] => []
  | g, c :: cs => next g c :: genRunWith next (next g c) cs

/-- Ids returned by a sequence of `MessageIDGen.New(t)` calls; a call is
(clock reading, yield of the requested type). -/
def genIdsWith (next : Nat → Int → Nat) : Nat → List (Int × Nat) → List Nat
  | _, [] => []
  | g, (c, y) :: rest => newMessageID (next g c) y :: genIdsWith next (next g c) rest

def genRun := genRunWith genNext
def genIds := genIdsWith genNext

/-- Low 32 bits as `int32` (`int64(int32(id))`). -/
def toInt32 (x : Nat) : Int :=
  let r : Nat := x % 2 ^ 32
  if r < 2 ^ 31 then (r : Int) else (r : Int) - 2 ^ 32

/-- `MessageID.Time()` as unix nanoseconds: `time.Unix(id >> 32, int64(int32(id)))`. -/
def idTime (id : Nat) : Int :=
  ((id >>> 32 : Nat) : Int) * 1000000000 + toInt32 id

/-- `MessageID.Type()`'s discriminant `id % messageIDModulo`. -/
def idType (id : Nat) : Nat := id % modulo

/-- `Conn.nextMsgSeq`'s sequence-number part: `(seqNo, sentContentMessages')`. -/
def nextSeq (sent : Nat) (content : Bool) : Nat × Nat :=
  let seqNo := sent * 2
  if content then (seqNo + 1, sent + 1) else (seqNo, sent)

/-- Sequence numbers handed out for a sequence of `nextMsgSeq(content)` critical sections. -/
def seqRun : Nat → List Bool → List Nat
  | _, [] => []
  | s, f :: fs => (nextSeq s f).1 :: seqRun (nextSeq s f).2 fs

/-- State of a connection as far as `nextMsgSeq` is concerned. -/
structure Conn where
  nano : Nat := 0
  sent : Nat := 0
  deriving Repr, DecidableEq

/-- One `Conn.nextMsgSeq(content)` critical section (under `reqMux`): a client-typed id from
the generator and the sequence number. -/
def nextMsgSeq (s : Conn) (clock : Int) (content : Bool) : Conn × (Nat × Nat) :=
  let g := genNext s.nano clock
  let r := nextSeq s.sent content
  ({ nano := g, sent := r.2 }, (newMessageID g (yieldOf typFromClient), r.1))

/-- Any interleaving of callers is a list of critical sections. -/
def connRun : Conn → List (Int × Bool) → List (Nat × Nat)
  | _, [] => []
  | s, (c, f) :: rest => (nextMsgSeq s c f).2 :: connRun (nextMsgSeq s c f).1 rest

/-- The property as a decidable check over observed `(id, seqNo, content)` triples listed in the
order of generation: ids strictly increasing and divisible by 4, sequence numbers by the rule. -/
def holdsFrom : Option Nat → Nat → List (Nat × Nat × Bool) → Bool
  | _, _, [] => true
  | prev, sent, (id, seq, content) :: rest =>
    (match prev with | none => true | some p => decide (p < id)) &&
    decide (id % 4 = 0) &&
    decide (seq = 2 * sent + (if content then 1 else 0)) &&
    holdsFrom (some id) (if content then sent + 1 else sent) rest

def holds (obs : List (Nat × Nat × Bool)) : Bool := holdsFrom none 0 obs

/-- Observations of a connection run: (id, seqNo, content?) per critical section. -/
def obsFrom : Conn → List (Int × Bool) → List (Nat × Nat × Bool)
  | _, [] => []
  | s, (c, f) :: rest => ((nextMsgSeq s c f).2.1, (nextMsgSeq s c f).2.2, f) :: obsFrom (nextMsgSeq s c f).1 rest

/-! ### the executable model: the code as regenerated from the source (`Facts.C08.*T`) -/

/-- `MessageIDGen.New(typ)` with stored time `g` and clock reading `clock`, computed by the
definition translated from the method body: (id, new stored time). -/
def genNewT (g : Nat) (clock : Int) (typ : Nat) : Nat × Nat :=
  let r := Facts.C08.genNewT typ g clock
  (r.1.toNat, r.2.toNat)

/-- Ids of a sequence of calls (clock reading, message type), by the translated code. -/
def genIdsT : Nat → List (Int × Nat) → List Nat
  | _, [] => []
  | g, (c, t) :: rest => (genNewT g c t).1 :: genIdsT (genNewT g c t).2 rest

/-- One `Conn.nextMsgSeq(content)` critical section by the translated code: the id comes from
`c.messageID.New(<connNewType>)`, the sequence number from the translated body. -/
def nextMsgSeqT (s : Conn) (clock : Int) (content : Bool) : Conn × (Nat × Nat) :=
  let idg := genNewT s.nano clock Facts.C08.connNewType
  let r := Facts.C08.nextMsgSeqT content s.sent idg.1
  ({ nano := idg.2, sent := r.2.2.toNat }, (r.1.toNat, r.2.1.toNat))

def connRunT : Conn → List (Int × Bool) → List (Nat × Nat)
  | _, [] => []
  | s, (c, f) :: rest => (nextMsgSeqT s c f).2 :: connRunT (nextMsgSeqT s c f).1 rest

end TdModel.C08
