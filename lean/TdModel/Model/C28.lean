/-
C28 — the pool model of `TdModel/Model/C27Pool.lean` instantiated with the facts regenerated from
`/repo/pool` by `harness/c28 facts`.
-/
import TdModel.Gen.C28
import TdModel.Model.C27Pool

namespace TdModel.C28
open TdModel.C27

/-- The configuration read from the current source. -/
def cfgOfSource : Cfg :=
  { handoutChecksDead := Facts.C28.handoutSites == Facts.C28.guardedHandoutSites && Facts.C28.aliveChecksDead
    createCancelReleases := Facts.C28.createCancelReleases }

/-- The remaining source facts the model's atomicity assumptions rest on: `transfer` sends under the
lock, the stuck channel is captured under the pool mutex, `total++` is guarded by the limit inside
the critical section, waiter channels have capacity 1, `dead` decrements once under the mutex and
signals, `release` is one critical section. -/
def atomicityFacts : Bool :=
  Facts.C28.transferSendsUnderLock && Facts.C28.stuckCapturedUnderMu && Facts.C28.limitGuard &&
  Facts.C28.waiterChanCap1 && Facts.C28.deadOnceUnderMu && Facts.C28.releaseUnderMu

end TdModel.C28
