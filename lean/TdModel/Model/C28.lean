/-
C28 — the pool model of `TdModel/Model/C27Pool.lean` instantiated with the facts regenerated from
`/repo/pool` by `harness/c28 facts`.
-/
import TdModel.Gen.C28
import TdModel.Model.C27Pool

namespace TdModel.C28
open TdModel.C27

/-- The configuration read from the current source. -/
def cfgOfSource : Cfg :=
  { handoutChecksDead := Facts.C28.handoutSites == Facts.C28.guardedHandoutSites && Facts.C28.aliveChecksDead
    createCancelReleases := Facts.C28.createCancelReleases && Facts.C28.acqCreateSelect.contains 70 &&
      !Facts.C28.acqCreateSelect.contains 71
    bgOffersWaiters := Facts.C28.bgReadyOps == [60]
    totalUnderCheck := opBefore Facts.C28.acqCreateOps 21 22 && opBefore Facts.C28.acqCreateOps 22 24 &&
      !Facts.C28.createConnOps.contains 21
    resetAlways := Facts.C28.deadOps == [1, 2, 3, 4, 5, 6] }

/-- The remaining source facts the model's atomicity assumptions rest on: `transfer` sends under the
lock, the stuck channel is captured under the pool mutex, `total++` is guarded by the limit inside
the critical section, waiter channels have capacity 1, `dead` decrements once under the mutex and
signals, `release` is one critical section. -/
def atomicityFacts : Bool :=
  Facts.C28.transferSendsUnderLock && Facts.C28.stuckCapturedUnderMu && Facts.C28.limitGuard &&
  Facts.C28.waiterChanCap1 && Facts.C28.deadOnceUnderMu && Facts.C28.releaseUnderMu &&
  -- interpreted from the regenerated operation lists
  opBefore Facts.C28.acqWaitOps 30 31 && opBefore Facts.C28.acqWaitOps 31 32 && opBefore Facts.C28.acqWaitOps 32 33 &&
  Facts.C28.acqWaitSelect.contains 82 && !Facts.C28.acqWaitSelect.contains 83 &&
  opBefore Facts.C28.acqWaitOps 40 41 && opBefore Facts.C28.acqStuckOps 40 41 &&
  opBefore Facts.C28.transferOps 50 51 && opBefore Facts.C28.transferOps 51 52 && opBefore Facts.C28.transferOps 52 54 &&
  Facts.C28.acqCreateSelect.contains 73 && !Facts.C28.acqCreateSelect.contains 74 &&
  Facts.C28.acqWaitSelect.contains 80 && !Facts.C28.acqWaitSelect.contains 81

end TdModel.C28
