/-
C32 — model of /repo/telegram/uploader: part.go, uploader.go (`Upload`), small.go (`smallLoop`),
big.go (`bigLoop`, `uploadBigFilePart`).

`computeParts`, `computePartSize`, `checkPartSize` are NOT hand-written: the model calls their
translations regenerated from the Go source on every run (`TdModel.Facts.C32.*`, integers as `Int`).

The source is the byte string the reader delivers until EOF (`io.ReadFull` semantics: the model is
independent of how the reader chunks its reads).  The model is generic in the payload type so that the
same definitions serve the theorems (payload = the bytes of a part) and the executable plan for huge
simulated sources (payload = `(offset, length)` of a part).

The worker pool of `bigLoop` is modelled as: every enqueued part `(id, payload)` is sent by exactly one
worker, which repeats the identical request until the answer is `true` (or fails the upload on a
non-flood error); different parts complete in any order.  The canonical request log lists parts by id.
-/
import TdModel.Util
import TdModel.Gen.C32

namespace TdModel.C32
open TdModel

/-- `for { n, err := io.ReadFull(r, buf) … }`: full parts of `ps` bytes, then (if anything is left) one
short part; nothing for an empty rest.  `fuel` ≥ number of bytes. -/
def chunksF (ps : Nat) : Nat → Bytes → List Bytes
  | 0, _ => []
  | f + 1, src => if src.isEmpty then [] else src.take ps :: chunksF ps f (src.drop ps)

def chunks (ps : Nat) (src : Bytes) : List Bytes := chunksF ps src.length src

/-- The same loop on lengths only: `(offset, length)` of every part of a source of `n` bytes. -/
def rangesF (ps : Nat) : Nat → Nat → Nat → List (Nat × Nat)
  | 0, _, _ => []
  | f + 1, off, n => if n = 0 then [] else (off, min ps n) :: rangesF ps f (off + ps) (n - ps)

def ranges (ps n : Nat) : List (Nat × Nat) := rangesF ps n 0 n

/-- Scripted answer of the mock `Client` to one request. -/
inductive Resp where
  | ok      -- true
  | no      -- false: "save is not successful, so we retry"
  | flood   -- FLOOD_WAIT: sleep, retry
  | err     -- any other RPC error: the upload fails
  deriving Repr, DecidableEq, BEq

/-- The retry loop around one part: number of identical requests sent, and whether it ended with
`true` (an exhausted script answers `true`). -/
def attempts : List Resp → Nat × Bool
  | [] => (1, true)
  | .ok :: _ => (1, true)
  | .err :: _ => (1, false)
  | _ :: rest => let r := attempts rest; (r.1 + 1, r.2)

structure Cfg where
  /-- `total` given to `NewUpload` (−1 = unknown, `FromReader`). -/
  declared : Int
  /-- `WithPartSize` (disables automatic sizing). -/
  explicitPs : Option Nat
  deriving Repr, DecidableEq

/-- Part size chosen by `Uploader.Upload`. -/
def effPartSize (c : Cfg) : Int :=
  match c.explicitPs with
  | some p => p
  | none => if c.declared > 0 then Facts.C32.computePartSize c.declared else Facts.C32.defaultPartSize

inductive Err where
  | invalidPartSize | tooManyParts | rpc
  deriving Repr, DecidableEq, BEq

/-- `Upload` up to the choice of loop: part size, big flag, `upload.totalParts`. -/
def prepare (c : Cfg) : Except Err (Nat × Bool × Int) :=
  if Facts.C32.checkPartSize (effPartSize c) = true then .error .invalidPartSize
  else if c.declared ≤ Facts.C32.bigFileLimit ∧
      Facts.C32.computeParts (effPartSize c) c.declared > Facts.C32.partsLimit then .error .tooManyParts
  else if c.declared = -1 then .ok ((effPartSize c).toNat, true, -1)
  else .ok ((effPartSize c).toNat, decide (c.declared > Facts.C32.bigFileLimit),
            Facts.C32.computeParts (effPartSize c) c.declared)

/-- One part's traffic: the request (sent `attempts` times, identically) and whether it was saved. -/
structure Req (α : Type) where
  big : Bool
  /-- `FilePart` -/
  part : Int
  /-- `FileTotalParts` (0 for small files, which have no such field). -/
  total : Int
  /-- unknown-size uploads only: the reader sets `totalParts` concurrently with the workers, so a part
  enqueued before the end was seen may carry −1 instead of `total`. -/
  orUnknown : Bool
  payload : α
  attempts : Nat
  saved : Bool
  deriving Repr, DecidableEq

/-- `smallLoop`: parts in order, `FilePart = sentParts % partsLimit`; stops at the first failing part. -/
def smallReqs {α} (script : Nat → List Resp) : Nat → List α → List (Req α)
  | _, [] => []
  | i, p :: rest =>
    let a := attempts (script i)
    let r : Req α := { big := false,
                       part := if Facts.C32.smallPartIsModLimit then Int.tmod i Facts.C32.partsLimit else i,
                       total := 0, orUnknown := false,
                       payload := p, attempts := a.1, saved := a.2 }
    if a.2 then r :: smallReqs script (i + 1) rest else [r]

/-- `bigLoop`: part `i` carries `FilePart = i` and `FileTotalParts = upload.totalParts`.
`known` = total parts computed up front (declared size); for an unknown size the count `n` is set by the
reader when it meets the short final read: that part carries `n`, earlier ones `n` or −1. -/
def bigReqs {α} (script : Nat → List Resp) (totalParts : Int) (n : Nat) (lastShort : Bool) :
    Nat → List α → List (Req α)
  | _, [] => []
  | i, p :: rest =>
    let a := attempts (script i)
    let unknown := decide (totalParts = -1)
    let isLast := rest.isEmpty
    let tot : Int := if unknown then (if lastShort then n else -1) else totalParts
    let r : Req α := { big := true,
                       part := if Facts.C32.bigPartIsCounter then i else Int.tmod i Facts.C32.partsLimit,
                       total := tot,
                       orUnknown := unknown && lastShort && !isLast,
                       payload := p, attempts := a.1, saved := a.2 }
    r :: bigReqs script totalParts n lastShort (i + 1) rest

/-- Result of `Upload`. `md5` only for small files. -/
inductive Outcome where
  | error (e : Err)
  | file (big : Bool) (parts : Nat) (md5 : Option Bytes)
  deriving Repr, DecidableEq

structure Run (α : Type) where
  reqs : List (Req α)
  outcome : Outcome
  deriving Repr

/-- `Uploader.Upload` over the list of parts read from the source.
`lastShort` = the source length is not a multiple of the part size (the last `ReadFull` returned
`ErrUnexpectedEOF`); `digestOf` = the MD5 the small loop ends up with, given its request log. -/
def uploadParts {α} (c : Cfg) (script : Nat → List Resp) (partsOf : Nat → List α) (lastShort : Nat → Bool)
    (digestOf : List (Req α) → Bytes) : Run α :=
  match prepare c with
  | .error e => { reqs := [], outcome := .error e }
  | .ok (ps, big, tp) =>
    let parts := partsOf ps
    if big then
      let rs := bigReqs script tp parts.length (lastShort ps) 0 parts
      { reqs := rs, outcome := if rs.all (·.saved) then .file true parts.length none else .error .rpc }
    else
      let rs := smallReqs script 0 parts
      { reqs := rs, outcome := if rs.all (·.saved) then .file false rs.length (some (digestOf rs)) else .error .rpc }

/-- What the MD5 of a small upload is computed over: everything read from the source, once
(`io.TeeReader` around the source: `md5ViaTeeReader`); if the hash were instead fed inside the retry loop
it would see every part once per attempt. -/
def digestInput (src : Bytes) (rs : List (Req Bytes)) : Bytes :=
  if Facts.C32.md5ViaTeeReader then src
  else (rs.map (fun q => (List.replicate q.attempts q.payload).flatten)).flatten

/-- The upload of a concrete byte source. -/
def upload (md5 : Bytes → Bytes) (c : Cfg) (script : Nat → List Resp) (src : Bytes) : Run Bytes :=
  uploadParts c script (fun ps => chunks ps src) (fun ps => decide (src.length % ps ≠ 0))
    (fun rs => md5 (digestInput src rs))

/-- The upload plan of a source of `n` bytes (payload = `(offset, length)`; the digest is supplied). -/
def uploadPlan (c : Cfg) (script : Nat → List Resp) (n : Nat) (digest : Bytes) : Run (Nat × Nat) :=
  uploadParts c script (fun ps => ranges ps n) (fun ps => decide (n % ps ≠ 0)) (fun _ => digest)

/-- The server side: a part is stored when its request is answered `true`. -/
def store (evs : List (Nat × Bytes)) (id : Nat) : Option Bytes :=
  (evs.find? (fun e => e.1 == id)).map (·.2)

/-- The file the server assembles from parts `0..n-1`. -/
def assemble (st : Nat → Option Bytes) (n : Nat) : Bytes :=
  ((List.range n).map (fun i => (st i).getD [])).flatten

end TdModel.C32
