/-
C30 — where the notifications come from: `telegram/internal/manager/conn.go`.

`mtproto` calls `Conn.OnSession(session)` when the server has confirmed a session on that
connection.  `Conn` appends it to `pending` and, if the connection's config is ready
(`gotConfig` signalled), `flushPendingSession` hands every pending session, in order, to the
client handler together with the connection's config: `handler.OnSession(c.cfg, s)`.
`Conn.init` obtains the config (`initConnection(help.getConfig)`; CDN mode: `tg.Config{ThisDC:
c.dc}` without asking), runs the optional `Setup` callback (auth transfer — during which the read
loop may deliver further sessions), stores the config, signals readiness and flushes.

The ORDER of those steps is read from the source (`Facts.C30.connInitRegular`, `connInitCDN`:
structurally classified statements of `init`) and interpreted here: `c.cfg` is the zero config
until the "cfg=" step, `OnSession` flushes as soon as "ready" has happened.  Core Lean only.
-/
import TdModel.Model.C30Interp

namespace TdModel.C30
open TdModel

/-- `mtproto.Session` as reported by one connection. -/
structure SessEv where
  key : AuthKey
  perm : AuthKey
  salt : Int
  deriving DecidableEq, Repr

/-- `manager.Conn`. -/
structure MConn where
  cdn : Bool
  /-- the DC it was dialled to -/
  dc : Int
  /-- `ThisDC` of the config its server answers `help.getConfig` with -/
  serverDC : Int
  /-- next step of `init` -/
  ipc : Nat
  /-- `gotConfig` signalled -/
  ready : Bool
  /-- `c.cfg.ThisDC` (zero value until assigned) -/
  cfg : Int
  pending : List SessEv
  deriving DecidableEq, Repr

inductive MAct where
  /-- a connection is created (`CreateConn`) -/
  | new (cdn : Bool) (dc serverDC : Int)
  /-- `Conn.OnSession` on connection `id` -/
  | ev (id : Nat) (e : SessEv)
  /-- `Conn.init` on connection `id` runs up to and including the start of the `Setup` callback -/
  | initBegin (id : Nat)
  /-- the `Setup` callback returns and `init` runs to its end -/
  | initEnd (id : Nat)
  deriving DecidableEq, Repr

def notifOf (c : MConn) (cfgDC : Int) (e : SessEv) : Notif :=
  ⟨if c.cdn then .cdn else .regular, cfgDC, e.key, e.perm, e.salt, .none⟩

def initProg (cdn : Bool) : List String := if cdn then Facts.C30.connInitCDN else Facts.C30.connInitRegular

/-- `flushPendingSession`. -/
def flushConn (c : MConn) : MConn × List Notif :=
  ({ c with pending := [] }, c.pending.map (notifOf c c.cfg))

/-- One classified statement of `init`. -/
def microStep (c : MConn) (tag : String) : MConn × List Notif :=
  if tag = "cfg<-server" then (c, [])
  else if tag = "setup" then (c, [])
  else if tag = "cfg=server" then ({ c with cfg := c.serverDC }, [])
  else if tag = "cfg=this-dc(conn.dc)" then ({ c with cfg := c.dc }, [])
  else if tag = "ready" then ({ c with ready := true }, [])
  else if tag = "flush" then flushConn c
  else ({ c with cfg := poisonInt }, [])

/-- Run `init` from where it stands; with `untilSetup`, stop once the `Setup` callback has started. -/
def runInit (untilSetup : Bool) : Nat → MConn → List Notif → MConn × List Notif
  | 0, c, out => (c, out)
  | fuel + 1, c, out =>
    match (initProg c.cdn)[c.ipc]? with
    | none => (c, out)
    | some tag =>
      let r := microStep c tag
      let c' := { r.1 with ipc := c.ipc + 1 }
      if untilSetup && tag = "setup" then (c', out ++ r.2)
      else runInit untilSetup fuel c' (out ++ r.2)

/-- `Conn.OnSession`. -/
def onConnSession (c : MConn) (e : SessEv) : MConn × List Notif :=
  let c' := { c with pending := c.pending ++ [e] }
  if c'.ready then flushConn c' else (c', [])

/-- One action on the connections: the new connections and what is handed to the client handler. -/
def mstep (cs : List MConn) : MAct → List MConn × List Notif
  | .new cdn dc sdc => (cs ++ [⟨cdn, dc, sdc, 0, false, 0, []⟩], [])
  | .ev id e =>
    match cs[id]? with
    | none => (cs, [])
    | some c => (cs.set id (onConnSession c e).1, (onConnSession c e).2)
  | .initBegin id =>
    match cs[id]? with
    | none => (cs, [])
    | some c => (cs.set id (runInit true 8 c []).1, (runInit true 8 c []).2)
  | .initEnd id =>
    match cs[id]? with
    | none => (cs, [])
    | some c => (cs.set id (runInit false 8 c []).1, (runInit false 8 c []).2)

/-- All notifications handed to the client handler by a list of actions, in order. -/
def deliveries : List MConn → List MAct → List Notif
  | _, [] => []
  | cs, a :: rest => (mstep cs a).2 ++ deliveries (mstep cs a).1 rest

/-- Connections and client together. -/
def mrun : St × List MConn → List MAct → St × List MConn
  | sc, [] => sc
  | (s, cs), a :: rest => mrun (runI s (mstep cs a).2, (mstep cs a).1) rest

/-- The config the connection's sessions must be paired with. -/
def MConn.ownDC (c : MConn) : Int := if c.cdn then c.dc else c.serverDC

end TdModel.C30
