/-
C30 — where the notifications come from: `telegram/internal/manager/conn.go`.

`mtproto` calls `Conn.OnSession(session)` when the server has confirmed a session on that
connection.  `Conn` appends it to `pending` and, once the connection's config is known
(`init`: `initConnection(help.getConfig)` answered — or, in CDN mode, `tg.Config{ThisDC: c.dc}`
without asking), `flushPendingSession` hands every pending session, in order, to the client
handler together with THAT connection's config: `handler.OnSession(c.cfg, s)`.  The handler is
`onSession` for regular connections and `onCDNSession` for CDN connections.

So the `cfg.ThisDC` of a notification is the DC the server of the very connection that produced
the key reported (or the DC the CDN connection was dialled to).  Core Lean only.
-/
import TdModel.Model.C30Interp

namespace TdModel.C30
open TdModel

/-- `mtproto.Session` as reported by one connection. -/
structure SessEv where
  key : AuthKey
  perm : AuthKey
  salt : Int
  deriving DecidableEq, Repr

/-- `manager.Conn`: mode, dialled DC, `cfg.ThisDC` once `gotConfig` is signalled, `pending`. -/
structure MConn where
  cdn : Bool
  dc : Int
  cfg : Option Int
  pending : List SessEv
  deriving DecidableEq, Repr

inductive MAct where
  /-- a connection is created (`CreateConn`) -/
  | new (cdn : Bool) (dc : Int)
  /-- `Conn.OnSession` on connection `id` -/
  | ev (id : Nat) (e : SessEv)
  /-- `Conn.init` on connection `id`; the server's config says `ThisDC = serverDC` -/
  | init (id : Nat) (serverDC : Int)
  deriving DecidableEq, Repr

def notifOf (c : MConn) (cfgDC : Int) (e : SessEv) : Notif :=
  ⟨if c.cdn then .cdn else .regular, cfgDC, e.key, e.perm, e.salt, .none⟩

/-- One action on the connections: the new connections and what is handed to the client handler. -/
def mstep (cs : List MConn) : MAct → List MConn × List Notif
  | .new cdn dc => (cs ++ [⟨cdn, dc, none, []⟩], [])
  | .ev id e =>
    match cs[id]? with
    | none => (cs, [])
    | some c =>
      match c.cfg with
      | none => (cs.set id { c with pending := c.pending ++ [e] }, [])
      | some d => (cs.set id { c with pending := [] }, (c.pending ++ [e]).map (notifOf c d))
  | .init id serverDC =>
    match cs[id]? with
    | none => (cs, [])
    | some c =>
      let d := if c.cdn then c.dc else serverDC
      (cs.set id { c with cfg := some d, pending := [] }, c.pending.map (notifOf c d))

/-- All notifications handed to the client handler by a list of actions, in order. -/
def deliveries : List MConn → List MAct → List Notif
  | _, [] => []
  | cs, a :: rest => (mstep cs a).2 ++ deliveries (mstep cs a).1 rest

/-- Connections and client together. -/
def mrun : St × List MConn → List MAct → St × List MConn
  | sc, [] => sc
  | (s, cs), a :: rest => mrun (runI s (mstep cs a).2, (mstep cs a).1) rest

end TdModel.C30
