/-
C41 — model of server-salt handling.

Go code modelled:
* /repo/mtproto/salts/salts.go: `Salts.Store`, `Salts.Get`, `Salts.Reset`
* /repo/mtproto/salt.go: `Conn.updateSalt`, `Conn.storeSalt`; /repo/mtproto/session.go: `Conn.session`
  (every written message takes `c.session().Salt`, i.e. the salt after `updateSalt`)
* /repo/mtproto/rpc.go: `Conn.Invoke`'s bad-salt branch; /repo/mtproto/handle_bad_msg.go

Times: `validSince/validUntil` and `Get`'s `date` are unix seconds (`int`); the clock is unix
nanoseconds.  `sort.Sort` (not stable) is modelled by a stable insertion sort; only its contract
(the result is a permutation sorted by descending `validUntil`) is used by the theorems, and the
harness compares the *expiry* of the salt returned when several salts share one expiry.
-/
import TdModel.Util
import TdModel.Gen.C41

namespace TdModel.C41
open TdModel

structure Salt where
  validSince : Int
  validUntil : Int
  salt : Int
  deriving Repr, DecidableEq

abbrev Store := List Salt

/-- The duplicate filter of `Salts.Store`: the first occurrence of a salt value wins. -/
def dedup : List Salt → List Int → List Salt
  | [], _ => []
  | s :: rest, seen => if s.salt ∈ seen then dedup rest seen else s :: dedup rest (s.salt :: seen)

/-- Insert into a list sorted by descending `validUntil` (`saltSlice.Less i j = vu i > vu j`). -/
def insertDesc (s : Salt) : List Salt → List Salt
  | [] => [s]
  | x :: xs => if s.validUntil ≥ x.validUntil then s :: x :: xs else x :: insertDesc s xs

def sortDesc : List Salt → List Salt
  | [] => []
  | x :: xs => insertDesc x (sortDesc xs)

/-- `Salts.Store(salts)`. -/
def store (st : Store) (new : List Salt) : Store := sortDesc (dedup (st ++ new) [])

/-- `a > b`, or `a ≥ b` when the source's operator is not strict. -/
def gtS (strict : Bool) (a b : Int) : Bool := if strict then decide (a > b) else decide (a ≥ b)

/-- The validity test of `Get` (`salt.ValidUntil > date`) with the operator read from the source. -/
def validAfter (vu date : Int) : Bool := gtS Facts.C41.getValidStrict vu date

/-- The test of `Get`'s in-place filter, likewise. -/
def keptByFilter (vu date : Int) : Bool := gtS Facts.C41.getFilterStrict vu date

/-- `Salts.Get(deadline)` with `date = deadline.Unix()`: new stored list and the salt returned. -/
def get (st : Store) (date : Int) : Store × Option Salt :=
  match st.getLast? with
  | none => (st, none)
  | some last =>
    if validAfter last.validUntil date then (st, some last)
    else
      let st' := st.filter (fun s => keptByFilter s.validUntil date)
      (st', st'.getLast?)

/-- `Salts.Reset()`. -/
def reset (_ : Store) : Store := []

/-- Lookahead of `updateSalt` in nanoseconds (`time.Minute * 5`). -/
def lookaheadNs : Int := Facts.C41.lookaheadNs

/-- `deadline.Unix()` for `deadline = now.Add(lookahead)`, `now` in unix nanoseconds. -/
def dateOf (nowNs : Int) : Int := (nowNs + lookaheadNs) / 1000000000

structure Conn where
  cur : Int          -- `c.salt`
  salts : Store      -- `c.salts`
  deriving Repr, DecidableEq

/-- `Conn.updateSalt`. -/
def updateSalt (c : Conn) (nowNs : Int) : Conn :=
  match get c.salts (dateOf nowNs) with
  | (st', some x) => { cur := x.salt, salts := st' }
  | (st', none) => { c with salts := st' }

/-- `c.session().Salt`: what `newEncryptedMessage` puts into an outgoing message. -/
def attach (c : Conn) (nowNs : Int) : Conn × Int :=
  let c' := updateSalt c nowNs
  (c', c'.cur)

/-- `Conn.storeSalt` (new_session_created, bad_server_salt).  `handleSessionCreated` then passes
`c.session()` to the handler, which runs `updateSalt` again: a known valid future salt replaces
the salt just told. -/
def storeSalt (c : Conn) (s : Int) : Conn := { c with cur := s }

/-- What comes back for one `rpc.Do`. -/
inductive Reaction where
  | result                                   -- rpc result (or any non-bad-message error)
  | badMsg (code : Nat) (newSalt : Int)      -- bad_server_salt (code 48, new salt) / bad_msg_notification (new salt 0)
  deriving Repr, DecidableEq

def codeIncorrectServerSalt : Nat := Facts.C41.codeIncorrectServerSalt

/-- `Conn.Invoke` as far as salts are concerned, in canonical form (store the new salt, forget the
future salts, one more `rpc.Do`): the salts attached to the request's transmissions, and whether
`Invoke` returned an error.  `rs` = the reactions to the successive `rpc.Do` calls. -/
def invokeCanon (c : Conn) (nowNs : Int) (rs : List Reaction) : Conn × List Int × Bool :=
  let (c1, s1) := attach c nowNs
  match rs with
  | [] => (c1, [s1], true)
  | .result :: _ => (c1, [s1], false)
  | .badMsg code ns :: rest =>
    if code = codeIncorrectServerSalt then
      let c2 : Conn := { cur := ns, salts := reset c1.salts }
      let (c3, s2) := attach c2 nowNs
      match rest with
      | .result :: _ => (c3, [s1, s2], false)
      | _ => (c3, [s1, s2], true)
    else (c1, [s1], true)

/-- The operations of the bad-salt branch as read from the source (1 `storeSalt(NewSalt)`,
2 `salts.Reset()`, 3 `return c.rpc.Do(ctx, req)`): the connection state in which the request is
sent again, or `none` if the branch never sends again. -/
def applyOps (ns : Int) : List Nat → Conn → Option Conn
  | [], _ => none
  | 1 :: r, c => applyOps ns r { c with cur := ns }
  | 2 :: r, c => applyOps ns r { c with salts := reset c.salts }
  | 3 :: _, c => some c
  | _ :: r, c => applyOps ns r c

/-- `Conn.Invoke` with the bad-salt branch interpreted from `ops`. -/
def invokeW (ops : List Nat) (c : Conn) (nowNs : Int) (rs : List Reaction) : Conn × List Int × Bool :=
  let (c1, s1) := attach c nowNs
  match rs with
  | [] => (c1, [s1], true)
  | .result :: _ => (c1, [s1], false)
  | .badMsg code ns :: rest =>
    if code = codeIncorrectServerSalt then
      match applyOps ns ops c1 with
      | none => (c1, [s1], true)
      | some c2 =>
        let (c3, s2) := attach c2 nowNs
        match rest with
        | .result :: _ => (c3, [s1, s2], false)
        | _ => (c3, [s1, s2], true)
    else (c1, [s1], true)

/-- `Conn.Invoke` of the current source. -/
def invoke (c : Conn) (nowNs : Int) (rs : List Reaction) : Conn × List Int × Bool :=
  invokeW Facts.C41.invokeBadSaltOps c nowNs rs

/-- Events on a connection, for the driver: the harness replays a whole history per line. -/
inductive Event where
  | clock (nowNs : Int)
  | future (salts : List Salt)       -- future_salts received
  | told (salt : Int)                -- new_session_created: storeSalt, then `c.session()` for OnSession
  | write                            -- a service message is written
  | invoke (rs : List Reaction)
  deriving Repr

/-- One event: new state, new clock, salts attached to the messages written by it. -/
def step (c : Conn) (now : Int) : Event → Conn × Int × List Int
  | .clock t => (c, t, [])
  | .future ss => ({ c with salts := store c.salts ss }, now, [])
  | .told s => (updateSalt (storeSalt c s) now, now, [])
  | .write => ((attach c now).1, now, [(attach c now).2])
  | .invoke rs => ((invoke c now rs).1, now, (invoke c now rs).2.1)

/-- Output: the salts attached to every written message, in order. -/
def runEvents : Conn → Int → List Event → List Int
  | _, _, [] => []
  | c, now, e :: rest => (step c now e).2.2 ++ runEvents (step c now e).1 (step c now e).2.1 rest

/-- State after a history. -/
def finalState : Conn → Int → List Event → Conn
  | c, _, [] => c
  | c, now, e :: rest => finalState (step c now e).1 (step c now e).2.1 rest

end TdModel.C41
