/-
C14 — model of /repo/crypto: rsa_pad.go (RSAPad, DecodeRSAPad), rsa_hashed.go (RSAEncryptHashed,
RSADecryptHashed), rsa.go (rsaEncrypt, rsaDecrypt), fill_bytes.go (FillBytes).

Primitives are parameters: SHA-1 / SHA-256 / AES-256 blocks come from `Prims`, modular
exponentiation (`big.Int.Exp`) from `NumPrims`.  The random source is a byte tape: `io.ReadFull`
takes the next `n` bytes or fails when fewer are left.  IGE chaining is `TdModel.Ige` (C04Ige).
Sizes (144, 192, 32, 256, 255, 235) are regenerated from the source (`Facts.C14`).
-/
import TdModel.Model.Bin
import TdModel.Model.Prims
import TdModel.Model.C04Ige
import TdModel.Gen.C14

namespace TdModel.C14
open TdModel TdModel.Bin

/-- `big.Int.Exp(b, e, m)` as a parameter (executable instance: `Prim.modPow`). -/
structure NumPrims where
  powMod : Nat → Nat → Nat → Nat

/-- The only law used: it computes `b ^ e mod m`. -/
def LawfulNum (Q : NumPrims) : Prop := ∀ b e m, Q.powMod b e m = b ^ e % m

/-- `new(big.Int).SetBytes(b)`: big-endian value. -/
def beNat (b : Bytes) : Nat := fromLE b.reverse

/-- `n.FillBytes(make([]byte, len))` for `n < 256^len`: big-endian on exactly `len` bytes. -/
def beBytes (len n : Nat) : Bytes := (leN len n).reverse

structure PubKey where
  n : Nat
  e : Nat

structure PrivKey where
  n : Nat
  d : Nat

def rsaLen : Nat := Facts.C14.rsaLen
def rsaWithHashLen : Nat := Facts.C14.rsaWithHashLen
def rsaDataLen : Nat := Facts.C14.rsaWithHashLen - Facts.C14.sha1Size
def rsaPadDataLimit : Nat := Facts.C14.rsaPadDataLimit
def dataWithPaddingLength : Nat := Facts.C14.dataWithPaddingLength
def tempKeySize : Nat := Facts.C14.tempKeySize

/-- `crypto.rsaEncrypt`: `FillBytes` on `rsaLen` bytes of `data^e mod n`. -/
def rsaEncrypt (Q : NumPrims) (key : PubKey) (data : Bytes) : Bytes :=
  beBytes rsaLen (Q.powMod (beNat data) key.e key.n)

/-- `crypto.rsaDecrypt` + `crypto.FillBytes`: `none` when the result needs more than `len` bytes. -/
def rsaDecrypt (Q : NumPrims) (key : PrivKey) (data : Bytes) (len : Nat) : Option Bytes :=
  let m := Q.powMod (beNat data) key.d key.n
  if m ≥ 256 ^ len then none else some (beBytes len m)

inductive Err where
  | tooLong | tape | invalid | mismatch
  deriving Repr, DecidableEq

def Err.tag : Err → String
  | .tooLong => "too-long" | .tape => "tape" | .invalid => "invalid" | .mismatch => "mismatch"

def zeroIV : Bytes := List.replicate 32 0

/-- Steps 4–7 of RSA_PAD for one `temp_key`: `key_aes_encrypted`. -/
def keyAesEncrypted (P : Prims) (dataWithPadding tempKey : Bytes) : Bytes :=
  let dataPadReversed := dataWithPadding.reverse
  let dataWithHash := dataPadReversed ++ P.sha256 (tempKey ++ dataWithPadding)
  let aesEncrypted := Ige.enc (P.aesEnc tempKey) zeroIV dataWithHash
  let tempKeyXor := Ige.xorB tempKey (P.sha256 aesEncrypted)
  tempKeyXor ++ aesEncrypted

/-- The `for { … }` loop of `RSAPad`: one `temp_key` per round, retried while
`key_aes_encrypted ≥ N`.  `fuel` bounds the rounds (the tape runs out first). -/
def rsaPadLoop (P : Prims) (Q : NumPrims) (key : PubKey) (dataWithPadding : Bytes) :
    Nat → Bytes → Except Err Bytes
  | 0, _ => .error .tape
  | fuel + 1, tape =>
    if tape.length < tempKeySize then .error .tape
    else
      let tempKey := tape.take tempKeySize
      let kae := keyAesEncrypted P dataWithPadding tempKey
      if beNat kae ≥ key.n then rsaPadLoop P Q key dataWithPadding fuel (tape.drop tempKeySize)
      else .ok (rsaEncrypt Q key kae)

/-- `crypto.RSAPad(data, key, randomSource)`. -/
def rsaPad (P : Prims) (Q : NumPrims) (key : PubKey) (data tape : Bytes) : Except Err Bytes :=
  if data.length > rsaPadDataLimit then .error .tooLong
  else if tape.length < dataWithPaddingLength - data.length then .error .tape
  else
    let dataWithPadding := data ++ tape.take (dataWithPaddingLength - data.length)
    rsaPadLoop P Q key dataWithPadding tape.length (tape.drop (dataWithPaddingLength - data.length))

/-- `crypto.DecodeRSAPad(data, key)`. -/
def decodeRsaPad (P : Prims) (Q : NumPrims) (key : PrivKey) (data : Bytes) : Except Err Bytes :=
  match rsaDecrypt Q key data rsaLen with
  | none => .error .invalid
  | some encryptedData =>
    let tempKeyXor := encryptedData.take tempKeySize
    let aesEncrypted := encryptedData.drop tempKeySize
    let tempKey := Ige.xorB tempKeyXor (P.sha256 aesEncrypted)
    let dataWithHash := Ige.dec (P.aesDec tempKey) zeroIV aesEncrypted
    let dataWithPadding := (dataWithHash.take dataWithPaddingLength).reverse
    let hash := dataWithHash.drop dataWithPaddingLength
    if hash = P.sha256 (tempKey ++ dataWithPadding) then .ok dataWithPadding else .error .mismatch

/-- `crypto.RSAEncryptHashed(data, key, randomSource)`. -/
def rsaEncryptHashed (P : Prims) (Q : NumPrims) (key : PubKey) (data tape : Bytes) : Except Err Bytes :=
  if data.length > rsaDataLen then .error .tooLong
  else if tape.length < rsaWithHashLen then .error .tape
  else
    let rnd := tape.take rsaWithHashLen
    let dataWithHash := P.sha1 data ++ data ++ rnd.drop (Facts.C14.sha1Size + data.length)
    .ok (rsaEncrypt Q key dataWithHash)

/-- The guessing loop of `RSADecryptHashed`: `i = 0 … len(paddedData)`, longest prefix first;
`n` = remaining prefix lengths to try below the current one. -/
def guessData (P : Prims) (hash paddedData : Bytes) : Nat → Option Bytes
  | 0 => if P.sha1 [] = hash then some [] else none
  | l + 1 =>
    if P.sha1 (paddedData.take (l + 1)) = hash then some (paddedData.take (l + 1))
    else guessData P hash paddedData l

/-- `crypto.RSADecryptHashed(data, key)`. -/
def rsaDecryptHashed (P : Prims) (Q : NumPrims) (key : PrivKey) (data : Bytes) : Except Err Bytes :=
  match rsaDecrypt Q key data rsaWithHashLen with
  | none => .error .invalid
  | some dataWithHash =>
    let hash := dataWithHash.take Facts.C14.sha1Size
    let paddedData := dataWithHash.drop Facts.C14.sha1Size
    match guessData P hash paddedData paddedData.length with
    | some d => .ok d
    | none => .error .mismatch

/-! ## The specification text (core.telegram.org/mtproto/auth_key, "RSA_PAD(data, server_public_key)")
written down independently of the code, for given random choices. -/
namespace Spec

/-- 1) `data_with_padding := data + random_padding_bytes` (192 bytes in total). -/
def dataWithPadding (data padding : Bytes) : Bytes := data ++ padding
/-- 2) `data_pad_reversed := BYTE_REVERSE(data_with_padding)`. -/
def dataPadReversed (dwp : Bytes) : Bytes := dwp.reverse
/-- 4) `data_with_hash := data_pad_reversed + SHA256(temp_key + data_with_padding)`. -/
def dataWithHash (P : Prims) (dwp tempKey : Bytes) : Bytes :=
  dataPadReversed dwp ++ P.sha256 (tempKey ++ dwp)
/-- 5) `aes_encrypted := AES256_IGE(data_with_hash, temp_key, 0)`. -/
def aesEncrypted (P : Prims) (dwp tempKey : Bytes) : Bytes :=
  Ige.enc (P.aesEnc tempKey) (List.replicate 32 0) (dataWithHash P dwp tempKey)
/-- 6) `temp_key_xor := temp_key XOR SHA256(aes_encrypted)`. -/
def tempKeyXor (P : Prims) (dwp tempKey : Bytes) : Bytes :=
  Ige.xorB tempKey (P.sha256 (aesEncrypted P dwp tempKey))
/-- 7) `key_aes_encrypted := temp_key_xor + aes_encrypted`. -/
def keyAesEncrypted (P : Prims) (dwp tempKey : Bytes) : Bytes :=
  tempKeyXor P dwp tempKey ++ aesEncrypted P dwp tempKey
/-- 8) the value is acceptable iff, as a big-endian number, it is below the RSA modulus. -/
def acceptable (P : Prims) (n : Nat) (dwp tempKey : Bytes) : Bool :=
  decide (beNat (keyAesEncrypted P dwp tempKey) < n)
/-- 9) `encrypted_data := RSA(key_aes_encrypted, server_pubkey)`: `m^e mod n` on exactly 256 bytes. -/
def encryptedData (n e : Nat) (kae : Bytes) : Bytes := beBytes 256 (beNat kae ^ e % n)

/-- The whole scheme for a given padding and a given sequence of candidate temp keys (3: "a random
32-byte temp_key is generated", 8: "the previous steps starting from the generation of new random
temp_key are repeated"): the first acceptable temp key is used. -/
def rsaPad (P : Prims) (n e : Nat) (data padding : Bytes) (tempKeys : List Bytes) : Option Bytes :=
  let dwp := dataWithPadding data padding
  match tempKeys.find? (acceptable P n dwp) with
  | some tk => some (encryptedData n e (keyAesEncrypted P dwp tk))
  | none => none

end Spec

/-- the random tape cut into 32-byte temp keys. -/
def chunks32 : Nat → Bytes → List Bytes
  | 0, _ => []
  | k + 1, t => t.take 32 :: chunks32 k (t.drop 32)

end TdModel.C14
