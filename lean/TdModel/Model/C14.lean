/-
C14 — model of /repo/crypto: rsa_pad.go (RSAPad, DecodeRSAPad), rsa_hashed.go (RSAEncryptHashed,
RSADecryptHashed), rsa.go (rsaEncrypt, rsaDecrypt), fill_bytes.go (FillBytes).

Primitives are parameters: SHA-1 / SHA-256 / AES-256 blocks come from `Prims`, modular
exponentiation (`big.Int.Exp`) from `NumPrims`.  The random source is a byte tape: `io.ReadFull`
takes the next `n` bytes or fails when fewer are left.  IGE chaining is `TdModel.Ige` (C04Ige).
Sizes (144, 192, 32, 256, 255, 235) are regenerated from the source (`Facts.C14`).
-/
import TdModel.Model.Bin
import TdModel.Model.Prims
import TdModel.Model.C04Ige
import TdModel.Gen.C14

namespace TdModel.C14
open TdModel TdModel.Bin

/-- `big.Int.Exp(b, e, m)` as a parameter (executable instance: `Prim.modPow`). -/
structure NumPrims where
  powMod : Nat → Nat → Nat → Nat

/-- The only law used: it computes `b ^ e mod m`. -/
def LawfulNum (Q : NumPrims) : Prop := ∀ b e m, Q.powMod b e m = b ^ e % m

/-- `new(big.Int).SetBytes(b)`: big-endian value. -/
def beNat (b : Bytes) : Nat := fromLE b.reverse

/-- `n.FillBytes(make([]byte, len))` for `n < 256^len`: big-endian on exactly `len` bytes. -/
def beBytes (len n : Nat) : Bytes := (leN len n).reverse

structure PubKey where
  n : Nat
  e : Nat

structure PrivKey where
  n : Nat
  d : Nat

def rsaLen : Nat := Facts.C14.rsaLen
def rsaWithHashLen : Nat := Facts.C14.rsaWithHashLen
def rsaDataLen : Nat := Facts.C14.rsaWithHashLen - Facts.C14.sha1Size
def rsaPadDataLimit : Nat := Facts.C14.rsaPadDataLimit
def dataWithPaddingLength : Nat := Facts.C14.dataWithPaddingLength
def tempKeySize : Nat := Facts.C14.tempKeySize

/-- `crypto.rsaEncrypt`: `FillBytes` on `rsaLen` bytes of `data^e mod n`. -/
def rsaEncrypt (Q : NumPrims) (key : PubKey) (data : Bytes) : Bytes :=
  beBytes rsaLen (Q.powMod (beNat data) key.e key.n)

/-- `crypto.rsaDecrypt` + `crypto.FillBytes`: `none` when the result needs more than `len` bytes. -/
def rsaDecrypt (Q : NumPrims) (key : PrivKey) (data : Bytes) (len : Nat) : Option Bytes :=
  let m := Q.powMod (beNat data) key.d key.n
  if m ≥ 256 ^ len then none else some (beBytes len m)

inductive Err where
  | tooLong | tape | invalid | mismatch
  /-- the source reads its random bytes other than through `io.ReadFull`: the result would depend on how
  the reader chunks its output, which this (chunking-independent) model cannot express. -/
  | shortRead
  deriving Repr, DecidableEq

def Err.tag : Err → String
  | .tooLong => "too-long" | .tape => "tape" | .invalid => "invalid" | .mismatch => "mismatch"
  | .shortRead => "short-read-possible"

/-- Every use of the random source in the function is `io.ReadFull(randomSource, dst)` (regenerated list
of (callee, destination)); only then "the next n bytes of the tape" is what the code obtains for
*every* chunking of the reader. -/
def readsViaReadFull (reads : List (String × String)) : Bool :=
  !reads.isEmpty && reads.all (fun r => r.1 == "io.ReadFull")

def zeroIV : Bytes := List.replicate 32 0

/-- The named byte strings of `RSAPad` / `DecodeRSAPad` at some point of the execution. -/
structure W where
  data : Bytes := []
  tempKey : Bytes := []
  dataWithPadding : Bytes := []
  dataPadReversed : Bytes := []
  dataWithHash : Bytes := []
  aesEncrypted : Bytes := []
  aesEncryptedHash : Bytes := []
  tempKeyXor : Bytes := []
  keyAESEncrypted : Bytes := []
  encryptedData : Bytes := []
  hash : Bytes := []

def W.get (w : W) : Facts.C14.V → Bytes
  | .data => w.data | .tempKey => w.tempKey | .dataWithPadding => w.dataWithPadding
  | .dataPadReversed => w.dataPadReversed | .dataWithHash => w.dataWithHash | .aesEncrypted => w.aesEncrypted
  | .aesEncryptedHash => w.aesEncryptedHash | .tempKeyXor => w.tempKeyXor | .keyAESEncrypted => w.keyAESEncrypted
  | .encryptedData => w.encryptedData | .hash => w.hash | .zeroIV => zeroIV | .unknown => []

def W.set (w : W) (v : Facts.C14.V) (b : Bytes) : W :=
  match v with
  | .data => { w with data := b } | .tempKey => { w with tempKey := b }
  | .dataWithPadding => { w with dataWithPadding := b } | .dataPadReversed => { w with dataPadReversed := b }
  | .dataWithHash => { w with dataWithHash := b } | .aesEncrypted => { w with aesEncrypted := b }
  | .aesEncryptedHash => { w with aesEncryptedHash := b } | .tempKeyXor => { w with tempKeyXor := b }
  | .keyAESEncrypted => { w with keyAESEncrypted := b } | .encryptedData => { w with encryptedData := b }
  | .hash => { w with hash := b } | .zeroIV => w | .unknown => w

/-- concatenation of the named strings. -/
def W.cat (w : W) : List Facts.C14.V → Bytes
  | [] => []
  | [v] => w.get v
  | v :: vs => w.get v ++ w.cat vs

/-- what the `append(dst, src...)` calls with destination `dst` append, in source order. -/
def W.appended (w : W) (apps : List (Facts.C14.V × Facts.C14.V)) (dst : Facts.C14.V) : Bytes :=
  w.cat ((apps.filter (fun a => a.1 == dst)).map (·.2))

/-- `copy(dst, src)` (equal lengths): `dst` becomes `src`. -/
def W.copied (w : W) (copies : List (Facts.C14.V × Facts.C14.V)) (dst : Facts.C14.V) : W :=
  match copies.find? (fun a => a.1 == dst) with
  | some (_, src) => w.set dst (w.get src)
  | none => w

/-- `reverseBytes(v)` for each listed `v`. -/
def W.reversed (w : W) : List Facts.C14.V → W
  | [] => w
  | v :: vs => (w.set v (w.get v).reverse).reversed vs

/-- `ige.EncryptBlocks/DecryptBlocks(aes.NewCipher(key), iv, dst, src)` with the regenerated operands. -/
def W.ige (w : W) (f : Bytes → Bytes → Bytes → Bytes) (key args : List Facts.C14.V) : W :=
  match key, args with
  | [k], [iv, dst, src] => w.set dst (f (w.get k) (w.get iv) (w.get src))
  | _, _ => w

/-- `xor.Bytes(dst, a, b)` with the regenerated operands. -/
def W.xored (w : W) : List Facts.C14.V → W
  | [dst, a, b] => w.set dst (Ige.xorB (w.get a) (w.get b))
  | _ => w

/-- `x := src[lo:hi]` for the slice statement whose left-hand side is `dst`. -/
def W.sliced (w : W) (slices : List (Facts.C14.V × Facts.C14.V × Option Nat × Option Nat)) (dst : Facts.C14.V) : W :=
  match slices.find? (fun a => a.1 == dst) with
  | some (_, src, lo, hi) =>
    let b := w.get src
    let b := match hi with | some h => b.take h | none => b
    let b := match lo with | some l => b.drop l | none => b
    w.set dst b
  | none => w

/-- Steps 2, 4–7 of RSA_PAD for one `temp_key`: `key_aes_encrypted`.  Which named byte string is
copied, reversed, hashed, encrypted, xored and concatenated is **regenerated from the source**
(`Facts.C14.enc…`) and interpreted here. -/
def keyAesEncrypted (P : Prims) (dataWithPadding tempKey : Bytes) : Bytes :=
  let w : W := { dataWithPadding := dataWithPadding, tempKey := tempKey }
  let w := (w.copied Facts.C14.encCopies .dataPadReversed).reversed Facts.C14.encReverseArg
  let w := w.set .dataWithHash
    (w.appended Facts.C14.encAppends .dataWithHash ++ P.sha256 (w.cat Facts.C14.encHashWrites))
  let w := w.ige (fun k iv src => Ige.enc (P.aesEnc k) iv src) Facts.C14.encCipherKey Facts.C14.encIgeArgs
  let w := w.set .aesEncryptedHash (P.sha256 (w.cat Facts.C14.encSum256Arg))
  let w := w.xored Facts.C14.encXorArgs
  let w := w.set .keyAESEncrypted (w.appended Facts.C14.encAppends .keyAESEncrypted)
  w.cat (Facts.C14.encRsaArg.take 1)

/-- The `for { … }` loop of `RSAPad`: one `temp_key` per round, retried while
`key_aes_encrypted ≥ N`.  `fuel` bounds the rounds (the tape runs out first). -/
def rsaPadLoop (P : Prims) (Q : NumPrims) (key : PubKey) (dataWithPadding : Bytes) :
    Nat → Bytes → Except Err Bytes
  | 0, _ => .error .tape
  | fuel + 1, tape =>
    if tape.length < tempKeySize then .error .tape
    else
      let tempKey := tape.take tempKeySize
      let kae := keyAesEncrypted P dataWithPadding tempKey
      if beNat kae ≥ key.n then rsaPadLoop P Q key dataWithPadding fuel (tape.drop tempKeySize)
      else .ok (rsaEncrypt Q key kae)

/-- `crypto.RSAPad(data, key, randomSource)` given that all random bytes are obtained with `io.ReadFull`. -/
def rsaPadCore (P : Prims) (Q : NumPrims) (key : PubKey) (data tape : Bytes) : Except Err Bytes :=
  if data.length > rsaPadDataLimit then .error .tooLong
  else if tape.length < dataWithPaddingLength - data.length then .error .tape
  else
    let dataWithPadding := data ++ tape.take (dataWithPaddingLength - data.length)
    rsaPadLoop P Q key dataWithPadding tape.length (tape.drop (dataWithPaddingLength - data.length))

/-- `crypto.RSAPad(data, key, randomSource)`; `tape` = the bytes the random source delivers, in whatever
chunks (guarded by the regenerated fact that the source is read through `io.ReadFull` only). -/
def rsaPad (P : Prims) (Q : NumPrims) (key : PubKey) (data tape : Bytes) : Except Err Bytes :=
  if readsViaReadFull Facts.C14.padRandomReads then rsaPadCore P Q key data tape else .error .shortRead

/-- `crypto.DecodeRSAPad(data, key)`; slices, xor / cipher / hash operands and the reversed buffer are
**regenerated** (`Facts.C14.dec…`) and interpreted. -/
def decodeRsaPad (P : Prims) (Q : NumPrims) (key : PrivKey) (data : Bytes) : Except Err Bytes :=
  match rsaDecrypt Q key data rsaLen with
  | none => .error .invalid
  | some encryptedData =>
    let w : W := ({} : W).set Facts.C14.decRsaDst encryptedData
    let w := (w.sliced Facts.C14.decSlices .tempKeyXor).sliced Facts.C14.decSlices .aesEncrypted
    let w := w.set .aesEncryptedHash (P.sha256 (w.cat Facts.C14.decSum256Arg))
    let w := w.xored Facts.C14.decXorArgs
    let w := w.ige (fun k iv src => Ige.dec (P.aesDec k) iv src) Facts.C14.decCipherKey Facts.C14.decIgeArgs
    let w := (w.sliced Facts.C14.decSlices .dataWithPadding).reversed Facts.C14.decReverseArg
    let w := w.sliced Facts.C14.decSlices .hash
    if w.get Facts.C14.decCompare = P.sha256 (w.cat Facts.C14.decHashWrites) then .ok w.dataWithPadding
    else .error .mismatch

/-- `crypto.RSAEncryptHashed(data, key, randomSource)` given `io.ReadFull`. -/
def rsaEncryptHashedCore (P : Prims) (Q : NumPrims) (key : PubKey) (data tape : Bytes) : Except Err Bytes :=
  if data.length > rsaDataLen then .error .tooLong
  else if tape.length < rsaWithHashLen then .error .tape
  else
    let rnd := tape.take rsaWithHashLen
    let dataWithHash := P.sha1 data ++ data ++ rnd.drop (Facts.C14.sha1Size + data.length)
    .ok (rsaEncrypt Q key dataWithHash)

/-- `crypto.RSAEncryptHashed(data, key, randomSource)` (guarded like `rsaPad`). -/
def rsaEncryptHashed (P : Prims) (Q : NumPrims) (key : PubKey) (data tape : Bytes) : Except Err Bytes :=
  if readsViaReadFull Facts.C14.hashedRandomReads then rsaEncryptHashedCore P Q key data tape
  else .error .shortRead

/-- The guessing loop of `RSADecryptHashed`: `i = 0 … len(paddedData)`, longest prefix first;
`n` = remaining prefix lengths to try below the current one. -/
def guessData (P : Prims) (hash paddedData : Bytes) : Nat → Option Bytes
  | 0 => if P.sha1 [] = hash then some [] else none
  | l + 1 =>
    if P.sha1 (paddedData.take (l + 1)) = hash then some (paddedData.take (l + 1))
    else guessData P hash paddedData l

/-- `crypto.RSADecryptHashed(data, key)`. -/
def rsaDecryptHashed (P : Prims) (Q : NumPrims) (key : PrivKey) (data : Bytes) : Except Err Bytes :=
  match rsaDecrypt Q key data rsaWithHashLen with
  | none => .error .invalid
  | some dataWithHash =>
    let hash := dataWithHash.take Facts.C14.sha1Size
    let paddedData := dataWithHash.drop Facts.C14.sha1Size
    match guessData P hash paddedData paddedData.length with
    | some d => .ok d
    | none => .error .mismatch

/-! ## RSA key fingerprint (rsa_fingerprint.go) -/

/-- `(*big.Int).Bytes()`: minimal big-endian bytes (`[]` for 0). -/
def beMin (n : Nat) : Bytes := if n = 0 then [] else beBytes (n.log2 / 8 + 1) n

/-- `crypto.RSAFingerprint`: the low 64 bits (little endian) of
`SHA1(TL-bytes(n.Bytes()) ‖ TL-bytes(e.Bytes()))`, i.e. bytes 12..19 of the digest, as an unsigned
64-bit pattern (Go returns it as `int64`). -/
def rsaFingerprint (P : Prims) (key : PubKey) : Nat :=
  fromLE (((P.sha1 (putBytes (beMin key.n) ++ putBytes (beMin key.e))).drop 12).take 8)

/-! ## The specification text (core.telegram.org/mtproto/auth_key, "RSA_PAD(data, server_public_key)")
written down independently of the code, for given random choices. -/
namespace Spec

/-- 1) `data_with_padding := data + random_padding_bytes` (192 bytes in total). -/
def dataWithPadding (data padding : Bytes) : Bytes := data ++ padding
/-- 2) `data_pad_reversed := BYTE_REVERSE(data_with_padding)`. -/
def dataPadReversed (dwp : Bytes) : Bytes := dwp.reverse
/-- 4) `data_with_hash := data_pad_reversed + SHA256(temp_key + data_with_padding)`. -/
def dataWithHash (P : Prims) (dwp tempKey : Bytes) : Bytes :=
  dataPadReversed dwp ++ P.sha256 (tempKey ++ dwp)
/-- 5) `aes_encrypted := AES256_IGE(data_with_hash, temp_key, 0)`. -/
def aesEncrypted (P : Prims) (dwp tempKey : Bytes) : Bytes :=
  Ige.enc (P.aesEnc tempKey) (List.replicate 32 0) (dataWithHash P dwp tempKey)
/-- 6) `temp_key_xor := temp_key XOR SHA256(aes_encrypted)`. -/
def tempKeyXor (P : Prims) (dwp tempKey : Bytes) : Bytes :=
  Ige.xorB tempKey (P.sha256 (aesEncrypted P dwp tempKey))
/-- 7) `key_aes_encrypted := temp_key_xor + aes_encrypted`. -/
def keyAesEncrypted (P : Prims) (dwp tempKey : Bytes) : Bytes :=
  tempKeyXor P dwp tempKey ++ aesEncrypted P dwp tempKey
/-- 8) the value is acceptable iff, as a big-endian number, it is below the RSA modulus. -/
def acceptable (P : Prims) (n : Nat) (dwp tempKey : Bytes) : Bool :=
  decide (beNat (keyAesEncrypted P dwp tempKey) < n)
/-- 9) `encrypted_data := RSA(key_aes_encrypted, server_pubkey)`: `m^e mod n` on exactly 256 bytes. -/
def encryptedData (n e : Nat) (kae : Bytes) : Bytes := beBytes 256 (beNat kae ^ e % n)

/-- The whole scheme for a given padding and a given sequence of candidate temp keys (3: "a random
32-byte temp_key is generated", 8: "the previous steps starting from the generation of new random
temp_key are repeated"): the first acceptable temp key is used. -/
def rsaPad (P : Prims) (n e : Nat) (data padding : Bytes) (tempKeys : List Bytes) : Option Bytes :=
  let dwp := dataWithPadding data padding
  match tempKeys.find? (acceptable P n dwp) with
  | some tk => some (encryptedData n e (keyAesEncrypted P dwp tk))
  | none => none

end Spec

/-- the random tape cut into 32-byte temp keys. -/
def chunks32 : Nat → Bytes → List Bytes
  | 0, _ => []
  | k + 1, t => t.take 32 :: chunks32 k (t.drop 32)

end TdModel.C14
