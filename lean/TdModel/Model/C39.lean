/-
C39 — model of /repo/telegram/query/messages/iter.go and /repo/telegram/query/dialogs/iter.go.

Messages are identified by their id (`Nat`, Telegram ids are ≥ 1; `offset_id = 0` means "from the
top" on the wire).  A *server* is a history `hist : List Nat` in the server's order (ids strictly
descending) answering `getHistory/search(offset_id, limit)` with the first `limit` ids strictly below
`offset_id`.  The response constructor (`messages.messages | messagesSlice | channelMessages`) is
chosen by a script (`List Kind`, one wish per request); `messages.messages` is by its TL definition
the *complete* answer, so the server honours that wish only when nothing remains beyond the page.

Dialogs are `(date, topMessageId, peer)` triples; the server order is strictly descending in the
lexicographic order of that triple and `getDialogs(offset_date, offset_id, offset_peer, limit)`
answers the first `limit` dialogs strictly below the offset triple (`(0,0,0)` = from the top).

The lastBatch rules, the sort direction and the buffer test are regenerated from the source
(`TdModel.Facts.C39`) and interpreted here.
-/
import TdModel.Util
import TdModel.Gen.C39

namespace TdModel.C39
open TdModel

/-- Constructor of the paginated answer. -/
inductive Kind where
  | full      -- messages.messages / messages.dialogs
  | slice     -- messages.messagesSlice / messages.dialogsSlice
  | channel   -- messages.channelMessages
  deriving Repr, DecidableEq, BEq

/-- Interpretation of a regenerated `m.lastBatch = <expr>` rule:
0 = `true`, 1 = `len(page) < m.limit`, 2 = `len(page) == 0`. -/
def lbRule (code len limit : Nat) : Bool :=
  match code with
  | 0 => true
  | 1 => decide (len < limit)
  | 2 => decide (len = 0)
  | _ => false

/-! ## messages -/

/-- Ids the server holds strictly below `off` (`0` = all). -/
def below (hist : List Nat) (off : Nat) : List Nat :=
  if off = 0 then hist else hist.filter (fun x => decide (x < off))

/-- The page answered to `(offset_id, limit)`. -/
def page (hist : List Nat) (off limit : Nat) : List Nat := (below hist off).take limit

/-- Constructor actually used for a request wishing `want`: `full` only for a complete answer. -/
def respKind (want : Kind) (remaining limit : Nat) : Kind :=
  match want with
  | .full => if remaining ≤ limit then .full else .slice
  | k => k

/-- `less(a, b)` of the `SortStable` call in `Iterator.apply` (regenerated direction: descending ids). -/
def sortLess (a b : Nat) : Bool :=
  if Facts.C39.sortDescending then decide (a > b) else decide (a < b)

/-- Stable insertion (first position whose element is not `less` than `x`... i.e. `x` goes before the
first `y` with `¬ less y x`). -/
def insertSorted (x : Nat) : List Nat → List Nat
  | [] => [x]
  | y :: l => if sortLess y x then y :: insertSorted x l else x :: y :: l

/-- `messages.SortStable(less)` as a stable insertion sort. -/
def sortStable : List Nat → List Nat
  | [] => []
  | x :: l => insertSorted x (sortStable l)

/-- `messages.Iterator` (fields that take part in iteration). `pos = bufCur + 1`. -/
structure Iter where
  buf : List Nat := []
  pos : Nat := 0
  limit : Nat
  lastBatch : Bool := false
  offsetID : Nat := 0
  /-- ids the server sends as `messageEmpty` (never in paginated answers of real servers): they take
  part in sorting and in the offset, but `AsNotEmpty` keeps them out of the buffer -/
  emptyIds : List Nat := []
  deriving Repr, DecidableEq

def Iter.init (limit : Nat) : Iter := { limit := limit }

def lbCode : Kind → Nat
  | .full => Facts.C39.msgLastBatchFull
  | .slice => Facts.C39.msgLastBatchSlice
  | .channel => Facts.C39.msgLastBatchChannel

/-- `Iterator.apply` for an answer of constructor `k` carrying `msgs`. -/
def Iter.apply (s : Iter) (k : Kind) (msgs : List Nat) : Iter :=
  if s.lastBatch then s
  else
    let lb := lbRule (lbCode k) msgs.length s.limit
    let sorted := sortStable msgs
    match sorted.getLast? with
    | none => { s with lastBatch := true }
    | some m => { s with lastBatch := lb, offsetID := m, pos := 0,
                         buf := sorted.filter (fun x => !s.emptyIds.contains x) }

/-- Observable behaviour of a run of `Next` calls. -/
structure Out where
  yields : List Nat := []
  /-- `(OffsetID, Limit)` of every request issued. -/
  reqs : List (Nat × Nat) := []
  /-- the last `Next` returned `false` (as opposed to: the fuel ran out). -/
  done : Bool := false
  deriving Repr, DecidableEq

/-- `bufNext` succeeds iff `pos < len(buf)` (regenerated test: `len(m.buf)-1 <= m.bufCur` fails). -/
def bufHas (s : Iter) : Bool :=
  if Facts.C39.bufNextStopsAtEnd then decide (s.pos < s.buf.length) else decide (s.pos ≤ s.buf.length)

/-- A server as the iterator sees it: request index, `OffsetID`, `Limit` ↦ constructor and page. -/
abbrev Server := Nat → Nat → Nat → Kind × List Nat

/-- `fuel` calls of `Iterator.Next` (stopping at the first `false`), collecting `Value()`s;
`i` = number of requests issued so far. -/
def runS (srv : Server) : Nat → Nat → Iter → Out
  | 0, _, _ => {}
  | fuel + 1, i, s =>
    if bufHas s then
      let o := runS srv fuel i { s with pos := s.pos + 1 }
      { o with yields := s.buf.getD s.pos 0 :: o.yields }
    else
      let a := srv i s.offsetID s.limit
      let s' := s.apply a.1 a.2
      let r := (s.offsetID, s.limit)
      if bufHas s' then
        let o := runS srv fuel (i + 1) { s' with pos := s'.pos + 1 }
        { yields := s'.buf.getD s'.pos 0 :: o.yields, reqs := r :: o.reqs, done := o.done }
      else { yields := [], reqs := [r], done := true }

/-- The history server with a constructor wish per request. -/
def histServer (hist : List Nat) (ks : List Kind) : Server := fun i off limit =>
  let rem := below hist off
  (respKind (ks.getD i .slice) rem.length limit, rem.take limit)

/-- A server replaying a fixed script of answers (then empty slices): used to drive `apply` with
arbitrary (unsorted, repeated) pages in the correspondence run. -/
def scriptServer (pages : List (Kind × List Nat)) : Server := fun i _ _ => pages.getD i (.slice, [])

def run (hist : List Nat) (fuel : Nat) (ks : List Kind) (s : Iter) : Out :=
  runS (histServer hist ks) fuel 0 s

/-! ## dialogs -/

/-- A dialog as seen by pagination: date and id of its top message, and its peer. -/
structure Dlg where
  date : Nat
  top : Nat
  peer : Nat
  deriving Repr, DecidableEq, BEq

/-- Strict lexicographic order on `(date, top, peer)`. -/
def Dlg.lt (a b : Dlg) : Bool :=
  decide (a.date < b.date) || (decide (a.date = b.date) && (decide (a.top < b.top) ||
    (decide (a.top = b.top) && decide (a.peer < b.peer))))

def Dlg.zero : Dlg := ⟨0, 0, 0⟩

def belowD (ds : List Dlg) (off : Dlg) : List Dlg :=
  if off = Dlg.zero then ds else ds.filter (fun d => d.lt off)

structure DIter where
  buf : List Dlg := []
  pos : Nat := 0
  limit : Nat
  lastBatch : Bool := false
  off : Dlg := Dlg.zero
  /-- peers whose user/chat/channel object is missing from the answers' entity maps: no input peer can
  be built for them (`entities.ExtractPeer` fails) -/
  noEntity : List Nat := []
  /-- `lastErr`: `apply` returned "get offset peer: …" -/
  err : Bool := false
  deriving Repr, DecidableEq

def DIter.init (limit : Nat) : DIter := { limit := limit }

def dlbCode : Kind → Nat
  | .full => Facts.C39.dlgLastBatchFull
  | _ => Facts.C39.dlgLastBatchSlice

/-- `dialogs.Iterator.apply`: the buffer is the page as sent; unless this was the last batch the offsets
move to the last dialog (top message id/date, and its input peer **built from the page's entities**): if
that peer cannot be built, `apply` fails ("get offset peer") and the iteration stops with an error —
it must not continue from a wrong offset. -/
def DIter.apply (s : DIter) (k : Kind) (ds : List Dlg) : DIter :=
  if s.lastBatch then s
  else
    let lb := lbRule (dlbCode k) ds.length s.limit
    match ds.getLast? with
    | some d => if lb then { s with lastBatch := lb, buf := ds, pos := 0 }
                else if Facts.C39.dlgOffsetPeerFromEntities && s.noEntity.contains d.peer then
                  { s with lastBatch := lb, buf := ds, pos := 0, err := true }
                else { s with lastBatch := lb, buf := ds, pos := 0,
                              off := if s.noEntity.contains d.peer then { d with peer := 0 } else d }
    | none => { s with lastBatch := lb, buf := [], pos := 0 }

structure DOut where
  yields : List Dlg := []
  reqs : List (Dlg × Nat) := []
  done : Bool := false
  /-- the iteration ended with `Err() != nil` -/
  err : Bool := false
  deriving Repr, DecidableEq

def dbufHas (s : DIter) : Bool :=
  if Facts.C39.dlgBufNextStopsAtEnd then decide (s.pos < s.buf.length) else decide (s.pos ≤ s.buf.length)

def respKindD (want : Kind) (remaining limit : Nat) : Kind :=
  match want with
  | .full => if remaining ≤ limit then .full else .slice
  | _ => .slice

abbrev DServer := Nat → Dlg → Nat → Kind × List Dlg

def drunS (srv : DServer) : Nat → Nat → DIter → DOut
  | 0, _, _ => {}
  | fuel + 1, i, s =>
    if dbufHas s then
      let o := drunS srv fuel i { s with pos := s.pos + 1 }
      { o with yields := s.buf.getD s.pos Dlg.zero :: o.yields }
    else
      let a := srv i s.off s.limit
      let s' := s.apply a.1 a.2
      let r := (s.off, s.limit)
      if s'.err then { yields := [], reqs := [r], done := true, err := true }
      else if dbufHas s' then
        let o := drunS srv fuel (i + 1) { s' with pos := s'.pos + 1 }
        { yields := s'.buf.getD s'.pos Dlg.zero :: o.yields, reqs := r :: o.reqs, done := o.done, err := o.err }
      else { yields := [], reqs := [r], done := true }

/-- The dialog server; `cap` = server-side page cap (Telegram silently clamps `limit`): a page holds
`min limit cap` dialogs, so non-final pages may be shorter than requested. -/
def dlgServer (ds : List Dlg) (ks : List Kind) (cap : Nat) : DServer := fun i off limit =>
  let rem := belowD ds off
  (respKindD (ks.getD i .slice) rem.length (min limit cap), rem.take (min limit cap))

def drun (ds : List Dlg) (fuel : Nat) (ks : List Kind) (cap : Nat) (s : DIter) : DOut :=
  drunS (dlgServer ds ks cap) fuel 0 s


/-! ## offset-based iterators (contacts/blocked, photos, channels/participants, messages/stickers/featured)

Not named by C39's anchors but built on a copy of the same `Next/bufNext/apply` skeleton: the offset is an
item count (`m.offset += len(page)`), the page is buffered as sent. -/

structure OIter where
  buf : List Nat := []
  pos : Nat := 0
  limit : Nat
  lastBatch : Bool := false
  offset : Nat := 0
  deriving Repr, DecidableEq

def OIter.init (limit : Nat) : OIter := { limit := limit }

/-- `apply` with the regenerated lastBatch rule code of the answer's constructor. -/
def OIter.apply (s : OIter) (code : Nat) (pg : List Nat) : OIter :=
  if s.lastBatch then s
  else { s with lastBatch := lbRule code pg.length s.limit, offset := s.offset + pg.length, buf := pg, pos := 0 }

structure OOut where
  yields : List Nat := []
  reqs : List (Nat × Nat) := []
  done : Bool := false
  deriving Repr, DecidableEq

/-- The server: items in its order, `(offset, limit)` ↦ `items[offset, offset + min limit cap)`; the
complete-answer constructor (rule `codeFull`) only when nothing remains beyond the page. -/
def offServer (items : List Nat) (ks : List Kind) (codeFull codeSlice cap : Nat) (i off limit : Nat) : Nat × List Nat :=
  let rem := items.drop off
  let ps := min limit cap
  (if ks.getD i .slice = .full ∧ rem.length ≤ ps then codeFull else codeSlice, rem.take ps)

def orunS (srv : Nat → Nat → Nat → Nat × List Nat) : Nat → Nat → OIter → OOut
  | 0, _, _ => {}
  | fuel + 1, i, s =>
    if s.pos < s.buf.length then
      let o := orunS srv fuel i { s with pos := s.pos + 1 }
      { o with yields := s.buf.getD s.pos 0 :: o.yields }
    else
      let a := srv i s.offset s.limit
      let s' := s.apply a.1 a.2
      let r := (s.offset, s.limit)
      if s'.pos < s'.buf.length then
        let o := orunS srv fuel (i + 1) { s' with pos := s'.pos + 1 }
        { yields := s'.buf.getD s'.pos 0 :: o.yields, reqs := r :: o.reqs, done := o.done }
      else { yields := [], reqs := [r], done := true }

end TdModel.C39
