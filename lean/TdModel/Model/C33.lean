/-
C33 — model of /repo/telegram/downloader: reader.go (`nextPlain`, `next`, `block.last`), stream.go,
parallel.go, sink.go, master.go (`Chunk`).

The remote file is `file : Bytes`; `upload.getFile(offset, limit)` answers `file[offset, offset+limit)`
(shorter or empty at the end).  A *server* is any function `offset → limit → Bytes`; theorems are about
`fileServer file`.

`stream` is sequential and modelled as a function.  `parallel` is modelled as a labelled transition
system whose actions are the two things a worker does between synchronisation points: `alloc` (take the
next offset from `nextPlain` under the reader's mutex) and `complete i` (the request for block `i`
returns: empty → signal stop; otherwise hand the block to the writer, then signal stop if it was short).
Any number of workers, any interleaving: the state does not even record who holds a block.

The comparison operators and increments are regenerated from the source (`TdModel.Facts.C33`).
-/
import TdModel.Util
import TdModel.Gen.C33

namespace TdModel.C33
open TdModel

abbrev Server := Nat → Nat → Bytes

/-- `upload.getFile` on the genuine file. -/
def fileServer (file : Bytes) : Server := fun off limit => (file.drop off).take limit

/-- `n < 1` test of stream/parallel: the block is empty, the file has been read completely. -/
def isEndN (n : Nat) : Bool :=
  if Facts.C33.emptyStops then decide (n < 1) else decide (n < 0)

def isEnd (data : Bytes) : Bool := isEndN data.length

/-- `block.last()`: the returned chunk is smaller than the requested part. -/
def isLastN (n ps : Nat) : Bool :=
  if Facts.C33.lastIsShorter then decide (n < ps) else decide (n ≤ ps)

def isLast (data : Bytes) (ps : Nat) : Bool := isLastN data.length ps

/-- offset of the `k`-th `nextPlain` call (`r.offset += int64(r.partSize)`). -/
def offsetOf (k ps : Nat) : Nat := k * (if Facts.C33.allocStepIsPartSize then ps else ps + 1)

/-- One request of `reader.next`: `(offset, limit)`. -/
abbrev Req := Nat × Nat

/-- The storage-type tag of the block `reader.next` hands on for an answer `(data, t)`: the chunk is
passed through as is, also when it is empty (`nextReturnsChunkAsIs`, regenerated). -/
def blockTag (data : Bytes) (t : Nat) : Option Nat :=
  if Facts.C33.nextReturnsChunkAsIs then some t else (if data.isEmpty then none else some t)

structure SOut where
  /-- data handed to `io.Writer.Write`, in order -/
  writes : List Bytes := []
  reqs : List Req := []
  /-- the reported file type: tag of the block that ended the download -/
  typ : Option Nat := none
  /-- the download loop returned (as opposed to: fuel ran out) -/
  done : Bool := false
  deriving Repr, DecidableEq

/-- `Downloader.stream`: blocks `k, k+1, …` until an empty or short one; `tag off` = storage type the
server attaches to the answer for `off`. -/
def stream (srv : Server) (tag : Nat → Nat) (ps : Nat) : Nat → Nat → SOut
  | 0, _ => {}
  | fuel + 1, k =>
    let off := offsetOf k ps
    let data := srv off ps
    if isEnd data then { writes := [], reqs := [(off, ps)], typ := blockTag data (tag off), done := true }
    else if isLast data ps then
      { writes := if Facts.C33.writeBeforeLastCheck then [data] else [], reqs := [(off, ps)],
        typ := blockTag data (tag off), done := true }
    else
      let o := stream srv tag ps fuel (k + 1)
      { writes := data :: o.writes, reqs := (off, ps) :: o.reqs, typ := o.typ, done := o.done }

/-- The requests of `stream` for a file of `size` bytes, computed on lengths only (used for files
beyond 2 GiB, whose bytes are never materialised; `stream_reqs_eq` ties it to `stream`). -/
def streamReqs (size ps : Nat) : Nat → Nat → List Req
  | 0, _ => []
  | fuel + 1, k =>
    let off := offsetOf k ps
    let n := min ps (size - off)
    if isEndN n then [(off, ps)]
    else if isLastN n ps then [(off, ps)]
    else (off, ps) :: streamReqs size ps fuel (k + 1)

/-! ## parallel -/

structure PState where
  /-- number of `nextPlain` calls so far -/
  k : Nat := 0
  /-- block indices taken by a worker whose request has not returned yet -/
  held : List Nat := []
  /-- `(offset, data)` handed to the `WriterAt`, in the order of hand-over -/
  writes : List (Nat × Bytes) := []
  /-- `ready` has been signalled -/
  stopped : Bool := false
  /-- `typOnce` has fired -/
  typSet : Bool := false
  /-- the type stored by the first `stop` -/
  typ : Option Nat := none
  deriving Repr, DecidableEq

inductive PAct where
  | alloc
  | complete (i : Nat)
  deriving Repr, DecidableEq

/-- `stop(t)`: `typOnce.Do(typ = t)`, `ready.Signal()`. -/
def PState.stop (s : PState) (t : Option Nat) : PState :=
  { s with stopped := true, typSet := true, typ := if s.typSet then s.typ else t }

def pstep (srv : Server) (tag : Nat → Nat) (ps : Nat) (s : PState) : PAct → Option PState
  | .alloc => some { s with k := s.k + 1, held := s.k :: s.held }
  | .complete i =>
    if i ∈ s.held then
      let data := srv (offsetOf i ps) ps
      let t := blockTag data (tag (offsetOf i ps))
      let held := s.held.erase i
      if isEnd data || (isLast data ps && !Facts.C33.writeBeforeLastCheck) then
        some ({ s with held := held }.stop t)
      else
        let s' := { s with held := held, writes := s.writes ++ [(offsetOf i ps, data)] }
        some (if isLast data ps then s'.stop t else s')
    else none

def prun (srv : Server) (tag : Nat → Nat) (ps : Nat) : PState → List PAct → Option PState
  | s, [] => some s
  | s, a :: rest => match pstep srv tag ps s a with
    | some s' => prun srv tag ps s' rest
    | none => none

/-- All workers have returned: nobody holds a block and stop was signalled (a worker leaves its loop
only after `ready` was signalled — by itself or by another worker). -/
def PState.finished (s : PState) : Bool := s.held.isEmpty && s.stopped

/-- Block `i` of the genuine file has data. -/
def live (file : Bytes) (ps i : Nat) : Bool := decide (offsetOf i ps < file.length)

/-- Block `i` as the writer must see it. -/
def blk (file : Bytes) (ps i : Nat) : Nat × Bytes := (offsetOf i ps, fileServer file (offsetOf i ps) ps)

/-! ## retries (`reader.next`) -/

inductive Resp where
  | ok | flood | timeout | err
  deriving Repr, DecidableEq, BEq

/-- Number of identical `(offset, limit)` requests and whether the chunk was finally obtained. -/
def attempts : List Resp → Nat × Bool
  | [] => (1, true)
  | .ok :: _ => (1, true)
  | .err :: _ => (1, false)
  | _ :: rest => let r := attempts rest; (r.1 + 1, r.2)

end TdModel.C33
