/-
C25 — the engine configuration as read from the source on this run: the regenerated raw facts
(`TdModel/Gen/C25.lean`) and their interpretation by `Rpc.Cfg.ofRaw`.
-/
import TdModel.Model.C24
import TdModel.Gen.C25
namespace TdModel.C25
open TdModel.Rpc

def raw : RawFacts :=
  { guardPresent := Facts.C25.guardPresent, guardWait := Facts.C25.guardWait,
    doSelect := Facts.C25.doSelect, loopSelect := Facts.C25.loopSelect,
    waitClosedPref := Facts.C25.waitClosedPref, loopClosedAck := Facts.C25.loopClosedAck,
    recheckAck := Facts.C25.recheckAck, recheckCtx := Facts.C25.recheckCtx,
    dropIfSent := Facts.C25.dropIfSent, nopOnCancel := Facts.C25.nopOnCancel,
    deleteOnReturn := Facts.C25.deleteOnReturn, removeAckDeferred := Facts.C25.removeAckDeferred,
    handlerLogFirst := Facts.C25.handlerLogFirst,
    ackUnknown := Facts.C25.ackUnknown, ackCloses := Facts.C25.ackCloses, ackDeletes := Facts.C25.ackDeletes }

/-- The engine as it is in the source, for a retry limit and interval. -/
def cfg (maxRetries interval : Nat) : Cfg := Cfg.ofRaw raw maxRetries interval

end TdModel.C25
