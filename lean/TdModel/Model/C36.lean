/-
C36 — model of /repo/telegram/message/entity/fix.go: `entitySorter.Less`, `SortEntities`.

The comparator is NOT written here: `Facts.C36.less` is regenerated on every run from the
boolean expression in the source.  `sort.Sort` is not modelled; its contract for a comparator
is `SortContract` below (output is a permutation of the input and has no adjacent inversion),
and `isort` is one executable function satisfying it (used by the driver).
-/
import TdModel.Gen.C36

namespace TdModel.C36

/-- Offset and length of a `tg.MessageEntityClass` (Go `int`s; arbitrary, possibly negative). -/
structure Ent where
  off : Int
  len : Int
  deriving Repr, DecidableEq, BEq

/-- `entitySorter.Less(i, j)` for `a = e[i]`, `b = e[j]` — the regenerated expression. -/
def less (a b : Ent) : Bool := Facts.C36.less a.off a.len b.off b.len

/-- The comparator of the pinned tree (before the `fix:` commit for D8), kept for the
counterexample: `a.off < b.off || a.len > b.len`. -/
def lessOld (a b : Ent) : Bool := decide (a.off < b.off) || decide (a.len > b.len)

/-- The specification's order (TDLib): offset ascending, for equal offsets length descending. -/
def Ordered (a b : Ent) : Prop := a.off < b.off ∨ (a.off = b.off ∧ b.len ≤ a.len)

instance (a b : Ent) : Decidable (Ordered a b) := by unfold Ordered; infer_instance

/-- No adjacent pair violates `r`. -/
def AdjSorted {α} (r : α → α → Prop) : List α → Prop
  | [] => True
  | [_] => True
  | a :: b :: t => r a b ∧ AdjSorted r (b :: t)

/-- What `sort.Sort` promises for the comparator `lt`: a permutation of the input in which no
element is `lt` its predecessor.  (For a strict weak order this is "sorted"; for anything else
it promises nothing useful, which is why `less_strict_weak_order` is part of the property.) -/
def SortContract (lt : Ent → Ent → Bool) (sort : List Ent → List Ent) : Prop :=
  ∀ l, (sort l).Perm l ∧ AdjSorted (fun a b => lt b a = false) (sort l)

/-- Insert before the first element that `x` is less than (stable insertion). -/
def insert (lt : Ent → Ent → Bool) (x : Ent) : List Ent → List Ent
  | [] => [x]
  | y :: t => if lt x y then x :: y :: t else y :: insert lt x t

/-- Executable stand-in for `sort.Sort(entitySorter(l))`. -/
def isort (lt : Ent → Ent → Bool) : List Ent → List Ent
  | [] => []
  | x :: t => insert lt x (isort lt t)

def sortEntities (l : List Ent) : List Ent := isort less l

/-- The property as a decidable monitor on an observed output list. -/
def holds : List Ent → Bool
  | [] => true
  | [_] => true
  | a :: b :: t => decide (Ordered a b) && holds (b :: t)

end TdModel.C36
