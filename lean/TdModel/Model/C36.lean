/-
C36 — model of /repo/telegram/message/entity/fix.go: `entitySorter.Less`, `SortEntities`.

The comparator is NOT written here: `Facts.C36.less` is regenerated on every run from the
boolean expression in the source.  `sort.Sort` is not modelled; its contract for a comparator
is `SortContract` below (output is a permutation of the input and has no adjacent inversion) —
which `sort.Sort` guarantees only when the comparator is a strict weak order.  `isort` is one
executable function meeting the contract when it can be met (used by the driver).

Defect D8 (open, see known_findings/C36.json): the source's comparator is `lessOld` below, which
is not a strict weak order.  `specLess` is the specification's comparator (TDLib's order).
-/
import TdModel.Gen.C36

namespace TdModel.C36

/-- Offset and length of a `tg.MessageEntityClass` (Go `int`s; arbitrary, possibly negative). -/
structure Ent where
  off : Int
  len : Int
  deriving Repr, DecidableEq, BEq

/-- `entitySorter.Less(i, j)` for `a = e[i]`, `b = e[j]` — the regenerated expression. -/
def less (a b : Ent) : Bool := Facts.C36.less a.off a.len b.off b.len

/-- The comparator of the pinned tree, written out: `a.off < b.off || a.len > b.len`. -/
def lessOld (a b : Ent) : Bool := decide (a.off < b.off) || decide (a.len > b.len)

/-- The specification's comparator: offset ascending, for equal offsets length descending. -/
def specLess (a b : Ent) : Bool := decide (a.off < b.off) || (decide (a.off = b.off) && decide (a.len > b.len))

/-- The specification's order on adjacent/any two positions of the result. -/
def Ordered (a b : Ent) : Prop := a.off < b.off ∨ (a.off = b.off ∧ b.len ≤ a.len)

instance (a b : Ent) : Decidable (Ordered a b) := by unfold Ordered; infer_instance

/-- No adjacent pair violates `r`. -/
def AdjSorted {α} (r : α → α → Prop) : List α → Prop
  | [] => True
  | [_] => True
  | a :: b :: t => r a b ∧ AdjSorted r (b :: t)

/-- What `sort.Sort` promises for a strict weak order `lt`: a permutation of the input in which
no element is `lt` its predecessor. -/
def SortContract (lt : Ent → Ent → Bool) (sort : List Ent → List Ent) : Prop :=
  ∀ l, (sort l).Perm l ∧ AdjSorted (fun a b => lt b a = false) (sort l)

/-- A strict weak order on the elements of `l`: irreflexive, transitive, and incomparability is
transitive (the precondition of `sort.Sort` for sorting `l`). -/
def StrictWeakOrderOn (lt : Ent → Ent → Bool) (l : List Ent) : Prop :=
  (∀ a ∈ l, lt a a = false) ∧
  (∀ a ∈ l, ∀ b ∈ l, ∀ c ∈ l, lt a b = true → lt b c = true → lt a c = true) ∧
  (∀ a ∈ l, ∀ b ∈ l, ∀ c ∈ l, lt a b = false → lt b a = false → lt b c = false → lt c b = false →
    lt a c = false ∧ lt c a = false)

/-- Lists on which ascending-offset order and descending-length order never contradict each other:
no entity starts later than another one *and* is longer.  (E.g. all lengths equal, or properly
nested spans.)  On these the pinned comparator coincides with the specification's. -/
def Compatible (l : List Ent) : Prop := ∀ a ∈ l, ∀ b ∈ l, b.off < a.off → a.len ≤ b.len

def compatible (l : List Ent) : Bool := l.all fun a => l.all fun b => !(decide (b.off < a.off)) || decide (a.len ≤ b.len)

/-- Insert before the first element that `x` is less than (stable insertion). -/
def insert (lt : Ent → Ent → Bool) (x : Ent) : List Ent → List Ent
  | [] => [x]
  | y :: t => if lt x y then x :: y :: t else y :: insert lt x t

/-- Executable stand-in for `sort.Sort(entitySorter(l))`. -/
def isort (lt : Ent → Ent → Bool) : List Ent → List Ent
  | [] => []
  | x :: t => insert lt x (isort lt t)

def sortEntities (l : List Ent) : List Ent := isort less l

/-- The property as a decidable monitor on an observed output list. -/
def holds : List Ent → Bool
  | [] => true
  | [_] => true
  | a :: b :: t => decide (Ordered a b) && holds (b :: t)

end TdModel.C36
