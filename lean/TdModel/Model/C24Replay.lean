/-
C24 / C25 / C26 — trace conformance: replay of a trace observed on the real `rpc.Engine` through
the model's `step`.

The harness knows which thread it released and what it observed afterwards (where the thread is
parked next, or what it returned, plus a snapshot of `Engine.rpc` / `Engine.ack` / `closed`), but
not which branch a Go `select` took.  A harness label `run id` therefore stands for every branch
action of that call; the replay keeps the set of model states whose observation equals the
implementation's (a subset construction), and fails when the set becomes empty.
Core Lean only (linked into the drivers).
-/
import TdModel.Model.C24
import TdModel.Util
namespace TdModel.Rpc

/-- A harness label: a model action, or `run id` = any `select` branch / guard pass of call `id`. -/
inductive Label
  | act (a : Action)
  | runCall (id : Nat)

def Label.candidates : Label → List Action
  | .act a => [a]
  | .runCall id =>
    [.loopSel id .ctx, .loopSel id .closed, .loopSel id .ack, .loopSel id .tick,
     .waitSel id .ctx, .waitSel id .closed, .waitSel id .done, .gpass id]

def showRet : Ret → String
  | .ok => "ok"
  | .rpcErr c => s!"rpc{c}"
  | .decodeErr => "decodeErr"
  | .ctxErr => "ctx"
  | .closedRetry => "closedRetry"
  | .closedNoRetry => "closedNoRetry"
  | .sendErr => "sendErr"
  | .retryLimit n => s!"retryLimit{n}"

def showPc : Pc → String
  | .send0 => "send"
  | .loop => "retry.wait"
  | .sendR => "send"
  | .wait => "do.wait"
  | .drop => "drop"
  | .guard => "do.guard"
  | .fin => "fin"

def showCallAt (c : Call) : String :=
  match c.ret with
  | some r => "fin:" ++ showRet r
  | none => showPc c.pc

def showNotifAt (n : Notif) : String :=
  match n.pc with
  | .invoke => "notify.invoke"
  | .entered => "handler.log"
  | .cas => "handler.cas"
  | .decode => "decode"
  | .fin => match n.nret with
    | .ok => "fin:ok"
    | .already => "fin:already"
    | .decodeErr => "fin:decodeErr"

def showNats (l : List Nat) : String :=
  if l.isEmpty then "-" else ",".intercalate (l.map toString)

def b01 (b : Bool) : String := if b then "1" else "0"

/-- Insertion sort (ids are few). -/
def sortNats : List Nat → List Nat
  | [] => []
  | x :: xs => ins x (sortNats xs)
where
  ins (x : Nat) : List Nat → List Nat
    | [] => [x]
    | y :: ys => if x ≤ y then x :: y :: ys else y :: ins x ys

def State.ids (s : State) : List Nat := sortNats s.started

/-- Snapshot of the engine's maps as `VerifC24Snapshot` returns it. -/
def snapshot (s : State) : String :=
  let r := s.ids.filter (fun i => (s.rpc i).isSome)
  let a := s.ids.filter (fun i => s.ack i)
  s!"rpc={showNats r} ack={showNats a} closed={b01 s.closed}"

/-- Ids of the calls whose retry-timer channel holds a value. -/
def firedIds (s : State) : List Nat :=
  s.ids.filter (fun i => match s.calls i with
    | some c => c.fired
    | none => false)

/-- The observation the harness makes after action `a`. -/
def observe (s : State) (a : Action) : String :=
  let thread : String :=
    match a with
    | .start id _ _ | .sret id _ | .loopSel id _ | .waitSel id _ | .dret id _ | .gpass id =>
      match s.calls id with
      | some c => showCallAt c
      | none => "?"
    | .nstart nid _ _ _ | .nrun nid | .nwrite nid _ =>
      match s.notifs nid with
      | some n => showNotifAt n
      | none => "?"
    | .advance _ => "fired=" ++ showNats (firedIds s)
    | .ack _ => if s.panicked then "panic" else "-"
    | _ => "-"
  thread ++ " " ++ snapshot s

def showCallFull (i : Nat) (c : Call) : String :=
  s!"c{i}:{showCallAt c}:sent={b01 c.sent}:sends={c.sends}:drops={c.drops}:acked={b01 c.acked}:w={showNats c.writes}"

/-- Everything of the final state that the harness can observe on the implementation. -/
def summary (s : State) : String :=
  let cs := s.ids.filterMap (fun i => (s.calls i).map (showCallFull i))
  let lg := s.log.map (fun (i, q, b) => s!"{i}/{q}/{b}")
  " ".intercalate cs ++ " log=" ++ (if lg.isEmpty then "-" else ",".intercalate lg)

def showOwner : Option Owner → String
  | none => "n"
  | some .caller => "c"
  | some (.notif k) => s!"n{k}"

def showHRef : Option HRef → String
  | none => "_"
  | some .nop => "nop"
  | some (.real k) => s!"r{k}"

/-- Canonical dump of the whole state (used to merge equal states of the subset construction). -/
def fingerprint (s : State) : String :=
  let cs := s.ids.filterMap (fun i => (s.calls i).map (fun c =>
    showCallFull i c ++ s!":{showPc c.pc}:o={showOwner c.owner}:d={b01 c.done}:r={showRet c.res}:x={b01 c.ctxC}" ++
      s!":f={b01 c.fired}:dl={match c.deadline with | some t => toString t | none => "-"}:rt={c.retries}:p={showRet c.pend}" ++
      s!":h={showHRef (s.rpc i)}:a={b01 (s.ack i)}"))
  let ns := (sortNats s.nstarted).filterMap (fun i => (s.notifs i).map (fun n =>
    s!"n{i}:{n.target}:{b01 n.isErr}:{n.val}:{showNotifAt n}:{showHRef (some n.fn)}"))
  " ".intercalate cs ++ " | " ++ " ".intercalate ns ++ s!" | {b01 s.closed}{b01 s.reqC}{b01 s.panicked} cl={showNats s.closers} t={s.now} " ++ summary s

def dedupBy (key : State → String) : List State → List String → List State
  | [], _ => []
  | s :: ss, seen =>
    let k := key s
    if seen.contains k then dedupBy key ss seen else s :: dedupBy key ss (k :: seen)

/-- One step of the subset construction. -/
def stepSet (cfg : Cfg) (ss : List State) (l : Label) (obs : String) : List State :=
  let next := ss.flatMap (fun s => l.candidates.filterMap (fun a =>
    match step cfg s a with
    | some s' => if observe s' a == obs then some s' else none
    | none => none))
  dedupBy fingerprint next []

/-- What the model would have shown instead (for the failure message). -/
def alternatives (cfg : Cfg) (ss : List State) (l : Label) : List String :=
  ss.flatMap (fun s => l.candidates.filterMap (fun a =>
    match step cfg s a with
    | some s' => some (observe s' a)
    | none => none))

def parseOutcome : String → Option Outcome
  | "ok" => some .ok
  | "err" => some .err
  | "can" => some .canceled
  | _ => none

def parseLabel (ws : List String) : Option Label :=
  match ws with
  | ["start", i, q, b] => do pure (.act (.start (← i.toNat?) (← q.toNat?) (← b.toNat?)))
  | ["sret", i, o] => do pure (.act (.sret (← i.toNat?) (← parseOutcome o)))
  | ["run", i] => do pure (.runCall (← i.toNat?))
  | ["dret", i, o] => do pure (.act (.dret (← i.toNat?) (← parseOutcome o)))
  | ["nres", n, t, v] => do pure (.act (.nstart (← n.toNat?) (← t.toNat?) false (← v.toNat?)))
  | ["nerr", n, t, v] => do pure (.act (.nstart (← n.toNat?) (← t.toNat?) true (← v.toNat?)))
  | ["nrun", n] => do pure (.act (.nrun (← n.toNat?)))
  | ["nwrite", n, o] => do pure (.act (.nwrite (← n.toNat?) (← parseOutcome o)))
  | "ack" :: ids => do pure (.act (.ack (← ids.mapM String.toNat?)))
  | ["cancel", i] => do pure (.act (.cancel (← i.toNat?)))
  | ["adv", d] => do pure (.act (.advance (← d.toNat?)))
  | ["close", k] => do pure (.act (.close (← k.toNat?)))
  | ["fclose", k] => do pure (.act (.fclose (← k.toNat?)))
  | ["cret", k] => do pure (.act (.cret (← k.toNat?)))
  | _ => none

/-- Replay `items` (each `label > observation`) from the state set `ss`; `k` counts steps. -/
def replayFrom (cfg : Cfg) : List State → Nat → List String → String
  | ss, _, [] =>
    let sums := (ss.map summary).eraseDups
    "ok " ++ " || ".intercalate sums
  | ss, k, item :: rest =>
    match item.splitOn " > " with
    | [l, obs] =>
      match parseLabel (words l) with
      | none => "bad-op"
      | some lab =>
        let ss' := stepSet cfg ss lab obs.trimAscii.toString
        if ss'.isEmpty then
          s!"stuck {k} [{l.trimAscii.toString}] impl=[{obs.trimAscii.toString}] model=[{" ## ".intercalate (alternatives cfg ss lab).eraseDups}]"
        else replayFrom cfg ss' (k + 1) rest
    | _ => "bad-op"

/-- `replay <maxRetries> <interval> | label > obs | label > obs | …` -/
def handleReplay (mk : Nat → Nat → Cfg) (line : String) : String :=
  match line.splitOn " | " with
  | hd :: items =>
    match words hd with
    | ["replay", mr, iv] =>
      match mr.toNat?, iv.toNat? with
      | some mr, some iv =>
        replayFrom (mk mr iv) [init] 0
          (items.filter (fun s => s.trimAscii.toString ≠ ""))
      | _, _ => "bad-op"
    | _ => "bad-op"
  | [] => "bad-op"

end TdModel.Rpc
