/-
C02/C03 — Part B: executable model of `updates.Manager` (state.go, state_apply.go,
state_channel.go) around the fake server of harness/c02/mgr.

One main process (`internalState.Run`) and one process per tracked channel (`channelState.Run`),
run to quiescence after every harness action (the harness waits for quiescence too, so that the
per-process projection of the trace is deterministic).  Every touch of a sequence box goes through
`C02Core.sstep` (Part A) and is logged in `ops`, so each scenario's per-sequence op list can be
replayed through the proved per-sequence LTS.

The order of dispatch / persist / callback / re-route inside `applyPts`, `applyQts`, channel
`applyPts` and every branch of the two `getDifference`s is NOT written here: the model interprets
`Orders`, whose lists are regenerated from the Go AST on every run.
-/
import TdModel.Model.C02Core

namespace TdModel.C02Core
open TdModel.C01

/-- The calls of telegram/updates the model interprets (codes = harness/c02/mgr `callCtors`). -/
inductive Call where
  | dispatch | reroute | sendOut | setStateClosure | storeState | storePts | storeQts | storeSeq
  | storeDate | storeDateSeq | storeChannelPts | boxSetPts | boxSetQts | boxSetSeq | tooLongCb
  | recurse | apiDiff | apiChDiff | clearPts | clearQts | clearSeq | unknownStore | bad
  deriving DecidableEq, Repr

def Call.ofCode : Nat → Call
  | 0 => .dispatch | 1 => .reroute | 2 => .sendOut | 3 => .setStateClosure | 4 => .storeState
  | 5 => .storePts | 6 => .storeQts | 7 => .storeSeq | 8 => .storeDate | 9 => .storeDateSeq
  | 10 => .storeChannelPts | 11 => .boxSetPts | 12 => .boxSetQts | 13 => .boxSetSeq
  | 14 => .tooLongCb | 15 => .recurse | 16 => .apiDiff | 17 => .apiChDiff | 18 => .clearPts
  | 19 => .clearQts | 20 => .clearSeq | 21 => .unknownStore | _ => .bad

/-- Regenerated call orders and routing facts. -/
structure Orders where
  applyPts : List Call
  applyQts : List Call
  chApplyPts : List Call
  diffPrelude : List Call
  diffSetState : List Call
  diffDifference : List Call
  diffEmpty : List Call
  diffSlice : List Call
  diffTooLong : List Call
  chDiffPrelude : List Call
  chDiffDifference : List Call
  chDiffEmpty : List Call
  chDiffTooLong : List Call
  /-- guards of the dispatch calls in the difference branches: codes of the lists whose
  non-emptiness enables the call (0 new_messages, 1 new_encrypted_messages, 2 own; 100 = always) -/
  diffGuard : List Nat
  sliceGuard : List Nat
  chDiffGuard : List Nat
  /-- `handleChannel` on first contact persists `localPts` (= pts − ptsCount), the position the new
  worker starts from (true), or something else (false: the update's own pts) -/
  creationStoresLocal : Bool
  /-- the marker skip in `internalState.applyPts` / `channelState.applyPts` is `break`, not `continue` -/
  applyPtsBreak : Bool
  chApplyPtsBreak : Bool
  /-- other_updates of a common difference that carry a common pts/qts are dispatched directly
  (with the new messages) instead of being re-routed through `handleUpdates` (the D11 repair). -/
  ownDirect : Bool
  /-- same for a channel difference and updates of that channel -/
  chOwnDirect : Bool
  diffLimit : Nat



/-- Sequence keys: 0 = common pts, 1 = qts, 2 + c = channel c. -/
def Entry.seqKey (e : Entry) : Option Nat :=
  match e.kind with
  | .msg | .other | .aff => some 0
  | .qts | .qother => some 1
  | .chmsg | .chother | .chaff => some (2 + e.chan)
  | .plain => none

def Entry.isMarker (e : Entry) : Bool := e.kind == .aff || e.kind == .chaff

/-- Ids of count-0 affected results (they are not log entries) start here. -/
def ephemeralBase : Nat := 900000

/-- Which update tags are `affectedPts` markers in a scenario. -/
def mkOf (log : List Entry) : Nat → Bool :=
  fun i => decide (ephemeralBase ≤ i) || log.any fun e => e.id == i && e.isMarker

inductive Event where
  | dispatch (ids : List Nat)
  | storePts (v : Int)
  | storeQts (v : Int)
  | storeState (p q : Int)
  | storeChan (c : Nat) (v : Int)
  | apiDiff (p q : Int)
  | apiChDiff (c : Nat) (p : Int)
  | tooLong
  | chTooLong (c : Nat)
  | apiRestore (p q : Int)   -- `restoreAccessHash`: a getDifference only to learn a channel's access hash
  | storeSeq (v : Int)       -- `SetSeq` (`applySeq`, `applyCombined` of a container with a seq)
  | inaccessible (c : Nat)   -- `OnChannelInaccessible`: the channel's difference answered CHANNEL_PRIVATE
  deriving DecidableEq, Repr

/-! ### The fake server (harness/c02/mgr/world.go) -/

structure World where
  log : List Entry
  emitted : Nat := 0
  p0 : Int
  q0 : Int
  c0 : List (Nat × Int)
  slice : Nat := 0
  chSlice : Nat := 0
  tooLongNext : Bool := false
  chTooLong : List Nat := []
  /-- extra `other_updates` the next non-too-long difference answer of a sequence will carry
  (key 0: the common difference, 2 + c: channel c): updates of OTHER sequences, position-less
  updates, updates of unknown channels — forwarded by the server inside this difference -/
  extra : List (Nat × List Nat) := []
  /-- keys (0 common, 2 + c channel) whose next difference request fails with a transient RPC error -/
  failNext : List Nat := []
  /-- channels whose access hash the client only learns later (action `known`) -/
  late : List Nat := []
  known : List Nat := []
  /-- what the storage holds for channels (tracked or not) when the manager starts -/
  persisted : List (Nat × Int) := []
  /-- declared first-contact positions of channels without stored state (derived by the harness
  from what it sends; verified by the model at creation time) -/
  cr : List (Nat × Int) := []
  /-- the server's `seq` (number of the last container it has sent, delivered or not) -/
  seqNow : Nat := 0
  /-- channels the account cannot access right now: their difference answers CHANNEL_PRIVATE -/
  priv : List Nat := []
  deriving Repr

def World.happened (w : World) : List Entry := w.log.take w.emitted

def lastPos (init : Int) (p : Entry → Bool) (es : List Entry) : Int :=
  es.foldl (fun acc e => if p e then e.pos else acc) init

def World.serverPts (w : World) : Int := lastPos w.p0 (fun e => e.seqKey == some 0) w.happened
def World.serverQts (w : World) : Int := lastPos w.q0 (fun e => e.seqKey == some 1) w.happened
def World.chanInit (w : World) (c : Nat) : Int := ((w.c0.find? (·.1 == c)).map (·.2)).getD 0
def World.serverChan (w : World) (c : Nat) : Int :=
  lastPos (w.chanInit c) (fun e => e.seqKey == some (2 + c)) w.happened

/-- Channels whose access hash nobody knows (harness/c02/mgr `hasher`). -/
def unknownChan (c : Nat) : Bool := decide (9000 ≤ c)

/-- Does the client lack the channel's access hash (harness/c02/mgr `hasher`)? -/
def World.hashUnknown (w : World) (c : Nat) : Bool :=
  unknownChan c || (w.late.contains c && !w.known.contains c)

/-- The extra entries waiting for the next answer of key `k`. -/
def World.extrasOf (w : World) (k : Nat) : List Entry :=
  (((w.extra.find? (·.1 == k)).map (·.2)).getD []).filterMap fun i => w.log.find? (·.id == i)

def World.dropExtras (w : World) (k : Nat) : World := { w with extra := w.extra.filter (·.1 != k) }

/-- First `n` elements (all if `n = 0`) and whether something was cut off. -/
def cut (n : Nat) (es : List Entry) : List Entry × Bool :=
  if n > 0 ∧ es.length > n then (es.take n, true) else (es, false)

inductive DiffAns where
  | error            -- the RPC failed (transient): nothing is learnt, nothing changes
  | tooLong (p : Int)
  | empty
  | diff (msgs enc others : List Entry) (p q : Int) (slice : Bool)
  deriving Repr

/-- `World.commonDifference`. -/
def World.commonDiff (w : World) (pts qts : Int) : World × DiffAns :=
  if w.failNext.contains 0 then ({ w with failNext := w.failNext.filter (· != 0) }, .error)
  else if w.tooLongNext then ({ w with tooLongNext := false }, .tooLong w.serverPts)
  else
    let cand := w.happened.filter fun e =>
      (e.seqKey == some 0 && decide (e.pos > pts)) || (e.seqKey == some 1 && decide (e.pos > qts))
    let (part, more) := cut w.slice cand
    let extras := w.extrasOf 0
    if part.isEmpty && extras.isEmpty then (w, .empty)
    else
      let p := lastPos pts (fun e => e.seqKey == some 0) part
      let q := lastPos qts (fun e => e.seqKey == some 1) part
      let p := if more then p else max p w.serverPts
      let q := if more then q else max q w.serverQts
      (w.dropExtras 0, .diff (part.filter (·.kind == .msg)) (part.filter (·.kind == .qts))
            ((part.filter fun e => e.kind == .other || e.kind == .qother) ++ extras) p q more)

inductive ChDiffAns where
  | error
  | priv             -- CHANNEL_PRIVATE: the channel has become inaccessible
  | tooLong (p : Int)
  | empty (p : Int)
  | diff (msgs others : List Entry) (p : Int) (final : Bool)
  deriving Repr

/-- `World.channelDifference`. -/
def World.chanDiff (w : World) (c : Nat) (pts : Int) : World × ChDiffAns :=
  if w.failNext.contains (2 + c) then ({ w with failNext := w.failNext.filter (· != 2 + c) }, .error)
  else if w.priv.contains c then (w, .priv)
  else if w.chTooLong.contains c then ({ w with chTooLong := w.chTooLong.filter (· != c) }, .tooLong (w.serverChan c))
  else
    let cand := w.happened.filter fun e => e.seqKey == some (2 + c) && decide (e.pos > pts)
    let (part, more) := cut w.chSlice cand
    let extras := w.extrasOf (2 + c)
    if part.isEmpty && extras.isEmpty then (w, .empty (max pts (w.serverChan c)))
    else (w.dropExtras (2 + c), .diff (part.filter (·.kind == .chmsg)) ((part.filter (·.kind == .chother)) ++ extras)
                (if part.isEmpty then max pts (w.serverChan c) else lastPos pts (fun _ => true) part) (!more))

/-! ### The manager -/

inductive ChItem where
  | upd (e : Entry)
  | tooLong (pts : Option Int)
  | subscribe            -- the first thing a new worker does: `getDifference("channel-subscribe")`
  deriving Repr

structure Chan where
  id : Nat
  box : Box
  queue : List ChItem := []
  deriving Repr

structure Mgr where
  pts : Box
  qts : Box
  chans : List Chan
  internal : List (List Entry) := []
  w : World
  trace : List Event := []
  ops : List (Nat × SOp) := []
  /-- the scenario declared a first-contact position that is not what happened -/
  bad : Bool := false
  /-- the `seq` box: its updates are whole containers (`tag` = index into `parked`) -/
  seq : Box := { state := 0 }
  /-- the containers that went through the seq box -/
  parked : List (List Entry) := []
  /-- users whose access hash the client knows -/
  users : List Nat := []
  deriving Repr

def Mgr.emit (m : Mgr) (evs : List Event) : Mgr := { m with trace := m.trace ++ evs }
/-- `s.seq.SetState(v)`. -/
def Mgr.setSeqState (m : Mgr) (v : Int) : Mgr := { m with seq := { m.seq with state := v } }
/-- `s.seq.SetState(state.Seq)` with the seq of a difference answer (the server's current seq). -/
def Mgr.setSeqNow (m : Mgr) : Mgr := m.setSeqState m.w.seqNow
/-- any other change of the seq box (buffer, gaps, timer) -/
def Mgr.withSeq (m : Mgr) (b : Box) : Mgr := { m with seq := b }
/-- `s.seq.gaps.Clear()`. -/
def Mgr.clearSeqGaps (m : Mgr) : Mgr := m.withSeq { m.seq with gaps := [] }
def Mgr.logOp (m : Mgr) (k : Nat) (op : SOp) : Mgr := { m with ops := m.ops ++ [(k, op)] }

/-- The per-sequence view of one call: does it dispatch / persist / set the box / report
too-long for the sequence with store call `st` and box call `bx`? -/
def seqCall1 (st bx : Call) (c : Call) : List SCall :=
  if c = .dispatch then [SCall.dispatch]
  else if c = st then [.store]
  else if c = bx then [.setBox]
  else if c = .tooLongCb then [.cb]
  else []

/-- The per-sequence view of a call list (`setState(...)` expands to the closure's calls). -/
def seqCalls (st bx : Call) (closure : List Call) (calls : List Call) : List SCall :=
  calls.flatMap fun c =>
    if c = .setStateClosure then closure.flatMap (seqCall1 st bx) else seqCall1 st bx c

def evOfSeq (k : Nat) : SEv → Event
  | .dispatch ids => .dispatch ids
  | .store v => if k = 0 then .storePts v else if k = 1 then .storeQts v else .storeChan (k - 2) v
  | .tooLong => if k = 0 then .tooLong else .chTooLong (k - 2)

def Mgr.getBox (m : Mgr) (k : Nat) : Option Box :=
  if k = 0 then some m.pts else if k = 1 then some m.qts
  else (m.chans.find? (·.id == k - 2)).map (·.box)

def Mgr.setBox (m : Mgr) (k : Nat) (b : Box) : Mgr :=
  if k = 0 then { m with pts := b } else if k = 1 then { m with qts := b }
  else { m with chans := m.chans.map fun ch => if ch.id == k - 2 then { ch with box := b } else ch }

def applyCallsOf (O : Orders) (k : Nat) : List SCall :=
  if k = 0 then seqCalls .storePts .bad [] O.applyPts
  else if k = 1 then seqCalls .storeQts .bad [] O.applyQts
  else seqCalls .storeChannelPts .bad [] O.chApplyPts

/-- The apply callback of sequence `k` (`applyQts` has no marker handling: qts markers do not exist). -/
def applyCfgOf (O : Orders) (mk : Nat → Bool) (k : Nat) : ACfg :=
  { calls := applyCallsOf O k
    breakAtMarker := if k = 0 then O.applyPtsBreak else if k = 1 then false else O.chApplyPtsBreak
    isMarker := mk }

/-- Run one per-sequence op on sequence `k` (Part A's `sstep`), emit its events, log it. -/
def Mgr.seqOp (O : Orders) (m : Mgr) (k : Nat) (op : SOp) : Mgr :=
  match m.getBox k with
  | none => m
  | some b =>
    let r := sstep (applyCfgOf O (mkOf m.w.log) k) b op
    ((m.setBox k r.1).emit (r.2.map (evOfSeq k))).logOp k op

/-- The same without emitting: used where one global event belongs to two sequences (a common
difference dispatches one batch and writes one `SetState` for pts and qts together). -/
def Mgr.seqOpQuiet (O : Orders) (m : Mgr) (k : Nat) (op : SOp) : Mgr :=
  match m.getBox k with
  | none => m
  | some b => (m.setBox k (sstep (applyCfgOf O (mkOf m.w.log) k) b op).1).logOp k op

/-- `ptsSorter.Less`. -/
def sortRank (e : Entry) : Nat :=
  match e.kind with
  | .plain => 0 | .msg | .other | .aff => 1 | .qts | .qother => 2 | .chmsg | .chother | .chaff => 3

def sortLess (a b : Entry) : Bool :=
  if sortRank a < sortRank b then true
  else if sortRank a > sortRank b then false
  else match sortRank a with
    | 0 => false
    | 1 => decide (a.pos - a.count < b.pos - b.count)
    | 2 => decide (a.pos < b.pos)
    | _ => if a.chan < b.chan then true else if a.chan > b.chan then false
           else decide (a.pos - a.count < b.pos - b.count)

def insertSorted (x : Entry) : List Entry → List Entry
  | [] => [x]
  | y :: ys => if sortLess y x then y :: insertSorted x ys else x :: y :: ys

/-- `sortUpdatesByPts` (stable). -/
def sortUpdates (l : List Entry) : List Entry := l.foldr insertSorted []

def Mgr.pushChan (m : Mgr) (c : Nat) (it : ChItem) : Mgr :=
  { m with chans := m.chans.map fun ch => if ch.id == c then { ch with queue := ch.queue ++ [it] } else ch }

def Mgr.hasChan (m : Mgr) (c : Nat) : Bool := m.chans.any (·.id == c)

/-- `newChannelState` + `s.channels[id] = state` + `wg.Go(state.Run)`. -/
def Mgr.addChan (m : Mgr) (c : Nat) (pts : Int) : Mgr :=
  { m with chans := m.chans ++ [{ id := c, box := { state := pts } }] }

/-- `delete(s.channels, id)`: the channel's worker has stopped because the channel is inaccessible. -/
def Mgr.removeChan (m : Mgr) (c : Nat) : Mgr := { m with chans := m.chans.filter (·.id != c) }

/-- The last channel pts written for `c` in a trace (`v0` if none). -/
def lastStoreChan (c : Nat) (v0 : Option Int) : List Event → Option Int
  | [] => v0
  | .storeChan c' v :: r => lastStoreChan c (if c' = c then some v else v0) r
  | _ :: r => lastStoreChan c v0 r

/-- (Re)start a worker for channel `c` at `v`. -/
def Mgr.recreate (m : Mgr) (c : Nat) (v : Int) : Mgr := (m.addChan c v).logOp (2 + c) .reset

/-- `internalState.handleChannel` for a channel that has no worker (never met, or removed after it
became inaccessible). `storage.GetChannelPts` finds what was written last during this run, else
what the storage held when the manager started. -/
def Mgr.firstContact (O : Orders) (m : Mgr) (e : Entry) : Mgr :=
  let c := e.chan
  if m.w.hashUnknown c then
    -- no access hash: `restoreAccessHash` costs one getDifference and the update is dropped
    m.emit [.apiRestore m.pts.state m.qts.state]
  else
    match m.w.persisted.find? (·.1 == c) with
    | some sp =>
      -- the storage knows the channel: the worker starts from the stored pts, nothing is written
      (((m.recreate c ((lastStoreChan c (some sp.2) m.trace).getD sp.2)).pushChan c .subscribe)).pushChan c (.upd e)
    | none =>
      match m.w.cr.find? (·.1 == c) with
      | none => { m with bad := true }
      | some d =>
        match lastStoreChan c none m.trace with
        | some v =>
          -- met before during this run (and removed since): the storage has what was written then
          ((m.recreate c v).pushChan c .subscribe).pushChan c (.upd e)
        | none =>
          if d.2 = e.pos - e.count then
            -- localPts = pts − ptsCount; the initial SetChannelPts; a worker starting there
            let m := m.recreate c d.2
            let m := m.seqOp O (2 + c) (.seq storeOnlyShape (if O.creationStoresLocal then d.2 else e.pos) [])
            (m.pushChan c .subscribe).pushChan c (.upd e)
          else { m with bad := true }

/-- Routing of one update of a container (`applyCombined`'s loop body). -/
def Mgr.route (O : Orders) (m : Mgr) (e : Entry) : Mgr :=
  match e.kind with
  | .msg | .other => m.seqOp O 0 (.push e)
  | .qts | .qother => m.seqOp O 1 (.push e)
  | .chmsg | .chother =>
    -- `handleChannel`
    if m.hasChan e.chan then m.pushChan e.chan (.upd e) else m.firstContact O e
  | .plain | .aff | .chaff => m

/-- `internalState.applyCombined` for a container without seq/date. -/
def Mgr.applyCombined (O : Orders) (m : Mgr) (container : List Entry) : Mgr :=
  let sorted := sortUpdates container
  let m := sorted.foldl (fun m e => m.route O e) m
  let plains := sorted.filter (·.kind == .plain)
  if plains.isEmpty then m else m.emit [.dispatch (plains.map (·.id))]

/-- `applyCombined` of a container that carries a seq: after routing, `SetSeq` and `seq.SetState`
(containers carry no date in the scenarios). -/
def Mgr.applyCombinedSeq (O : Orders) (m : Mgr) (container : List Entry) (seq : Int) : Mgr :=
  let m := m.applyCombined O container
  if seq > 0 then (m.setSeqState seq).emit [.storeSeq seq] else m

/-- The `applySeq` callback for the events of one `seq.Handle`: every container of an applied
batch goes through `applyCombined`, then `SetSeq(new state)`. -/
def Mgr.applySeqEvs (O : Orders) (m : Mgr) : List TdModel.C01.Ev → Mgr
  | [] => m
  | .apply ns us _ :: rest =>
    let m := us.foldl (fun (m : Mgr) u => m.applyCombinedSeq O (m.parked.getD u.tag []) u.state) m
    Mgr.applySeqEvs O (m.emit [.storeSeq ns]) rest
  | _ :: rest => Mgr.applySeqEvs O m rest

/-- `internalState.handleSeq` for a container with `seq_start = a`, `seq = b`. -/
def Mgr.handleSeq (O : Orders) (m : Mgr) (container : List Entry) (a b : Nat) : Mgr :=
  if b = 0 then m.applyCombined O container
  else
    let u : Upd := { state := b, count := (b : Int) - a + 1, tag := m.parked.length }
    let m := { m with parked := m.parked ++ [container] }
    let r := TdModel.C01.handle m.seq u true
    -- the callback runs (the box's buffer already trimmed), then the box takes its new state
    let m := m.applySeqEvs O r.2
    m.withSeq r.1

/-- `messageUpdatesPeersKnown`: every non-channel message of the container refers only to users
whose access hash is known. -/
def Mgr.peersKnown (m : Mgr) (container : List Entry) : Bool :=
  container.all fun e => !(e.kind == .msg && e.user != 0) || m.users.contains e.user

/-- `saveUserHashes` with the users a difference answer comes with. -/
def Mgr.learnUsers (m : Mgr) (es : List Entry) : Mgr :=
  { m with users := m.users ++ (es.filter (·.user != 0)).map (·.user) }

def ownCommon (e : Entry) : Bool :=
  e.kind == .msg || e.kind == .other || e.kind == .qts || e.kind == .qother

/-- The statements of `internalState.getDifference` before the type switch: clear the gaps, ask
the server. -/
def Mgr.diffPreludeStep (O : Orders) (st : Mgr × Option DiffAns) (c : Call) : Mgr × Option DiffAns :=
  match c with
  | .clearPts => (st.1.seqOp O 0 .clear, st.2)
  | .clearQts => (st.1.seqOp O 1 .clear, st.2)
  | .clearSeq => (st.1.clearSeqGaps, st.2)
  | .apiDiff =>
    let r := st.1.w.commonDiff st.1.pts.state st.1.qts.state
    (({ st.1 with w := r.1 }).emit [.apiDiff st.1.pts.state st.1.qts.state], some r.2)
  | _ => st

/-- The `setState` closure: one `SetState` event; the pts and the qts box take their new
positions through their own per-sequence view of the whole branch. -/
def Mgr.diffSetState (O : Orders) (calls : List Call) (p q : Int) (ptsDirect qtsDirect : List Entry) (m : Mgr) : Mgr :=
  let m := O.diffSetState.foldl (fun (m : Mgr) c =>
    if c = .storeState then m.emit [.storeState p q]
    else if c = .boxSetSeq then m.setSeqNow
    else m) m
  let m := m.seqOpQuiet O 0 (.seq (seqCalls .storeState .boxSetPts O.diffSetState calls) p ptsDirect)
  m.seqOpQuiet O 1 (.seq (seqCalls .storeState .boxSetQts O.diffSetState calls) q qtsDirect)

/-- `if len(A) > 0 || len(B) > 0 || …`: does the regenerated guard let the dispatch happen? -/
def guardHolds (guard : List Nat) (msgs enc own : List Entry) : Bool :=
  guard.any fun c => c == 100 || (c == 0 && !msgs.isEmpty) || (c == 1 && !enc.isEmpty) || (c == 2 && !own.isEmpty)

/-- One call of the `updates.difference` / `updates.differenceSlice` branch. -/
def Mgr.diffBranchStep (O : Orders) (calls : List Call) (guard : List Nat) (msgs enc own rest : List Entry) (p q : Int)
    (m : Mgr) (c : Call) : Mgr :=
  match c with
  | .reroute => if rest.isEmpty then m else m.applyCombined O rest
  | .dispatch =>
    if guardHolds guard msgs enc own then m.emit [.dispatch ((msgs ++ enc ++ own).map (·.id))] else m
  | .setStateClosure =>
    m.diffSetState O calls p q ((msgs ++ own).filter (·.seqKey == some 0)) ((enc ++ own).filter (·.seqKey == some 1))
  | _ => m

/-- `internalState.getDifference`. -/
def Mgr.getDifference (O : Orders) : Nat → Mgr → Mgr
  | 0, m => m
  | fuel + 1, m =>
    let st := O.diffPrelude.foldl (Mgr.diffPreludeStep O) (m, none)
    let m := st.1
    match st.2 with
    | none => m
    | some .error => m   -- `return errors.Wrap(err, "get difference")`: logged by the caller
    | some .empty =>
      -- SetDateSeq / seq.SetState only: no pts/qts effect
      O.diffEmpty.foldl (fun (m : Mgr) c =>
        if c = .boxSetSeq then m.setSeqNow else m) m
    | some (.tooLong p) =>
      let m := m.seqOp O 0 (.seq (seqCalls .storePts .boxSetPts [] O.diffTooLong) p [])
      if O.diffTooLong.contains .recurse then Mgr.getDifference O fuel m else m
    | some (.diff msgs enc others p q slice) =>
      let m := m.learnUsers (msgs ++ others)   -- `saveUserHashes(diff.Users)`
      let calls := if slice then O.diffSlice else O.diffDifference
      let own := if O.ownDirect then others.filter ownCommon else []
      let rest := if O.ownDirect then others.filter (fun e => !ownCommon e) else others
      -- interpret the branch: re-route, dispatch, persist+set — in the regenerated order
      let m := calls.foldl (Mgr.diffBranchStep O calls (if slice then O.sliceGuard else O.diffGuard) msgs enc own rest p q) m
      if calls.contains .recurse then Mgr.getDifference O fuel m else m

def fuel0 : Nat := 64

/-- `handleUpdates` for a container (`seq_start = a`, `seq = b`; 0 0: unnumbered): if a message
refers to a user with an unknown access hash the container is dropped and the difference is fetched. -/
def Mgr.handleContainer (O : Orders) (m : Mgr) (container : List Entry) (a b : Nat) : Mgr :=
  if m.peersKnown container then m.handleSeq O container a b else m.getDifference O fuel0

def Mgr.chDiffPreludeStep (O : Orders) (c : Nat) (st : Mgr × Option ChDiffAns) (call : Call) : Mgr × Option ChDiffAns :=
  match call with
  | .clearPts => (st.1.seqOp O (2 + c) .clear, st.2)
  | .apiChDiff =>
    match st.1.getBox (2 + c) with
    | none => st
    | some b =>
      let r := st.1.w.chanDiff c b.state
      (({ st.1 with w := r.1 }).emit [.apiChDiff c b.state], some r.2)
  | _ => st

/-- `channelState.getDifference` for channel `c`. -/
def Mgr.chGetDifference (O : Orders) (c : Nat) : Nat → Mgr → Mgr
  | 0, m => m
  | fuel + 1, m =>
    let st := O.chDiffPrelude.foldl (Mgr.chDiffPreludeStep O c) (m, none)
    let m := st.1
    match st.2 with
    | none => m
    | some .error => m   -- a transient error is logged; the worker goes on
    | some .priv =>
      -- `handleInaccessible`: the callback, the main loop is told to forget the channel, the worker stops
      (m.emit [.inaccessible c]).removeChan c
    | some (.tooLong p) => m.seqOp O (2 + c) (.seq (seqCalls .storeChannelPts .boxSetPts [] O.chDiffTooLong) p [])
    | some (.empty p) => m.seqOp O (2 + c) (.seq (seqCalls .storeChannelPts .boxSetPts [] O.chDiffEmpty) p [])
    | some (.diff msgs others p final) =>
      let calls := O.chDiffDifference
      let own := if O.chOwnDirect then others.filter (·.seqKey == some (2 + c)) else []
      let rest := if O.chOwnDirect then others.filter (fun e => !(e.seqKey == some (2 + c))) else others
      let m := if calls.contains .sendOut ∧ !rest.isEmpty then { m with internal := m.internal ++ [rest] } else m
      -- what the guarded dispatch hands to the handler (nothing if the guard does not hold)
      let direct := if guardHolds O.chDiffGuard msgs [] own then msgs ++ own else []
      let m := m.seqOp O (2 + c) (.seq (seqCalls .storeChannelPts .boxSetPts [] calls) p direct)
      if calls.contains .recurse ∧ !final then Mgr.chGetDifference O c fuel m else m

/-- One item of a channel worker's queue (`channelState.handleUpdate` / `handleAffected` /
`handleTooLong`). -/
def Mgr.chanItem (O : Orders) (fuel : Nat) (c : Nat) (m : Mgr) : ChItem → Mgr
  | .subscribe => m.chGetDifference O c fuel
  | .upd e => m.seqOp O (2 + c) (.push e)
  | .tooLong none => m.chGetDifference O c fuel
  | .tooLong (some p) =>
    match m.getBox (2 + c) with
    | none => m
    | some b =>
      if p - b.state > (O.diffLimit : Int) then m.seqOp O (2 + c) (.seq cbOnlyShape 0 [])
      else m.chGetDifference O c fuel

/-- A channel worker handles what is in its queue now (items enqueued meanwhile wait for the next
round). -/
def Mgr.drainChan (O : Orders) (fuel : Nat) (m : Mgr) (c : Nat) : Mgr :=
  match m.chans.find? (·.id == c) with
  | none => m
  | some ch =>
    let m' := { m with chans := m.chans.map fun x => if x.id == c then { x with queue := [] } else x }
    ch.queue.foldl (Mgr.chanItem O fuel c) m'

/-- Run every channel worker until its queue is empty, then let the main loop handle what the
workers handed over (`internalQueue`), until nothing is left. -/
def Mgr.settle (O : Orders) : Nat → Mgr → Mgr
  | 0, m => m
  | fuel + 1, m =>
    let busy := m.chans.any (fun ch => !ch.queue.isEmpty) || !m.internal.isEmpty
    if !busy then m
    else
      let m := (m.chans.map (·.id)).foldl (Mgr.drainChan O fuel) m
      let conts := m.internal
      let m := { m with internal := [] }
      let m := conts.foldl (fun (m : Mgr) cont => m.handleContainer O cont 0 0) m
      Mgr.settle O fuel m

inductive Action where
  | emit (n : Nat)
  | push (ids : List Nat)
  | tooLong            -- updatesTooLong
  | chTooLong (c : Nat)
  | affected (id : Nat)       -- Manager.HandleAffected for marker entry `id`
  | affectedZero (c : Nat)    -- Manager.HandleAffected(c, current server pts, 0); c = 0: common
  | wait               -- the real gap timers fire
  | slice (n : Nat)
  | chSlice (n : Nat)
  | tlNext
  | chTlNext (c : Nat)
  | extra (k : Nat) (ids : List Nat)   -- the next answer for key `k` (0 common, 2 + c channel) carries these too
  | failNext (k : Nat)                 -- the next difference request for key `k` fails (transient RPC error)
  | known (c : Nat)                    -- the client learns the access hash of channel `c`
  | pushSeq (a b : Nat) (ids : List Nat)  -- a container numbered `seq_start = a .. seq = b` arrives
  | emitSeq (n : Nat)                  -- the server's seq has reached `n` (containers that never arrive)
  | knowUsers (ids : List Nat)         -- the client learns the access hashes of these users
  | setPriv (c : Nat) (on : Bool)      -- the channel becomes inaccessible / accessible again
  deriving Repr

def Mgr.act (O : Orders) (m : Mgr) : Action → Mgr
  | .emit n => { m with w := { m.w with emitted := min m.w.log.length (m.w.emitted + n) } }
  | .push ids =>
    let es := ids.filterMap fun i => m.w.log.find? (·.id == i)
    let idx := ids.foldl (fun acc i => match m.w.log.findIdx? (·.id == i) with
      | some j => max acc (j + 1) | none => acc) m.w.emitted
    let m := { m with w := { m.w with emitted := idx } }
    if es.isEmpty then m else m.handleContainer O es 0 0
  | .affected id =>
    -- `internalState.handleAffected`: common markers go to the pts box, channel markers to the
    -- (tracked) channel's worker, which hands them to its box
    match m.w.log.find? (·.id == id), m.w.log.findIdx? (·.id == id) with
    | some e, some j =>
      let m := { m with w := { m.w with emitted := max m.w.emitted (j + 1) } }
      if e.pos = 0 then m
      else if e.kind == .aff then m.seqOp O 0 (.push e)
      else if e.kind == .chaff then m.pushChan e.chan (.upd e)
      else m
    | _, _ => m
  | .affectedZero c =>
    let e : Entry := if c = 0 then { id := ephemeralBase + m.ops.length, kind := .aff, chan := 0, pos := m.w.serverPts, count := 0 }
      else { id := ephemeralBase + m.ops.length, kind := .chaff, chan := c, pos := m.w.serverChan c, count := 0 }
    if e.pos = 0 then m
    else if c = 0 then m.seqOp O 0 (.push e)
    else m.pushChan c (.upd e)
  | .tooLong => m.getDifference O fuel0
  | .chTooLong c => m.pushChan c (.tooLong (some (m.w.serverChan c)))
  | .wait =>
    let m := if m.pts.armed then (m.seqOp O 0 .fire).getDifference O fuel0 else m
    let m := if m.qts.armed then (m.seqOp O 1 .fire).getDifference O fuel0 else m
    let m := if m.seq.armed then (m.withSeq { m.seq with armed := false }).getDifference O fuel0 else m
    (m.chans.map (·.id)).foldl (fun (m : Mgr) c =>
      match m.getBox (2 + c) with
      | some b => if b.armed then (m.seqOp O (2 + c) .fire).chGetDifference O c fuel0 else m
      | none => m) m
  | .slice n => { m with w := { m.w with slice := n } }
  | .chSlice n => { m with w := { m.w with chSlice := n } }
  | .tlNext => { m with w := { m.w with tooLongNext := true } }
  | .chTlNext c => { m with w := { m.w with chTooLong := c :: m.w.chTooLong } }
  | .extra k ids => { m with w := { m.w with extra := (k, ids) :: m.w.extra.filter (·.1 != k) } }
  | .failNext k => { m with w := { m.w with failNext := k :: m.w.failNext } }
  | .known c => { m with w := { m.w with known := c :: m.w.known } }
  | .pushSeq a b ids =>
    let es := ids.filterMap fun i => m.w.log.find? (·.id == i)
    let idx := ids.foldl (fun acc i => match m.w.log.findIdx? (·.id == i) with
      | some j => max acc (j + 1) | none => acc) m.w.emitted
    let m := { m with w := { m.w with emitted := idx, seqNow := max m.w.seqNow b } }
    if es.isEmpty then m else m.handleContainer O es a b
  | .emitSeq n => { m with w := { m.w with seqNow := max m.w.seqNow n } }
  | .knowUsers ids => { m with users := m.users ++ ids }
  | .setPriv c on => { m with w := { m.w with priv := if on then c :: m.w.priv else m.w.priv.filter (· != c) } }

/-- `Manager.loadState` when the storage holds no state: the remote state (`updates.getState`) is
what the client starts from, and it is written at once (`SetState`). -/
def Mgr.firstState (O : Orders) (m : Mgr) : Mgr :=
  ((m.emit [.storeState m.pts.state m.qts.state]).seqOpQuiet O 0 (.seq storeOnlyShape m.pts.state [])).seqOpQuiet O 1
    (.seq storeOnlyShape m.qts.state [])

/-- `Manager.Run` from a persisted state (`noState`: from nothing — then `pts qts` are the server's
state at that moment): startup differences, then the actions, each followed by quiescence. -/
def Mgr.start (O : Orders) (w : World) (pts qts : Int) (chans : List (Nat × Int)) (noState : Bool := false) : Mgr :=
  -- `loadChannels`: stored channels whose access hash is unknown are skipped
  let m : Mgr := { pts := { state := pts }, qts := { state := qts },
                   chans := (chans.filter fun c => !w.hashUnknown c.1).map fun c => { id := c.1, box := { state := c.2 } },
                   w := w }
  let m := if noState then m.firstState O else m
  let m := m.getDifference O fuel0
  let m := (m.chans.map (·.id)).foldl (fun (m : Mgr) c => m.chGetDifference O c fuel0) m
  m.settle O fuel0

def Mgr.runActions (O : Orders) (m : Mgr) (as : List Action) : Mgr :=
  as.foldl (fun m a => (m.act O a).settle O fuel0) m

/-! ### Per-sequence views of a scenario (for the replay through Part A) -/

/-- Sequence keys of a scenario: pts, qts and every tracked channel. -/
def seqKeys (chans : List (Nat × Int)) : List Nat := 0 :: 1 :: chans.map (fun c => 2 + c.1)

/-- Position of sequence `k` in a (pts, qts, channels) triple. -/
def initOf (p q : Int) (chans : List (Nat × Int)) (k : Nat) : Int :=
  if k = 0 then p else if k = 1 then q else ((chans.find? (·.1 == k - 2)).map (·.2)).getD 0


def seqLog (log : List Entry) (k : Nat) : List Entry := log.filter (·.seqKey == some k)

/-- The hypotheses the manager-level theorems make about a scenario, as a decidable check (the
driver evaluates it on every scenario): distinct entry ids; for every tracked sequence the log
tiles the positions above a non-negative origin; pts and qts are tracked. -/
def scnOK (log : List Entry) (keys : List Nat) (org : Nat → Int) : Bool :=
  decide ((log.map (·.id)).Nodup) && keys.all (fun k => tiled (org k) (seqLog log k) && decide (0 ≤ org k))
    && keys.contains 0 && keys.contains 1

def opsOf (ops : List (Nat × SOp)) (k : Nat) : List SOp := (ops.filter (·.1 == k)).map (·.2)

/-- Events of the global trace that concern sequence `k`, with dispatch batches restricted to
that sequence's entries. -/
def projSeq (log : List Entry) (k : Nat) : List Event → List SEv
  | [] => []
  | ev :: r =>
    (match ev with
     | .dispatch ids =>
       let own := ids.filter fun i => (log.find? (·.id == i)).any (·.seqKey == some k)
       if own.isEmpty then [] else [SEv.dispatch own]
     | .storePts v => if k = 0 then [.store v] else []
     | .storeQts v => if k = 1 then [.store v] else []
     | .storeState p q => if k = 0 then [.store p] else if k = 1 then [.store q] else []
     | .storeChan c v => if k = 2 + c then [.store v] else []
     | .tooLong => if k = 0 then [.tooLong] else []
     | .chTooLong c => if k = 2 + c then [.tooLong] else []
     | _ => []) ++ projSeq log k r

/-- C02: every entry of the sequence above `lo` has been dispatched, unless too-long was reported. -/
def complete (log : List Entry) (mk : Nat → Bool) (lo : Int) (evs : List SEv) : Bool := complete' log mk lo evs

end TdModel.C02Core
