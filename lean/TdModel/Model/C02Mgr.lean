/-
C02/C03 — Part B: executable model of `updates.Manager` (state.go, state_apply.go,
state_channel.go) around the fake server of harness/c02/mgr.

One main process (`internalState.Run`) and one process per tracked channel (`channelState.Run`),
run to quiescence after every harness action (the harness waits for quiescence too, so that the
per-process projection of the trace is deterministic).  Every touch of a sequence box goes through
`C02Core.sstep` (Part A) and is logged in `ops`, so each scenario's per-sequence op list can be
replayed through the proved per-sequence LTS.

The order of dispatch / persist / callback / re-route inside `applyPts`, `applyQts`, channel
`applyPts` and every branch of the two `getDifference`s is NOT written here: the model interprets
`Orders`, whose lists are regenerated from the Go AST on every run.
-/
import TdModel.Model.C02Core

namespace TdModel.C02Core
open TdModel.C01

/-- The calls of telegram/updates the model interprets (codes = harness/c02/mgr `callCtors`). -/
inductive Call where
  | dispatch | reroute | sendOut | setStateClosure | storeState | storePts | storeQts | storeSeq
  | storeDate | storeDateSeq | storeChannelPts | boxSetPts | boxSetQts | boxSetSeq | tooLongCb
  | recurse | apiDiff | apiChDiff | clearPts | clearQts | clearSeq | unknownStore | bad
  deriving DecidableEq, Repr

def Call.ofCode : Nat → Call
  | 0 => .dispatch | 1 => .reroute | 2 => .sendOut | 3 => .setStateClosure | 4 => .storeState
  | 5 => .storePts | 6 => .storeQts | 7 => .storeSeq | 8 => .storeDate | 9 => .storeDateSeq
  | 10 => .storeChannelPts | 11 => .boxSetPts | 12 => .boxSetQts | 13 => .boxSetSeq
  | 14 => .tooLongCb | 15 => .recurse | 16 => .apiDiff | 17 => .apiChDiff | 18 => .clearPts
  | 19 => .clearQts | 20 => .clearSeq | 21 => .unknownStore | _ => .bad

/-- Regenerated call orders and routing facts. -/
structure Orders where
  applyPts : List Call
  applyQts : List Call
  chApplyPts : List Call
  diffPrelude : List Call
  diffSetState : List Call
  diffDifference : List Call
  diffEmpty : List Call
  diffSlice : List Call
  diffTooLong : List Call
  chDiffPrelude : List Call
  chDiffDifference : List Call
  chDiffEmpty : List Call
  chDiffTooLong : List Call
  /-- the marker skip in `internalState.applyPts` / `channelState.applyPts` is `break`, not `continue` -/
  applyPtsBreak : Bool
  chApplyPtsBreak : Bool
  /-- other_updates of a common difference that carry a common pts/qts are dispatched directly
  (with the new messages) instead of being re-routed through `handleUpdates` (the D11 repair). -/
  ownDirect : Bool
  /-- same for a channel difference and updates of that channel -/
  chOwnDirect : Bool
  diffLimit : Nat

/-- Sequence keys: 0 = common pts, 1 = qts, 2 + c = channel c. -/
abbrev SeqKey := Nat

def Entry.seqKey (e : Entry) : Option SeqKey :=
  match e.kind with
  | .msg | .other | .aff => some 0
  | .qts | .qother => some 1
  | .chmsg | .chother | .chaff => some (2 + e.chan)
  | .plain => none

def Entry.isMarker (e : Entry) : Bool := e.kind == .aff || e.kind == .chaff

/-- Ids of count-0 affected results (they are not log entries) start here. -/
def ephemeralBase : Nat := 900000

/-- Which update tags are `affectedPts` markers in a scenario. -/
def mkOf (log : List Entry) : Nat → Bool :=
  fun i => decide (ephemeralBase ≤ i) || log.any fun e => e.id == i && e.isMarker

inductive Event where
  | dispatch (ids : List Nat)
  | storePts (v : Int)
  | storeQts (v : Int)
  | storeState (p q : Int)
  | storeChan (c : Nat) (v : Int)
  | apiDiff (p q : Int)
  | apiChDiff (c : Nat) (p : Int)
  | tooLong
  | chTooLong (c : Nat)
  deriving DecidableEq, Repr

/-! ### The fake server (harness/c02/mgr/world.go) -/

structure World where
  log : List Entry
  emitted : Nat := 0
  p0 : Int
  q0 : Int
  c0 : List (Nat × Int)
  slice : Nat := 0
  chSlice : Nat := 0
  tooLongNext : Bool := false
  chTooLong : List Nat := []
  deriving Repr

def World.happened (w : World) : List Entry := w.log.take w.emitted

def lastPos (init : Int) (p : Entry → Bool) (es : List Entry) : Int :=
  es.foldl (fun acc e => if p e then e.pos else acc) init

def World.serverPts (w : World) : Int := lastPos w.p0 (fun e => e.seqKey == some 0) w.happened
def World.serverQts (w : World) : Int := lastPos w.q0 (fun e => e.seqKey == some 1) w.happened
def World.chanInit (w : World) (c : Nat) : Int := ((w.c0.find? (·.1 == c)).map (·.2)).getD 0
def World.serverChan (w : World) (c : Nat) : Int :=
  lastPos (w.chanInit c) (fun e => e.seqKey == some (2 + c)) w.happened

/-- First `n` elements (all if `n = 0`) and whether something was cut off. -/
def cut (n : Nat) (es : List Entry) : List Entry × Bool :=
  if n > 0 ∧ es.length > n then (es.take n, true) else (es, false)

inductive DiffAns where
  | tooLong (p : Int)
  | empty
  | diff (msgs enc others : List Entry) (p q : Int) (slice : Bool)
  deriving Repr

/-- `World.commonDifference`. -/
def World.commonDiff (w : World) (pts qts : Int) : World × DiffAns :=
  if w.tooLongNext then ({ w with tooLongNext := false }, .tooLong w.serverPts)
  else
    let cand := w.happened.filter fun e =>
      (e.seqKey == some 0 && decide (e.pos > pts)) || (e.seqKey == some 1 && decide (e.pos > qts))
    let (part, more) := cut w.slice cand
    if part.isEmpty then (w, .empty)
    else
      let p := lastPos pts (fun e => e.seqKey == some 0) part
      let q := lastPos qts (fun e => e.seqKey == some 1) part
      let p := if more then p else max p w.serverPts
      let q := if more then q else max q w.serverQts
      (w, .diff (part.filter (·.kind == .msg)) (part.filter (·.kind == .qts))
            (part.filter fun e => e.kind == .other || e.kind == .qother) p q more)

inductive ChDiffAns where
  | tooLong (p : Int)
  | empty (p : Int)
  | diff (msgs others : List Entry) (p : Int) (final : Bool)
  deriving Repr

/-- `World.channelDifference`. -/
def World.chanDiff (w : World) (c : Nat) (pts : Int) : World × ChDiffAns :=
  if w.chTooLong.contains c then ({ w with chTooLong := w.chTooLong.filter (· != c) }, .tooLong (w.serverChan c))
  else
    let cand := w.happened.filter fun e => e.seqKey == some (2 + c) && decide (e.pos > pts)
    let (part, more) := cut w.chSlice cand
    if part.isEmpty then (w, .empty (max pts (w.serverChan c)))
    else (w, .diff (part.filter (·.kind == .chmsg)) (part.filter (·.kind == .chother))
                (lastPos pts (fun _ => true) part) (!more))

/-! ### The manager -/

inductive ChItem where
  | upd (e : Entry)
  | tooLong (pts : Option Int)
  deriving Repr

structure Chan where
  id : Nat
  box : Box
  queue : List ChItem := []
  deriving Repr

structure Mgr where
  pts : Box
  qts : Box
  chans : List Chan
  internal : List (List Entry) := []
  w : World
  trace : List Event := []
  ops : List (SeqKey × SOp) := []
  deriving Repr

def Mgr.emit (m : Mgr) (evs : List Event) : Mgr := { m with trace := m.trace ++ evs }
def Mgr.logOp (m : Mgr) (k : SeqKey) (op : SOp) : Mgr := { m with ops := m.ops ++ [(k, op)] }

/-- The per-sequence view of one call: does it dispatch / persist / set the box / report
too-long for the sequence with store call `st` and box call `bx`? -/
def seqCall1 (st bx : Call) (c : Call) : List SCall :=
  if c = .dispatch then [SCall.dispatch]
  else if c = st then [.store]
  else if c = bx then [.setBox]
  else if c = .tooLongCb then [.cb]
  else []

/-- The per-sequence view of a call list (`setState(...)` expands to the closure's calls). -/
def seqCalls (st bx : Call) (closure : List Call) (calls : List Call) : List SCall :=
  calls.flatMap fun c =>
    if c = .setStateClosure then closure.flatMap (seqCall1 st bx) else seqCall1 st bx c

def evOfSeq (k : SeqKey) : SEv → Event
  | .dispatch ids => .dispatch ids
  | .store v => if k = 0 then .storePts v else if k = 1 then .storeQts v else .storeChan (k - 2) v
  | .tooLong => if k = 0 then .tooLong else .chTooLong (k - 2)

def Mgr.getBox (m : Mgr) (k : SeqKey) : Option Box :=
  if k = 0 then some m.pts else if k = 1 then some m.qts
  else (m.chans.find? (·.id == k - 2)).map (·.box)

def Mgr.setBox (m : Mgr) (k : SeqKey) (b : Box) : Mgr :=
  if k = 0 then { m with pts := b } else if k = 1 then { m with qts := b }
  else { m with chans := m.chans.map fun ch => if ch.id == k - 2 then { ch with box := b } else ch }

def applyCallsOf (O : Orders) (k : SeqKey) : List SCall :=
  if k = 0 then seqCalls .storePts .bad [] O.applyPts
  else if k = 1 then seqCalls .storeQts .bad [] O.applyQts
  else seqCalls .storeChannelPts .bad [] O.chApplyPts

/-- The apply callback of sequence `k` (`applyQts` has no marker handling: qts markers do not exist). -/
def applyCfgOf (O : Orders) (mk : Nat → Bool) (k : SeqKey) : ACfg :=
  { calls := applyCallsOf O k
    breakAtMarker := if k = 0 then O.applyPtsBreak else if k = 1 then false else O.chApplyPtsBreak
    isMarker := mk }

/-- Run one per-sequence op on sequence `k` (Part A's `sstep`), emit its events, log it. -/
def Mgr.seqOp (O : Orders) (m : Mgr) (k : SeqKey) (op : SOp) : Mgr :=
  match m.getBox k with
  | none => m
  | some b =>
    let r := sstep (applyCfgOf O (mkOf m.w.log) k) b op
    ((m.setBox k r.1).emit (r.2.map (evOfSeq k))).logOp k op

/-- `ptsSorter.Less`. -/
def sortRank (e : Entry) : Nat :=
  match e.kind with
  | .plain => 0 | .msg | .other | .aff => 1 | .qts | .qother => 2 | .chmsg | .chother | .chaff => 3

def sortLess (a b : Entry) : Bool :=
  if sortRank a < sortRank b then true
  else if sortRank a > sortRank b then false
  else match sortRank a with
    | 0 => false
    | 1 => decide (a.pos - a.count < b.pos - b.count)
    | 2 => decide (a.pos < b.pos)
    | _ => if a.chan < b.chan then true else if a.chan > b.chan then false
           else decide (a.pos - a.count < b.pos - b.count)

def insertSorted (x : Entry) : List Entry → List Entry
  | [] => [x]
  | y :: ys => if sortLess y x then y :: insertSorted x ys else x :: y :: ys

/-- `sortUpdatesByPts` (stable). -/
def sortUpdates (l : List Entry) : List Entry := l.foldr insertSorted []

def Mgr.pushChan (m : Mgr) (c : Nat) (it : ChItem) : Mgr :=
  { m with chans := m.chans.map fun ch => if ch.id == c then { ch with queue := ch.queue ++ [it] } else ch }

/-- `internalState.applyCombined` for a container without seq/date. -/
def Mgr.applyCombined (O : Orders) (m : Mgr) (container : List Entry) : Mgr :=
  let sorted := sortUpdates container
  let m := sorted.foldl (fun m e =>
    match e.kind with
    | .msg | .other => m.seqOp O 0 (.push e)
    | .qts | .qother => m.seqOp O 1 (.push e)
    | .chmsg | .chother => m.pushChan e.chan (.upd e)
    | .plain | .aff | .chaff => m) m
  let plains := sorted.filter (·.kind == .plain)
  if plains.isEmpty then m else m.emit [.dispatch (plains.map (·.id))]

def ownCommon (e : Entry) : Bool :=
  e.kind == .msg || e.kind == .other || e.kind == .qts || e.kind == .qother

/-- `internalState.getDifference`. -/
def Mgr.getDifference (O : Orders) : Nat → Mgr → Mgr
  | 0, m => m
  | fuel + 1, m =>
    -- prelude: clear gaps, ask the server
    let (m, ans) := O.diffPrelude.foldl (fun (st : Mgr × Option DiffAns) c =>
      let m := st.1
      match c with
      | .clearPts => (m.seqOp O 0 .clear, st.2)
      | .clearQts => (m.seqOp O 1 .clear, st.2)
      | .apiDiff =>
        let r := m.w.commonDiff m.pts.state m.qts.state
        (({ m with w := r.1 }).emit [.apiDiff m.pts.state m.qts.state], some r.2)
      | _ => st) (m, none)
    match ans with
    | none => m
    | some .empty => m   -- SetDateSeq / seq.SetState only: no pts/qts effect
    | some (.tooLong p) =>
      let calls := O.diffTooLong
      let m := m.seqOp O 0 (.seq (seqCalls .storePts .boxSetPts [] calls) p [])
      if calls.contains .recurse then Mgr.getDifference O fuel m else m
    | some (.diff msgs enc others p q slice) =>
      let calls := if slice then O.diffSlice else O.diffDifference
      let own := if O.ownDirect then others.filter ownCommon else []
      let rest := if O.ownDirect then others.filter (fun e => !ownCommon e) else others
      -- interpret the branch: re-route, dispatch, persist+set, recurse — in the regenerated order
      let m := calls.foldl (fun (m : Mgr) c =>
        match c with
        | .reroute => if rest.isEmpty then m else m.applyCombined O rest
        | .dispatch =>
          let batch := msgs ++ enc ++ own
          if batch.isEmpty then m else m.emit [.dispatch (batch.map (·.id))]
        | .setStateClosure =>
          O.diffSetState.foldl (fun (m : Mgr) c =>
            match c with
            | .storeState => m.emit [.storeState p q]
            | .boxSetPts => { m with pts := { m.pts with state := p } }
            | .boxSetQts => { m with qts := { m.qts with state := q } }
            | _ => m) m
        | _ => m) m
      -- the same branch as seen by the pts and the qts sequence (logged for the replay)
      let ptsDirect := (msgs ++ own).filter (·.seqKey == some 0)
      let qtsDirect := (enc ++ own).filter (·.seqKey == some 1)
      let m := m.logOp 0 (.seq (seqCalls .storeState .boxSetPts O.diffSetState calls) p ptsDirect)
      let m := m.logOp 1 (.seq (seqCalls .storeState .boxSetQts O.diffSetState calls) q qtsDirect)
      if calls.contains .recurse then Mgr.getDifference O fuel m else m

/-- `channelState.getDifference` for channel `c`. -/
def Mgr.chGetDifference (O : Orders) (c : Nat) : Nat → Mgr → Mgr
  | 0, m => m
  | fuel + 1, m =>
    let k := 2 + c
    let (m, ans) := O.chDiffPrelude.foldl (fun (st : Mgr × Option ChDiffAns) call =>
      let m := st.1
      match call with
      | .clearPts => (m.seqOp O k .clear, st.2)
      | .apiChDiff =>
        match m.getBox k with
        | none => st
        | some b =>
          let r := m.w.chanDiff c b.state
          (({ m with w := r.1 }).emit [.apiChDiff c b.state], some r.2)
      | _ => st) (m, none)
    match ans with
    | none => m
    | some (.tooLong p) => m.seqOp O k (.seq (seqCalls .storeChannelPts .boxSetPts [] O.chDiffTooLong) p [])
    | some (.empty p) => m.seqOp O k (.seq (seqCalls .storeChannelPts .boxSetPts [] O.chDiffEmpty) p [])
    | some (.diff msgs others p final) =>
      let calls := O.chDiffDifference
      let own := if O.chOwnDirect then others else []
      let rest := if O.chOwnDirect then [] else others
      let m := if calls.contains .sendOut ∧ !rest.isEmpty then { m with internal := m.internal ++ [rest] } else m
      let m := m.seqOp O k (.seq (seqCalls .storeChannelPts .boxSetPts [] calls) p (msgs ++ own))
      if calls.contains .recurse ∧ !final then Mgr.chGetDifference O c fuel m else m

/-- One item of a channel worker's queue (`channelState.handleUpdate` / `handleTooLong`). -/
def Mgr.chanItem (O : Orders) (fuel : Nat) (m : Mgr) (c : Nat) : ChItem → Mgr
  | .upd e => m.seqOp O (2 + c) (.push e)
  | .tooLong none => m.chGetDifference O c fuel
  | .tooLong (some p) =>
    match m.getBox (2 + c) with
    | none => m
    | some b =>
      if p - b.state > (O.diffLimit : Int) then m.emit [.chTooLong c] else m.chGetDifference O c fuel

/-- Run every channel worker until its queue is empty, then let the main loop handle what the
workers handed over (`internalQueue`), until nothing is left. -/
def Mgr.settle (O : Orders) : Nat → Mgr → Mgr
  | 0, m => m
  | fuel + 1, m =>
    let busy := m.chans.any (fun ch => !ch.queue.isEmpty) || !m.internal.isEmpty
    if !busy then m
    else
      let m := m.chans.foldl (fun (m : Mgr) ch0 =>
        let c := ch0.id
        -- drain this worker's queue (items enqueued meanwhile are handled in the next round)
        match m.chans.find? (·.id == c) with
        | none => m
        | some ch =>
          let items := ch.queue
          let m := { m with chans := m.chans.map fun x => if x.id == c then { x with queue := [] } else x }
          items.foldl (fun m it => m.chanItem O fuel c it) m) m
      let conts := m.internal
      let m := { m with internal := [] }
      let m := conts.foldl (fun m cont => m.applyCombined O cont) m
      Mgr.settle O fuel m

inductive Action where
  | emit (n : Nat)
  | push (ids : List Nat)
  | tooLong            -- updatesTooLong
  | chTooLong (c : Nat)
  | affected (id : Nat)       -- Manager.HandleAffected for marker entry `id`
  | affectedZero (c : Nat)    -- Manager.HandleAffected(c, current server pts, 0); c = 0: common
  | wait               -- the real gap timers fire
  | slice (n : Nat)
  | chSlice (n : Nat)
  | tlNext
  | chTlNext (c : Nat)
  deriving Repr

def fuel0 : Nat := 64

def Mgr.act (O : Orders) (m : Mgr) : Action → Mgr
  | .emit n => { m with w := { m.w with emitted := min m.w.log.length (m.w.emitted + n) } }
  | .push ids =>
    let es := ids.filterMap fun i => m.w.log.find? (·.id == i)
    let idx := ids.foldl (fun acc i => match m.w.log.findIdx? (·.id == i) with
      | some j => max acc (j + 1) | none => acc) m.w.emitted
    let m := { m with w := { m.w with emitted := idx } }
    if es.isEmpty then m else m.applyCombined O es
  | .affected id =>
    -- `internalState.handleAffected`: common markers go to the pts box, channel markers to the
    -- (tracked) channel's worker, which hands them to its box
    match m.w.log.find? (·.id == id), m.w.log.findIdx? (·.id == id) with
    | some e, some j =>
      let m := { m with w := { m.w with emitted := max m.w.emitted (j + 1) } }
      if e.pos = 0 then m
      else if e.kind == .aff then m.seqOp O 0 (.push e)
      else if e.kind == .chaff then m.pushChan e.chan (.upd e)
      else m
    | _, _ => m
  | .affectedZero c =>
    let e : Entry := if c = 0 then { id := ephemeralBase + m.ops.length, kind := .aff, chan := 0, pos := m.w.serverPts, count := 0 }
      else { id := ephemeralBase + m.ops.length, kind := .chaff, chan := c, pos := m.w.serverChan c, count := 0 }
    if e.pos = 0 then m
    else if c = 0 then m.seqOp O 0 (.push e)
    else m.pushChan c (.upd e)
  | .tooLong => m.getDifference O fuel0
  | .chTooLong c => m.pushChan c (.tooLong (some (m.w.serverChan c)))
  | .wait =>
    let m := if m.pts.armed then ({ m with pts := { m.pts with armed := false } }).getDifference O fuel0 else m
    let m := if m.qts.armed then ({ m with qts := { m.qts with armed := false } }).getDifference O fuel0 else m
    m.chans.foldl (fun (m : Mgr) ch0 =>
      match m.getBox (2 + ch0.id) with
      | some b => if b.armed then (m.setBox (2 + ch0.id) { b with armed := false }).chGetDifference O ch0.id fuel0 else m
      | none => m) m
  | .slice n => { m with w := { m.w with slice := n } }
  | .chSlice n => { m with w := { m.w with chSlice := n } }
  | .tlNext => { m with w := { m.w with tooLongNext := true } }
  | .chTlNext c => { m with w := { m.w with chTooLong := c :: m.w.chTooLong } }

/-- `Manager.Run` from a persisted state: startup differences, then the actions, each followed
by quiescence. -/
def Mgr.start (O : Orders) (w : World) (pts qts : Int) (chans : List (Nat × Int)) : Mgr :=
  let m : Mgr := { pts := { state := pts }, qts := { state := qts },
                   chans := chans.map fun c => { id := c.1, box := { state := c.2 } }, w := w }
  let m := m.getDifference O fuel0
  let m := m.chans.foldl (fun (m : Mgr) ch => m.chGetDifference O ch.id fuel0) m
  m.settle O fuel0

def Mgr.runActions (O : Orders) (m : Mgr) (as : List Action) : Mgr :=
  as.foldl (fun m a => (m.act O a).settle O fuel0) m

/-! ### Per-sequence views of a scenario (for the replay through Part A) -/

def seqLog (log : List Entry) (k : SeqKey) : List Entry := log.filter (·.seqKey == some k)

def opsOf (ops : List (SeqKey × SOp)) (k : SeqKey) : List SOp := (ops.filter (·.1 == k)).map (·.2)

/-- Events of the global trace that concern sequence `k`, with dispatch batches restricted to
that sequence's entries. -/
def projSeq (log : List Entry) (k : SeqKey) : List Event → List SEv
  | [] => []
  | ev :: r =>
    (match ev with
     | .dispatch ids =>
       let own := ids.filter fun i => (log.find? (·.id == i)).any (·.seqKey == some k)
       if own.isEmpty then [] else [SEv.dispatch own]
     | .storePts v => if k = 0 then [.store v] else []
     | .storeQts v => if k = 1 then [.store v] else []
     | .storeState p q => if k = 0 then [.store p] else if k = 1 then [.store q] else []
     | .storeChan c v => if k = 2 + c then [.store v] else []
     | .tooLong => if k = 0 then [.tooLong] else []
     | .chTooLong c => if k = 2 + c then [.tooLong] else []
     | _ => []) ++ projSeq log k r

/-- C02: every entry of the sequence above `lo` has been dispatched, unless too-long was reported. -/
def complete (log : List Entry) (mk : Nat → Bool) (lo : Int) (evs : List SEv) : Bool := complete' log mk lo evs

end TdModel.C02Core
