/-
Text form of the exchange model's values for the line protocol of drv_c09 / drv_c10
(parsing and printing only; nothing is proved about this file).

message      reqPQ N | resPQ N SN PQ FPS | reqDH N SN P Q FP CT | dhOk N SN CT | dhFail N SN H |
             setDH N SN CT | genOk N SN H | genRetry N SN H | genFail N SN H | junk
ciphertext   rsa:FP:TEMP:PQ:P:Q:N:SN:NN:DC:EXP | S:KEY:IV:N:SN:G:PRIME:GA:TIME | C:KEY:IV:N:SN:RETRY:GB | X
bytes are hex (`-` = empty), numbers decimal, FPS comma-separated (`-` = none).
-/
import TdModel.Model.C09

namespace TdModel.C09
open TdModel

def showNats (l : List Nat) : String :=
  if l.isEmpty then "-" else ",".intercalate (l.map toString)

def parseNats (s : String) : Option (List Nat) :=
  if s == "-" then some [] else (s.splitOn ",").mapM String.toNat?

def b01 (b : Bool) : String := if b then "1" else "0"

def showCt : Sym → String
  | .rsa fp d => ":".intercalate ["rsa", toString fp, b01 d.temp, toString d.pq, toString d.p, toString d.q,
      toHex d.nonce, toHex d.serverNonce, toHex d.newNonce, toString d.dc, toString d.expiresIn]
  | .ansS k d => ":".intercalate ["S", toHex k.1, toHex k.2, toHex d.nonce, toHex d.serverNonce, toString d.g,
      toString d.dhPrime, toString d.gA, toString d.serverTime]
  | .ansC k d => ":".intercalate ["C", toHex k.1, toHex k.2, toHex d.nonce, toHex d.serverNonce,
      toString d.retryId, toString d.gB]
  | .junk => "X"

def parseCt (s : String) : Option Sym :=
  match s.splitOn ":" with
  | ["rsa", fp, temp, pq, p, q, n, sn, nn, dc, exp] => do
    pure (.rsa (← fp.toNat?) ⟨temp == "1", ← pq.toNat?, ← p.toNat?, ← q.toNat?, ← ofHex n, ← ofHex sn, ← ofHex nn,
      ← dc.toInt?, ← exp.toInt?⟩)
  | ["S", k, iv, n, sn, g, prime, ga, time] => do
    pure (.ansS (← ofHex k, ← ofHex iv) ⟨← ofHex n, ← ofHex sn, ← g.toInt?, ← prime.toNat?, ← ga.toNat?, ← time.toInt?⟩)
  | ["C", k, iv, n, sn, retry, gb] => do
    pure (.ansC (← ofHex k, ← ofHex iv) ⟨← ofHex n, ← ofHex sn, ← retry.toInt?, ← gb.toNat?⟩)
  | ["X"] => some .junk
  | _ => none

def showMsgWith {Ct} (showCt : Ct → String) : Msg Ct → String
  | .reqPQ n => s!"reqPQ {toHex n}"
  | .resPQ n sn pq fps => s!"resPQ {toHex n} {toHex sn} {pq} {showNats fps}"
  | .reqDH n sn p q fp ct => s!"reqDH {toHex n} {toHex sn} {p} {q} {fp} {showCt ct}"
  | .dhOk n sn ct => s!"dhOk {toHex n} {toHex sn} {showCt ct}"
  | .dhFail n sn h => s!"dhFail {toHex n} {toHex sn} {toHex h}"
  | .setDH n sn ct => s!"setDH {toHex n} {toHex sn} {showCt ct}"
  | .genOk n sn h => s!"genOk {toHex n} {toHex sn} {toHex h}"
  | .genRetry n sn h => s!"genRetry {toHex n} {toHex sn} {toHex h}"
  | .genFail n sn h => s!"genFail {toHex n} {toHex sn} {toHex h}"
  | .junk => "junk"

def showMsg : Msg Sym → String := showMsgWith showCt

def parseMsgWith {Ct} (parseCt : String → Option Ct) (ws : List String) : Option (Msg Ct) :=
  match ws with
  | ["reqPQ", n] => do pure (.reqPQ (← ofHex n))
  | ["resPQ", n, sn, pq, fps] => do pure (.resPQ (← ofHex n) (← ofHex sn) (← pq.toNat?) (← parseNats fps))
  | ["reqDH", n, sn, p, q, fp, ct] => do
    pure (.reqDH (← ofHex n) (← ofHex sn) (← p.toNat?) (← q.toNat?) (← fp.toNat?) (← parseCt ct))
  | ["dhOk", n, sn, ct] => do pure (.dhOk (← ofHex n) (← ofHex sn) (← parseCt ct))
  | ["dhFail", n, sn, h] => do pure (.dhFail (← ofHex n) (← ofHex sn) (← ofHex h))
  | ["setDH", n, sn, ct] => do pure (.setDH (← ofHex n) (← ofHex sn) (← parseCt ct))
  | ["genOk", n, sn, h] => do pure (.genOk (← ofHex n) (← ofHex sn) (← ofHex h))
  | ["genRetry", n, sn, h] => do pure (.genRetry (← ofHex n) (← ofHex sn) (← ofHex h))
  | ["genFail", n, sn, h] => do pure (.genFail (← ofHex n) (← ofHex sn) (← ofHex h))
  | ["junk"] => some .junk
  | _ => none

def parseMsg : List String → Option (Msg Sym) := parseMsgWith parseCt

/-- Split a word list at the separator word. -/
def splitAt (sep : String) : List String → List (List String)
  | [] => [[]]
  | w :: rest =>
    match splitAt sep rest with
    | [] => [[w]]
    | g :: gs => if w == sep then [] :: g :: gs else (w :: g) :: gs

/-- `k=v` lookup. -/
def kv (ws : List String) (k : String) : Option String :=
  ws.findSome? fun w => if w.startsWith (k ++ "=") then some ((w.drop (k.length + 1)).toString) else none

def showTranscript (tr : List (Msg Sym)) : String := " | ".intercalate (tr.map showMsg)

def showCState (sha1 : Bytes → Bytes) : CState → String
  | .done r => s!"done {r.key} {toHex (keyID sha1 (keyBytes r.key))} {toHex r.salt} {r.sessionId}"
  | .failed e => s!"failed {e.tag}"
  | _ => "waiting"

def showSState (sha1 : Bytes → Bytes) : SState → String
  | .done r => s!"done {r.key} {toHex (keyID sha1 (keyBytes r.key))} {toHex r.salt}"
  | .failed e => s!"failed {e.tag}"
  | _ => "waiting"

/-- The primality and factorisation oracles handed over on the request line:
`primes=N,N,…` (the numbers `crypto.Prime` accepts), `factor=PQ:P:Q` or `factor=-`. -/
def parseFactor (f : String) : Option (Nat → Option (Nat × Nat)) :=
  if f == "-" then some (fun _ => none)
  else match f.splitOn ":" with
    | [pq, p, q] =>
      match pq.toNat?, p.toNat?, q.toNat? with
      | some pq, some p, some q => some (fun n => if n = pq then some (p, q) else none)
      | _, _, _ => none
    | _ => none

def oracles (ws : List String) : Option ((Nat → Bool) × (Nat → Option (Nat × Nat))) :=
  match (kv ws "primes").bind parseNats, (kv ws "factor").bind parseFactor with
  | some ps, some fac => some (fun n => ps.contains n, fac)
  | _, _ => none

def parseCCfg (ws : List String) : Option CCfg := do
  pure ⟨← parseNats (← kv ws "keys"), ← (← kv ws "cdc").toInt?, (← kv ws "temp") == "1", ← (← kv ws "exp").toInt?⟩

def parseCTape (ws : List String) : Option CTape := do
  pure ⟨← ofHex (← kv ws "nonce"), ← ofHex (← kv ws "newnonce"), 0, ← (← kv ws "b").toNat?, 0, ← (← kv ws "sid").toNat?⟩

def parseSCfg (ws : List String) : Option SCfg := do
  pure ⟨← (← kv ws "sfp").toNat?, ← (← kv ws "sdc").toInt?⟩

/-- The server's tape; `adraws=` = its successive draws of `a`, of which `pickA` takes the first
acceptable one (like `TestServerRNG.GA`). -/
def parseSTape (ws : List String) : Option STape := do
  let prime ← (← kv ws "prime").toNat?
  let a ← pickA prime (← parseNats (← kv ws "adraws"))
  pure ⟨← ofHex (← kv ws "snonce"), ← (← kv ws "pq").toNat?, prime, a, ← (← kv ws "time").toInt?, 0⟩

end TdModel.C09
