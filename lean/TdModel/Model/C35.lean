/-
C35 — model of /repo/telegram/message/entity: write.go (`ComputeLength`, `utf16RuneLen`,
`appendMessage`, `appendEntities`, `Write*`), options.go (`Plain`, `Format`), token.go (`Token`,
`Token.Apply`), fix.go (`fixEntities` after the `fix:` commit for D10, `Complete`,
`ShrinkPreCode`).

Text is a `List Char` (a Go string that is valid UTF-8; `Char` = Unicode scalar value, exactly
what `for _, v := range s` yields on valid UTF-8).  Go keeps UTF-8 *byte* offsets in `Token` and
`utf8entity`; the builder only ever stores offsets that are rune boundaries (the message length at
some earlier moment), so the model represents such an offset by the *number of characters* before
that boundary.  Byte comparisons between boundaries (`length >= len(lastBlock)`) are order
comparisons of boundaries and carry over unchanged.

`Ent.cs`/`Ent.ce` are ghost fields (character span of the formatted piece); the implementation has
no such fields and the driver does not print them.  They let the theorems say which piece an
entity was created for.
-/
import TdModel.Gen.C35

namespace TdModel.C35

/-- `utf16RuneLen(v rune) int` — the function body TRANSLATED from the source on every run
(harness/hc/c35_translate.go); defined on every Go `rune` value, valid scalar or not. -/
def runeLen (v : Int) : Int := Facts.C35.utf16RuneLen v

/-- UTF-16 width of a character: `utf16RuneLen` on its code point. -/
def u16 (c : Char) : Nat := (runeLen c.toNat).toNat

/-- What `strings.Builder.WriteRune(r)` appends: `r` itself if it is a Unicode scalar value,
U+FFFD otherwise (negative, surrogate half, above U+10FFFF). -/
def charOfRune (r : Int) : Char :=
  if h : 0 ≤ r ∧ r.toNat.isValidChar then Char.ofNatAux r.toNat h.2 else Char.ofNat 0xFFFD

/-- `ComputeLength`: number of UTF-16 code units. -/
def u16len : List Char → Nat
  | [] => 0
  | c :: t => u16 c + u16len t

/-- `unicode.IsSpace`. -/
def isSpace (c : Char) : Bool :=
  let n := c.toNat
  (9 ≤ n ∧ n ≤ 13) ∨ n = 0x20 ∨ n = 0x85 ∨ n = 0xA0 ∨ n = 0x1680 ∨ (0x2000 ≤ n ∧ n ≤ 0x200A) ∨
  n = 0x2028 ∨ n = 0x2029 ∨ n = 0x202F ∨ n = 0x205F ∨ n = 0x3000

/-- `strings.TrimRightFunc(s, unicode.IsSpace)`. -/
def trimRight (s : List Char) : List Char := (s.reverse.dropWhile isSpace).reverse

def kCode : Nat := 4
def kPre : Nat := 5

/-- One `tg.MessageEntityClass`: UTF-16 offset/length (Go `int`), constructor (`kind`, only
`kCode`/`kPre` matter), whether a `MessageEntityPre` has a non-empty language; ghost span. -/
structure Ent where
  off : Int
  len : Int
  kind : Nat := 0
  lang : Bool := false
  cs : Nat := 0
  ce : Nat := 0
  deriving Repr, DecidableEq, BEq

/-- `entity.Token` (`c` = UTF-8 offset as a character count, `o16` = UTF-16 offset). -/
structure Tok where
  c : Nat
  o16 : Nat
  deriving Repr, DecidableEq, BEq

/-- A formatter: constructor and (for `Pre`) whether it carries a language. -/
structure Fmt where
  kind : Nat
  lang : Bool := false
  deriving Repr, DecidableEq, BEq

/-- `entity.Builder` plus the tokens handed out so far. -/
structure St where
  text : List Char := []            -- message
  u16 : Nat := 0                    -- utf16length
  ents : List Ent := []             -- entities
  last : Option (Nat × Nat) := none -- last element of `lengths` as (start, end) boundaries
  lfi : Nat := 0                    -- lastFormatIndex
  toks : List Tok := []
  deriving Repr

inductive Op where
  | plain (s : List Char)                 -- Builder.Plain(s)
  | write (s : List Char)                 -- Builder.Write / WriteString / WriteByte(ASCII)
  | writeRune (r : Int)                   -- Builder.WriteRune(r), any int32 incl. invalid code points
  | reset                                 -- Builder.Reset (also the tail of Raw / Complete): next message
  | format (s : List Char) (fs : List Fmt) -- Builder.Format(s, fs...)
  | token                                 -- t := Builder.Token()
  | apply (k : Nat) (fs : List Fmt)       -- (k-th token).Apply(b, fs...)
  | shrink                                -- Builder.ShrinkPreCode()
  deriving Repr

/-- `appendEntities(offset, length, u, formats...)`. -/
def appendEntities (s : St) (off len : Int) (span : Nat × Nat) (fs : List Fmt) : St :=
  { s with
    lfi := s.ents.length
    ents := s.ents ++ fs.map (fun f => { off := off, len := len, kind := f.kind, lang := f.lang, cs := span.1, ce := span.2 })
    last := if fs.isEmpty then s.last else some span }

/-- `WriteString`. -/
def writeString (s : St) (p : List Char) : St :=
  { s with text := s.text ++ p, u16 := s.u16 + u16len p }

def isPreCode (e : Ent) : Bool := e.kind = kCode ∨ e.kind = kPre
def hasLang (e : Ent) : Bool := e.kind = kPre ∧ e.lang
def resetLang (e : Ent) : Ent := if e.kind = kPre then { e with lang := false } else e
def equalRange (a b : Ent) : Bool := a.len = b.len ∧ a.off = b.off

/-- The `filter` loop of `shrinkPreCode` over the reversed list: `p` is element `i-1` (with the
language resets applied so far), `kp` whether it was kept. Entities are pointers, so a reset of
`prev` is visible in the kept copy: `p` is emitted only once it can no longer change. -/
def shrinkLoop (p : Ent) (kp : Bool) : List Ent → List Ent
  | [] => if kp then [p] else []
  | c :: rest =>
    if !(isPreCode p) || !(isPreCode c) || p.kind = c.kind then
      (if kp then [p] else []) ++ shrinkLoop c true rest
    else if !(equalRange p c) then
      (if kp then [resetLang p] else []) ++ shrinkLoop (resetLang c) true rest
    else
      (if kp then [p] else []) ++ shrinkLoop c (!(hasLang p)) rest

/-- `shrinkPreCode`. -/
def shrinkPreCode (l : List Ent) : List Ent :=
  match l.reverse with
  | [] => []
  | x :: rest => shrinkLoop x true rest

def step (s : St) : Op → St
  | .plain p => let s1 := writeString s p; { s1 with lfi := s1.ents.length }
  | .write p => writeString s p
  | .writeRune r =>
    { s with text := s.text ++ [charOfRune r], u16 := ((s.u16 : Int) + runeLen r).toNat }
  -- `Reset` clears message, entities and utf16length; `lengths` and `lastFormatIndex` are NOT
  -- cleared by the code (kept here too).  Tokens of the previous message are dropped: applying a
  -- token to another message than the one it was taken from is outside the builder's contract.
  | .reset => { s with text := [], u16 := 0, ents := [], toks := [] }
  | .format p fs =>
    if p.isEmpty then s
    else writeString (appendEntities s s.u16 (u16len p) (s.text.length, s.text.length + p.length) fs) p
  | .token => { s with toks := s.toks ++ [{ c := s.text.length, o16 := s.u16 }] }
  | .apply k fs =>
    match s.toks[k]? with
    | none => s
    | some t => appendEntities s t.o16 ((s.u16 : Int) - t.o16) (t.c, s.text.length) fs
  | .shrink => { s with ents := shrinkPreCode s.ents }

def run (ops : List Op) : St := ops.foldl step {}

/-- Clamp one entity to the first `total` UTF-16 code units: one iteration of the loop of
`clampEntities`, TRANSLATED from the source (final values of the `Offset` and `Length` fields). -/
def clamp (total : Int) (e : Ent) : Ent :=
  { e with off := Facts.C35.clampOff total e.off e.len, len := Facts.C35.clampLen total e.off e.len }

/-- `fixEntities` (repaired): trim trailing white space of the last formatted block when that
block reaches the end of the message, then clamp *every* entity to the trimmed text. -/
def fixEntities (s : St) : List Char × List Ent :=
  match s.last with
  | none => (s.text, s.ents)
  | some (cs, ce) =>
    if s.lfi ≥ s.ents.length then (s.text, s.ents)
    else
      let lastBlock := s.text.drop cs
      let trimmed := trimRight lastBlock
      if ce ≥ s.text.length ∧ trimmed.length ≠ lastBlock.length then
        let msg := s.text.take (cs + trimmed.length)
        (msg, s.ents.map (clamp (u16len msg)))
      else (s.text, s.ents)

/-- The pinned tree's `fixEntities` (D10): only entities from `lastFormatIndex` on are shortened. -/
def fixEntitiesOld (s : St) : List Char × List Ent :=
  match s.last with
  | none => (s.text, s.ents)
  | some (cs, ce) =>
    if s.lfi ≥ s.ents.length then (s.text, s.ents)
    else
      let lastBlock := s.text.drop cs
      let trimmed := trimRight lastBlock
      if ce ≥ s.text.length ∧ trimmed.length ≠ lastBlock.length then
        (s.text.take (cs + trimmed.length),
         s.ents.take s.lfi ++ (s.ents.drop s.lfi).map (fun e => { e with len := u16len trimmed }))
      else (s.text, s.ents)

def less (a b : Ent) : Bool := Facts.C35.less a.off a.len b.off b.len

def insertEnt (x : Ent) : List Ent → List Ent
  | [] => [x]
  | y :: t => if less x y then x :: y :: t else y :: insertEnt x t

/-- Stand-in for `SortEntities` (any permutation would do for the theorems). -/
def sortEnts : List Ent → List Ent
  | [] => []
  | x :: t => insertEnt x (sortEnts t)

/-- `Builder.Complete`. -/
def complete (s : St) : List Char × List Ent :=
  let r := fixEntities s
  (r.1, sortEnts r.2)

def completeOld (s : St) : List Char × List Ent :=
  let r := fixEntitiesOld s
  (r.1, sortEnts r.2)

/-- The property as a decidable monitor on an observation (text, entities). -/
def holds (text : List Char) (ents : List Ent) : Bool :=
  ents.all fun e => decide (0 ≤ e.off) && decide (0 ≤ e.len) && decide (e.off + e.len ≤ (u16len text : Int))

end TdModel.C35
