/-
C22 — model of /repo/proto: container.go (MessageContainer, Message), rpc_result.go (Result),
unencrypted_message.go (UnencryptedMessage), gzip.go (GZIP).

Built on the TL primitive model (`TdModel.Bin`): `bin.Buffer` = remaining bytes, every decoder
returns (value, rest).  Go `int`/`int64` fields are `Int`; what goes on the wire is `int32(v)` /
the 64-bit pattern, exactly as `PutInt`/`PutLong` do.

gzip itself is a *parameter* (`Gz`): `gz` = what `gzip.Writer` produces, `gunz` = what reading the
`gzip.Reader` to the end yields — the bytes delivered before the stream ends, and whether it
ended cleanly (valid header, trailer, checksum).  The framing and the 10 MiB limit around it are
modelled; the size limits are the regenerated literals of the Go source.
-/
import TdModel.Model.Bin
import TdModel.Gen.C22

namespace TdModel.C22
open TdModel TdModel.Bin

def containerID : Nat := Facts.C22.messageContainerTypeID
def gzipID : Nat := Facts.C22.gzipTypeID
def resultID : Nat := Facts.C22.resultTypeID
/-- `1024*1024` in `Message.Encode`. -/
def maxMsgEnc : Int := Facts.C22.messageEncodeMaxBytes
/-- `1024*1024` in `Message.Decode`. -/
def maxMsgDec : Int := Facts.C22.messageDecodeMaxBytes
/-- `maxUncompressedSize` in `GZIP.Decode`. -/
def maxGunz : Nat := Facts.C22.maxUncompressedSize

def errTooBig : Err := .other "length"
def errAuthKey : Err := .other "auth-key-id"
def errBomb : Err := .other "bomb"
def errGzip : Err := .other "gzip"

/-! ### proto.Message / proto.MessageContainer -/

structure Message where
  id : Int       -- int64
  seqNo : Int    -- int (int32 on the wire)
  bytes : Int    -- int (int32 on the wire)
  body : Bytes
  deriving Repr, DecidableEq

/-- A message as the library builds them: `Bytes` is the body's length, the fields fit their Go types. -/
structure Message.WF (m : Message) : Prop where
  id_range : -2 ^ 63 ≤ m.id ∧ m.id < 2 ^ 63
  seq_range : -2 ^ 31 ≤ m.seqNo ∧ m.seqNo < 2 ^ 31
  bytes_eq : m.bytes = m.body.length

/-- `Message.Encode`. -/
def encodeMessage (m : Message) : Except Err Bytes :=
  if m.bytes < 0 ∨ m.bytes > maxMsgEnc then .error errTooBig
  else .ok (putInt64 m.id ++ putInt32 m.seqNo ++ putInt32 m.bytes ++ putRaw m.body)

/-- `Message.Decode`. -/
def decodeMessage (b : Bytes) : Res Message :=
  match getInt64 b with
  | .error e => .error e
  | .ok (id, r1) =>
    match getInt32 r1 with
    | .error e => .error e
    | .ok (seq, r2) =>
      match getInt32 r2 with
      | .error e => .error e
      | .ok (n, r3) =>
        if n < 0 ∨ n > maxMsgDec then .error errTooBig
        else
          match getN n.toNat r3 with
          | .error e => .error e
          | .ok (body, r4) => .ok (⟨id, seq, n, body⟩, r4)

/-- The loop of `MessageContainer.Encode`. -/
def encodeMessages : List Message → Except Err Bytes
  | [] => .ok []
  | m :: ms =>
    match encodeMessage m with
    | .error e => .error e
    | .ok x =>
      match encodeMessages ms with
      | .error e => .error e
      | .ok y => .ok (x ++ y)

/-- `MessageContainer.Encode`. -/
def encodeContainer (ms : List Message) : Except Err Bytes :=
  match encodeMessages ms with
  | .error e => .error e
  | .ok body => .ok (putU32 containerID ++ putInt32 ms.length ++ body)

/-- The loop of `MessageContainer.Decode` (`for i := 0; i < n; i++`). -/
def decodeMessages : Nat → Bytes → Res (List Message)
  | 0, b => .ok ([], b)
  | n + 1, b =>
    match decodeMessage b with
    | .error e => .error e
    | .ok (m, r) =>
      match decodeMessages n r with
      | .error e => .error e
      | .ok (ms, r') => .ok (m :: ms, r')

/-- `MessageContainer.Decode` (a negative count runs the loop zero times). -/
def decodeContainer (b : Bytes) : Res (List Message) :=
  match consumeID containerID b with
  | .error e => .error e
  | .ok (_, r) =>
    match getInt32 r with
    | .error e => .error e
    | .ok (n, r') => decodeMessages n.toNat r'

/-! ### proto.Result -/

structure Result where
  reqMsgID : Int   -- int64
  result : Bytes
  deriving Repr, DecidableEq

/-- `Result.Encode`. -/
def encodeResult (x : Result) : Bytes := putU32 resultID ++ putInt64 x.reqMsgID ++ putRaw x.result

/-- `Result.Decode`: everything after the id is the result; the buffer is left empty. -/
def decodeResult (b : Bytes) : Res Result :=
  match consumeID resultID b with
  | .error e => .error e
  | .ok (_, r) =>
    match getInt64 r with
    | .error e => .error e
    | .ok (id, r') => .ok (⟨id, r'⟩, [])

/-! ### proto.UnencryptedMessage -/

structure Unencrypted where
  messageID : Int  -- int64
  data : Bytes
  deriving Repr, DecidableEq

/-- `UnencryptedMessage.Encode`. -/
def encodeUnencrypted (u : Unencrypted) : Bytes :=
  putInt64 0 ++ putInt64 u.messageID ++ putInt32 u.data.length ++ putRaw u.data

/-- `UnencryptedMessage.Decode`. -/
def decodeUnencrypted (b : Bytes) : Res Unencrypted :=
  match getInt64 b with
  | .error e => .error e
  | .ok (ak, r1) =>
    if ak ≠ 0 then .error errAuthKey
    else
      match getInt64 r1 with
      | .error e => .error e
      | .ok (mid, r2) =>
        match getInt32 r2 with
        | .error e => .error e
        | .ok (n, r3) =>
          if n < 0 then .error .invalidLength
          else if n > r3.length then .error .eof
          else
            match getN n.toNat r3 with
            | .error e => .error e
            | .ok (d, r4) => .ok (⟨mid, d⟩, r4)

/-! ### proto.GZIP -/

/-- gzip as a parameter. `gunz c = (out, clean)`. -/
structure Gz where
  gz : Bytes → Bytes
  gunz : Bytes → Bytes × Bool

/-- The one law the round trip needs: decompressing what was compressed gives it back, cleanly. -/
structure LawfulGz (G : Gz) : Prop where
  gunz_gz : ∀ d, G.gunz (G.gz d) = (d, true)

/-- `GZIP.Encode` given the compressed bytes: id, then the compressed data as TL bytes. -/
def gzipFrame (compressed : Bytes) : Bytes := putU32 gzipID ++ putBytes compressed

/-- `GZIP.Encode`. -/
def encodeGzip (G : Gz) (d : Bytes) : Bytes := gzipFrame (G.gz d)

/-- First half of `GZIP.Decode`: `ConsumeID`, `Bytes`. -/
def gzipUnframe (b : Bytes) : Res Bytes :=
  match consumeID gzipID b with
  | .error e => .error e
  | .ok (_, r) => getBytes r

/-- Second half of `GZIP.Decode` on the decompressor's behaviour, by output *length*:
`io.ReadAll(io.LimitReader(r, max))` sees at most `max` bytes; `Total() >= max` is the bomb error;
otherwise an unclean end is a decompress/checksum error. -/
def gunzLimitedLen (outLen : Nat) (clean : Bool) : Except Err Unit :=
  if outLen ≥ maxGunz then .error errBomb
  else if !clean then .error errGzip
  else .ok ()

def gunzLimited (o : Bytes × Bool) : Except Err Bytes :=
  match gunzLimitedLen o.1.length o.2 with
  | .error e => .error e
  | .ok _ => .ok o.1

/-- `GZIP.Decode`. -/
def decodeGzip (G : Gz) (b : Bytes) : Res Bytes :=
  match gzipUnframe b with
  | .error e => .error e
  | .ok (buf, rest) =>
    match gunzLimited (G.gunz buf) with
    | .error e => .error e
    | .ok d => .ok (d, rest)

/-- A lawful toy instance (store uncompressed), for non-vacuity. -/
def Gz.store : Gz where
  gz := fun d => d
  gunz := fun c => (c, true)

/-! ### Panic-explicit transliterations (`make([]byte, n)`, `ConsumeN`, `Skip`) -/

/-- `Message.Decode` with `make([]byte, m.Bytes)` and `b.ConsumeN(m.Body, m.Bytes)` explicit. -/
def decodeMessageP (b : Bytes) : Out (Message × Bytes) := do
  let (id, r1) ← getInt64P b
  let (seq, r2) ← getInt32P r1
  let (n, r3) ← getInt32P r2
  if n < 0 ∨ n > maxMsgDec then .err errTooBig
  else do
    let _buf ← goMake n
    let (body, r4) ← getNP n.toNat r3
    pure (⟨id, seq, n, body⟩, r4)

def decodeMessagesP : Nat → Bytes → Out (List Message × Bytes)
  | 0, b => .ok ([], b)
  | n + 1, b => do
    let (m, r) ← decodeMessageP b
    let (ms, r') ← decodeMessagesP n r
    pure (m :: ms, r')

def decodeContainerP (b : Bytes) : Out (List Message × Bytes) := do
  let (_, r) ← consumeIDP containerID b
  let (n, r') ← getInt32P r
  decodeMessagesP n.toNat r'

/-- `Result.Decode`: `append(r.Result[:0], b.Buf...)`, `b.Skip(len(b.Buf))`. -/
def decodeResultP (b : Bytes) : Out (Result × Bytes) := do
  let (_, r) ← consumeIDP resultID b
  let (id, r') ← getInt64P r
  let rest ← goFrom r' r'.length
  pure (⟨id, r'⟩, rest)

/-- `UnencryptedMessage.Decode` with `make([]byte, dataLen)` explicit. -/
def decodeUnencryptedP (b : Bytes) : Out (Unencrypted × Bytes) := do
  let (ak, r1) ← getInt64P b
  if ak ≠ 0 then .err errAuthKey
  else do
    let (mid, r2) ← getInt64P r1
    let (n, r3) ← getInt32P r2
    if n < 0 then .err .invalidLength
    else if n > r3.length then .err .eof
    else do
      let _buf ← goMake n
      let (d, r4) ← getNP n.toNat r3
      pure (⟨mid, d⟩, r4)

/-- `GZIP.Decode` up to the decompressor. -/
def gzipUnframeP (b : Bytes) : Out (Bytes × Bytes) := do
  let (_, r) ← consumeIDP gzipID b
  getBytesP r

end TdModel.C22
