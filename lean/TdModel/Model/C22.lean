/-
C22 — model of /repo/proto: container.go (MessageContainer, Message), rpc_result.go (Result),
unencrypted_message.go (UnencryptedMessage), gzip.go (GZIP).

Built on the TL primitive model (`TdModel.Bin`): `bin.Buffer` = remaining bytes, every decoder
returns (value, rest).  Go `int`/`int64` fields are `Int`; what goes on the wire is `int32(v)` /
the 64-bit pattern, exactly as `PutInt`/`PutLong` do.

gzip itself is a *parameter* (`Gz`): `gz` = what `gzip.Writer` produces, `gunz` = what reading the
`gzip.Reader` to the end yields — the bytes delivered before the stream ends, and whether it
ended cleanly (valid header, trailer, checksum).  The framing and the 10 MiB limit around it are
modelled; the size limits are the regenerated literals of the Go source.
-/
import TdModel.Model.Bin
import TdModel.Gen.C22

namespace TdModel.C22
open TdModel TdModel.Bin

def containerID : Nat := Facts.C22.messageContainerTypeID
def gzipID : Nat := Facts.C22.gzipTypeID
def resultID : Nat := Facts.C22.resultTypeID
/-- `m.Bytes < 0 || m.Bytes > 1024*1024` of `Message.Encode`, translated from the source. -/
def msgLenInvalidEnc (n : Int) : Bool := Facts.C22.msgLenInvalidEnc n
/-- The same check of `Message.Decode`, translated from the source. -/
def msgLenInvalidDec (n : Int) : Bool := Facts.C22.msgLenInvalidDec n
/-- The second argument of `io.LimitReader` in `GZIP.Decode`, translated. -/
def gunzLimit : Nat := Facts.C22.gzipLimitArg.toNat
/-- `reader.Total() >= maxUncompressedSize` of `GZIP.Decode`, translated. -/
def gunzBomb (total : Nat) : Bool := Facts.C22.gzipBomb (total : Int)

def errTooBig : Err := .other "length"
def errAuthKey : Err := .other "auth-key-id"
def errBomb : Err := .other "bomb"
def errGzip : Err := .other "gzip"
def errGzipHeader : Err := .other "gzip-header"

/-! ### proto.Message / proto.MessageContainer -/

structure Message where
  id : Int       -- int64
  seqNo : Int    -- int (int32 on the wire)
  bytes : Int    -- int (int32 on the wire)
  body : Bytes
  deriving Repr, DecidableEq

/-- A message as the library builds them: `Bytes` is the body's length, the fields fit their Go types. -/
structure Message.WF (m : Message) : Prop where
  id_range : -2 ^ 63 ≤ m.id ∧ m.id < 2 ^ 63
  seq_range : -2 ^ 31 ≤ m.seqNo ∧ m.seqNo < 2 ^ 31
  bytes_eq : m.bytes = m.body.length

/-- `Message.Encode`. -/
def encodeMessage (m : Message) : Except Err Bytes :=
  if msgLenInvalidEnc m.bytes then .error errTooBig
  else .ok (putInt64 m.id ++ putInt32 m.seqNo ++ putInt32 m.bytes ++ putRaw m.body)

/-- `Message.Decode`. -/
def decodeMessage (b : Bytes) : Res Message :=
  match getInt64 b with
  | .error e => .error e
  | .ok (id, r1) =>
    match getInt32 r1 with
    | .error e => .error e
    | .ok (seq, r2) =>
      match getInt32 r2 with
      | .error e => .error e
      | .ok (n, r3) =>
        if msgLenInvalidDec n then .error errTooBig
        else
          match getN n.toNat r3 with
          | .error e => .error e
          | .ok (body, r4) => .ok (⟨id, seq, n, body⟩, r4)

/-- The loop of `MessageContainer.Encode`. -/
def encodeMessages : List Message → Except Err Bytes
  | [] => .ok []
  | m :: ms =>
    match encodeMessage m with
    | .error e => .error e
    | .ok x =>
      match encodeMessages ms with
      | .error e => .error e
      | .ok y => .ok (x ++ y)

/-- `MessageContainer.Encode`. -/
def encodeContainer (ms : List Message) : Except Err Bytes :=
  match encodeMessages ms with
  | .error e => .error e
  | .ok body => .ok (putU32 containerID ++ putInt32 ms.length ++ body)

/-- The loop of `MessageContainer.Decode` (`for i := 0; i < n; i++`). -/
def decodeMessages : Nat → Bytes → Res (List Message)
  | 0, b => .ok ([], b)
  | n + 1, b =>
    match decodeMessage b with
    | .error e => .error e
    | .ok (m, r) =>
      match decodeMessages n r with
      | .error e => .error e
      | .ok (ms, r') => .ok (m :: ms, r')

/-- `MessageContainer.Decode` (a negative count runs the loop zero times). -/
def decodeContainer (b : Bytes) : Res (List Message) :=
  match consumeID containerID b with
  | .error e => .error e
  | .ok (_, r) =>
    match getInt32 r with
    | .error e => .error e
    | .ok (n, r') => decodeMessages n.toNat r'

/-! ### proto.Result -/

structure Result where
  reqMsgID : Int   -- int64
  result : Bytes
  deriving Repr, DecidableEq

/-- `Result.Encode`. -/
def encodeResult (x : Result) : Bytes := putU32 resultID ++ putInt64 x.reqMsgID ++ putRaw x.result

/-- `Result.Decode`: everything after the id is the result; the buffer is left empty. -/
def decodeResult (b : Bytes) : Res Result :=
  match consumeID resultID b with
  | .error e => .error e
  | .ok (_, r) =>
    match getInt64 r with
    | .error e => .error e
    | .ok (id, r') => .ok (⟨id, r'⟩, [])

/-! ### proto.UnencryptedMessage -/

structure Unencrypted where
  messageID : Int  -- int64
  data : Bytes
  deriving Repr, DecidableEq

/-- `UnencryptedMessage.Encode`. -/
def encodeUnencrypted (u : Unencrypted) : Bytes :=
  putInt64 0 ++ putInt64 u.messageID ++ putInt32 u.data.length ++ putRaw u.data

/-- `UnencryptedMessage.Decode`. -/
def decodeUnencrypted (b : Bytes) : Res Unencrypted :=
  match getInt64 b with
  | .error e => .error e
  | .ok (ak, r1) =>
    if Facts.C22.unencAuthKeyBad ak then .error errAuthKey
    else
      match getInt64 r1 with
      | .error e => .error e
      | .ok (mid, r2) =>
        match getInt32 r2 with
        | .error e => .error e
        | .ok (n, r3) =>
          if Facts.C22.unencLenNegative n then .error .invalidLength
          else if Facts.C22.unencLenBeyond n r3.length then .error .eof
          else
            match getN n.toNat r3 with
            | .error e => .error e
            | .ok (d, r4) => .ok (⟨mid, d⟩, r4)

/-! ### proto.GZIP -/

/-- gzip as a parameter.  `hdrOK c`: `gzip.NewReader` / `Reader.Reset` accept the stream's header
(otherwise `GZIP.Decode` fails with "gzip error" before reading anything); `gunz c = (out, clean)`:
the bytes the reader delivers before the stream ends and whether it ended cleanly (otherwise the
"decompress"/"checksum" errors). -/
structure Gz where
  gz : Bytes → Bytes
  hdrOK : Bytes → Bool
  gunz : Bytes → Bytes × Bool

/-- The one law the round trip needs: decompressing what was compressed gives it back, cleanly. -/
structure LawfulGz (G : Gz) : Prop where
  hdr_gz : ∀ d, G.hdrOK (G.gz d) = true
  gunz_gz : ∀ d, G.gunz (G.gz d) = (d, true)

/-- `GZIP.Encode` given the compressed bytes: id, then the compressed data as TL bytes. -/
def gzipFrame (compressed : Bytes) : Bytes := putU32 gzipID ++ putBytes compressed

/-- `GZIP.Encode`. -/
def encodeGzip (G : Gz) (d : Bytes) : Bytes := gzipFrame (G.gz d)

/-- First half of `GZIP.Decode`: `ConsumeID`, `Bytes`. -/
def gzipUnframe (b : Bytes) : Res Bytes :=
  match consumeID gzipID b with
  | .error e => .error e
  | .ok (_, r) => getBytes r

/-- Second half of `GZIP.Decode` on the decompressor's behaviour, by output *length*:
`io.ReadAll(io.LimitReader(r, L))` sees `min outLen L` bytes; the bomb check is applied to that
total; if the output reaches `L` the reader is cut there and the end of the stream (clean or not)
is never observed; otherwise an unclean end is a decompress/checksum error.
Returns how many bytes `g.Data` gets. -/
def gunzLimitedLen (outLen : Nat) (clean : Bool) : Except Err Nat :=
  let seen := min outLen gunzLimit
  if gunzBomb seen then .error errBomb
  else if outLen ≥ gunzLimit then .ok gunzLimit
  else if !clean then .error errGzip
  else .ok outLen

def gunzLimited (o : Bytes × Bool) : Except Err Bytes :=
  match gunzLimitedLen o.1.length o.2 with
  | .error e => .error e
  | .ok n => .ok (o.1.take n)

/-- `GZIP.Decode`. -/
def decodeGzip (G : Gz) (b : Bytes) : Res Bytes :=
  match gzipUnframe b with
  | .error e => .error e
  | .ok (buf, rest) =>
    if !G.hdrOK buf then .error errGzipHeader
    else
      match gunzLimited (G.gunz buf) with
      | .error e => .error e
      | .ok d => .ok (d, rest)

/-- A lawful toy instance (store uncompressed), for non-vacuity. -/
def Gz.store : Gz where
  gz := fun d => d
  hdrOK := fun _ => true
  gunz := fun c => (c, true)

/-! ### Panic-explicit transliterations (`make([]byte, n)`, `ConsumeN`, `Skip`) -/

/-- `Message.Decode` with `make([]byte, m.Bytes)` and `b.ConsumeN(m.Body, m.Bytes)` explicit. -/
def decodeMessageP (b : Bytes) : Out (Message × Bytes) := do
  let (id, r1) ← getInt64P b
  let (seq, r2) ← getInt32P r1
  let (n, r3) ← getInt32P r2
  if msgLenInvalidDec n then .err errTooBig
  else do
    let _buf ← goMake n
    let (body, r4) ← getNP n.toNat r3
    pure (⟨id, seq, n, body⟩, r4)

def decodeMessagesP : Nat → Bytes → Out (List Message × Bytes)
  | 0, b => .ok ([], b)
  | n + 1, b => do
    let (m, r) ← decodeMessageP b
    let (ms, r') ← decodeMessagesP n r
    pure (m :: ms, r')

def decodeContainerP (b : Bytes) : Out (List Message × Bytes) := do
  let (_, r) ← consumeIDP containerID b
  let (n, r') ← getInt32P r
  decodeMessagesP n.toNat r'

/-- `Result.Decode`: `append(r.Result[:0], b.Buf...)`, `b.Skip(len(b.Buf))`. -/
def decodeResultP (b : Bytes) : Out (Result × Bytes) := do
  let (_, r) ← consumeIDP resultID b
  let (id, r') ← getInt64P r
  let rest ← goFrom r' r'.length
  pure (⟨id, r'⟩, rest)

/-- `UnencryptedMessage.Decode` with `make([]byte, dataLen)` explicit. -/
def decodeUnencryptedP (b : Bytes) : Out (Unencrypted × Bytes) := do
  let (ak, r1) ← getInt64P b
  if Facts.C22.unencAuthKeyBad ak then .err errAuthKey
  else do
    let (mid, r2) ← getInt64P r1
    let (n, r3) ← getInt32P r2
    if Facts.C22.unencLenNegative n then .err .invalidLength
    else if Facts.C22.unencLenBeyond n r3.length then .err .eof
    else do
      let _buf ← goMake n
      let (d, r4) ← getNP n.toNat r3
      pure (⟨mid, d⟩, r4)

/-- `GZIP.Decode` up to the decompressor. -/
def gzipUnframeP (b : Bytes) : Out (Bytes × Bytes) := do
  let (_, r) ← consumeIDP gzipID b
  getBytesP r

/-! ### The generated twins in /repo/mt (`mt.GzipPacked`, `mt.Message`, `mt.MsgContainer`, `mt.RPCResult`)

Generated from the MTProto schema; they describe the same wire objects as the hand-written proto
types (the body of a message / result is typed as a boxed `gzip_packed` there), without the size
limits. -/

/-- `mt.GzipPacked.Encode`: boxed `gzip_packed#3072cfa1 packed_data:bytes` — the same frame `proto.GZIP`
writes around its compressed data. -/
def mtEncodeGzip (packed : Bytes) : Bytes := putU32 Facts.C22.mtGzipPackedTypeID ++ putBytes packed

/-- `mt.GzipPacked.Decode`. -/
def mtDecodeGzip (b : Bytes) : Res Bytes :=
  match consumeID Facts.C22.mtGzipPackedTypeID b with
  | .error e => .error e
  | .ok (_, r) => getBytes r

structure MtMessage where
  msgID : Int
  seqno : Int
  bytes : Int
  packed : Bytes      -- Body.PackedData
  deriving Repr, DecidableEq

/-- `mt.Message.EncodeBare`. -/
def mtEncodeMessage (m : MtMessage) : Bytes :=
  putInt64 m.msgID ++ putInt32 m.seqno ++ putInt32 m.bytes ++ mtEncodeGzip m.packed

/-- `mt.Message.DecodeBare`. -/
def mtDecodeMessage (b : Bytes) : Res MtMessage :=
  match getInt64 b with
  | .error e => .error e
  | .ok (id, r1) =>
    match getInt32 r1 with
    | .error e => .error e
    | .ok (seq, r2) =>
      match getInt32 r2 with
      | .error e => .error e
      | .ok (n, r3) =>
        match mtDecodeGzip r3 with
        | .error e => .error e
        | .ok (p, r4) => .ok (⟨id, seq, n, p⟩, r4)

/-- `mt.MsgContainer.Encode`. -/
def mtEncodeContainer (ms : List MtMessage) : Bytes :=
  putU32 Facts.C22.mtMsgContainerTypeID ++ putInt32 ms.length ++ (ms.map mtEncodeMessage).flatten

def mtDecodeMessages : Nat → Bytes → Res (List MtMessage)
  | 0, b => .ok ([], b)
  | n + 1, b =>
    match mtDecodeMessage b with
    | .error e => .error e
    | .ok (m, r) =>
      match mtDecodeMessages n r with
      | .error e => .error e
      | .ok (ms, r') => .ok (m :: ms, r')

/-- The capacity `mt.MsgContainer.DecodeBare` pre-allocates: `headerLen % bin.PreallocateLimit` when positive. -/
def mtPrealloc (headerLen : Int) : Nat :=
  if headerLen > 0 then (Int.tmod headerLen Facts.C22.preallocateLimit).toNat else 0

/-- `mt.MsgContainer.Decode`. -/
def mtDecodeContainer (b : Bytes) : Res (List MtMessage) :=
  match consumeID Facts.C22.mtMsgContainerTypeID b with
  | .error e => .error e
  | .ok (_, r) =>
    match getInt32 r with
    | .error e => .error e
    | .ok (n, r') => mtDecodeMessages n.toNat r'

/-- `mt.RPCResult.Encode`. -/
def mtEncodeResult (reqMsgID : Int) (packed : Bytes) : Bytes :=
  putU32 Facts.C22.mtRPCResultTypeID ++ putInt64 reqMsgID ++ mtEncodeGzip packed

/-- `mt.RPCResult.Decode`. -/
def mtDecodeResult (b : Bytes) : Res (Int × Bytes) :=
  match consumeID Facts.C22.mtRPCResultTypeID b with
  | .error e => .error e
  | .ok (_, r) =>
    match getInt64 r with
    | .error e => .error e
    | .ok (id, r') =>
      match mtDecodeGzip r' with
      | .error e => .error e
      | .ok (p, r'') => .ok ((id, p), r'')

/-- The proto message whose body is a gzip_packed frame around `m.packed` (what the twins have in common). -/
def MtMessage.toProto (m : MtMessage) : Message := ⟨m.msgID, m.seqno, m.bytes, gzipFrame m.packed⟩

/-! ### Regenerated write / read orders, interpreted

`Facts.C22.ops…` list, in source order, the calls each method makes on its `*bin.Buffer`
(method, argument kind, field name, constant) — extracted from the AST on every run.  The
definitions below *interpret* these lists; `Props/C22.lean` proves the interpretations equal to the
transliterated definitions above for all inputs, and the driver runs the interpreted encoders, so
the order of fields, the width of each field (PutInt vs PutLong), the type ids and which field is
written are tied to the current source both by proof and by correspondence. -/

abbrev Op := String × String × String × Int

/-- What a struct field holds. -/
inductive FV where
  | int (i : Int)
  | bytes (b : Bytes)
  | count (n : Nat)     -- a slice of which only the length is used (`len(m.Messages)`)

/-- One `b.PutXxx(arg)`.  `extra` is the one non-field argument a method may pass
(`buf.Bytes()`: the compressed data in `GZIP.Encode`). -/
def writeOp (env : String → Option FV) (extra : Bytes) (op : Op) : Option Bytes :=
  match op with
  | ("PutLong", "field", f, _) => match env f with | some (.int i) => some (putInt64 i) | _ => none
  | ("PutLong", "const", _, c) => some (putInt64 c)
  | ("PutInt", "field", f, _) => match env f with | some (.int i) => some (putInt32 i) | _ => none
  | ("PutInt32", "field", f, _) => match env f with | some (.int i) => some (putInt32 i) | _ => none
  | ("PutInt", "len", f, _) =>
    match env f with | some (.bytes b) => some (putInt32 b.length) | some (.count n) => some (putInt32 n) | _ => none
  | ("PutInt32", "len", f, _) =>
    match env f with | some (.bytes b) => some (putInt32 b.length) | some (.count n) => some (putInt32 n) | _ => none
  | ("PutID", "const", _, c) => some (putU32 c.toNat)
  | ("Put", "field", f, _) => match env f with | some (.bytes b) => some (putRaw b) | _ => none
  | ("PutBytes", "field", f, _) => match env f with | some (.bytes b) => some (putBytes b) | _ => none
  | ("PutBytes", "expr", _, _) => some (putBytes extra)
  | _ => none

def writeOps (env : String → Option FV) (extra : Bytes) : List Op → Option Bytes
  | [] => some []
  | op :: rest =>
    match writeOp env extra op, writeOps env extra rest with
    | some a, some b => some (a ++ b)
    | _, _ => none

/-- One integer read: `b.Long()`, `b.Int()`, `b.Int32()`. -/
def readOp (op : Op) (b : Bytes) : Res Int :=
  match op with
  | ("Long", _, _, _) => getInt64 b
  | ("Int", _, _, _) => getInt32 b
  | ("Int32", _, _, _) => getInt32 b
  | _ => .error (.other "unknown-op")

/-- The leading reads of a decoder that are stored into receiver fields: (field, value) pairs. -/
def readStores : List Op → Bytes → Res (List (String × Int))
  | [], b => .ok ([], b)
  | op :: rest, b =>
    match op with
    | (_, "store", f, _) =>
      match readOp op b with
      | .error e => .error e
      | .ok (v, r) =>
        match readStores rest r with
        | .error e => .error e
        | .ok (vs, r') => .ok ((f, v) :: vs, r')
    | _ => .ok ([], b)

def lookupField (vs : List (String × Int)) (f : String) : Option Int :=
  match vs with
  | [] => none
  | (g, v) :: rest => if g = f then some v else lookupField rest f

def envMessage (m : Message) : String → Option FV
  | "ID" => some (.int m.id)
  | "SeqNo" => some (.int m.seqNo)
  | "Bytes" => some (.int m.bytes)
  | "Body" => some (.bytes m.body)
  | _ => none

/-- `Message.Encode`, write order regenerated. -/
def encodeMessageG (m : Message) : Except Err Bytes :=
  if msgLenInvalidEnc m.bytes then .error errTooBig
  else match writeOps (envMessage m) [] Facts.C22.opsMessageEncode with
    | some x => .ok x
    | none => .error (.other "ops")

def encodeMessagesG : List Message → Except Err Bytes
  | [] => .ok []
  | m :: ms =>
    match encodeMessageG m with
    | .error e => .error e
    | .ok x =>
      match encodeMessagesG ms with
      | .error e => .error e
      | .ok y => .ok (x ++ y)

/-- `MessageContainer.Encode`, header regenerated. -/
def encodeContainerG (ms : List Message) : Except Err Bytes :=
  match writeOps (fun f => if f = "Messages" then some (.count ms.length) else none) [] Facts.C22.opsContainerEncode,
        encodeMessagesG ms with
  | some h, .ok body => .ok (h ++ body)
  | none, _ => .error (.other "ops")
  | _, .error e => .error e

/-- `Message.Decode`, read order / widths / target fields regenerated. -/
def decodeMessageG (b : Bytes) : Res Message :=
  match readStores Facts.C22.opsMessageDecode b with
  | .error e => .error e
  | .ok (vs, r) =>
    match lookupField vs "ID", lookupField vs "SeqNo", lookupField vs "Bytes" with
    | some id, some seq, some n =>
      if msgLenInvalidDec n then .error errTooBig
      else
        match getN n.toNat r with
        | .error e => .error e
        | .ok (body, r') => .ok (⟨id, seq, n, body⟩, r')
    | _, _, _ => .error (.other "ops")

def envResult (x : Result) : String → Option FV
  | "RequestMessageID" => some (.int x.reqMsgID)
  | "Result" => some (.bytes x.result)
  | _ => none

/-- `Result.Encode`, regenerated. -/
def encodeResultG (x : Result) : Option Bytes := writeOps (envResult x) [] Facts.C22.opsResultEncode

def envUnencrypted (u : Unencrypted) : String → Option FV
  | "MessageID" => some (.int u.messageID)
  | "MessageData" => some (.bytes u.data)
  | _ => none

/-- `UnencryptedMessage.Encode`, regenerated. -/
def encodeUnencryptedG (u : Unencrypted) : Option Bytes :=
  writeOps (envUnencrypted u) [] Facts.C22.opsUnencryptedEncode

/-- `GZIP.Encode` around the compressed bytes, regenerated. -/
def gzipFrameG (compressed : Bytes) : Option Bytes := writeOps (fun _ => none) compressed Facts.C22.opsGzipEncode

end TdModel.C22
