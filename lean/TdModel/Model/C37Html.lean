/-
C37 — model of the control logic of /repo/telegram/message/html/parser.go (`htmlParser.parse`,
`startTag`, `endTag`, the tail of `HTML`) for documents whose tags carry NO attributes: the stack
discipline, the "do not add empty entities" rule, the `code`-inside-`pre` suppression and the final
`ShrinkPreCode`, expressed as builder calls on the C35 builder model.

The tokenizer (golang.org/x/net/html) is NOT modelled: the input of this model is the token
stream it produced (the harness runs the real tokenizer and forwards start tags, end tags, `</>`
comments and unescaped text).  Attribute-dependent formatters (`a href`, `span class`, `tg-emoji`,
`tg-time`, `pre`/`code` languages, `blockquote expandable`) are outside this model; their builder
calls are covered by the arbitrary-call-list theorem and the trace replay only.
The tag → formatter table for the simple tags is regenerated from `startTag` (`Facts.C37.simpleTags`).
-/
import TdModel.Model.C35
import TdModel.Gen.C37

namespace TdModel.C37H
open TdModel.C35

inductive HTok where
  | text (s : List Char)   -- TextToken, after telegramUnescape (and the builder's UTF-8 sanitising)
  | start (tag : String)   -- StartTagToken
  | stop (tag : String)    -- EndTagToken
  | stopAny                -- CommentToken of the form `</…>` (empty closing tag)
  deriving Repr

def ctorKind : String → Option Nat
  | "Bold" => some 0 | "Italic" => some 1 | "Underline" => some 2 | "Strike" => some 3
  | "Code" => some 4 | "Spoiler" => some 7
  | _ => none

/-- The formatter `startTag` assigns to a tag without attributes. -/
def tagFmt (tag : String) : Option Fmt :=
  match Facts.C37.simpleTags.lookup tag with
  | some c => (ctorKind c).map fun k => { kind := k }
  | none =>
    if tag = "code" then some { kind := kCode }
    else if tag = "pre" then some { kind := kPre }
    else if tag = "blockquote" then some { kind := 8 }
    else none

/-- `stackElem`: tag, index of its `entity.Token`, formatter. -/
structure Elem where
  tag : String
  tok : Nat
  fmt : Option Fmt
  deriving Repr

structure PS where
  st : St := {}
  stack : List Elem := []
  deriving Repr

/-- `htmlParser.endTag(checkName)`; `name = none` is the `</>` form (`checkName = false`). -/
def endTag (p : PS) (name : Option String) : Except Unit PS :=
  match p.stack with
  | [] => throw ()
  | e :: rest =>
    if (match name with | some n => e.tag != n | none => false) then throw ()
    else
      let p' : PS := { p with stack := rest }
      match p.st.toks[e.tok]? with
      | none => pure p'
      | some t =>
        let length : Int := (p.st.u16 : Int) - t.o16
        let skipCode : Bool :=
          e.tag == "code" &&
            (match p.st.ents.getLast? with
             | some l => l.kind == kPre && l.off == (t.o16 : Int) && l.len == length
             | none => false)
        if skipCode then pure p'
        else
          match e.fmt with
          | none => pure p'
          | some f => if length = 0 then pure p' else pure { p' with st := step p.st (.apply e.tok [f]) }

def stepTok (p : PS) : HTok → Except Unit PS
  | .text s => pure { p with st := step p.st (.write s) }
  | .start tag =>
    pure { st := step p.st .token, stack := { tag := tag, tok := p.st.toks.length, fmt := tagFmt tag } :: p.stack }
  | .stop tag => endTag p (some tag)
  | .stopAny => endTag p none

def parseToks : PS → List HTok → Except Unit PS
  | p, [] => pure p
  | p, t :: rest => do
    let p1 ← stepTok p t
    parseToks p1 rest

/-- `html.HTML` followed by `Builder.Complete`: `none` = the parser returned an error. -/
def htmlResult (toks : List HTok) : Option (List Char × List Ent) :=
  match parseToks {} toks with
  | .error _ => none
  | .ok p => some (complete (step p.st .shrink))

end TdModel.C37H
