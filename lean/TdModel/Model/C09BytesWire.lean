/-
Line-protocol operations for the byte level of the exchange messages (drv_c09 / drv_c10):

  tlenc MSG…             payload bytes of a message whose ciphertext field is `H:<hex>`        → hex | none
  tldec STAGE HEX        what the client (STAGE 0/1/2) or the server (STAGE c) decodes          → MSG
  tlencinner TOKEN       TL bytes of an inner-data object given as rsa:… / S:… / C:… token     → hex | none
  tldecinner KIND HEX    KIND = rsa | S | C: the inner-data object decoded from its TL bytes    → token fields | none
  envdec HEX             unencrypted-message envelope                                           → MSGID HEXDATA | none
Nothing is proved about this file.
-/
import TdModel.Model.C09Wire
import TdModel.Model.C09Bytes

namespace TdModel.C09
open TdModel

def showH (b : Bytes) : String := "H:" ++ toHex b
def parseH (s : String) : Option Bytes := if s.startsWith "H:" then ofHex ((s.drop 2).toString) else none

def hexOpt : Option Bytes → String
  | some b => toHex b
  | none => "none"

def showPQInner (d : PQInner) : String :=
  ":".intercalate [b01 d.temp, toString d.pq, toString d.p, toString d.q, toHex d.nonce, toHex d.serverNonce,
    toHex d.newNonce, toString d.dc, toString d.expiresIn]
def showSInner (d : SInner) : String :=
  ":".intercalate [toHex d.nonce, toHex d.serverNonce, toString d.g, toString d.dhPrime, toString d.gA, toString d.serverTime]
def showCInner (d : CInner) : String :=
  ":".intercalate [toHex d.nonce, toHex d.serverNonce, toString d.retryId, toString d.gB]

def bytesOp (ws : List String) : Option String :=
  match ws with
  | "tlenc" :: m => (parseMsgWith parseH m).map fun x => hexOpt (encMsg x)
  | ["tldec", st, h] => (ofHex h).map fun b =>
      showMsgWith showH (if st == "c" then decClientMsg b else decServerMsg (st.toNat?.getD 0) b)
  | ["tlencinner", tok] =>
    (parseCt tok).map fun c =>
      match c with
      | .rsa _ d => hexOpt (encPQInner d)
      | .ansS _ d => hexOpt (encSInner d)
      | .ansC _ d => hexOpt (encCInner d)
      | .junk => "none"
  | ["tldecinner", "rsa", h] => (ofHex h).map fun b => ((decPQInner b).map showPQInner).getD "none"
  | ["tldecinner", "S", h] => (ofHex h).map fun b => ((decSInner b).map showSInner).getD "none"
  | ["tldecinner", "C", h] => (ofHex h).map fun b => ((decCInner b).map showCInner).getD "none"
  | ["envdec", h] => (ofHex h).map fun b =>
      match decEnvelope b with
      | some (id, d) => s!"{id} {toHex d}"
      | none => "none"
  | _ => none

end TdModel.C09
