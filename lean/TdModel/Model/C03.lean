/-
C03 — the update-manager model (TdModel/Model/C02Core.lean, C02Mgr.lean) instantiated with the
call orders and routing facts regenerated from /repo/telegram/updates by `./check C03`.
-/
import TdModel.Model.C02Mgr
import TdModel.Gen.C03

namespace TdModel.C03
open TdModel.C02Core

/-- The regenerated orders (codes → calls). -/
def orders : Orders where
  applyPts := Facts.C03.applyPts.map Call.ofCode
  applyQts := Facts.C03.applyQts.map Call.ofCode
  chApplyPts := Facts.C03.chApplyPts.map Call.ofCode
  diffPrelude := Facts.C03.diffPrelude.map Call.ofCode
  diffSetState := Facts.C03.diffSetState.map Call.ofCode
  diffDifference := Facts.C03.diffDifference.map Call.ofCode
  diffEmpty := Facts.C03.diffEmpty.map Call.ofCode
  diffSlice := Facts.C03.diffSlice.map Call.ofCode
  diffTooLong := Facts.C03.diffTooLong.map Call.ofCode
  chDiffPrelude := Facts.C03.chDiffPrelude.map Call.ofCode
  chDiffDifference := Facts.C03.chDiffDifference.map Call.ofCode
  chDiffEmpty := Facts.C03.chDiffEmpty.map Call.ofCode
  chDiffTooLong := Facts.C03.chDiffTooLong.map Call.ofCode
  diffGuard := Facts.C03.diffGuard
  sliceGuard := Facts.C03.sliceGuard
  chDiffGuard := Facts.C03.chDiffGuard
  applyPtsBreak := decide (Facts.C03.applyPtsSkip ≠ 0)
  chApplyPtsBreak := decide (Facts.C03.chApplyPtsSkip ≠ 0)
  ownDirect := Facts.C03.ownDirect
  chOwnDirect := Facts.C03.chOwnDirect
  creationStoresLocal := decide (Facts.C03.creationStore = 0)
  diffLimit := Facts.C03.diffLimitUser

end TdModel.C03
