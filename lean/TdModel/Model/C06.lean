/-
C06 — key derivation (MTProto 2.0: crypto/keys.go; MTProto 1.0: crypto/keys_old.go, crypto/kdf_v1.go).

Two definitions of every derivation:

* `Impl.*` follows the Go code: the byte ranges written into each hash and the `copy` calls that
  assemble key and IV are **regenerated from the source** (`TdModel.Facts.C06`: `*_writes`,
  `*_copies`, `getX` cases) and interpreted here (`hashOf`, `runCopies` = Go's `h.Write` sequence
  and `copy(dst[lo:], src[a:b])` on a zeroed array);
* `Spec.*` is written from the text of https://core.telegram.org/mtproto/description
  (#defining-aes-key-and-initialization-vector) and .../description_v1 with `substr` and `++`.

Core Lean only.
-/
import TdModel.Model.Prims
import TdModel.Gen.C06

namespace TdModel.C06
open TdModel
open TdModel.Facts.C06 (Src Hash W Cp)

/-- `crypto.Side`. -/
inductive Side where
  | client
  | server
  deriving DecidableEq, Repr

/-- `Side.DecryptSide` (`s ^ 1`). -/
def Side.flip : Side → Side
  | .client => .server
  | .server => .client

/-- `crypto.getX` (cases regenerated). -/
def getX : Side → Nat
  | .client => Facts.C06.xClient
  | .server => Facts.C06.xServer

/-- Go slice expression `a[lo:hi]` (for `lo ≤ hi ≤ len a`; the Go code panics otherwise). -/
def slice (a : Bytes) (lo hi : Nat) : Bytes := (a.take hi).drop lo

/-- `substr (s, off, len)` of the specification. -/
def substr (s : Bytes) (off len : Nat) : Bytes := (s.drop off).take len

def zeros (n : Nat) : Bytes := List.replicate n 0

/-- Go `copy(dst[off:hi], src)` as a function on the whole destination; returns the new destination
and the number of bytes copied. -/
def copyAt (dst : Bytes) (off : Nat) (hi : Option Nat) (src : Bytes) : Bytes × Nat :=
  let lim := (hi.getD dst.length) - off
  let n := min lim src.length
  (dst.take off ++ src.take n ++ dst.drop (off + n), n)

/-- Interpret a regenerated `copy` sequence: `n` is the running counter of the Go code. -/
def runCopies : List Cp → List Bytes → Bytes → Nat → Bytes
  | [], _, v, _ => v
  | c :: cs, hs, v, n =>
    let r := copyAt v (c.dlo.getD n) c.dhi (slice (hs.getD c.src []) c.lo c.hi)
    let n' := if c.upd = 1 then r.2 else if c.upd = 2 then n + r.2 else n
    runCopies cs hs r.1 n'

def hashFn (P : Prims) : Hash → Bytes → Bytes
  | .sha1 => P.sha1
  | .sha256 => P.sha256

def pick (authKey msgKey plain : Bytes) : Src → Bytes
  | .authKey => authKey
  | .msgKey => msgKey
  | .plain => plain

/-- Concatenation of the regenerated `h.Write` arguments. -/
def written (ws : List W) (authKey msgKey plain : Bytes) : Bytes :=
  ws.flatMap fun w =>
    let s := pick authKey msgKey plain w.src
    slice s w.lo (w.hi.getD s.length)

namespace Impl

/-- `crypto.msgKeyLarge`. -/
def msgKeyLarge (P : Prims) (authKey plain : Bytes) (side : Side) : Bytes :=
  hashFn P Facts.C06.msgKeyLarge_hash (written (Facts.C06.msgKeyLarge_writes (getX side)) authKey [] plain)

/-- `crypto.messageKey`: `b := large[8:24]; copy(v[:len(b)], b)` into a zero `bin.Int128`. -/
def messageKey (large : Bytes) : Bytes :=
  let b := slice large Facts.C06.messageKey_lo Facts.C06.messageKey_hi
  (copyAt (zeros 16) 0 (some b.length) b).1

/-- `crypto.MessageKey`. -/
def msgKey (P : Prims) (authKey plain : Bytes) (side : Side) : Bytes :=
  messageKey (msgKeyLarge P authKey plain side)

def sha256a (P : Prims) (authKey msgKey : Bytes) (x : Nat) : Bytes :=
  hashFn P Facts.C06.sha256a_hash (written (Facts.C06.sha256a_writes x) authKey msgKey [])

def sha256b (P : Prims) (authKey msgKey : Bytes) (x : Nat) : Bytes :=
  hashFn P Facts.C06.sha256b_hash (written (Facts.C06.sha256b_writes x) authKey msgKey [])

/-- `crypto.aesKey(h0, h1, &v)`. -/
def aesKey (h0 h1 : Bytes) : Bytes := runCopies Facts.C06.aesKey_copies [h0, h1] (zeros 32) 0

/-- `crypto.aesIV(h0, h1, &v)` = `aesKey` with the argument order found in the source. -/
def aesIV (h0 h1 : Bytes) : Bytes :=
  let hs := [h0, h1]
  aesKey (hs.getD Facts.C06.aesIV_aesKey_args.1 []) (hs.getD Facts.C06.aesIV_aesKey_args.2 [])

/-- `crypto.Keys`. -/
def keys (P : Prims) (authKey msgKey : Bytes) (side : Side) : Bytes × Bytes :=
  let x := getX side
  let hs := [sha256a P authKey msgKey x, sha256b P authKey msgKey x]
  (aesKey (hs.getD Facts.C06.keys_aesKey_args.1 []) (hs.getD Facts.C06.keys_aesKey_args.2 []),
   aesIV (hs.getD Facts.C06.keys_aesIV_args.1 []) (hs.getD Facts.C06.keys_aesIV_args.2 []))

/-- `crypto.MessageKeyV1`: `copy(v[:], sum[4:20])`. -/
def msgKeyV1 (P : Prims) (plain : Bytes) : Bytes :=
  (copyAt (zeros 16) 0 none (slice (P.sha1 plain) Facts.C06.messageKeyV1_lo Facts.C06.messageKeyV1_hi)).1

def sha1s (P : Prims) (authKey msgKey : Bytes) (x : Nat) : List Bytes :=
  [hashFn P Facts.C06.sha1a_hash (written (Facts.C06.sha1a_writes x) authKey msgKey []),
   hashFn P Facts.C06.sha1b_hash (written (Facts.C06.sha1b_writes x) authKey msgKey []),
   hashFn P Facts.C06.sha1c_hash (written (Facts.C06.sha1c_writes x) authKey msgKey []),
   hashFn P Facts.C06.sha1d_hash (written (Facts.C06.sha1d_writes x) authKey msgKey [])]

/-- `crypto.KeysV1` (x fixed by the source). -/
def keysV1 (P : Prims) (authKey msgKey : Bytes) : Bytes × Bytes :=
  let hs := sha1s P authKey msgKey Facts.C06.keysV1_x
  (runCopies Facts.C06.keysV1_key_copies hs (zeros 32) 0,
   runCopies Facts.C06.keysV1_iv_copies hs (zeros 32) 0)

/-- `crypto.OldKeys`. -/
def oldKeys (P : Prims) (authKey msgKey : Bytes) (side : Side) : Bytes × Bytes :=
  let hs := sha1s P authKey msgKey (getX side)
  (runCopies Facts.C06.oldKeys_key_copies hs (zeros 32) 0,
   runCopies Facts.C06.oldKeys_iv_copies hs (zeros 32) 0)

end Impl

namespace Spec

/-- "x = 0 for messages from client to server and x = 8 for those from server to client." -/
def x : Side → Nat
  | .client => 0
  | .server => 8

/-- `msg_key_large = SHA256 (substr (auth_key, 88+x, 32) + plaintext + random_padding)`. -/
def msgKeyLarge (P : Prims) (authKey plain : Bytes) (side : Side) : Bytes :=
  P.sha256 (substr authKey (88 + x side) 32 ++ plain)

/-- `msg_key = substr (msg_key_large, 8, 16)`. -/
def msgKey (P : Prims) (authKey plain : Bytes) (side : Side) : Bytes :=
  substr (msgKeyLarge P authKey plain side) 8 16

/-- `sha256_a = SHA256 (msg_key + substr (auth_key, x, 36))`. -/
def sha256a (P : Prims) (authKey msgKey : Bytes) (side : Side) : Bytes :=
  P.sha256 (msgKey ++ substr authKey (x side) 36)

/-- `sha256_b = SHA256 (substr (auth_key, 40+x, 36) + msg_key)`. -/
def sha256b (P : Prims) (authKey msgKey : Bytes) (side : Side) : Bytes :=
  P.sha256 (substr authKey (40 + x side) 36 ++ msgKey)

/-- `aes_key = substr (sha256_a, 0, 8) + substr (sha256_b, 8, 16) + substr (sha256_a, 24, 8)`;
`aes_iv = substr (sha256_b, 0, 8) + substr (sha256_a, 8, 16) + substr (sha256_b, 24, 8)`. -/
def keys (P : Prims) (authKey msgKey : Bytes) (side : Side) : Bytes × Bytes :=
  let a := sha256a P authKey msgKey side
  let b := sha256b P authKey msgKey side
  (substr a 0 8 ++ substr b 8 16 ++ substr a 24 8,
   substr b 0 8 ++ substr a 8 16 ++ substr b 24 8)

/-- MTProto 1.0: `msg_key = substr (SHA1 (plaintext), 4, 16)`. -/
def msgKeyV1 (P : Prims) (plain : Bytes) : Bytes := substr (P.sha1 plain) 4 16

/-- MTProto 1.0 with offset `x`:
`sha1_a = SHA1 (msg_key + substr (auth_key, x, 32))`,
`sha1_b = SHA1 (substr (auth_key, 32+x, 16) + msg_key + substr (auth_key, 48+x, 16))`,
`sha1_c = SHA1 (substr (auth_key, 64+x, 32) + msg_key)`,
`sha1_d = SHA1 (msg_key + substr (auth_key, 96+x, 32))`,
`aes_key = substr (sha1_a, 0, 8) + substr (sha1_b, 8, 12) + substr (sha1_c, 4, 12)`,
`aes_iv = substr (sha1_a, 8, 12) + substr (sha1_b, 0, 8) + substr (sha1_c, 16, 4) + substr (sha1_d, 0, 8)`. -/
def keysV1At (P : Prims) (authKey msgKey : Bytes) (x : Nat) : Bytes × Bytes :=
  let a := P.sha1 (msgKey ++ substr authKey x 32)
  let b := P.sha1 (substr authKey (32 + x) 16 ++ msgKey ++ substr authKey (48 + x) 16)
  let c := P.sha1 (substr authKey (64 + x) 32 ++ msgKey)
  let d := P.sha1 (msgKey ++ substr authKey (96 + x) 32)
  (substr a 0 8 ++ substr b 8 12 ++ substr c 4 12,
   substr a 8 12 ++ substr b 0 8 ++ substr c 16 4 ++ substr d 0 8)

/-- Binding message (https://core.telegram.org/api/pfs): MTProto 1.0 derivation, client side (x = 0). -/
def keysV1 (P : Prims) (authKey msgKey : Bytes) : Bytes × Bytes := keysV1At P authKey msgKey 0

def oldKeys (P : Prims) (authKey msgKey : Bytes) (side : Side) : Bytes × Bytes :=
  keysV1At P authKey msgKey (x side)

end Spec

end TdModel.C06
