/-
C15 — model of /repo/crypto/srp: hash.go (SRP.Hash, hash, saltHash, primary, secondary, pbkdf2),
new_hash.go (computeXV), pad.go (pad256, pad256FromBig), srp.go (xor32, checkInput).

`Impl.*` transliterates the Go code; `Spec.*` is the text of core.telegram.org/api/srp
("Checking the password with SRP") written down independently; `Spec.server*` is the verifier side.
Primitives are parameters: SHA-256, PBKDF2-HMAC-SHA512 and modular exponentiation.
Group validation is `crypto.CheckDH` (model: `C13.checkDH`, primality as an oracle).
-/
import TdModel.Model.C13
import TdModel.Model.C14
import TdModel.Gen.C15

namespace TdModel.C15
open TdModel TdModel.C14

structure SrpPrims where
  sha256 : Bytes → Bytes
  /-- `pbkdf2.Key(password, salt, iters, keyLen, sha512.New)` -/
  pbkdf2 : Bytes → Bytes → Nat → Nat → Bytes
  /-- `big.Int.Exp(b, e, m)` -/
  powMod : Nat → Nat → Nat → Nat

structure LawfulSrp (S : SrpPrims) : Prop where
  sha256_len : ∀ x, (S.sha256 x).length = 32
  powMod_eq : ∀ b e m, S.powMod b e m = b ^ e % m

/-- Server parameters (`srp.Input`): salts, generator, modulus bytes. -/
structure Input where
  salt1 : Bytes
  salt2 : Bytes
  g : Int
  p : Bytes

inductive Err where
  | badGroup | gaTooBig | saTooBig | tape
  deriving Repr, DecidableEq

def Err.tag : Err → String
  | .badGroup => "bad-group" | .gaTooBig => "ga-too-big" | .saTooBig => "sa-too-big" | .tape => "tape"

namespace Impl

/-- `SRP.hash(data...)`: SHA-256 of the concatenation. -/
def hash (S : SrpPrims) (parts : List Bytes) : Bytes := S.sha256 parts.flatten

/-- `SRP.saltHash`, **translated** from the source (`Facts.C15.saltHashT`). -/
def saltHash (S : SrpPrims) (data salt : Bytes) : Bytes := Facts.C15.saltHashT (hash S) S.pbkdf2 data salt

/-- `SRP.primary` (PH1), **translated** from the source. -/
def primary (S : SrpPrims) (password salt1 salt2 : Bytes) : Bytes :=
  Facts.C15.primaryT (hash S) S.pbkdf2 password salt1 salt2

/-- `SRP.secondary` (PH2), **translated** from the source (incl. the iteration count and key length). -/
def secondary (S : SrpPrims) (password salt1 salt2 : Bytes) : Bytes :=
  Facts.C15.secondaryT (hash S) S.pbkdf2 password salt1 salt2

/-- `SRP.pad256`: last 256 bytes, or left-padded with zeros to 256 bytes. -/
def pad256 (b : Bytes) : Bytes :=
  if b.length ≥ 256 then b.drop (b.length - 256) else List.replicate (256 - b.length) 0 ++ b

/-- `SRP.pad256FromBig` (`crypto.FillBytes` on 256 bytes): `none` when the number needs more. -/
def pad256FromBig (n : Nat) : Option Bytes := if n ≥ 256 ^ 256 then none else some (beBytes 256 n)

/-- `xor32`. -/
def xor32 (a b : Bytes) : Bytes := Ige.xorB a b

/-- `(*big.Int).Bytes()` of a value held as 256 padded bytes: minimal big-endian form. -/
def minimal (b : Bytes) : Bytes := b.dropWhile (· == 0)

/-- The named byte strings of `SRP.Hash` at some point of its execution (not yet computed = `[]`). -/
structure Vals where
  ga : Bytes := []
  gb : Bytes := []
  srpB : Bytes := []
  iP : Bytes := []
  gBytes : Bytes := []
  salt1 : Bytes := []
  salt2 : Bytes := []
  sa : Bytes := []
  ka : Bytes := []
  xorHpHg : Bytes := []
  password : Bytes := []
  random : Bytes := []

def Vals.get (w : Vals) : Facts.C15.Val → Bytes
  | .ga => w.ga | .gb => w.gb | .srpB => w.srpB | .iP => w.iP | .gBytes => w.gBytes
  | .salt1 => w.salt1 | .salt2 => w.salt2 | .sa => w.sa | .saMin => minimal w.sa | .ka => w.ka
  | .xorHpHg => w.xorHpHg | .password => w.password | .random => w.random

/-- evaluation of a regenerated hash operand. -/
def Vals.opnd (S : SrpPrims) (w : Vals) : Facts.C15.Opnd → Bytes
  | .val v => w.get v
  | .hashed v => S.sha256 (w.get v)
  | .unknown _ => []

def Vals.opnds (S : SrpPrims) (w : Vals) (os : List Facts.C15.Opnd) : List Bytes := os.map (w.opnd S)

/-- `SRP.Hash(password, srpB, random, i)`; returns `(A, M1)`.  Which byte strings enter `g_b`, `u`,
`x`, `k`, `t`, `k_a`, `H(p) xor H(g)` and `M1`, and in which order, is **regenerated**
(`Facts.C15.gbSource … m1Operands`) and interpreted here. -/
def srpHash (S : SrpPrims) (isPrime : Int → Bool) (password srpB random : Bytes) (i : Input) :
    Except Err (Bytes × Bytes) :=
  let p := beNat i.p
  if C13.checkDH isPrime i.g (p : Int) ≠ .ok then .error .badGroup
  else
    let g := i.g.toNat
    let gBytes := beBytes 256 g
    let a := beNat random
    let w0 : Vals := { srpB := srpB, iP := i.p, gBytes := gBytes, salt1 := i.salt1, salt2 := i.salt2,
                       password := password, random := random }
    match pad256FromBig (S.powMod g a p) with
    | none => .error .gaTooBig
    | some ga =>
      let gb := pad256 (w0.opnd S Facts.C15.gbSource)
      let w1 : Vals := { w0 with ga := ga, gb := gb }
      let u := beNat (hash S (w1.opnds S Facts.C15.uOperands))
      let x := match w1.opnds S Facts.C15.xvOperands with
        | [pw, s1, s2] => beNat (secondary S pw s1 s2)
        | _ => 0
      let v := S.powMod g x p
      let k := beNat (hash S (w1.opnds S Facts.C15.kOperands))
      let kv := (k * v) % p
      let t0 := beNat (w1.opnd S Facts.C15.tSource)
      let t := if t0 < kv then t0 + p - kv else t0 - kv
      match pad256FromBig (S.powMod t (u * x + a) p) with
      | none => .error .saTooBig
      | some sa =>
        let w2 : Vals := { w1 with sa := sa }
        let ka := S.sha256 (w2.opnd S Facts.C15.kaOperand)
        let xorHpHg := match w2.opnds S Facts.C15.xorOperands with
          | [hp, hg] => xor32 hp hg
          | _ => []
        let w3 : Vals := { w2 with ka := ka, xorHpHg := xorHpHg }
        let m1 := hash S (w3.opnds S Facts.C15.m1Operands)
        .ok (ga, m1)

/-- a zeroed `[256]byte`. -/
def zero256 : Bytes := List.replicate 256 0

/-- `SRP.NewHash(password, i)` (new_hash.go): validates the group, appends 32 bytes of the random source
to `salt1`, and returns `(pad(v), newSalt1)` with `v = g^x mod p`, `x = PH2(password, newSalt1, salt2)`.
`tape` = the bytes the random source delivers (`io.ReadFull` fails when fewer than 32 are left). -/
def newHash (S : SrpPrims) (isPrime : Int → Bool) (password tape : Bytes) (i : Input) :
    Except Err (Bytes × Bytes) :=
  let p := beNat i.p
  if C13.checkDH isPrime i.g (p : Int) ≠ .ok then .error .badGroup
  else if tape.length < 32 then .error .tape
  else
    let newClientSalt := i.salt1 ++ tape.take 32
    let x := beNat (secondary S password newClientSalt i.salt2)
    let v := S.powMod i.g.toNat x p
    -- `padded, _ := s.pad256FromBig(v)`: the flag is ignored, a too large value would give zeros
    .ok ((pad256FromBig v).getD zero256, newClientSalt)

end Impl

/-! ## Specification (core.telegram.org/api/srp) -/
namespace Spec

/-- numbers are hashed "in big endian form, padded to 2048 bits". -/
def pad (n : Nat) : Bytes := beBytes 256 n

def H (S : SrpPrims) (b : Bytes) : Bytes := S.sha256 b
/-- `SH(data, salt) := H(salt | data | salt)` -/
def SH (S : SrpPrims) (data salt : Bytes) : Bytes := H S (salt ++ data ++ salt)
/-- `PH1(password, salt1, salt2) := SH(SH(password, salt1), salt2)` -/
def PH1 (S : SrpPrims) (pw s1 s2 : Bytes) : Bytes := SH S (SH S pw s1) s2
/-- `PH2(password, salt1, salt2) := SH(pbkdf2(sha512, PH1(password, salt1, salt2), salt1, 100000), salt2)` -/
def PH2 (S : SrpPrims) (pw s1 s2 : Bytes) : Bytes := SH S (S.pbkdf2 (PH1 S pw s1 s2) s1 100000 64) s2

/-- `k := H(p | g)` -/
def k (S : SrpPrims) (p g : Nat) : Nat := beNat (H S (pad p ++ pad g))
/-- `x := PH2(password, salt1, salt2)` -/
def x (S : SrpPrims) (pw s1 s2 : Bytes) : Nat := beNat (PH2 S pw s1 s2)
/-- `v := pow(g, x) mod p` — the password verifier the server stores. -/
def v (S : SrpPrims) (p g : Nat) (pw s1 s2 : Bytes) : Nat := g ^ x S pw s1 s2 % p
/-- `g_a := pow(g, a) mod p` -/
def gA (p g a : Nat) : Nat := g ^ a % p
/-- `u := H(g_a | g_b)` -/
def u (S : SrpPrims) (ga gb : Nat) : Nat := beNat (H S (pad ga ++ pad gb))
/-- `k_v := (k * v) mod p`, `t := (g_b - k_v) mod p` (positive modulo),
`s_a := pow(t, a + u * x) mod p` -/
def sA (S : SrpPrims) (p g a gb : Nat) (pw s1 s2 : Bytes) : Nat :=
  let kv := (k S p g * v S p g pw s1 s2) % p
  let t := (gb + (p - kv)) % p
  t ^ (a + u S (gA p g a) gb * x S pw s1 s2) % p
/-- `M1 := H(H(p) xor H(g) | H(salt1) | H(salt2) | g_a | g_b | k_a)` with `k_a := H(s_a)` -/
def M1of (S : SrpPrims) (p g : Nat) (s1 s2 : Bytes) (ga gb s : Nat) : Bytes :=
  H S (Ige.xorB (H S (pad p)) (H S (pad g)) ++ H S s1 ++ H S s2 ++ pad ga ++ pad gb ++ H S (pad s))

/-- The client's answer `(A, M1)`. -/
def answer (S : SrpPrims) (p g a gb : Nat) (pw s1 s2 : Bytes) : Bytes × Bytes :=
  (pad (gA p g a), M1of S p g s1 s2 (gA p g a) gb (sA S p g a gb pw s1 s2))

/-- Server side: `g_b := (k * v + pow(g, b) mod p) mod p` for server secret `b` and stored verifier. -/
def serverB (S : SrpPrims) (p g vv b : Nat) : Nat := (k S p g * vv + g ^ b % p) % p
/-- Server side: `s_b := pow(g_a * pow(v, u) mod p, b) mod p`. -/
def serverS (S : SrpPrims) (p vv b ga gb : Nat) : Nat := ((ga * (vv ^ u S ga gb % p)) % p) ^ b % p
/-- The verifier accepts `(A, M1)` iff `M1` is the value it computes from its own session key. -/
def serverAccepts (S : SrpPrims) (p g vv b : Nat) (s1 s2 : Bytes) (ga : Nat) (m1 : Bytes) : Bool :=
  let gb := serverB S p g vv b
  m1 == M1of S p g s1 s2 ga gb (serverS S p vv b ga gb)

end Spec

end TdModel.C15
