/-
C04 — the compression-threshold path: `mtproto.Conn.newEncryptedMessage`
(mtproto/new_encrypted_msg.go) chooses how the payload travels — as `Message` (threshold disabled),
as `proto.GZIP{payload}` (encoded payload longer than the threshold) or as raw bytes with
`MessageDataLen` — and then calls `Cipher.Encrypt`; `proto.GZIP` (proto/gzip.go) frames the
compressed bytes as `gzip_packed#3072cfa1 packed_data:bytes`.

The two threshold conditions, the default threshold and the GZIP type id are regenerated
(`Facts.C04.threshDisabled`, `threshCompress`, `defaultThreshold`, `gzipTypeID`).  Compression is a
*parameter* (`Gz`) with the single law `gunz (gz d) = some d`.  Core Lean only.
-/
import TdModel.Model.C04

namespace TdModel.C04
open TdModel TdModel.Bin
open TdModel.C06 (Side)

/-- gzip as a parameter: `gz` compresses, `gunz` decompresses (may fail). -/
structure Gz where
  gz : Bytes → Bytes
  gunz : Bytes → Option Bytes

structure LawfulGz (G : Gz) : Prop where
  gunz_gz : ∀ d, G.gunz (G.gz d) = some d

/-- `proto.GZIP{Data}.Encode`: `PutID(GZIPTypeID)`, `PutBytes(compressed)`. -/
def gzipEncode (G : Gz) (data : Bytes) : Bytes :=
  putU32 Facts.C04.gzipTypeID ++ putBytes (G.gz data)

/-- `(*proto.GZIP).Decode` followed by nothing else in the buffer (the 10 MB decompression-bomb limit
is not modelled). -/
def gzipDecode (G : Gz) (b : Bytes) : Option Bytes :=
  match consumeID Facts.C04.gzipTypeID b with
  | .ok (_, r) =>
    match getBytes r with
    | .ok (z, _) => G.gunz z
    | .error _ => none
  | .error _ => none

inductive Path where
  | message
  | gzip
  | raw
  deriving DecidableEq, Repr

/-- `Options.setDefaults`: a zero threshold means the default; negative disables compression. -/
def effectiveThreshold (opt : Int) : Int := if opt = 0 then (Facts.C04.defaultThreshold : Int) else opt

/-- The branch taken by `newEncryptedMessage` (conditions regenerated). -/
def choosePath (threshold : Int) (payloadLen : Nat) : Path :=
  if Facts.C04.threshDisabled threshold then .message
  else if Facts.C04.threshCompress (payloadLen : Int) threshold then .gzip
  else .raw

/-- What travels as message data. -/
def wireOf (G : Gz) (threshold : Int) (payload : Bytes) : Bytes :=
  match choosePath threshold payload.length with
  | .gzip => gzipEncode G payload
  | _ => payload

/-- `Conn.newEncryptedMessage(id, seq, payload, b)` for a connection whose option is `optThreshold`. -/
def newEncryptedMessage (P : Prims) (G : Gz) (side : Side) (authKey keyId : Bytes) (optThreshold : Int)
    (salt sid mid seq : Nat) (payload rnd : Bytes) : Except Err Bytes :=
  let t := effectiveThreshold optThreshold
  match choosePath t payload.length with
  | .message => encryptMessage P side authKey keyId salt sid mid seq payload rnd
  | .gzip => encryptMessage P side authKey keyId salt sid mid seq (gzipEncode G payload) rnd
  | .raw => encrypt P side authKey keyId salt sid mid seq payload rnd

/-- The receiver's view of message data: unpack `gzip_packed` when that is what was sent. -/
def unwrap (G : Gz) (threshold : Int) (sentLen : Nat) (data : Bytes) : Option Bytes :=
  match choosePath threshold sentLen with
  | .gzip => gzipDecode G data
  | _ => some data

end TdModel.C04
