/-
C21 — reader for the regenerated schema data file (`.build/C21.schema`, written by
`harness/c21 facts` from the generated Go code) and the canonical S-expression of values used
on the driver's line protocol.  Core Lean only; nothing is proved about the parser (a wrong
parse shows up as a correspondence disagreement on every constructor it touches).
-/
import TdModel.Model.C21

namespace TdModel.C21
open TdModel TdModel.Bin

partial def parseTy (s : String) : Option Ty :=
  match s with
  | "int" => some .int
  | "long" => some .long
  | "double" => some .double
  | "i128" => some .int128
  | "i256" => some .int256
  | "str" => some .str
  | "bytes" => some .str
  | "bool" => some .bool
  | "true" => some .trueFlag
  | "flags" => some .flags
  | "generic" => some .generic
  | _ =>
    match s.toList with
    | 'B' :: r => (String.ofList r).toNat?.map .boxed
    | 'C' :: r => (String.ofList r).toNat?.map (.ctor · false)
    | 'c' :: r => (String.ofList r).toNat?.map (.ctor · true)
    | 'V' :: r => (parseTy (String.ofList r)).map (.vec false)
    | 'v' :: r => (parseTy (String.ofList r)).map (.vec true)
    | _ => none

def parseCond (s : String) : Option (Option (Nat × Nat)) :=
  if s == "-" then some none
  else match s.splitOn "." with
    | [a, b] => do
      let k ← a.toNat?
      let bit ← b.toNat?
      pure (some (k, bit))
    | _ => none

def parseHexNat (s : String) : Option Nat :=
  s.toList.foldl (fun acc c => do
    let a ← acc
    let d ← hexVal c
    pure (a * 16 + d)) (some 0)

structure ParseState where
  ctors : Array Ctor := #[]
  ifaces : Array (List Nat) := #[]
  cur : Option (Option Nat × Bool × Nat) := none   -- id, bad, expected field count
  fields : Array Field := #[]
  err : Option String := none

def ParseState.flush (st : ParseState) : ParseState :=
  match st.cur with
  | none => st
  | some (id, bad, n) =>
    let bad' := bad || st.fields.size != n
    { st with ctors := st.ctors.push { id := id, fields := st.fields.toList, bad := bad' }, cur := none, fields := #[] }

def parseLine (st : ParseState) (line : String) : ParseState :=
  if st.err.isSome then st else
  match words line with
  | [] => st
  | "schema" :: _ => st
  | ["ctor", idx, id, n, bad, _name] =>
    let st := st.flush
    match idx.toNat?, n.toNat?, (if id == "-" then some none else (parseHexNat id).map some) with
    | some i, some n, some id =>
      if i != st.ctors.size then { st with err := some s!"ctor index {idx} out of order" }
      else { st with cur := some (id, bad != "0", n) }
    | _, _, _ => { st with err := some ("bad ctor line: " ++ line) }
  | ["f", ty, cond] =>
    match parseTy ty, parseCond cond with
    | some t, some c => { st with fields := st.fields.push { ty := t, cond := c } }
    | _, _ => { st with err := some ("bad field line: " ++ line) }
  | "iface" :: idx :: _name :: refs =>
    let st := st.flush
    match idx.toNat?, refs.mapM String.toNat? with
    | some i, some rs =>
      if i != st.ifaces.size then { st with err := some s!"iface index {idx} out of order" }
      else { st with ifaces := st.ifaces.push rs }
    | _, _ => { st with err := some ("bad iface line: " ++ line) }
  | _ => { st with err := some ("unknown line: " ++ line) }

def parseSchema (text : String) : Except String Schema :=
  let st := (text.splitOn "\n").foldl parseLine {}
  let st := st.flush
  match st.err with
  | some e => .error e
  | none => .ok { ctors := st.ctors, ifaces := st.ifaces }

/-! ### canonical S-expression of a value (no spaces) -/

mutual
partial def showVal : Val → String
  | .num n => toString n
  | .raw b => "x" ++ (if b.isEmpty then "" else toHex b)
  | .bool true => "T"
  | .bool false => "F"
  | .absent => "_"
  | .obj c fs => "(" ++ toString c ++ ":" ++ ",".intercalate (showVals fs) ++ ")"
  | .vec xs => "[" ++ ",".intercalate (showVals xs) ++ "]"
partial def showVals : Vals → List String
  | .nil => []
  | .cons v vs => showVal v :: showVals vs
end

/-! ### parser for the same S-expression (driver op `enc`) -/

def takeWhileC (p : Char → Bool) : List Char → List Char × List Char
  | [] => ([], [])
  | c :: cs => if p c then let (a, b) := takeWhileC p cs; (c :: a, b) else ([], c :: cs)

mutual
partial def parseVal : List Char → Option (Val × List Char)
  | 'T' :: r => some (.bool true, r)
  | 'F' :: r => some (.bool false, r)
  | '_' :: r => some (.absent, r)
  | 'x' :: r =>
    let (h, r') := takeWhileC (fun c => (hexVal c).isSome) r
    (ofHexChars h).map fun b => (.raw b, r')
  | '[' :: ']' :: r => some (.vec .nil, r)
  | '[' :: r => (parseVals r ']').map fun (vs, r') => (.vec vs, r')
  | '(' :: r =>
    let (d, r') := takeWhileC Char.isDigit r
    match (String.ofList d).toNat?, r' with
    | some c, ':' :: ')' :: r'' => some (.obj c .nil, r'')
    | some c, ':' :: r'' => (parseVals r'' ')').map fun (vs, r3) => (.obj c vs, r3)
    | _, _ => none
  | cs =>
    let (d, r) := takeWhileC Char.isDigit cs
    if d.isEmpty then none else (String.ofList d).toNat?.map fun n => (.num n, r)
/-- one or more comma-separated values up to the closing character -/
partial def parseVals (cs : List Char) (close : Char) : Option (Vals × List Char) :=
  match parseVal cs with
  | none => none
  | some (v, c :: r) =>
    if c == close then some (.cons v .nil, r)
    else if c == ',' then (parseVals r close).map fun (vs, r') => (.cons v vs, r')
    else none
  | some (_, []) => none
end

def parseValue (s : String) : Option Val :=
  match parseVal s.toList with
  | some (v, []) => some v
  | _ => none

end TdModel.C21
