/-
C18 — model of /repo/mtproxy/obfuscated2: keys_util.go (`generateInit`, `getDecryptInit`), keys.go
(`createStreams`, `generateKeys`), obfuscated2.go (`Handshake`, `Write`, `Read`), server.go (`Accept`).

AES-CTR is a primitive.  The model takes the stream cipher as a parameter
`X key iv off data` = "XOR `data` with the keystream of (key, iv) starting at keystream offset `off`";
a `cipher.Stream` is the triple (key, iv, offset) and `XORKeyStream` advances the offset by the
length of its argument.  The theorems instantiate `X` with `xorWith ks` (XOR with an *arbitrary*
keystream function `ks key iv : Nat → UInt8`); the driver instantiates it with
`TdModel.Prim.aesCtrAt`.  SHA-256 is a parameter `sha`.
-/
import TdModel.Util
import TdModel.Gen.C18

namespace TdModel.C18
open TdModel

/-- `data[i] ^ k (off + i)`. -/
def xorStream (k : Nat → UInt8) : Nat → Bytes → Bytes
  | _, [] => []
  | off, b :: bs => (b ^^^ k off) :: xorStream k (off + 1) bs

/-- The stream cipher induced by a keystream function. -/
def xorWith (ks : Bytes → Bytes → Nat → UInt8) (key iv : Bytes) (off : Nat) (data : Bytes) : Bytes :=
  xorStream (ks key iv) off data

abbrev Cipher := Bytes → Bytes → Nat → Bytes → Bytes

/-- A `cipher.Stream` created by `createCTR(key, iv)` after `off` keystream bytes were used. -/
structure Stream where
  key : Bytes
  iv : Bytes
  off : Nat
  deriving Repr, DecidableEq

/-- `s.XORKeyStream(dst, src)`: the output and the advanced stream. -/
def Stream.xor (X : Cipher) (s : Stream) (data : Bytes) : Bytes × Stream :=
  (X s.key s.iv s.off data, { s with off := s.off + data.length })

/-- `keys`: the two streams (the header is returned separately). -/
structure Keys where
  encrypt : Stream
  decrypt : Stream
  deriving Repr, DecidableEq

inductive Err where
  | secretSize | short | noInit
  deriving Repr, DecidableEq

def Err.tag : Err → String
  | .secretSize => "secret-size" | .short => "short" | .noInit => "no-init"

/-- `l[lo:hi]`. -/
def slice (l : Bytes) (lo hi : Nat) : Bytes := (l.drop lo).take (hi - lo)

/-- `copy(l[lo:], v)` (for `lo + len v ≤ len l`). -/
def setAt (l : Bytes) (lo : Nat) (v : Bytes) : Bytes := l.take lo ++ v ++ l.drop (lo + v.length)

/-- `keys.createStreams(init, secret)`.  Every byte range is the one found in the current source
(`Facts.C18.*Lo/Hi`: `init[8:40]`, `init[40:56]`, `initRev = reverse(init[8:56])`, `initRev[:32]`,
`initRev[32:48]`, `secret[0:16]`, error below 16). -/
def createStreams (sha : Bytes → Bytes) (init secret : Bytes) : Except Err Keys :=
  let encryptKey := slice init Facts.C18.encKeyLo Facts.C18.encKeyHi
  let encryptIV := slice init Facts.C18.encIVLo Facts.C18.encIVHi
  let initRev := if Facts.C18.decryptInitIsReversed then (slice init Facts.C18.revLo Facts.C18.revHi).reverse
    else slice init Facts.C18.revLo Facts.C18.revHi
  let decryptKey := slice initRev Facts.C18.decKeyLo Facts.C18.decKeyHi
  let decryptIV := slice initRev Facts.C18.decIVLo Facts.C18.decIVHi
  if secret.length > 0 then
    if secret.length < Facts.C18.secretMin then .error .secretSize
    else
      let sec := slice secret Facts.C18.secretCutLo Facts.C18.secretCutHi
      .ok { encrypt := ⟨sha (encryptKey ++ sec), encryptIV, 0⟩, decrypt := ⟨sha (decryptKey ++ sec), decryptIV, 0⟩ }
  else .ok { encrypt := ⟨encryptKey, encryptIV, 0⟩, decrypt := ⟨decryptKey, decryptIV, 0⟩ }

def le32 (b : Bytes) : Nat :=
  match b with
  | [a, b, c, d] => a.toNat + 256 * (b.toNat + 256 * (c.toNat + 256 * d.toNat))
  | _ => 0

/-- The filter of `generateInit`: `true` = this candidate is rejected and another one is drawn. -/
def rejected (init : Bytes) : Bool :=
  init.headD 0 = UInt8.ofNat Facts.C18.abridgedByte
    || Facts.C18.reserved.contains (le32 (init.take 4))
    || le32 ((init.drop 4).take 4) = 0

/-- `generateInit`: `tape` is what the random source delivers, 64 bytes per iteration of the loop. -/
def generateInit : Nat → Bytes → Except Err Bytes
  | 0, _ => .error .noInit
  | fuel + 1, tape =>
    if tape.length < 64 then .error .short
    else
      let init := tape.take 64
      if rejected init then generateInit fuel (tape.drop 64) else .ok init

/-- Two-byte little-endian `uint16(dc)`. -/
def dc16 (dc : Int) : Nat := (dc % 65536).toNat

def putDC (dc : Int) : Bytes := [UInt8.ofNat (dc16 dc % 256), UInt8.ofNat (dc16 dc / 256)]

/-- `generateKeys` after `generateInit`: the header sent and the client's streams after it. -/
def clientKeys (X : Cipher) (sha : Bytes → Bytes) (init tag : Bytes) (dc : Int) (secret : Bytes) :
    Except Err (Bytes × Keys) :=
  match createStreams sha init secret with
  | .error e => .error e
  | .ok k =>
    -- copy(init[56:60], protocol[:]); PutUint16(init[60:62], uint16(dc))
    let init' := setAt (setAt init Facts.C18.tagLo tag) Facts.C18.dcLo (putDC dc)
    let (encInit, enc') := k.encrypt.xor X init'
    -- copy(k.header, init[0:56]); copy(k.header[56:], encryptedInit[56:56+8])
    .ok (slice init' Facts.C18.hdrPlainLo Facts.C18.hdrPlainHi ++ slice encInit Facts.C18.hdrEncLo Facts.C18.hdrEncHi,
         { k with encrypt := enc' })

/-- `Obfuscated2.Handshake` with the random source's tape. -/
def handshake (X : Cipher) (sha : Bytes → Bytes) (tape tag : Bytes) (dc : Int) (secret : Bytes) :
    Except Err (Bytes × Keys) :=
  match generateInit (tape.length / 64 + 1) tape with
  | .error e => .error e
  | .ok init => clientKeys X sha init tag dc secret

structure Meta where
  protocol : Bytes
  dc : Nat
  deriving Repr, DecidableEq

/-- `Accept(conn, secret)` on the 64 header bytes: metadata and the server's streams. -/
def accept (X : Cipher) (sha : Bytes → Bytes) (header secret : Bytes) : Except Err (Meta × Keys) :=
  if header.length < Facts.C18.headerLen then .error .short
  else
    let buf := header.take Facts.C18.headerLen
    match createStreams sha buf secret with
    | .error e => .error e
    | .ok k =>
      -- swap to match the client's streams
      let k' : Keys := if Facts.C18.acceptSwaps then { encrypt := k.decrypt, decrypt := k.encrypt } else k
      let (decrypted, dec') := k'.decrypt.xor X buf
      let proto := slice decrypted Facts.C18.metaTagLo Facts.C18.metaTagHi
      let dcb := slice decrypted Facts.C18.metaDCLo Facts.C18.metaDCHi
      .ok ({ protocol := proto, dc := (dcb.headD 0).toNat + 256 * ((dcb.drop 1).headD 0).toNat },
           { k' with decrypt := dec' })

/-- A sequence of `Write` calls: the bytes put on the connection and the advanced stream. -/
def writeAll (X : Cipher) : Stream → List Bytes → Bytes × Stream
  | s, [] => ([], s)
  | s, w :: ws =>
    let (c, s1) := s.xor X w
    let (rest, s2) := writeAll X s1 ws
    (c ++ rest, s2)

/-- A sequence of `Read` calls, each getting one chunk of the connection's bytes. -/
def readAll (X : Cipher) : Stream → List Bytes → Bytes × Stream
  | s, [] => ([], s)
  | s, c :: cs =>
    let (p, s1) := s.xor X c
    let (rest, s2) := readAll X s1 cs
    (p ++ rest, s2)

/-- What came with the bytes of one underlying `Read`. -/
inductive RdErr where
  | none | eof | other
  deriving Repr, DecidableEq

/-- One `Obfuscated2.Read`: the connection delivered `chunk`, possibly together with an error (the last
bytes with `io.EOF`, or some bytes with another error such as a deadline).  The repaired code decrypts
whatever was delivered; `Facts.C18.readSkipsDecryptOn` says on which errors the current source returns
before `XORKeyStream` (0 never, 1 non-EOF errors, 2 any error) — then the ciphertext is handed back and
the keystream is not advanced. -/
def readOne (X : Cipher) (s : Stream) (chunk : Bytes) (e : RdErr) : Bytes × Stream :=
  let skips := match e with
    | .none => false
    | .eof => Facts.C18.readSkipsDecryptOn ≥ 2
    | .other => Facts.C18.readSkipsDecryptOn ≥ 1
  if skips then (chunk, s) else s.xor X chunk

/-- `readAll` where chunk `i` arrives together with the error `errs i` (none beyond the list). -/
def readAllE (X : Cipher) : Stream → List (Bytes × RdErr) → Bytes × Stream
  | s, [] => ([], s)
  | s, (c, e) :: cs =>
    let (p, s1) := readOne X s c e
    let (rest, s2) := readAllE X s1 cs
    (p ++ rest, s2)

end TdModel.C18
