/-
C11 — key-exchange answer encryption helpers: `crypto.GuessDataWithHash`, `crypto.DataWithHash`
(crypto/data_with_hash.go), `crypto.DecryptExchangeAnswer`, `crypto.EncryptExchangeAnswer`
(crypto/exchange.go).

Regenerated (`TdModel.Facts.C11`): the variable the nil test of `DecryptExchangeAnswer` reads
(`nilTestVar`, defect D4), the number of padding lengths tried (`guessTries`), the translated
`paddedLen16`, the conditions and slice bounds of `GuessDataWithHash` as Lean definitions
(`guessTooShort`, `guessEnd`, `guessHashLen`, `guessDataLo`, `guessDataHi`).  `sha1.Size = 20`.
Key lengths other than 16/24/32 are the `cipher` error of `aes.NewCipher`; an IV whose length is not
32 makes `ige` panic (`panicIV`, explicit outcome; callers always pass `TempAESKeys`' 32 bytes).  The
block cipher is the parameter `P.aesEnc/aesDec key` for every accepted key length (the executable
instance is AES-256 only).  Core Lean only.
-/
import TdModel.Model.C06
import TdModel.Model.C04Ige
import TdModel.Gen.C11

namespace TdModel.C11
open TdModel
open TdModel.C06 (slice)

def sha1Size : Nat := 20

/-- The loop of `GuessDataWithHash` from index `i`, with `fuel` iterations left. -/
def guessFrom (P : Prims) (d : Bytes) : Nat → Nat → Option Bytes
  | 0, _ => none
  | fuel + 1, i =>
    if Facts.C11.guessEnd d.length i then none
    else
      let data := slice d Facts.C11.guessDataLo (Facts.C11.guessDataHi d.length i)
      if P.sha1 data == d.take Facts.C11.guessHashLen then some data else guessFrom P d fuel (i + 1)

/-- `crypto.GuessDataWithHash`; `none` is Go's `nil`. -/
def guess (P : Prims) (d : Bytes) : Option Bytes :=
  if Facts.C11.guessTooShort d.length then none else guessFrom P d Facts.C11.guessTries 0

inductive Err where
  | cipher
  | align
  | guess
  | rand
  /-- `ige.checkIV` panics when `len(iv) ≠ 2·BlockSize` (documented contract of gotd/ige); every
  caller passes the 32-byte IV of `TempAESKeys`. -/
  | panicIV
  deriving DecidableEq, Repr

def Err.tag : Err → String
  | .cipher => "cipher"
  | .align => "align"
  | .guess => "guess"
  | .rand => "rand"
  | .panicIV => "panic-iv"

/-- `aes.NewCipher` accepts exactly AES-128/192/256 keys. -/
def aesKeyOk (key : Bytes) : Bool := key.length == 16 || key.length == 24 || key.length == 32

/-- `crypto.DecryptExchangeAnswer(data, key, iv)`.  The result `.ok none` is Go's `(nil, nil)`.
`dataIsNil` tells whether the *input* slice was nil: the unrepaired code tested the input instead of
the guessed data (which variable is tested is regenerated from the source). -/
def decryptAnswerWith (testVar : String) (P : Prims) (data key iv : Bytes) (dataIsNil : Bool) :
    Except Err (Option Bytes) :=
  if !aesKeyOk key then .error .cipher
  else if data.length % 16 ≠ 0 then .error .align
  else if iv.length ≠ 32 then .error .panicIV
  else
    let dataWithHash := Ige.dec (P.aesDec key) iv data
    let dst := guess P dataWithHash
    let tested : Bool :=
      if testVar == Facts.C11.guessResultVar then dst.isNone
      else if testVar == "data" then dataIsNil
      else false
    if tested then .error .guess else .ok dst

/-- `crypto.DecryptExchangeAnswer` as it is in the source now (tested variable regenerated). -/
def decryptAnswer (P : Prims) (data key iv : Bytes) (dataIsNil : Bool := false) : Except Err (Option Bytes) :=
  decryptAnswerWith Facts.C11.nilTestVar P data key iv dataIsNil

/-- `crypto.paddedLen16` (regenerated translation). -/
def paddedLen16 (l : Nat) : Nat := (Facts.C11.paddedLen16 (l : Int)).toNat

/-- `crypto.DataWithHash(data, rand)`: `SHA1(data) ++ data ++ 0..15 random bytes`. -/
def dataWithHash (P : Prims) (data rnd : Bytes) : Except Err Bytes :=
  let n := paddedLen16 (data.length + sha1Size) - (sha1Size + data.length)
  if rnd.length < n then .error .rand else .ok (P.sha1 data ++ data ++ rnd.take n)

/-- `crypto.EncryptExchangeAnswer(rand, answer, key, iv)`. -/
def encryptAnswer (P : Prims) (rnd answer key iv : Bytes) : Except Err Bytes :=
  if !aesKeyOk key then .error .cipher
  else
    match dataWithHash P answer rnd with
    | .error e => .error e
    | .ok awh => if iv.length ≠ 32 then .error .panicIV else .ok (Ige.enc (P.aesEnc key) iv awh)

end TdModel.C11
