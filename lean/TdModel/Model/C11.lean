/-
C11 — key-exchange answer encryption helpers: `crypto.GuessDataWithHash`, `crypto.DataWithHash`
(crypto/data_with_hash.go), `crypto.DecryptExchangeAnswer`, `crypto.EncryptExchangeAnswer`
(crypto/exchange.go).

Regenerated (`TdModel.Facts.C11`): the variable the nil test of `DecryptExchangeAnswer` reads
(`nilTestVar`, defect D4), the number of padding lengths tried (`guessTries`), the translated
`paddedLen16`.  `sha1.Size = 20`.  Keys are 32 bytes and IVs 32 bytes in every caller
(`crypto.TempAESKeys`); other key lengths are answered `cipher` (AES-128/192 keys are outside this
model), a wrong IV length makes `ige` panic and is outside the property's quantifier.  Core Lean only.
-/
import TdModel.Model.C06
import TdModel.Model.C04Ige
import TdModel.Gen.C11

namespace TdModel.C11
open TdModel
open TdModel.C06 (slice)

def sha1Size : Nat := 20

/-- The loop of `GuessDataWithHash` from index `i`, with `fuel` iterations left. -/
def guessFrom (P : Prims) (d : Bytes) : Nat → Nat → Option Bytes
  | 0, _ => none
  | fuel + 1, i =>
    if d.length - i < sha1Size then none
    else
      let data := slice d sha1Size (d.length - i)
      if P.sha1 data == d.take sha1Size then some data else guessFrom P d fuel (i + 1)

/-- `crypto.GuessDataWithHash`; `none` is Go's `nil`. -/
def guess (P : Prims) (d : Bytes) : Option Bytes :=
  if d.length ≤ sha1Size then none else guessFrom P d Facts.C11.guessTries 0

inductive Err where
  | cipher
  | align
  | guess
  | rand
  deriving DecidableEq, Repr

def Err.tag : Err → String
  | .cipher => "cipher"
  | .align => "align"
  | .guess => "guess"
  | .rand => "rand"

/-- `crypto.DecryptExchangeAnswer(data, key, iv)`.  The result `.ok none` is Go's `(nil, nil)`.
`dataIsNil` tells whether the *input* slice was nil: the unrepaired code tested the input instead of
the guessed data (which variable is tested is regenerated from the source). -/
def decryptAnswerWith (testVar : String) (P : Prims) (data key iv : Bytes) (dataIsNil : Bool) :
    Except Err (Option Bytes) :=
  if key.length ≠ 32 then .error .cipher
  else if data.length % 16 ≠ 0 then .error .align
  else
    let dataWithHash := Ige.dec (P.aesDec key) iv data
    let dst := guess P dataWithHash
    let tested : Bool :=
      if testVar == Facts.C11.guessResultVar then dst.isNone
      else if testVar == "data" then dataIsNil
      else false
    if tested then .error .guess else .ok dst

/-- `crypto.DecryptExchangeAnswer` as it is in the source now (tested variable regenerated). -/
def decryptAnswer (P : Prims) (data key iv : Bytes) (dataIsNil : Bool := false) : Except Err (Option Bytes) :=
  decryptAnswerWith Facts.C11.nilTestVar P data key iv dataIsNil

/-- `crypto.paddedLen16` (regenerated translation). -/
def paddedLen16 (l : Nat) : Nat := (Facts.C11.paddedLen16 (l : Int)).toNat

/-- `crypto.DataWithHash(data, rand)`: `SHA1(data) ++ data ++ 0..15 random bytes`. -/
def dataWithHash (P : Prims) (data rnd : Bytes) : Except Err Bytes :=
  let n := paddedLen16 (data.length + sha1Size) - (sha1Size + data.length)
  if rnd.length < n then .error .rand else .ok (P.sha1 data ++ data ++ rnd.take n)

/-- `crypto.EncryptExchangeAnswer(rand, answer, key, iv)`. -/
def encryptAnswer (P : Prims) (rnd answer key iv : Bytes) : Except Err Bytes :=
  if key.length ≠ 32 then .error .cipher
  else
    match dataWithHash P answer rnd with
    | .error e => .error e
    | .ok awh => .ok (Ige.enc (P.aesEnc key) iv awh)

end TdModel.C11
