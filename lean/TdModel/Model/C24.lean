/-
C24 / C25 / C26 — the RPC engine (`/repo/rpc/engine.go`, `/repo/rpc/ack.go`) as ONE labelled
transition system for any number of concurrent calls.

Threads
* one *call thread* per `Engine.Do` invocation (keyed by the request's message id),
* one *notifier thread* per `Engine.NotifyResult` / `Engine.NotifyError` invocation (keyed by `nid`),
* atomic environment actions: `NotifyAcks`, cancellation of a caller's context, fake-clock
  advance, `Close`, `ForceClose`.

An action is what one goroutine does between two scheduling points.  Scheduling points are the
`verifPoint(..)` call sites of `engine.go` (`do.wait`, `retry.wait`, `do.guard`, `notify.invoke`,
`handler.cas`, `close.wait`) and the callbacks the engine makes into its environment (`send`,
`drop`, `Output.Decode`).  `select` statements are modelled by one action per branch, enabled iff
the branch's channel is ready.

The model is generic in `Cfg` (retry limit / interval are run-time options; `guard` / `recheck`
say whether the repairs of D13 / D14 are present — they are read from the source by the fact
extractor).  Core Lean only: this file is linked into the drivers.
-/
namespace TdModel.Rpc

/-- Engine configuration. -/
structure Cfg where
  /-- `Do` has the deferred guard "claim the handler CAS or wait for `done`" (repair of D13). -/
  guard : Bool
  /-- the timer branch of `retryUntilAck` re-checks `ackChan` and `ctx.Err()` before re-sending (repair of D14). -/
  recheck : Bool
  /-- `Options.MaxRetries` after `setDefaults`. -/
  maxRetries : Nat
  /-- `Options.RetryInterval` in clock units. -/
  interval : Nat
deriving Repr

/-- Result of a callback into the environment (`send`, `drop`, `Output.Decode`). -/
inductive Outcome
  | ok
  | err
  /-- the callback returned `context.Canceled` (only `send`; lawful only if its context is cancelled). -/
  | canceled
deriving DecidableEq, Repr

/-- What `Do` returns (error classes as the callers can distinguish them). -/
inductive Ret
  /-- `nil`: the result was decoded into `Output`. -/
  | ok
  /-- the RPC error passed to `NotifyError`. -/
  | rpcErr (code : Nat)
  /-- `Output.Decode` failed. -/
  | decodeErr
  /-- `ctx.Err()` of the caller's context. -/
  | ctxErr
  /-- `errors.Is(err, ErrEngineClosed)`: safe to retry on a new connection. -/
  | closedRetry
  /-- "engine forcibly closed" wrapping `context.Canceled`: not retryable. -/
  | closedNoRetry
  /-- `send` failed. -/
  | sendErr
  /-- `RetryLimitReachedErr{Retries: n}`. -/
  | retryLimit (n : Nat)
deriving DecidableEq, Repr

/-- Program points of `Do` / `retryUntilAck` at which the call thread can be parked. -/
inductive Pc
  /-- inside the first `e.send` (request transmitted, callback has not returned). -/
  | send0
  /-- `retry.wait`: before the `select` of the retry loop. -/
  | loop
  /-- inside a re-`send` from the timer branch. -/
  | sendR
  /-- `do.wait`: before the `select` that waits for the result. -/
  | wait
  /-- inside `e.drop(req)`. -/
  | drop
  /-- `do.guard`: the handler CAS was lost to a notifier, waiting for `done`. -/
  | guard
  /-- `Do` has returned. -/
  | fin
deriving DecidableEq, Repr

/-- Who won `CompareAndSwap(&handlerCalled, 0, 1)`. -/
inductive Owner
  | caller
  | notif (nid : Nat)
deriving DecidableEq, Repr

/-- A value of the map `Engine.rpc`: the handler closure of call `cid`, or the no-op callback
installed by the cancellation branch. -/
inductive HRef
  | real (cid : Nat)
  | nop
deriving DecidableEq, Repr

inductive NPc
  /-- `notify.invoke`: handler fetched under the mutex, not yet called. -/
  | invoke
  /-- `handler.cas`: the notifier won the CAS. -/
  | cas
  /-- inside `req.Output.Decode`. -/
  | decode
  | fin
deriving DecidableEq, Repr

/-- What `NotifyResult` returns. -/
inductive NRet
  | ok
  /-- "handler already called". -/
  | already
  | decodeErr
deriving DecidableEq, Repr

/-- One `Do` invocation. -/
structure Call where
  seq : Nat
  body : Nat
  pc : Pc
  /-- `sent` result of `retryUntilAck`. -/
  sent : Bool
  /-- `handlerCalled` (`none` = 0) and who set it.  A call that found the engine closed on entry never
  creates a handler; it is recorded with `some .caller` (nobody else can ever win that CAS). -/
  owner : Option Owner
  /-- `done` is closed (and `retryClose` was called by the handler). -/
  done : Bool
  /-- `resultErr`. -/
  res : Ret
  /-- the caller's `ctx` is cancelled. -/
  ctxC : Bool
  /-- `ackChan` is closed. -/
  acked : Bool
  /-- the retry timer's channel holds a value. -/
  fired : Bool
  /-- the retry timer is armed for this time. -/
  deadline : Option Nat
  retries : Nat
  /-- history variable: clock reading at the latest transmission. -/
  sentAt : Nat
  /-- number of transmissions (calls of `e.send`). -/
  sends : Nat
  /-- number of calls of `e.drop`. -/
  drops : Nat
  /-- payloads written into `req.Output`, oldest first. -/
  writes : List Nat
  /-- return value already decided while parked at `do.guard`. -/
  pend : Ret
  /-- `some r` once `Do` has returned `r`. -/
  ret : Option Ret
deriving Repr

/-- One `NotifyResult` / `NotifyError` invocation. -/
structure Notif where
  /-- the `msgID` argument. -/
  target : Nat
  isErr : Bool
  /-- payload tag / error code. -/
  val : Nat
  pc : NPc
  /-- the callback fetched from `Engine.rpc`. -/
  fn : HRef
  nret : NRet
deriving Repr

structure State where
  calls : Nat → Option Call
  notifs : Nat → Option Notif
  /-- `Engine.rpc`. -/
  rpc : Nat → Option HRef
  /-- ids with a registered acknowledgement channel (`Engine.ack`). -/
  ack : Nat → Bool
  /-- `Engine.closed`. -/
  closed : Bool
  /-- `Engine.reqCtx` is cancelled. -/
  reqC : Bool
  now : Nat
  /-- every transmission `(msgID, seqNo, body)` in order. -/
  log : List (Nat × Nat × Nat)
  /-- history variable: every notification issued so far, `(msgID, isError, payload / code)`. -/
  delivered : List (Nat × Bool × Nat)
  /-- ids of started calls / notifiers, newest first (for printing only). -/
  started : List Nat
  nstarted : List Nat

def init : State :=
  { calls := fun _ => none, notifs := fun _ => none, rpc := fun _ => none, ack := fun _ => false,
    closed := false, reqC := false, now := 0, log := [], delivered := [], started := [], nstarted := [] }

inductive LoopBr
  | ctx | closed | ack | tick
deriving DecidableEq, Repr

inductive WaitBr
  | ctx | closed | done
deriving DecidableEq, Repr

inductive Action
  /-- `Do(ctx, Request{MsgID: id, SeqNo: seq, Input: body})` up to the first `send` callback. -/
  | start (id seq body : Nat)
  /-- the pending `send` callback returns. -/
  | sret (id : Nat) (o : Outcome)
  /-- the retry loop's `select` takes branch `b`. -/
  | loopSel (id : Nat) (b : LoopBr)
  /-- `Do`'s final `select` takes branch `b`. -/
  | waitSel (id : Nat) (b : WaitBr)
  /-- the pending `drop` callback returns. -/
  | dret (id : Nat) (o : Outcome)
  /-- `<-done` in the deferred guard succeeds. -/
  | gpass (id : Nat)
  /-- `NotifyResult(target, val)` / `NotifyError(target, val)`: the lookup under the mutex. -/
  | nstart (nid target : Nat) (isErr : Bool) (val : Nat)
  /-- the notifier proceeds from `notify.invoke` or `handler.cas`. -/
  | nrun (nid : Nat)
  /-- `Output.Decode` writes and returns. -/
  | nwrite (nid : Nat) (o : Outcome)
  /-- `NotifyAcks(ids)`. -/
  | ack (ids : List Nat)
  /-- the caller's context of call `id` is cancelled. -/
  | cancel (id : Nat)
  /-- the fake clock travels `d` units. -/
  | advance (d : Nat)
  /-- `Close()` up to `wg.Wait()`. -/
  | close
  /-- `ForceClose()` up to `wg.Wait()`. -/
  | fclose
deriving Repr

/-- `retryCtx` (and the context derived from it in `retryUntilAck`) is cancelled: by the caller or
by the handler's `retryClose`. -/
def Call.retC (c : Call) : Bool := c.ctxC || c.done

def setCall (s : State) (id : Nat) (c : Call) : State :=
  { s with calls := fun k => if k = id then some c else s.calls k }

def setNotif (s : State) (nid : Nat) (n : Notif) : State :=
  { s with notifs := fun k => if k = nid then some n else s.notifs k }

/-- Leaving `retryUntilAck`: `clock.StopTimer(timer)` and `e.removeAck(id)`. -/
def Call.exitLoop (c : Call) : Call := { c with deadline := none, fired := false }

def removeAck (s : State) (id : Nat) : State :=
  { s with ack := fun k => if k = id then false else s.ack k }

/-- The deferred guard of `Do` (when present) once the return value `r` is decided: claim the handler
CAS and return, or — the CAS being lost to a notifier — park at `do.guard` until `done`. -/
def Call.finish (cfg : Cfg) (c : Call) (r : Ret) : Call :=
  if cfg.guard then
    match c.owner with
    | none => { c with owner := some .caller, pc := .fin, ret := some r }
    | some _ => { c with pc := .guard, pend := r }
  else { c with pc := .fin, ret := some r }

/-- The return path of `Do`: the deferred `delete(e.rpc, id)`, then the deferred guard. -/
def finish (cfg : Cfg) (s : State) (id : Nat) (c : Call) (r : Ret) : State :=
  setCall { s with rpc := fun k => if k = id then none else s.rpc k } id (c.finish cfg r)

def newCall (seq body now : Nat) : Call :=
  { seq := seq, body := body, sentAt := now, pc := .send0, sent := false, owner := none, done := false,
    res := .ok, ctxC := false, acked := false, fired := false, deadline := none, retries := 0,
    sends := 1, drops := 0, writes := [], pend := .ok, ret := none }

/-- `Do` entry: closed check, handler registration, `waitAck`, first transmission. -/
def stepStart (s : State) (id seq body : Nat) : Option State :=
  match s.calls id with
  | some _ => none
  | none =>
    let s := { s with started := id :: s.started }
    if s.closed then
      some (setCall s id { newCall seq body s.now with owner := some .caller, pc := .fin, sends := 0, ret := some .closedRetry })
    else
      some (setCall { s with rpc := fun k => if k = id then some (.real id) else s.rpc k,
                             ack := fun k => if k = id then true else s.ack k,
                             log := s.log ++ [(id, seq, body)] } id (newCall seq body s.now))

/-- Return of the `send` callback (first send, `retryUntilAck` head; or a re-send in the timer branch). -/
def stepSret (cfg : Cfg) (s : State) (id : Nat) (o : Outcome) : Option State :=
  match s.calls id with
  | none => none
  | some c =>
    match c.pc, o with
    | .send0, .ok =>
      some (setCall s id { c with sent := true, deadline := some (s.now + cfg.interval), pc := .loop })
    | .send0, .err => some (finish cfg (removeAck s id) id c .sendErr)
    | .send0, .canceled =>
      if c.retC then some (setCall (removeAck s id) id { c with pc := .wait }) else none
    | .sendR, .ok =>
      let c := { c with retries := c.retries + 1 }
      if c.retries ≥ cfg.maxRetries then
        some (finish cfg (removeAck s id) id c.exitLoop (.retryLimit c.retries))
      else some (setCall s id { c with pc := .loop })
    | .sendR, .err => some (finish cfg (removeAck s id) id c.exitLoop .sendErr)
    | .sendR, .canceled =>
      if c.retC then some (setCall (removeAck s id) id { c.exitLoop with pc := .wait }) else none
    | _, _ => none

/-- One branch of the `select` in `retryUntilAck`'s loop. -/
def stepLoop (cfg : Cfg) (s : State) (id : Nat) (b : LoopBr) : Option State :=
  match s.calls id with
  | none => none
  | some c =>
    if c.pc ≠ .loop then none else
    let toWait : State := setCall (removeAck s id) id { c.exitLoop with pc := .wait }
    match b with
    | .ctx => if c.retC then some toWait else none
    | .closed =>
      if s.reqC then
        if c.acked then some toWait
        else some (finish cfg (removeAck s id) id c.exitLoop .closedRetry)
      else none
    | .ack => if c.acked then some toWait else none
    | .tick =>
      if c.fired then
        if cfg.recheck && (c.acked || c.retC) then some toWait
        else
          some (setCall { s with log := s.log ++ [(id, c.seq, c.body)] } id
            { c with fired := false, deadline := some (s.now + cfg.interval), sends := c.sends + 1, sentAt := s.now, pc := .sendR })
      else none

/-- One branch of the final `select` of `Do`. -/
def stepWait (cfg : Cfg) (s : State) (id : Nat) (b : WaitBr) : Option State :=
  match s.calls id with
  | none => none
  | some c =>
    if c.pc ≠ .wait then none else
    match b with
    | .ctx =>
      if c.ctxC then
        if c.sent then
          some (setCall { s with rpc := fun k => if k = id then some .nop else s.rpc k } id
            { c with drops := c.drops + 1, pc := .drop })
        else some (finish cfg s id c .ctxErr)
      else none
    | .closed =>
      if s.reqC then
        if c.done then some (finish cfg s id c c.res) else some (finish cfg s id c .closedNoRetry)
      else none
    | .done => if c.done then some (finish cfg s id c c.res) else none

/-- Return of the `drop` callback: `Do` returns `ctx.Err()` whatever the outcome. -/
def stepDret (cfg : Cfg) (s : State) (id : Nat) (_o : Outcome) : Option State :=
  match s.calls id with
  | none => none
  | some c => if c.pc = .drop then some (finish cfg s id c .ctxErr) else none

/-- The guard's `<-done`. -/
def stepGpass (s : State) (id : Nat) : Option State :=
  match s.calls id with
  | none => none
  | some c =>
    if c.pc = .guard ∧ c.done then some (setCall s id { c with pc := .fin, ret := some c.pend }) else none

/-- `NotifyResult` / `NotifyError`: lookup of the callback under the mutex. -/
def stepNstart (s : State) (nid target : Nat) (isErr : Bool) (val : Nat) : Option State :=
  match s.notifs nid with
  | some _ => none
  | none =>
    let s := { s with nstarted := nid :: s.nstarted, delivered := s.delivered ++ [(target, isErr, val)] }
    match s.rpc target with
    | none => some (setNotif s nid { target, isErr, val, pc := .fin, fn := .nop, nret := .ok })
    | some h => some (setNotif s nid { target, isErr, val, pc := .invoke, fn := h, nret := .ok })

/-- The notifier calls the fetched callback (from `notify.invoke`: the CAS; from `handler.cas`:
the error path completes, the result path enters `Output.Decode`). -/
def stepNrun (s : State) (nid : Nat) : Option State :=
  match s.notifs nid with
  | none => none
  | some n =>
    match n.pc, n.fn with
    | .invoke, .nop => some (setNotif s nid { n with pc := .fin })
    | .invoke, .real cid =>
      match s.calls cid with
      | none => none
      | some c =>
        match c.owner with
        | some _ => some (setNotif s nid { n with pc := .fin, nret := if n.isErr then .ok else .already })
        | none => some (setNotif (setCall s cid { c with owner := some (.notif nid) }) nid { n with pc := .cas })
    | .cas, .real cid =>
      match s.calls cid with
      | none => none
      | some c =>
        if n.isErr then
          some (setNotif (setCall s cid { c with res := .rpcErr n.val, done := true }) nid { n with pc := .fin })
        else some (setNotif s nid { n with pc := .decode })
    | _, _ => none

/-- `Output.Decode` performs its write and returns; the handler closes `done` and calls `retryClose`. -/
def stepNwrite (s : State) (nid : Nat) (o : Outcome) : Option State :=
  match s.notifs nid with
  | none => none
  | some n =>
    match n.pc, n.fn with
    | .decode, .real cid =>
      match s.calls cid with
      | none => none
      | some c =>
        let (r, nr) := match o with
          | .ok => (Ret.ok, NRet.ok)
          | _ => (Ret.decodeErr, NRet.decodeErr)
        some (setNotif (setCall s cid { c with writes := c.writes ++ [n.val], res := r, done := true }) nid
          { n with pc := .fin, nret := nr })
    | _, _ => none

/-- `NotifyAcks(ids)`: close and unregister every registered channel. -/
def stepAck (s : State) (ids : List Nat) : State :=
  { s with
    calls := fun k => match s.calls k with
      | some c => if ids.contains k && s.ack k then some { c with acked := true } else some c
      | none => none
    ack := fun k => if ids.contains k then false else s.ack k }

/-- Cancellation of the caller's context (ignored once the call has returned). -/
def stepCancel (s : State) (id : Nat) : Option State :=
  match s.calls id with
  | none => none
  | some c => if c.ret = none then some (setCall s id { c with ctxC := true }) else some s

/-- `neo.Time.Travel(d)`: every armed timer whose moment has come fires. -/
def Call.tickTimer (now : Nat) (c : Call) : Call :=
  match c.deadline with
  | some t => if t ≤ now then { c with fired := true, deadline := none } else c
  | none => c

def stepAdvance (s : State) (d : Nat) : State :=
  { s with now := s.now + d, calls := fun k => (s.calls k).map (Call.tickTimer (s.now + d)) }

def step (cfg : Cfg) (s : State) : Action → Option State
  | .start id seq body => stepStart s id seq body
  | .sret id o => stepSret cfg s id o
  | .loopSel id b => stepLoop cfg s id b
  | .waitSel id b => stepWait cfg s id b
  | .dret id o => stepDret cfg s id o
  | .gpass id => stepGpass s id
  | .nstart nid target isErr val => stepNstart s nid target isErr val
  | .nrun nid => stepNrun s nid
  | .nwrite nid o => stepNwrite s nid o
  | .ack ids => some (stepAck s ids)
  | .cancel id => stepCancel s id
  | .advance d => some (stepAdvance s d)
  | .close => some { s with closed := true }
  | .fclose => some { s with reqC := true, closed := true }

/-- Run a list of actions; `none` if one of them is not enabled. -/
def run (cfg : Cfg) (s : State) : List Action → Option State
  | [] => some s
  | a :: as => match step cfg s a with
    | some s' => run cfg s' as
    | none => none

/-- States reachable from the initial state. -/
def Reachable (cfg : Cfg) (s : State) : Prop := ∃ as, run cfg init as = some s

end TdModel.Rpc
