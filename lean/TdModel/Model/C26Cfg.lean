/-
C26 — the engine configuration as read from the source on this run: the regenerated raw facts
(`TdModel/Gen/C26.lean`) and their interpretation by `Rpc.Cfg.ofRaw`.
-/
import TdModel.Model.C24
import TdModel.Gen.C26
namespace TdModel.C26
open TdModel.Rpc

def raw : RawFacts :=
  { guardPresent := Facts.C26.guardPresent, guardWait := Facts.C26.guardWait,
    doSelect := Facts.C26.doSelect, loopSelect := Facts.C26.loopSelect,
    waitClosedPref := Facts.C26.waitClosedPref, loopClosedAck := Facts.C26.loopClosedAck,
    recheckAck := Facts.C26.recheckAck, recheckCtx := Facts.C26.recheckCtx,
    dropIfSent := Facts.C26.dropIfSent, nopOnCancel := Facts.C26.nopOnCancel,
    deleteOnReturn := Facts.C26.deleteOnReturn, removeAckDeferred := Facts.C26.removeAckDeferred,
    handlerLogFirst := Facts.C26.handlerLogFirst,
    ackUnknown := Facts.C26.ackUnknown, ackCloses := Facts.C26.ackCloses, ackDeletes := Facts.C26.ackDeletes }

/-- The engine as it is in the source, for a retry limit and interval. -/
def cfg (maxRetries interval : Nat) : Cfg := Cfg.ofRaw raw maxRetries interval

end TdModel.C26
