/-
C23 — model of `mtproto.Conn.handleMessage` and the handlers it dispatches to
(/repo/mtproto/handle_message.go, handle_container.go, handle_result.go, handle_bad_msg.go,
handle_gzip.go, handle_ack.go, handle_future_salts.go, handle_session_created.go, ping.go
`handlePong`; `proto.MessageContainer/Message/Result/GZIP.Decode`; `rpc.Engine.NotifyResult/
NotifyError/NotifyAcks`).

Input: the decrypted payload bytes.  gzip is a primitive: `St.gz` is the table
compressed-stream ↦ decompressed data (or failure) for the streams occurring in the payload,
computed by the harness with the implementation's own `proto.GZIP.Decode`.
Output: the ordered list of notifications (`Ev`) + the new state + ok/error.
Core Lean only.
-/
import TdModel.Model.Bin
import TdModel.Gen.C23

namespace TdModel.C23
open TdModel TdModel.Bin
open TdModel.Facts.C23

structure FutureSalt where
  validSince : Nat
  validUntil : Nat
  salt : Nat
  deriving Repr, DecidableEq, Inhabited

/-- What the connection holds that `handleMessage` reads or writes. -/
structure St where
  pending : List Nat              -- msg ids with a registered result callback (`Engine.rpc`)
  acks : List Nat                 -- msg ids with an open ack waiter (`Engine.ack`)
  pings : List Nat                -- ping ids with an open pong waiter (`Conn.ping`)
  salt : Nat
  salts : List FutureSalt         -- `Conn.salts`
  failRes : List Nat              -- callbacks that return an error (e.g. the caller's Output.Decode fails)
  failMsg : List Nat              -- type ids on which `Handler.OnMessage` returns an error
  gz : List (Bytes × Option Bytes)
  deriving Inhabited

/-- Notifications leaving `handleMessage`, in order. -/
inductive Ev where
  | result (id : Nat) (data : Bytes)              -- callback(id)(data, nil)
  | rpcError (id code : Nat) (msg : Bytes)        -- callback(id)(nil, tgerr.New(code, msg))
  | badMsg (id code newSalt : Nat)                -- callback(id)(nil, &badMessageError{code, newSalt})
  | message (data : Bytes)                        -- Handler.OnMessage
  | session (salt : Nat)                          -- Handler.OnSession
  | ack (id : Nat)                                -- ack waiter closed
  | pong (id : Nat)                               -- pong waiter closed
  deriving Repr, DecidableEq

/-- The request id a notification is routed to. -/
def Ev.routedTo : Ev → Option Nat
  | .result id _ => some id
  | .rpcError id _ _ => some id
  | .badMsg id _ _ => some id
  | _ => none

structure Out where
  st : St
  evs : List Ev
  ok : Bool

/-- `proto.GZIP.Decode` on a buffer: id, TL bytes, then the primitive. -/
def gunzip (gz : List (Bytes × Option Bytes)) (b : Bytes) : Option Bytes :=
  match consumeID gzipTypeID b with
  | .error _ => none
  | .ok (_, r) =>
    match getBytes r with
    | .error _ => none
    | .ok (z, _) =>
      match gz.lookup z with
      | some (some d) => some d
      | _ => none

/-- `proto.Message.Decode` repeated `n` times (the body of `MessageContainer.Decode`). -/
def decodeMsgs : Nat → Bytes → Option (List Bytes)
  | 0, _ => some []
  | n + 1, b =>
    match getU64 b with
    | .error _ => none
    | .ok (_, r1) =>
      match getU32 r1 with
      | .error _ => none
      | .ok (_, r2) =>
        match getU32 r2 with
        | .error _ => none
        | .ok (len, r3) =>
          if toInt32 len < 0 ∨ toInt32 len > maxContainerMessage then none
          else match getN len r3 with
            | .error _ => none
            | .ok (body, r4) =>
              match decodeMsgs n r4 with
              | some rest => some (body :: rest)
              | none => none

/-- `proto.MessageContainer.Decode`: all messages are decoded before any is handled. -/
def decodeContainer (b : Bytes) : Option (List Bytes) :=
  match consumeID containerTypeID b with
  | .error _ => none
  | .ok (_, r) =>
    match getU32 r with
    | .error _ => none
    | .ok (n, r') => decodeMsgs (if toInt32 n < 0 then 0 else n) r'

/-- `n` longs (`mt.MsgsAck.DecodeBare` loop). -/
def getLongs : Nat → Bytes → Option (List Nat)
  | 0, _ => some []
  | n + 1, b =>
    match getU64 b with
    | .error _ => none
    | .ok (v, r) =>
      match getLongs n r with
      | some vs => some (v :: vs)
      | none => none

def getSalts : Nat → Bytes → Option (List FutureSalt)
  | 0, _ => some []
  | n + 1, b =>
    match getU32 b with
    | .error _ => none
    | .ok (since, r1) =>
      match getU32 r1 with
      | .error _ => none
      | .ok (untl, r2) =>
        match getU64 r2 with
        | .error _ => none
        | .ok (s, r3) =>
          match getSalts n r3 with
          | some vs => some (⟨since, untl, s⟩ :: vs)
          | none => none

/-- `Engine.NotifyAcks`: close and delete the waiter of every listed id that has one. -/
def notifyAcks : List Nat → List Nat → List Nat × List Ev
  | acks, [] => (acks, [])
  | acks, id :: ids =>
    if acks.contains id then
      ((notifyAcks (acks.erase id) ids).1, .ack id :: (notifyAcks (acks.erase id) ids).2)
    else notifyAcks acks ids

/-- A history of msgs_ack payloads handled one after the other (`handleAck` threads `st.acks`):
all waiter closes of the history. -/
def ackSeq : List Nat → List (List Nat) → List Ev
  | _, [] => []
  | acks, ids :: rest => (notifyAcks acks ids).2 ++ ackSeq (notifyAcks acks ids).1 rest

/-- `salts.Salts.Store` up to the order of the result: append, keep the first of equal salts. -/
def dedupSalts : List FutureSalt → List Nat → List FutureSalt
  | [], _ => []
  | s :: ss, seen => if seen.contains s.salt then dedupSalts ss seen else s :: dedupSalts ss (s.salt :: seen)

/-- `handlePong`. -/
def handlePong (st : St) (b : Bytes) : Out :=
  match consumeID pongTypeID b with
  | .error _ => ⟨st, [], false⟩
  | .ok (_, r1) =>
    match getU64 r1 with
    | .error _ => ⟨st, [], false⟩
    | .ok (_, r2) =>
      match getU64 r2 with
      | .error _ => ⟨st, [], false⟩
      | .ok (pid, _) =>
        if st.pings.contains pid then ⟨{ st with pings := st.pings.erase pid }, [.pong pid], true⟩
        else ⟨st, [], true⟩

/-- `Engine.NotifyError`: the callback of `id` if one is registered. -/
def notifyError (st : St) (id : Nat) (e : Ev) : List Ev :=
  if st.pending.contains id then [e] else []

/-- `handleBadMsg` (both constructors). -/
def handleBadMsg (st : St) (withSalt : Bool) (b : Bytes) : Out :=
  match getU32 b with
  | .error _ => ⟨st, [], false⟩
  | .ok (_, r0) =>
    match getU64 r0 with
    | .error _ => ⟨st, [], false⟩
    | .ok (id, r1) =>
      match getU32 r1 with
      | .error _ => ⟨st, [], false⟩
      | .ok (_, r2) =>
        match getU32 r2 with
        | .error _ => ⟨st, [], false⟩
        | .ok (code, r3) =>
          if withSalt then
            match getU64 r3 with
            | .error _ => ⟨st, [], false⟩
            | .ok (ns, _) => ⟨st, notifyError st id (.badMsg id code ns), true⟩
          else ⟨st, notifyError st id (.badMsg id code 0), true⟩

/-- `handleSessionCreated` (clock of the harness: every stored future salt is expired, so
`session()`'s `updateSalt` finds none and drops them). -/
def handleSessionCreated (st : St) (b : Bytes) : Out :=
  match getU32 b with
  | .error _ => ⟨st, [], false⟩
  | .ok (_, r0) =>
    match getU64 r0 with
    | .error _ => ⟨st, [], false⟩
    | .ok (_, r1) =>
      match getU64 r1 with
      | .error _ => ⟨st, [], false⟩
      | .ok (_, r2) =>
        match getU64 r2 with
        | .error _ => ⟨st, [], false⟩
        | .ok (salt, _) => ⟨{ st with salt := salt, salts := [] }, [.session salt], true⟩

/-- `handleFutureSalts`. -/
def handleFutureSalts (st : St) (b : Bytes) : Out :=
  match getU32 b with
  | .error _ => ⟨st, [], false⟩
  | .ok (_, r0) =>
    match getU64 r0 with
    | .error _ => ⟨st, [], false⟩
    | .ok (_, r1) =>
      match getU32 r1 with
      | .error _ => ⟨st, [], false⟩
      | .ok (_, r2) =>
        match getU32 r2 with
        | .error _ => ⟨st, [], false⟩
        | .ok (n, r3) =>
          match getSalts (if toInt32 n < 0 then 0 else n) r3 with
          | none => ⟨st, [], false⟩
          | some ss => ⟨{ st with salts := dedupSalts (st.salts ++ ss) [] }, [], true⟩

/-- `handleAck`. -/
def handleAck (st : St) (b : Bytes) : Out :=
  match getU32 b with
  | .error _ => ⟨st, [], false⟩
  | .ok (_, r0) =>
    match getVectorHeader r0 with
    | .error _ => ⟨st, [], false⟩
    | .ok (n, r1) =>
      match getLongs n r1 with
      | none => ⟨st, [], false⟩
      | some ids =>
        ⟨{ st with acks := (notifyAcks st.acks ids).1 }, (notifyAcks st.acks ids).2, true⟩

/-- All waiter closes caused by a history of msgs_ack payloads (arbitrary bytes, malformed ones
included) handled one after the other by `handleAck`. -/
def ackRun (st : St) : List Bytes → List Ev
  | [] => []
  | b :: bs => (handleAck st b).evs ++ ackRun (handleAck st b).st bs

/-- The buffer `handleResult` goes on with and its (re-read) type id: the body itself, or the
decompressed content when the body is a gzip packet (`id, err = b.PeekID()` after `gzip(b)`). -/
def resultContent (gz : List (Bytes × Option Bytes)) (id0 : Nat) (body : Bytes) : Option (Nat × Bytes) :=
  if id0 = gzipTypeID then
    match gunzip gz body with
    | none => none
    | some d =>
      match getU32 d with
      | .error _ => none
      | .ok (id1, _) => some (id1, d)
  else some (id0, body)

/-- `handleResult`. -/
def handleResult (st : St) (b : Bytes) : Out :=
  match consumeID resultTypeID b with
  | .error _ => ⟨st, [], false⟩
  | .ok (_, r0) =>
    match getU64 r0 with
    | .error _ => ⟨st, [], false⟩
    | .ok (req, body) =>
      match getU32 body with
      | .error _ => ⟨st, [], false⟩
      | .ok (id0, _) =>
        match resultContent st.gz id0 body with
        | none => ⟨st, [], false⟩
        | some (id, d) =>
          if id = rpcErrorTypeID then
            match getU32 d with
            | .error _ => ⟨st, [], false⟩
            | .ok (_, e0) =>
              match getU32 e0 with
              | .error _ => ⟨st, [], false⟩
              | .ok (code, e1) =>
                match getBytes e1 with
                | .error _ => ⟨st, [], false⟩
                | .ok (msg, _) => ⟨st, notifyError st req (.rpcError req code msg), true⟩
          else if id = pongTypeID then handlePong st d
          else if st.pending.contains req then ⟨st, [.result req d], !st.failRes.contains req⟩
          else ⟨st, [], true⟩

mutual
/-- `Conn.handleMessage`: the type switch. `fuel` bounds container/gzip nesting. -/
def handle : Nat → St → Bytes → Out
  | 0, st, _ => ⟨st, [], false⟩
  | fuel + 1, st, b =>
    match getU32 b with
    | .error _ => ⟨st, [], false⟩
    | .ok (id, _) =>
      match dispatch.lookup id with
      | some "handleSessionCreated" => handleSessionCreated st b
      | some "handleBadMsg" =>
        if id = badMsgNotificationTypeID then handleBadMsg st false b
        else if id = badServerSaltTypeID then handleBadMsg st true b
        else ⟨st, [], false⟩
      | some "handleFutureSalts" => handleFutureSalts st b
      | some "handleContainer" =>
        match decodeContainer b with
        | none => ⟨st, [], false⟩
        | some msgs => handleAll fuel st msgs
      | some "handleResult" => handleResult st b
      | some "handlePong" => handlePong st b
      | some "handleAck" => handleAck st b
      | some "handleGZIP" =>
        match gunzip st.gz b with
        | none => ⟨st, [], false⟩
        | some d => handle fuel st d
      | some "nil" => ⟨st, [], true⟩
      | some _ => ⟨st, [], false⟩
      | none => ⟨st, [.message b], !st.failMsg.contains id⟩

/-- the loop of `handleContainer`: stop at the first error. -/
def handleAll : Nat → St → List Bytes → Out
  | 0, st, _ => ⟨st, [], false⟩
  | _ + 1, st, [] => ⟨st, [], true⟩
  | fuel + 1, st, m :: ms =>
    let o := handle fuel st m
    if o.ok then
      let o' := handleAll fuel o.st ms
      ⟨o'.st, o.evs ++ o'.evs, o'.ok⟩
    else o
end

end TdModel.C23
