/-
C30 — the model INTERPRETED from the regenerated structured facts (`Facts.C30`, produced by the
symbolic executor `harness/c30/symex.go` from the Go source on every run):
  * `skipCond`, `storeDC/Key/Salt`, `trackDC/Key/Salt`, `cdnTrack…` — value terms (`Facts.C30.T`)
    of the condition and of the arguments of `c.session.Store` / `storeDCSess`;
  * `onSessionSteps`, `onCDNSessionSteps` — the order of the shared-state steps;
  * `saveWrites` — which field of the loaded `session.Data` gets which value;
  * `restoreRefuse`, `restoreDC/Key/Salt` — the refusal test and the installed session.
The drivers run THESE functions; the property theorems are stated about them.  The hand-written
functions of Model/C30.lean and Model/C30Conc.lean are what a reader checks against the Go text;
`Lemmas/C30Interp.lean` proves both equal for the current facts — a changed operand, condition
or step order changes the interpreted model and breaks that proof.  Core Lean only.
-/
import TdModel.Model.C30Conc

namespace TdModel.C30
open TdModel Facts.C30

inductive Val where
  | int (i : Int)
  | bytes (b : Bytes)
  | key (k : AuthKey)
  | bool (b : Bool)
  | bad
  deriving DecidableEq, Repr

/-- What the terms can refer to. -/
structure Env where
  cfgThisDC : Int
  salt : Int
  sKey : AuthKey
  sPermKey : AuthKey
  /-- `c.session.Load()` now -/
  live : Sess
  /-- the local snapshot `primaryDC` -/
  primaryRead : Int
  /-- the loaded `session.Data` -/
  data : Stored
  sha1 : Bytes → Bytes

def evalT (e : Env) : T → Val
  | .cfgThisDC => .int e.cfgThisDC
  | .liveDC => .int e.live.dc
  | .liveSalt => .int e.live.salt
  | .liveKey => .key e.live.key
  | .primaryRead => .int e.primaryRead
  | .salt => .int e.salt
  | .dataDC => .int e.data.dc
  | .dataSalt => .int e.data.salt
  | .dataAuthKey => .bytes e.data.authKey
  | .dataAuthKeyID => .bytes e.data.authKeyID
  | .sKey => .key e.sKey
  | .sPermKey => .key e.sPermKey
  | .lit n => .int n
  | .zeros n => .bytes (List.replicate n 0)
  | .mkKey v id =>
    match evalT e v, evalT e id with
    | .bytes a, .bytes b => .key ⟨a, b⟩
    | _, _ => .bad
  | .valueOf k =>
    match evalT e k with
    | .key k => .bytes k.value
    | _ => .bad
  | .idOf k =>
    match evalT e k with
    | .key k => .bytes k.id
    | _ => .bad
  | .fit n b =>
    match evalT e b with
    | .bytes b => .bytes (fit n b)
    | _ => .bad
  | .keyID v =>
    match evalT e v with
    | .bytes v => .bytes (((e.sha1 v).drop keyIDOffset).take keyIDLen)
    | _ => .bad
  | .len b =>
    match evalT e b with
    | .bytes b => .int b.length
    | _ => .bad
  | .isZeroKey k =>
    match evalT e k with
    | .key k => .bool k.isZero
    | _ => .bad
  | .not c =>
    match evalT e c with
    | .bool b => .bool (!b)
    | _ => .bad
  | .and a b =>
    match evalT e a, evalT e b with
    | .bool x, .bool y => .bool (x && y)
    | _, _ => .bad
  | .or a b =>
    match evalT e a, evalT e b with
    | .bool x, .bool y => .bool (x || y)
    | _, _ => .bad
  | .eq a b =>
    match evalT e a, evalT e b with
    | .bad, _ => .bad
    | _, .bad => .bad
    | x, y => .bool (x = y)
  | .ne a b =>
    match evalT e a, evalT e b with
    | .bad, _ => .bad
    | _, .bad => .bad
    | x, y => .bool (x ≠ y)
  | .lt a b =>
    match evalT e a, evalT e b with
    | .int x, .int y => .bool (x < y)
    | _, _ => .bad
  | .ite c a b =>
    match evalT e c with
    | .bool true => evalT e a
    | .bool false => evalT e b
    | _ => .bad
  | .unknown _ => .bad

/-- Poison values for terms the executor did not understand (never equal to anything real). -/
def poisonInt : Int := -7777777
def poisonKey : AuthKey := ⟨[0xba, 0xd0], [0xba, 0xd1]⟩

def evalInt (e : Env) (t : T) : Int :=
  match evalT e t with
  | .int i => i
  | _ => poisonInt

def evalBytes (e : Env) (t : T) : Bytes :=
  match evalT e t with
  | .bytes b => b
  | _ => [0xba, 0xd2]

def evalKey (e : Env) (t : T) : AuthKey :=
  match evalT e t with
  | .key k => k
  | _ => poisonKey

/-- An un-evaluable condition counts as "true" for a refusal / skip (fail closed: the model then
differs from any implementation that accepts). -/
def evalBool (e : Env) (t : T) : Bool :=
  match evalT e t with
  | .bool b => b
  | _ => true

def evalSess (e : Env) (dc key sl : T) : Sess := ⟨evalInt e dc, evalKey e key, evalInt e sl⟩

/-- Environment of a notification in state `s`. -/
def envOf (s : St) (n : Notif) (saw : Int) (data : Stored) : Env :=
  { cfgThisDC := n.cfgDC, salt := n.salt, sKey := n.key, sPermKey := n.permKey, live := s.session,
    primaryRead := saw, data := data, sha1 := fun _ => [] }

def applyWrite (e : Env) (d : Stored) (w : String × T) : Stored :=
  if w.1 = "DC" then { d with dc := evalInt e w.2 }
  else if w.1 = "AuthKey" then { d with authKey := evalBytes e w.2 }
  else if w.1 = "AuthKeyID" then { d with authKeyID := evalBytes e w.2 }
  else if w.1 = "Salt" then { d with salt := evalInt e w.2 }
  else { d with dc := poisonInt }

/-- The `session.Data` saveSession hands to `Storage.Save`. -/
def computeData (e : Env) (loaded : Stored) : Stored := saveWrites.foldl (applyWrite e) loaded

def expandSteps (l : List String) : List String :=
  l.flatMap fun s => if s = "save" then ["load", "write"] else [s]

def progOf : Kind → List String
  | .regular => expandSteps onSessionSteps
  | .cdn => expandSteps onCDNSessionSteps
  | .migrate => ["migrate"]

/-- One atomic step of one agent, read off the regenerated step list. -/
def advI (s : St) (t : Thread) : St × Thread :=
  if t.done then (s, t)
  else
    match (progOf t.n.kind)[t.pc]? with
    | none => (s, { t with done := true })
    | some op =>
      let e := envOf s t.n t.saw emptyStored
      if op = "track" then
        ({ s with dcSessions := insertDC s.dcSessions (evalSess e trackDC trackKey trackSalt) }, { t with pc := t.pc + 1 })
      else if op = "trackCdn" then
        ({ s with cdnSessions := insertDC s.cdnSessions (evalSess e cdnTrackDC cdnTrackKey cdnTrackSalt) },
          { t with pc := t.pc + 1 })
      else if op = "migrate" then
        ({ s with session := ⟨t.n.cfgDC, zeroAuthKey, 0⟩ }, { t with pc := t.pc + 1 })
      else if op = "test" then
        let e1 := envOf s t.n s.session.dc emptyStored
        if evalBool e1 skipCond then (s, { t with saw := s.session.dc, done := true })
        else (s, { t with saw := s.session.dc, pc := t.pc + 1 })
      else if op = "store" then
        ({ s with session := evalSess e storeDC storeKey storeSalt }, { t with pc := t.pc + 1 })
      else if op = "load" then
        if !s.hasStorage then (s, { t with done := true })
        else if t.n.fault = .loadErr then (s, { t with done := true, res := .errLoad })
        else
          let loaded := match s.stored with
            | some d => d
            | none => emptyStored
          (s, { t with pc := t.pc + 1, pending := computeData (envOf s t.n t.saw loaded) loaded })
      else if op = "write" then
        if t.n.fault = .saveErr then (s, { t with done := true, res := .errSave })
        else ({ s with stored := some t.pending }, { t with pc := t.pc + 1 })
      else (s, { t with done := true, res := .errSave })   -- a step the model does not know

def cstepI : CSt → Act → CSt := cstepWith advI
def crunI (c : CSt) (as : List Act) : CSt := as.foldl cstepI c

/-- Sequential semantics of one notification = its agent run alone. -/
def stepI (s : St) (n : Notif) : St × Res := ((aloneWith advI s n).1, (aloneWith advI s n).2.res)
def runI (s : St) (ns : List Notif) : St := ns.foldl (fun s n => (stepI s n).1) s

/-- `restoreConnection`, the refusal test and the installed session read off the facts. -/
def restoreI (P : Prims) (s : St) (l : LoadRes) : Except RErr St :=
  if !s.hasStorage then .ok s
  else
    match l with
    | .notFound => .ok s
    | .err => .error .load
    | .data d =>
      let e : Env := { cfgThisDC := 0, salt := 0, sKey := zeroAuthKey, sPermKey := zeroAuthKey, live := s.session,
                       primaryRead := 0, data := d, sha1 := P.sha1 }
      if evalBool e restoreRefuse then .error .corrupted
      else .ok { s with session := evalSess e restoreDC restoreKey restoreSalt }

/-! ### executable exploration for the driver -/

def live (t : Thread) : Bool := !t.done && t.pc < (progOf t.n.kind).length

/-- Is a final state satisfying `goal` reachable by running every agent of `ts` to completion in
some interleaving?  (fuel = total number of remaining steps) -/
def reach (goal : St → List Thread → Bool) : Nat → St → List Thread → Bool
  | 0, s, ts => goal s ts
  | fuel + 1, s, ts =>
    let ls := (List.range ts.length).filter fun i => match ts[i]? with
      | some t => live t
      | none => false
    if ls.isEmpty then goal s ts
    else ls.any fun i =>
      match ts[i]? with
      | some t => reach goal fuel (advI s t).1 (ts.set i (advI s t).2)
      | none => false

end TdModel.C30
