/-
Line protocol of the builder model (shared by the C35 and C37 drivers): parsing of op lists,
printing of (text, entities).  Code points travel as dot-separated hex, `-` = empty.
-/
import TdModel.Model.C35
import TdModel.Util
open TdModel TdModel.C35

namespace Drv35

def hexNat? (s : String) : Option Nat :=
  s.toList.foldlM (fun acc c => do pure (acc * 16 + (← hexVal c))) 0

def parseChar (s : String) : Option Char := do
  let n ← hexNat? s
  if h : n.isValidChar then some (Char.ofNatAux n h) else none

/-- `-` or dot-separated hex code points. -/
def parseText (s : String) : Option (List Char) :=
  if s == "-" then some [] else (s.splitOn ".").mapM parseChar

def hexStr (n : Nat) : String := String.ofList (Nat.toDigits 16 n)

def showText (t : List Char) : String :=
  if t.isEmpty then "-" else ".".intercalate (t.map fun c => hexStr c.toNat)

def parseFmt (s : String) : Option Fmt :=
  if s.endsWith "l" then do pure { kind := (← (s.dropEnd 1).toString.toNat?), lang := true }
  else do pure { kind := (← s.toNat?) }

def parseFmts (s : String) : Option (List Fmt) :=
  if s == "-" then some [] else (s.splitOn ".").mapM parseFmt

def parseOp (s : String) : Option Op :=
  match s.splitOn ":" with
  | ["P", t] => do pure (.plain (← parseText t))
  | ["W", t] => do pure (.write (← parseText t))
  | ["F", t, f] => do pure (.format (← parseText t) (← parseFmts f))
  | ["T"] => some .token
  | ["R", r] => do pure (.writeRune (← r.toInt?))
  | ["Z"] => some .reset
  | ["A", k, f] => do pure (.apply (← k.toNat?) (← parseFmts f))
  | ["S"] => some .shrink
  | _ => none

def showEnt (e : Ent) : String :=
  s!"{e.off}:{e.len}:{e.kind}" ++ (if e.lang then "l" else "")

def showEnts (l : List Ent) : String :=
  if l.isEmpty then "-" else ",".intercalate (l.map showEnt)

def parseEnt (s : String) : Option Ent :=
  match s.splitOn ":" with
  | [o, l, k] => do
    let f ← parseFmt k
    pure { off := (← o.toInt?), len := (← l.toInt?), kind := f.kind, lang := f.lang }
  | _ => none

def parseEnts (s : String) : Option (List Ent) :=
  if s == "-" then some [] else (s.splitOn ",").mapM parseEnt

def handle (line : String) : String :=
  match words line with
  | "run" :: ops => match ops.mapM parseOp with
    | some ops => let r := complete (run ops); showText r.1 ++ " " ++ showEnts r.2
    | none => "bad-op"
  | "raw" :: ops => match ops.mapM parseOp with
    | some ops => let s := run ops; showText s.text ++ " " ++ showEnts s.ents ++ " " ++ toString s.u16
    | none => "bad-op"
  | ["u16len", t] => match parseText t with
    | some t => toString (u16len t)
    | none => "bad-op"
  | ["trim", t] => match parseText t with
    | some t => showText (trimRight t)
    | none => "bad-op"
  | ["holds", t, es] => match parseText t, parseEnts es with
    | some t, some es => if holds t es then "1" else "0"
    | _, _ => "bad-op"
  | _ => "bad-op"

end Drv35
