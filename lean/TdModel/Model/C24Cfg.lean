/-
C24 — the engine configuration as read from the source on this run: the regenerated raw facts
(`TdModel/Gen/C24.lean`) and their interpretation by `Rpc.Cfg.ofRaw`.
-/
import TdModel.Model.C24
import TdModel.Gen.C24
namespace TdModel.C24
open TdModel.Rpc

def raw : RawFacts :=
  { guardPresent := Facts.C24.guardPresent, guardWait := Facts.C24.guardWait,
    doSelect := Facts.C24.doSelect, loopSelect := Facts.C24.loopSelect,
    waitClosedPref := Facts.C24.waitClosedPref, loopClosedAck := Facts.C24.loopClosedAck,
    recheckAck := Facts.C24.recheckAck, recheckCtx := Facts.C24.recheckCtx,
    dropIfSent := Facts.C24.dropIfSent, nopOnCancel := Facts.C24.nopOnCancel,
    deleteOnReturn := Facts.C24.deleteOnReturn, removeAckDeferred := Facts.C24.removeAckDeferred,
    handlerLogFirst := Facts.C24.handlerLogFirst,
    ackUnknown := Facts.C24.ackUnknown, ackCloses := Facts.C24.ackCloses, ackDeletes := Facts.C24.ackDeletes }

/-- The engine as it is in the source, for a retry limit and interval. -/
def cfg (maxRetries interval : Nat) : Cfg := Cfg.ofRaw raw maxRetries interval

end TdModel.C24
