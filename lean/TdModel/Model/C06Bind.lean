/-
C06 — `crypto.EncryptBindMessage` (crypto/bind.go) and the receiving side of the "special binding
message" as the specification describes it (https://core.telegram.org/api/pfs,
https://core.telegram.org/method/auth.bindTempAuthKey): decrypt under the permanent key with the
MTProto 1.0 derivation, `msg_key = substr (sha1 (message_data), 4, 16)`.  Core Lean only.
-/
import TdModel.Model.C06
import TdModel.Model.C04Ige
import TdModel.Model.Bin

namespace TdModel.C06
open TdModel TdModel.Bin

/-- `crypto.BindAuthKeyInner`; 64-bit fields as unsigned views, `expires` as the unsigned view of
the `int32` written by `PutInt`. -/
structure BindInner where
  nonce : Nat
  tempAuthKeyID : Nat
  permAuthKeyID : Nat
  tempSessionID : Nat
  expiresAt : Nat
  deriving DecidableEq, Repr

/-- `(*BindAuthKeyInner).Encode`. -/
def BindInner.encode (i : BindInner) : Bytes :=
  putU32 Facts.C06.bindInnerTypeID ++ putU64 i.nonce ++ putU64 i.tempAuthKeyID ++ putU64 i.permAuthKeyID ++
    putU64 i.tempSessionID ++ putU32 i.expiresAt

inductive BindErr where
  | zeroKey
  | rand
  deriving DecidableEq, Repr

/-- `crypto.EncryptBindMessage(rand, permKey, msgID, inner)`; `rnd` is the byte stream the reader
delivers (`io.ReadFull`: 16 bytes, then the alignment padding). -/
def encryptBind (P : Prims) (rnd permKey keyId : Bytes) (msgID : Nat) (inner : BindInner) :
    Except BindErr Bytes :=
  if permKey.all (· == 0) && keyId.all (· == 0) then .error .zeroKey
  else
    let payload := inner.encode
    if rnd.length < 16 then .error .rand
    else
      let plaintext := rnd.take 16 ++ putU64 msgID ++ putU32 0 ++ putU32 payload.length ++ payload
      let msgKey := Impl.msgKeyV1 P plaintext
      let rem := plaintext.length % 16
      let padLen := if rem ≠ 0 then 16 - rem else 0
      if (rnd.drop 16).length < padLen then .error .rand
      else
        let padded := plaintext ++ (rnd.drop 16).take padLen
        let kiv := Impl.keysV1 P permKey msgKey
        .ok (keyId ++ msgKey ++ Ige.enc (P.aesEnc kiv.1) kiv.2 padded)

namespace Spec

/-- `bind_auth_key_inner#75a3f765 nonce:long temp_auth_key_id:long perm_auth_key_id:long
temp_session_id:long expires_at:int`. -/
def parseInner (b : Bytes) : Option BindInner :=
  match consumeID 0x75a3f765 b with
  | .ok (_, r) =>
    match getU64 r with
    | .ok (n, r) =>
      match getU64 r with
      | .ok (t, r) =>
        match getU64 r with
        | .ok (p, r) =>
          match getU64 r with
          | .ok (s, r) =>
            match getU32 r with
            | .ok (e, []) => some ⟨n, t, p, s, e⟩
            | _ => none
          | _ => none
        | _ => none
      | _ => none
    | _ => none
  | _ => none

/-- What the server does with `encrypted_message` of auth.bindTempAuthKey: the envelope is
`perm_auth_key_id(8) msg_key(16) encrypted_data`, the plaintext is
`random:int128 msg_id:long seq_no:int msg_len:int message padding(0..15)`. Returns `(msg_id, inner)`. -/
def decryptBind (P : Prims) (permKey keyId c : Bytes) : Option (Nat × BindInner) :=
  if c.length < 24 ∨ c.take 8 ≠ keyId ∨ (c.length - 24) % 16 ≠ 0 then none
  else
    let msgKey := (c.drop 8).take 16
    let kiv := Spec.keysV1 P permKey msgKey
    let pt := Ige.dec (P.aesDec kiv.1) kiv.2 (c.drop 24)
    match getN 16 pt with
    | .ok (_, r) =>
      match getU64 r with
      | .ok (msgID, r) =>
        match getU32 r with
        | .ok (seq, r) =>
          match getU32 r with
          | .ok (len, r) =>
            match getN len r with
            | .ok (payload, pad) =>
              if seq ≠ 0 ∨ 16 ≤ pad.length then none
              else if Spec.msgKeyV1 P (pt.take (32 + len)) ≠ msgKey then none
              else (parseInner payload).map fun i => (msgID, i)
            | _ => none
          | _ => none
        | _ => none
      | _ => none
    | _ => none

end Spec

end TdModel.C06
