/-
C06 — `crypto.EncryptBindMessage` (crypto/bind.go) and the receiving side of the "special binding
message" as the specification describes it (https://core.telegram.org/api/pfs,
https://core.telegram.org/method/auth.bindTempAuthKey): decrypt under the permanent key with the
MTProto 1.0 derivation, `msg_key = substr (sha1 (message_data), 4, 16)`.  Core Lean only.
-/
import TdModel.Model.C06
import TdModel.Model.C04Ige
import TdModel.Model.Bin

namespace TdModel.C06
open TdModel TdModel.Bin

/-- `crypto.BindAuthKeyInner`; 64-bit fields as unsigned views, `expires` as the unsigned view of
the `int32` written by `PutInt`. -/
structure BindInner where
  nonce : Nat
  tempAuthKeyID : Nat
  permAuthKeyID : Nat
  tempSessionID : Nat
  expiresAt : Nat
  deriving DecidableEq, Repr

open TdModel.Facts.C06 (BW BF BPut)

/-- Integer value written by one regenerated `PutX` of bind.go. -/
def bindVal (i : BindInner) (msgID payloadLen : Nat) : BF → Nat
  | .typeID => Facts.C06.bindInnerTypeID
  | .nonce => i.nonce
  | .tempAuthKeyID => i.tempAuthKeyID
  | .permAuthKeyID => i.permAuthKeyID
  | .tempSessionID => i.tempSessionID
  | .expiresAt => i.expiresAt
  | .msgID => msgID
  | .zero => 0
  | .payloadLen => payloadLen
  | .random => 0
  | .payload => 0

def bindRaw (random payload : Bytes) : BF → Bytes
  | .random => random
  | .payload => payload
  | _ => []

/-- Interpreter of a regenerated `b.PutX(…)` sequence of bind.go (`PutID` = `PutUint32`). -/
def bindPuts (ps : List BPut) (i : BindInner) (msgID : Nat) (random payload : Bytes) : Bytes :=
  ps.flatMap fun p =>
    match p.w with
    | .id => putU32 (bindVal i msgID payload.length p.f)
    | .u32 => putU32 (bindVal i msgID payload.length p.f)
    | .u64 => putU64 (bindVal i msgID payload.length p.f)
    | .raw => bindRaw random payload p.f

/-- `(*BindAuthKeyInner).Encode` — field sequence regenerated (`Facts.C06.bindInnerEncode`). -/
def BindInner.encode (i : BindInner) : Bytes := bindPuts Facts.C06.bindInnerEncode i 0 [] []

inductive BindErr where
  | zeroKey
  | rand
  deriving DecidableEq, Repr

/-- `crypto.EncryptBindMessage(rand, permKey, msgID, inner)`; `rnd` is the byte stream the reader
delivers (`io.ReadFull`: 16 bytes, then the alignment padding). -/
def encryptBind (P : Prims) (rnd permKey keyId : Bytes) (msgID : Nat) (inner : BindInner) :
    Except BindErr Bytes :=
  if permKey.all (· == 0) && keyId.all (· == 0) then .error .zeroKey
  else
    let payload := inner.encode
    if rnd.length < Facts.C06.bindRandomLen then .error .rand
    else
      -- envelope: the regenerated `plaintext.PutX(…)` sequence
      let plaintext := bindPuts Facts.C06.bindEnvelope inner msgID (rnd.take Facts.C06.bindRandomLen) payload
      let rem := plaintext.length % Facts.C06.bindBlockSize
      let padLen := if rem ≠ 0 then Facts.C06.bindBlockSize - rem else 0
      if (rnd.drop Facts.C06.bindRandomLen).length < padLen then .error .rand
      else
        let padded := plaintext ++ (rnd.drop Facts.C06.bindRandomLen).take padLen
        -- msg_key over the envelope *before* the alignment padding (statement order regenerated)
        let msgKey := Impl.msgKeyV1 P (if Facts.C06.bindMsgKeyBeforePadding then plaintext else padded)
        let kiv := Impl.keysV1 P permKey msgKey
        .ok (keyId ++ msgKey ++ Ige.enc (P.aesEnc kiv.1) kiv.2 padded)

namespace Spec

/-- `bind_auth_key_inner#75a3f765 nonce:long temp_auth_key_id:long perm_auth_key_id:long
temp_session_id:long expires_at:int`. -/
def parseInner (b : Bytes) : Option BindInner :=
  match consumeID 0x75a3f765 b with
  | .ok (_, r) =>
    match getU64 r with
    | .ok (n, r) =>
      match getU64 r with
      | .ok (t, r) =>
        match getU64 r with
        | .ok (p, r) =>
          match getU64 r with
          | .ok (s, r) =>
            match getU32 r with
            | .ok (e, []) => some ⟨n, t, p, s, e⟩
            | _ => none
          | _ => none
        | _ => none
      | _ => none
    | _ => none
  | _ => none

/-- What the server does with `encrypted_message` of auth.bindTempAuthKey: the envelope is
`perm_auth_key_id(8) msg_key(16) encrypted_data`, the plaintext is
`random:int128 msg_id:long seq_no:int msg_len:int message padding(0..15)`. Returns `(msg_id, inner)`. -/
def decryptBind (P : Prims) (permKey keyId c : Bytes) : Option (Nat × BindInner) :=
  if c.length < 24 ∨ c.take 8 ≠ keyId ∨ (c.length - 24) % 16 ≠ 0 then none
  else
    let msgKey := (c.drop 8).take 16
    let kiv := Spec.keysV1 P permKey msgKey
    let pt := Ige.dec (P.aesDec kiv.1) kiv.2 (c.drop 24)
    match getN 16 pt with
    | .ok (_, r) =>
      match getU64 r with
      | .ok (msgID, r) =>
        match getU32 r with
        | .ok (seq, r) =>
          match getU32 r with
          | .ok (len, r) =>
            match getN len r with
            | .ok (payload, pad) =>
              if seq ≠ 0 ∨ 16 ≤ pad.length then none
              else if Spec.msgKeyV1 P (pt.take (32 + len)) ≠ msgKey then none
              else (parseInner payload).map fun i => (msgID, i)
            | _ => none
          | _ => none
        | _ => none
      | _ => none
    | _ => none

end Spec

end TdModel.C06
