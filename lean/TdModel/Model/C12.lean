/-
C12 — time model of the client key exchange's I/O steps
(/repo/exchange/client_flow.go `ClientExchange.Run`, /repo/exchange/proto.go
`unencryptedWriter.{writeUnencrypted,tryRead,readUnencrypted}`).

`ClientExchange.Run` is a straight line of transport calls.  Which calls there are, in which order,
and whether each runs under `context.WithTimeout(ctx, w.timeout)` is *regenerated* from the source
(`Facts.C12.exchangeSteps`).  Time is logical (`Nat`, any unit).  A transport call that the peer
never completes returns when its context ends:

* timed call (inside `tryRead` / `writeUnencrypted`): at `min(callerDeadline?, start + timeout)`;
* bare call (`c.conn.Recv(ctx, b)`): at `callerDeadline?` — `none` = never.

The caller's context (`deadline : Option Nat`) is the only thing that differs between a plain
connect (deadline = dial timeout), a PFS connect (`connectPFS(ctx)`: no deadline) and re-keying from
the read loop (`handleAuthKeyNotFound(ctx)`: no deadline); it is universally quantified below.
-/
import TdModel.Gen.C12

namespace TdModel.C12

structure Step where
  name : String
  recv : Bool
  timed : Bool
  deriving Repr, DecidableEq

def Step.ofFact (f : String × Bool × Bool) : Step := ⟨f.1, f.2.1, f.2.2⟩

/-- The transport calls of `ClientExchange.Run`, in program order (regenerated). -/
def steps : List Step := Facts.C12.exchangeSteps.map Step.ofFact

/-- The same list before the `fix:` commit for D5 (steps 5 and 7 were bare `c.conn.Recv`). -/
def stepsBeforeFix : List Step :=
  [⟨"writeUnencrypted", false, true⟩, ⟨"readUnencrypted", true, true⟩, ⟨"writeUnencrypted", false, true⟩,
   ⟨"conn.Recv", true, false⟩, ⟨"writeUnencrypted", false, true⟩, ⟨"conn.Recv", true, false⟩]

/-- When the context handed to a transport call started at `start` ends (`none` = never):
`context.WithTimeout(ctx, timeout)` for a timed call, the caller's `ctx` otherwise.  A context
whose deadline is already past ends immediately (`max start`). -/
def ctxEnd (s : Step) (start timeout : Nat) (deadline : Option Nat) : Option Nat :=
  if s.timed then
    match deadline with
    | none => some (start + timeout)
    | some d => some (max start (min d (start + timeout)))
  else
    deadline.map (max start)

/-- One transport call started at `start`; the peer completes it after `lat` (`none` = never).
Result: (time the call returns — `none` = blocks forever, whether it succeeded). -/
def ioEnd (s : Step) (start timeout : Nat) (deadline : Option Nat) (lat : Option Nat) : Option Nat × Bool :=
  match lat, ctxEnd s start timeout deadline with
  | some l, none => (some (start + l), true)
  | some l, some e => if start + l ≤ e then (some (start + l), true) else (some e, false)
  | none, e => (e, false)

/-- One executed transport call of a run. `stop = none`: the call never returns. -/
structure Ev where
  start : Nat
  stop : Option Nat
  ok : Bool
  deriving Repr, DecidableEq

/-- A run of the flow: each step comes with the local computation time before it (`gap`:
factorisation, DH checks, …) and the peer's latency for it.  The run stops at the first failed
call (every error path of `Run` returns immediately). -/
def runTrace (timeout : Nat) (deadline : Option Nat) : List (Step × Nat × Option Nat) → Nat → List Ev
  | [], _ => []
  | (s, gap, lat) :: rest, now =>
    let start := now + gap
    match ioEnd s start timeout deadline lat with
    | (some t, true) => ⟨start, some t, true⟩ :: runTrace timeout deadline rest t
    | (e, _) => [⟨start, e, false⟩]

/-- The peer answers the first `k` steps after `lat` each and is silent from step `k` on. -/
def stallAt (ss : List Step) (k gap lat : Nat) : List (Step × Nat × Option Nat) :=
  (List.range ss.length).zip ss |>.map fun (i, s) => (s, gap, if i < k then some lat else none)

/-- When `Run` returns if the peer stalls at step `k` (0-based) which started at `start`. -/
def stallReturn (ss : List Step) (k start timeout : Nat) (deadline : Option Nat) : Option (Option Nat) :=
  ss[k]?.map fun s => ctxEnd s start timeout deadline

end TdModel.C12
