/-
C12 — time model of the client key exchange's transport calls
(/repo/exchange/client_flow.go `ClientExchange.Run`, /repo/exchange/proto.go
`unencryptedWriter.{writeUnencrypted,tryRead,readUnencrypted}`).

The source is not classified by the extractor: `Facts.C12.runSkeleton` and `Facts.C12.helpers` are
the *statement skeletons* of `Run` and of every `unencryptedWriter` method (context re-bindings,
transport calls with their context argument, helper calls, loop brackets), and `interp` below walks
them: a transport call is `timed` iff the context it is given was derived, by an unconditional
top-level `ctx, cancel := context.WithTimeout(ctx, w.timeout)` of the enclosing function (or of a
caller that passes that `ctx` down), and it is `inLoop` iff it sits inside a `for` body (the −404
retry loop of `readUnencrypted`).  Anything the interpreter does not understand yields an untimed
call (fail closed).

Time is logical (`Nat`).  A transport call that the peer never completes returns when its context
ends: a timed call at `min(callerDeadline?, start + timeout)`, a bare call at `callerDeadline?`
(`none` = never).  The caller's context is the only difference between a plain connect (deadline =
dial timeout), a PFS connect and re-keying from the read loop (no deadline); it is universally
quantified.  A peer may also answer a read with transport-level −404 frames ("auth key not found"):
a call inside the retry loop is re-issued after each, any other call fails with it.
-/
import TdModel.Gen.C12

namespace TdModel.C12

/-- One transport call site of the flow. -/
structure Step where
  name : String
  recv : Bool
  timed : Bool
  inLoop : Bool
  deriving Repr, DecidableEq

abbrev Row := String × String × String

def lookupHelper (hs : List (String × List Row)) (m : String) : Option (List Row) :=
  (hs.find? (fun h => h.1 == m)).map (·.2)

/-- What an uninterpretable row stands for: a call nothing is known about. -/
def poison (why : String) : Step := ⟨why, true, false, true⟩

/-- Interpreter of the statement skeletons.  The work list holds the rest of each active function
with `bounded` = "the identifier `ctx` currently denotes a context limited by `w.timeout`";
`depth` = number of enclosing loops.  One row is consumed per unit of fuel. -/
def interp (hs : List (String × List Row)) : Nat → List (List Row × Bool) → Nat → List Step
  | _, [], _ => []
  | 0, _ :: _, _ => [poison "out of fuel"]
  | n + 1, ([], _) :: frames, depth => interp hs n frames depth
  | n + 1, ((kind, a, b) :: rest, bounded) :: frames, depth =>
    if kind = "wt" then interp hs n ((rest, bounded || a == "w.timeout") :: frames) depth
    else if kind = "wt?" then interp hs n ((rest, bounded) :: frames) depth
    else if kind = "rebind" then interp hs n ((rest, false) :: frames) depth
    else if kind = "loop" then interp hs n ((rest, bounded) :: frames) (depth + 1)
    else if kind = "end" then interp hs n ((rest, bounded) :: frames) (depth - 1)
    else if kind = "call" then
      ⟨a, a == "Recv", bounded && b == "ctx", decide (0 < depth)⟩ :: interp hs n ((rest, bounded) :: frames) depth
    else if kind = "helper" then
      match lookupHelper hs a with
      | some rows => interp hs n ((rows, bounded && b == "ctx") :: (rest, bounded) :: frames) depth
      | none => poison a :: interp hs n ((rest, bounded) :: frames) depth
    else poison kind :: interp hs n ((rest, bounded) :: frames) depth

/-- The transport calls of a `Run` skeleton, in program order.  `Run`'s own `ctx` is the caller's:
not bounded. -/
def stepsOf (hs : List (String × List Row)) (run : List Row) : List Step := interp hs 400 [(run, false)] 0

/-- The transport calls of the current source (regenerated). -/
def steps : List Step := stepsOf Facts.C12.helpers Facts.C12.runSkeleton

/-- `Run`'s skeleton before the `fix:` commit for D5: steps 5 and 7 were bare `c.conn.Recv(ctx, b)`. -/
def runSkeletonBeforeFix : List Row :=
  [("helper", "writeUnencrypted", "ctx"), ("helper", "readUnencrypted", "ctx"),
   ("helper", "writeUnencrypted", "ctx"), ("call", "Recv", "ctx"),
   ("helper", "writeUnencrypted", "ctx"), ("call", "Recv", "ctx")]

def stepsBeforeFix : List Step := stepsOf Facts.C12.helpers runSkeletonBeforeFix

/-- When the context handed to a transport call started at `start` ends (`none` = never):
`context.WithTimeout(ctx, timeout)` for a timed call, the caller's `ctx` otherwise.  A context
whose deadline is already past ends immediately (`max start`). -/
def ctxEnd (s : Step) (start timeout : Nat) (deadline : Option Nat) : Option Nat :=
  if s.timed then
    match deadline with
    | none => some (start + timeout)
    | some d => some (max start (min d (start + timeout)))
  else
    deadline.map (max start)

/-- One transport call started at `start`; the peer completes it after `lat` (`none` = never).
Result: (time the call returns — `none` = blocks forever, whether it succeeded). -/
def ioEnd (s : Step) (start timeout : Nat) (deadline : Option Nat) (lat : Option Nat) : Option Nat × Bool :=
  match lat, ctxEnd s start timeout deadline with
  | some l, none => (some (start + l), true)
  | some l, some e => if start + l ≤ e then (some (start + l), true) else (some e, false)
  | none, e => (e, false)

/-- One executed transport call. `stop = none`: the call never returns.  `ok`: it delivered a
frame in time (an answer, or a −404 that the retry loop skips). -/
structure Ev where
  start : Nat
  stop : Option Nat
  ok : Bool
  deriving Repr, DecidableEq

/-- One call site against a peer that first sends −404 frames (`skips`: latency of each, counted
from the start of the call that receives it) and then answers after `final` (`none` = silence).
Returns the executed calls and the time the step completed (`none` = the run failed here). -/
def callRun (s : Step) (timeout : Nat) (deadline : Option Nat) : List Nat → Option Nat → Nat → List Ev × Option Nat
  | [], final, start =>
    match ioEnd s start timeout deadline final with
    | (some t, true) => ([⟨start, some t, true⟩], some t)
    | (e, _) => ([⟨start, e, false⟩], none)
  | k :: ks, final, start =>
    match ioEnd s start timeout deadline (some k) with
    | (some t, true) =>
      if s.inLoop then
        (⟨start, some t, true⟩ :: (callRun s timeout deadline ks final t).1, (callRun s timeout deadline ks final t).2)
      else ([⟨start, some t, false⟩], none)  -- −404 outside the retry loop is an error of `Run`
    | (e, _) => ([⟨start, e, false⟩], none)

/-- Peer behaviour at one step: local computation time before it, −404 frames, the answer. -/
structure Beh where
  gap : Nat
  skips : List Nat
  final : Option Nat
  deriving Repr

/-- A run of the flow; it stops at the first failed call (every error path of `Run` returns). -/
def runTrace (timeout : Nat) (deadline : Option Nat) : List (Step × Beh) → Nat → List Ev
  | [], _ => []
  | (s, b) :: rest, now =>
    match (callRun s timeout deadline b.skips b.final (now + b.gap)).2 with
    | some t => (callRun s timeout deadline b.skips b.final (now + b.gap)).1 ++ runTrace timeout deadline rest t
    | none => (callRun s timeout deadline b.skips b.final (now + b.gap)).1

/-- The peer answers the first `k` steps after `lat` each and is silent from step `k` on. -/
def stallAt (ss : List Step) (k gap lat : Nat) : List (Step × Beh) :=
  (List.range ss.length).zip ss |>.map fun (i, s) => (s, ⟨gap, [], if i < k then some lat else none⟩)

/-- When `Run` returns if the peer stalls at step `k` (0-based) which started at `start`. -/
def stallReturn (ss : List Step) (k start timeout : Nat) (deadline : Option Nat) : Option (Option Nat) :=
  ss[k]?.map fun s => ctxEnd s start timeout deadline

/-- Time budget of a schedule: local computation plus one timeout per transport call (one call per
−404 frame, plus the final one). -/
def budget (timeout : Nat) : List (Step × Beh) → Nat
  | [] => 0
  | (_, b) :: rest => b.gap + (b.skips.length + 1) * timeout + budget timeout rest

end TdModel.C12
