/-
C10 — the client as an *interpretation* of the statement list regenerated from
`exchange.ClientExchange.Run` (`Facts.C10.clientProgram`, `Facts.C10.clientLiterals`).

What is regenerated: the order of sends, receives and error exits, which two values each `!=`
guard compares, the argument lists of `CheckDH` / `CheckDHParams` / `DecryptExchangeAnswer` /
`DecomposePQ`, which expression goes into which field of every message that is sent, the error each
exit returns, the branches of the two type switches.
What is written here by hand: the binding of Go names to model values (`env1/2/3`: `nonce` is the
tape's nonce, `p.Nonce` is the nonce field of the received Server_DH_Params, `gB` is `g^b mod
dhPrime`, …), the meaning of the called functions, and the error-text → error-class table.
A row the interpreter does not understand, an unbound name or an unknown error text ends the step
with the otherwise unused class `junk`-with-output, which no theorem about the hand-written step
functions admits, so `program_is_model` (Props/C10) stops holding.
-/
import TdModel.Model.C09
import TdModel.Gen.C10

namespace TdModel.C09
open TdModel

abbrev PRow := String × String × List String × String

inductive Val where
  | bytes (b : Bytes)
  | nat (n : Nat)
  | int (i : Int)
  deriving DecidableEq

/-- Error text of `ClientExchange.Run` → error class of the model. -/
def errOf : String → Option CErr
  | "ResPQ nonce mismatch" => some .resNonce
  | "ErrKeyFingerprintNotFound" => some .noKey
  | "server provided bad pq" => some .badPQ
  | "server provided bad pq: not composite" => some .badPQ
  | "decompose pq" => some .factor
  | "ServerDHParamsOk nonce mismatch" => some .dhNonce
  | "ServerDHParamsOk server nonce mismatch" => some .dhServerNonce
  | "exchange answer decrypt" => some .decrypt
  | "ServerDHInnerData nonce mismatch" => some .innerNonce
  | "ServerDHInnerData server nonce mismatch" => some .innerServerNonce
  | "check DH params" => some .checkDH
  | "key exchange failed: invalid params" => some .dhParams
  | "server respond with server_DH_params_fail" => some .dhFail
  | "DhGenOk nonce mismatch" => some .genNonce
  | "DhGenOk server nonce mismatch" => some .genServerNonce
  | "key exchange verification failed: hash mismatch" => some .hash
  | "retry required: %x" => some .retry
  | "dh_hen_fail: %x" => some .genFail
  | _ => none

/-- The rows between the `k`-th `recv` (1-based) and the next one. -/
def dropToRecv : Nat → List PRow → List PRow
  | 0, rows => rows
  | _, [] => []
  | k + 1, r :: rest => if r.1 = "recv" then dropToRecv k rest else dropToRecv (k + 1) rest

def takeToRecv : List PRow → List PRow
  | [] => []
  | r :: rest => if r.1 = "recv" then [] else r :: takeToRecv rest

def stageRows (prog : List PRow) (k : Nat) : List PRow := takeToRecv (dropToRecv k prog)

/-- The rows of the branch `case T:` of a stage: from `("caseok", T)` to the next case row. -/
def branchRows (T : String) : List PRow → List PRow
  | [] => []
  | r :: rest =>
    if r.1 = "caseok" ∧ r.2.1 = T then rest.takeWhile (fun x => x.1 ≠ "case" ∧ x.1 ≠ "caseok")
    else branchRows T rest

/-- The error of the branch `case T: return err` of a stage. -/
def caseErr (T : String) (rows : List PRow) : Option CErr :=
  match rows.find? (fun r => r.1 = "case" ∧ r.2.1 = T) with
  | some r => errOf r.2.2.2
  | none => none

/-- Outcome of interpreting one row. -/
inductive Step (σ : Type) where
  | next (s : σ)
  | exit (e : CErr)
  | stuck (why : String)

/-- What the interpreter returns when it cannot make sense of the program: a state/output
combination the hand-written model never produces. -/
def stuckResult {Ct} : CState × Option (Msg Ct) := (.failed .junk, some .junk)

def exitWith {Ct} (msg : String) : CState × Option (Msg Ct) :=
  match errOf msg with
  | some e => (.failed e, none)
  | none => stuckResult

/-! ### stage 1: ResPQ received -/

structure S1 where
  fp : Option Nat := none
  pqf : Option (Nat × Nat) := none

def env1 (cfg : CCfg) (t : CTape) (n sn : Bytes) (pq : Nat) (s : S1) : String → Option Val
  | "nonce" => some (.bytes t.nonce)
  | "res.Nonce" => some (.bytes n)
  | "serverNonce" => some (.bytes sn)
  | "newNonce" => some (.bytes t.newNonce)
  | "res.Pq" => some (.nat pq)
  | "pq" => some (.nat pq)
  | "pBytes" => s.pqf.map (fun x => .nat x.1)
  | "qBytes" => s.pqf.map (fun x => .nat x.2)
  | "c.dc" => some (.int cfg.dc)
  | "c.expiresIn" => some (.int cfg.expiresIn)
  | "selectedPubKey.Fingerprint()" => s.fp.map .nat
  | _ => none

def row1 {Ct} (P : XP Ct) (cfg : CCfg) (t : CTape) (n sn : Bytes) (pq : Nat) (fps : List Nat) (s : S1) :
    PRow → Step S1
  | ("ne", a, [b], e) =>
    match env1 cfg t n sn pq s a, env1 cfg t n sn pq s b, errOf e with
    | some x, some y, some err => if x ≠ y then .exit err else .next s
    | _, _, _ => .stuck "ne"
  | ("cond", "selectedPubKey.Zero()", _, e) =>
    match selectKey cfg.keys fps, errOf e with
    | none, some err => .exit err
    | some fp, some _ => .next { s with fp := some fp }
    | _, none => .stuck "cond"
  | ("cond", "pq.Cmp(pqMax) > 0", _, e) =>
    match env1 cfg t n sn pq s "pq", errOf e with
    | some (.nat v), some err => if v > pqMax then .exit err else .next s
    | _, _ => .stuck "cond"
  | ("cond", "pq.Cmp(big.NewInt(1)) <= 0 || pq.ProbablyPrime(0)", _, e) =>
    match env1 cfg t n sn pq s "pq", errOf e with
    | some (.nat v), some err => if v ≤ 1 ∨ P.isPrime v = true then .exit err else .next s
    | _, _ => .stuck "cond"
  | ("callerr", "crypto.DecomposePQ", [a, _], e) =>
    match env1 cfg t n sn pq s a, errOf e with
    | some (.nat v), some err =>
      match P.factor v with
      | none => .exit err
      | some pqf => .next { s with pqf := some pqf }
    | _, _ => .stuck "factor"
  -- the key-selection loop (`Loop:`) is `selectKey`; the mode switch only picks the inner-data literal
  | ("label", "Loop", _, _) => .next s
  | ("switch", "c.mode", ["ExchangeModeTemporary"], _) => .next s
  -- random draws, TL encoding and RSA_PAD do not fail in the model (I/O and rand errors only)
  | ("callerr", "crypto.RandInt256", _, _) => .next s
  | ("callerr", "pqInnerData.Encode", _, _) => .next s
  | ("callerr", "crypto.RSAPad", _, _) => .next s
  | _ => .stuck "row"

def natOf : Option Val → Option Nat
  | some (.nat v) => some v
  | _ => none
def bytesOf : Option Val → Option Bytes
  | some (.bytes v) => some v
  | _ => none
def intOf : Option Val → Option Int
  | some (.int v) => some v
  | _ => none

def litField (lits : List (String × List (String × String))) (T field : String) : Option String :=
  match lits.find? (fun l => l.1 = T) with
  | some l => (l.2.find? (fun f => f.1 = field)).map (·.2)
  | none => none

/-- `p_q_inner_data_dc` / `p_q_inner_data_temp_dc` as the literal in the source fills it. -/
def buildPQInner (lits : List (String × List (String × String))) (temp : Bool) (env : String → Option Val) :
    Option PQInner :=
  let T := if temp then "PQInnerDataTempDC" else "PQInnerDataDC"
  let f := fun field => (litField lits T field).bind fun e => env e
  match natOf (f "Pq"), natOf (f "P"), natOf (f "Q"), bytesOf (f "Nonce"), bytesOf (f "ServerNonce"),
        bytesOf (f "NewNonce"), intOf (f "DC") with
  | some pq, some p, some q, some n, some sn, some nn, some dc =>
    if temp then
      match intOf (f "ExpiresIn") with
      | some ex => some ⟨true, pq, p, q, n, sn, nn, dc, ex⟩
      | none => none
    else some ⟨false, pq, p, q, n, sn, nn, dc, 0⟩
  | _, _, _, _, _, _, _ => none

def run1 {Ct} (P : XP Ct) (cfg : CCfg) (t : CTape) (n sn : Bytes) (pq : Nat) (fps : List Nat)
    (lits : List (String × List (String × String))) : List PRow → S1 → CState × Option (Msg Ct)
  | [], _ => stuckResult
  | ("send", "ReqDHParamsRequest", _, _) :: _, s =>
    let env := env1 cfg t n sn pq s
    let f := fun field => (litField lits "ReqDHParamsRequest" field).bind fun e => env e
    match buildPQInner lits cfg.temp env, bytesOf (f "Nonce"), bytesOf (f "ServerNonce"), natOf (f "P"),
          natOf (f "Q"), natOf (f "PublicKeyFingerprint"), litField lits "ReqDHParamsRequest" "EncryptedData" with
    | some inner, some mn, some msn, some p, some q, some fp, some "encryptedData" =>
      (.waitDH msn, some (.reqDH mn msn p q fp (P.rsaEnc fp inner t.rsaPad)))
    | _, _, _, _, _, _, _ => stuckResult
  | r :: rest, s =>
    match row1 P cfg t n sn pq fps s r with
    | .next s' => run1 P cfg t n sn pq fps lits rest s'
    | .exit e => (.failed e, none)
    | .stuck _ => stuckResult

/-- Step 2–4 as the interpretation of the regenerated program. -/
def onResPQI {Ct} (prog : List PRow) (lits : List (String × List (String × String)))
    (P : XP Ct) (cfg : CCfg) (t : CTape) : Msg Ct → CState × Option (Msg Ct)
  | .resPQ n sn pq fps => run1 P cfg t n sn pq fps lits (stageRows prog 1) {}
  | _ => (.failed .junk, none)

/-! ### stage 2: Server_DH_Params received -/

/-- Go names visible after Server_DH_Params arrived; `d` = the decrypted inner data once
`DecryptExchangeAnswer` + `innerData.Decode` have run. -/
def env2 (t : CTape) (sn n sn' : Bytes) (d : Option SInner) : String → Option Val
  | "nonce" => some (.bytes t.nonce)
  | "serverNonce" => some (.bytes sn)
  | "reqDHParams.ServerNonce" => some (.bytes sn)
  | "p.Nonce" => some (.bytes n)
  | "p.ServerNonce" => some (.bytes sn')
  | "innerData.Nonce" => d.map (fun x => .bytes x.nonce)
  | "innerData.ServerNonce" => d.map (fun x => .bytes x.serverNonce)
  | "innerData.G" => d.map (fun x => .int x.g)
  | "dhPrime" => d.map (fun x => .nat x.dhPrime)                                 -- SetBytes(innerData.DhPrime)
  | "g" => d.map (fun x => .nat x.g.toNat)                                        -- big.NewInt(int64(innerData.G))
  | "gA" => d.map (fun x => .nat x.gA)                                            -- SetBytes(innerData.GA)
  | "gB" => d.map (fun x => .nat (powMod x.g.toNat t.b x.dhPrime))                -- Exp(g, bParam, dhPrime)
  | "gB.Bytes()" => d.map (fun x => .nat (powMod x.g.toNat t.b x.dhPrime))
  | "0" => some (.int 0)
  | _ => none

def row2 {Ct} (P : XP Ct) (t : CTape) (sn n sn' : Bytes) (ans : Ct) (d : Option SInner) :
    PRow → Step (Option SInner)
  | ("ne", a, [b], e) =>
    match env2 t sn n sn' d a, env2 t sn n sn' d b, errOf e with
    | some x, some y, some err => if x ≠ y then .exit err else .next d
    | _, _, _ => .stuck "ne"
  -- key, iv := TempAESKeys(newNonce, serverNonce); DecryptExchangeAnswer(p.EncryptedAnswer, key, iv)
  | ("callerr", "crypto.DecryptExchangeAnswer", ["p.EncryptedAnswer", "key", "iv"], e) =>
    match P.decS (tempAESKeys P.sha1 t.newNonce sn) ans, errOf e with
    | none, some err => .exit err
    | some x, some _ => .next (some x)
    | _, none => .stuck "decrypt"
  | ("callerr", "innerData.Decode", _, _) => .next d      -- part of `decS`
  | ("callerr", "crypto.CheckDH", [a, b], e) =>
    match env2 t sn n sn' d a, env2 t sn n sn' d b, errOf e with
    | some (.int g), some (.nat p), some err => if !checkDH P.isPrime g p then .exit err else .next d
    | _, _, _ => .stuck "CheckDH"
  | ("callerr", "crypto.CheckDHParams", [a, b, c, e4], e) =>
    match env2 t sn n sn' d a, env2 t sn n sn' d b, env2 t sn n sn' d c, env2 t sn n sn' d e4, errOf e with
    | some (.nat p), some (.nat g), some (.nat gA), some (.nat gB), some err =>
      if !checkDHParams p g gA gB then .exit err else .next d
    | _, _, _, _, _ => .stuck "CheckDHParams"
  | ("callerr", "rand.Int", _, _) => .next d
  | ("callerr", "clientInnerData.Encode", _, _) => .next d
  | ("callerr", "crypto.EncryptExchangeAnswer", _, _) => .next d
  | _ => .stuck "row"

def run2 {Ct} (P : XP Ct) (t : CTape) (sn n sn' : Bytes) (ans : Ct)
    (lits : List (String × List (String × String))) : List PRow → Option SInner → CState × Option (Msg Ct)
  | [], _ => stuckResult
  | ("send", "SetClientDHParamsRequest", _, _) :: _, d =>
    let env := env2 t sn n sn' d
    let f := fun field => (litField lits "SetClientDHParamsRequest" field).bind fun e => env e
    let fi := fun field => (litField lits "ClientDHInnerData" field).bind fun e => env e
    match d, bytesOf (f "Nonce"), bytesOf (f "ServerNonce"), litField lits "SetClientDHParamsRequest" "EncryptedData",
          bytesOf (fi "Nonce"), bytesOf (fi "ServerNonce"), intOf (fi "RetryID"), natOf (fi "GB") with
    | some x, some mn, some msn, some "clientEncrypted", some inn, some isn, some retry, some gb =>
      -- authKey := Exp(gA, bParam, dhPrime) is computed right after the send
      (.waitGen sn (powMod x.gA t.b x.dhPrime),
       some (.setDH mn msn (P.encC (tempAESKeys P.sha1 t.newNonce sn) ⟨inn, isn, retry, gb⟩ t.ansPad)))
    | _, _, _, _, _, _, _, _ => stuckResult
  | r :: rest, d =>
    match row2 P t sn n sn' ans d r with
    | .next d' => run2 P t sn n sn' ans lits rest d'
    | .exit e => (.failed e, none)
    | .stuck _ => stuckResult

/-- Step 5–6 as the interpretation of the regenerated program. -/
def onDHParamsI {Ct} (prog : List PRow) (lits : List (String × List (String × String)))
    (P : XP Ct) (t : CTape) (sn : Bytes) : Msg Ct → CState × Option (Msg Ct)
  | .dhOk n sn' ans => run2 P t sn n sn' ans lits (branchRows "*mt.ServerDHParamsOk" (stageRows prog 2)) none
  | .dhFail _ _ _ =>
    match caseErr "*mt.ServerDHParamsFail" (dropToRecv 2 prog) with
    | some e => (.failed e, none)
    | none => stuckResult
  | _ => (.failed .junk, none)

/-! ### stage 3: Set_client_DH_params_answer received -/

def env3 {Ct} (P : XP Ct) (t : CTape) (sn : Bytes) (authKey : Nat) (n sn' h : Bytes) : String → Option Val
  | "nonce" => some (.bytes t.nonce)
  | "serverNonce" => some (.bytes sn)
  | "v.Nonce" => some (.bytes n)
  | "v.ServerNonce" => some (.bytes sn')
  | "v.NewNonceHash1" => some (.bytes h)
  | "nonceHash1" => some (.bytes (nonceHash1 P.sha1 t.newNonce (keyBytes authKey)))   -- crypto.NonceHash1(newNonce, key)
  | _ => none

def run3 {Ct} (P : XP Ct) (t : CTape) (sn : Bytes) (authKey : Nat) (n sn' h : Bytes) :
    List PRow → CState × Option (Msg Ct)
  | [] => stuckResult
  | ("ret", _, _, _) :: _ =>
    -- serverSalt := crypto.ServerSalt(newNonce, v.ServerNonce)
    (.done ⟨authKey, serverSalt t.newNonce sn', t.sessionId⟩, none)
  | ("ne", a, [b], e) :: rest =>
    match env3 P t sn authKey n sn' h a, env3 P t sn authKey n sn' h b, errOf e with
    | some x, some y, some err => if x ≠ y then (.failed err, none) else run3 P t sn authKey n sn' h rest
    | _, _, _ => stuckResult
  | ("callerr", "crypto.NewSessionID", _, _) :: rest => run3 P t sn authKey n sn' h rest
  | _ :: _ => stuckResult

/-- Step 7–9 as the interpretation of the regenerated program. -/
def onDhGenI {Ct} (prog : List PRow) (P : XP Ct) (t : CTape) (sn : Bytes) (authKey : Nat) :
    Msg Ct → CState × Option (Msg Ct)
  | .genOk n sn' h => run3 P t sn authKey n sn' h (branchRows "*mt.DhGenOk" (stageRows prog 3))
  | .genRetry _ _ _ =>
    match caseErr "*mt.DhGenRetry" (dropToRecv 3 prog) with
    | some e => (.failed e, none)
    | none => stuckResult
  | .genFail _ _ _ =>
    match caseErr "*mt.DhGenFail" (dropToRecv 3 prog) with
    | some e => (.failed e, none)
    | none => stuckResult
  | _ => (.failed .junk, none)

/-- Step 1: everything before the first receive must be the nonce draw and the req_pq_multi send
whose only field is the nonce. -/
def initOK (prog : List PRow) (lits : List (String × List (String × String))) : Bool :=
  (prog.takeWhile (fun r => r.1 ≠ "recv")).map (fun r => (r.1, r.2.1)) ==
    [("callerr", "crypto.RandInt128"), ("send", "ReqPqMultiRequest")] &&
  litField lits "ReqPqMultiRequest" "Nonce" == some "nonce" &&
  (prog.filter (fun r => r.1 = "recv")).map (fun r => (r.2.1, r.2.2.1)) ==
    [("readUnencrypted", ["res"]), ("tryRead", []), ("tryRead", [])]

/-- The client step function obtained by interpreting the regenerated program. -/
def cstepI {Ct} (P : XP Ct) (cfg : CCfg) (t : CTape) : CState → Msg Ct → CState × Option (Msg Ct)
  | .waitResPQ, m => onResPQI Facts.C10.clientProgram Facts.C10.clientLiterals P cfg t m
  | .waitDH sn, m => onDHParamsI Facts.C10.clientProgram Facts.C10.clientLiterals P t sn m
  | .waitGen sn k, m => onDhGenI Facts.C10.clientProgram P t sn k m
  | s, _ => (s, none)

def crunI {Ct} (P : XP Ct) (cfg : CCfg) (t : CTape) : CState → List (Msg Ct) → CState × List (Msg Ct)
  | s, [] => (s, [])
  | s, m :: rest =>
    let (s', o) := cstepI P cfg t s m
    let (s'', os) := crunI P cfg t s' rest
    (s'', o.toList ++ os)

end TdModel.C09
