/-
C10 — the client on the byte level: it is handed frame payloads (the data of unencrypted
messages), decodes them with the TL codec of TdModel/Model/C09Bytes.lean the way
`ClientExchange.Run` does at each step, runs the step function, and encodes what it sends.
The cryptographic primitives work on byte strings (`XPB`): RSA_PAD over the TL bytes of
p_q_inner_data, the answer encryption over the TL bytes of server_/client_DH_inner_data.
-/
import TdModel.Model.C09Bytes

namespace TdModel.C09
open TdModel

structure XPB where
  sha1 : Bytes → Bytes
  isPrime : Nat → Bool
  factor : Nat → Option (Nat × Nat)
  /-- `crypto.RSAPad(data, key(fp), rand)`. -/
  rsaPad : (fp : Nat) → Bytes → (pad : Nat) → Bytes
  /-- `crypto.DecodeRSAPad(data, key(fp))`. -/
  rsaUnpad : (fp : Nat) → Bytes → Option Bytes
  /-- `crypto.EncryptExchangeAnswer(rand, data, key, iv)`. -/
  ansEnc : Bytes × Bytes → Bytes → (pad : Nat) → Bytes
  /-- `crypto.DecryptExchangeAnswer(data, key, iv)`. -/
  ansDec : Bytes × Bytes → Bytes → Option Bytes

/-- The message-level primitives induced by the byte-level ones and the TL codec. -/
def XPB.toXP (B : XPB) : XP Bytes where
  sha1 := B.sha1
  isPrime := B.isPrime
  factor := B.factor
  rsaEnc := fun fp d pad => B.rsaPad fp ((encPQInner d).getD []) pad
  rsaDec := fun fp c => (B.rsaUnpad fp c).bind decPQInner
  encS := fun k d pad => B.ansEnc k ((encSInner d).getD []) pad
  decS := fun k c => (B.ansDec k c).bind decSInner
  encC := fun k d pad => B.ansEnc k ((encCInner d).getD []) pad
  decC := fun k c => (B.ansDec k c).bind decCInner

/-- Which decoder `Run` applies to the next frame. -/
def stageOf : CState → Nat
  | .waitResPQ => 0
  | .waitDH _ => 1
  | _ => 2

/-- One frame payload in, possibly one payload out. -/
def cstepB (B : XPB) (cfg : CCfg) (t : CTape) (s : CState) (payload : Bytes) : CState × Option Bytes :=
  ((cstep B.toXP cfg t s (decServerMsg (stageOf s) payload)).1,
   (cstep B.toXP cfg t s (decServerMsg (stageOf s) payload)).2.bind encMsg)

def crunB (B : XPB) (cfg : CCfg) (t : CTape) : CState → List Bytes → CState × List Bytes
  | s, [] => (s, [])
  | s, p :: rest =>
    ((crunB B cfg t (cstepB B cfg t s p).1 rest).1,
     (cstepB B cfg t s p).2.toList ++ (crunB B cfg t (cstepB B cfg t s p).1 rest).2)

/-- The abstract messages the payloads decode to along the run. -/
def msgsOf (B : XPB) (cfg : CCfg) (t : CTape) : CState → List Bytes → List (Msg Bytes)
  | _, [] => []
  | s, p :: rest =>
    decServerMsg (stageOf s) p :: msgsOf B cfg t (cstep B.toXP cfg t s (decServerMsg (stageOf s) p)).1 rest

end TdModel.C09
