/-
C29 — requests survive primary connection loss without duplicate execution.

Composed model of `telegram.Client.invokeConn` (`telegram/invoke.go`), the replacement of the primary
connection (`reconnectUntilClosed` / `replaceConn`, `telegram/connect.go`, `client.go`), the rpc engine's
classification of a forced close (`rpc/engine.go`: unacknowledged → `ErrEngineClosed`, acknowledged →
plain context error) and a server that logs every request it receives.

One action per observable event of the end-to-end scenario (any number of requests, any number of
connection epochs):
* `inv r`        — a caller invokes request `r`;
* `arr r k`      — the server receives `r` on connection epoch `k` (the client's (re)send on `k`; a copy
                   written on an earlier epoch may arrive late);
* `ack r k`, `res r k` — the server acknowledges / executes-and-answers the copy it received on `k`;
* `seen r`       — the client's engine left its retry loop for `r` (ack or result processed);
* `kill`         — the primary connection's transport dies;
* `fail r`       — the engine of the dead connection fails the un-acknowledged `r` with `ErrEngineClosed`;
                   `invokeConn` waits for `connChanged`;
* `reconnect`    — `replaceConn`: a new epoch, `connChanged` closed;
* `retOk r` / `retErr r` — `Invoke` returns;
* `sendFail r`   — the send on the dying connection fails with a transport error that is returned to the
                   caller (exists only while `Cfg.sendErrorSurfaces` — the pre-fix behaviour, see notes/C29.md);
* `close`        — the client is closed.
Core Lean only (linked into `drv_c29`).
-/
import TdModel.Gen.C29

namespace TdModel.C29

structure Cfg where
  /-- `errRetryableOnNewConn` = `ErrConnDead ∨ ErrEngineClosed` and the engine reports an
  un-acknowledged forced close with cause `ErrEngineClosed` -/
  unackedRetryable : Bool
  /-- an acknowledged request interrupted by a forced close returns `reqCtx.Err()` (not the cause) -/
  ackedNotRetryable : Bool
  /-- `invokeConn` leaves its wait when the client context is done -/
  closeUnblocks : Bool
  /-- a failed transport send is returned to the caller as a plain error (not retried): the rpc engine
  returns it plainly and `manager.Conn.Invoke` does not map it to `pool.ErrConnDead` -/
  sendErrorSurfaces : Bool
  deriving Repr, DecidableEq

def cfgOfSource : Cfg :=
  { unackedRetryable := Facts.C29.retryableIsDeadOrEngineClosed && Facts.C29.unackedCloseReportsCause &&
      Facts.C29.forceCloseCause && Facts.C29.waitsConnChanged && Facts.C29.replaceConnSignals
    ackedNotRetryable := Facts.C29.ackedCloseReportsCtxErr
    closeUnblocks := Facts.C29.waitsClientDone
    sendErrorSurfaces := Facts.C29.sendErrorPlain && !Facts.C29.sendErrorMapped }

inductive Phase
  | idle | waitConn | sent (k : Nat) | acked (k : Nat) | doneOk | doneErr
  deriving DecidableEq, Repr

inductive Reason | none | ackedLost | closed | sendError
  deriving DecidableEq, Repr

structure Req where
  phase : Phase
  reason : Reason
  ackSeen : Option Nat      -- epoch on which the client saw the acknowledgement / result
  deriving DecidableEq, Repr

structure State where
  reqs : List Req
  epoch : Nat
  alive : Bool
  closed : Bool
  arrivals : List (Nat × Nat)   -- (request, epoch), newest first
  acks : List (Nat × Nat)
  results : List (Nat × Nat)
  deriving DecidableEq, Repr

inductive Action
  | inv (r : Nat) | arr (r k : Nat) | ack (r k : Nat) | res (r k : Nat) | seen (r : Nat)
  | kill | fail (r : Nat) | reconnect | retOk (r : Nat) | retErr (r : Nat) | sendFail (r : Nat) | close
  deriving DecidableEq, Repr

def init (n : Nat) : State :=
  { reqs := List.replicate n { phase := .idle, reason := .none, ackSeen := none },
    epoch := 0, alive := true, closed := false, arrivals := [], acks := [], results := [] }

/-- `k` is not later than the epoch on which the acknowledgement was seen (if any). -/
def notAfterAck : Option Nat → Nat → Bool
  | some a, k => decide (k ≤ a)
  | none, _ => true

/-- A late copy on epoch `k` is consistent with the request's state: the request was issued, `k` is
before its latest proper send and not after the acknowledgement the client has seen. -/
def lateOk (q : Req) (k : Nat) : Bool :=
  notAfterAck q.ackSeen k &&
  (match q.phase with
   | .idle => false
   | .sent k2 => decide (k < k2)
   | _ => true)

def setReq (s : State) (r : Nat) (q : Req) : State := { s with reqs := s.reqs.set r q }

def step (cfg : Cfg) (s : State) : Action → Option State
  | .inv r =>
    match s.reqs[r]? with
    | some q => if q.phase = .idle then some (setReq s r { q with phase := .waitConn }) else none
    | none => none
  | .arr r k =>
    match s.reqs[r]? with
    | some q =>
      if q.phase = .waitConn ∧ k = s.epoch ∧ (r, k) ∉ s.arrivals then
        some { setReq s r { q with phase := .sent k } with arrivals := (r, k) :: s.arrivals }
      else if k < s.epoch ∧ (r, k) ∉ s.arrivals ∧ lateOk q k = true then
        -- a copy written on an earlier connection reaches the server late (the client has moved on)
        some { s with arrivals := (r, k) :: s.arrivals }
      else none
    | none => none
  | .ack r k => if (r, k) ∈ s.arrivals then some { s with acks := (r, k) :: s.acks } else none
  | .res r k => if (r, k) ∈ s.arrivals then some { s with results := (r, k) :: s.results } else none
  | .seen r =>
    match s.reqs[r]? with
    | some q =>
      match q.phase with
      | .sent k =>
        if (r, k) ∈ s.acks ∨ (r, k) ∈ s.results then
          some (setReq s r { q with phase := .acked k, ackSeen := some k })
        else some s
      | .idle => none
      | _ => some s
    | none => none
  | .kill => if s.alive then some { s with alive := false } else none
  | .fail r =>
    match s.reqs[r]? with
    | some q =>
      match q.phase with
      | .sent k =>
        if (s.alive = false ∨ k < s.epoch) ∧ cfg.unackedRetryable then some (setReq s r { q with phase := .waitConn })
        else none
      | _ => none
    | none => none
  | .reconnect =>
    if s.alive = false ∧ s.closed = false then some { s with alive := true, epoch := s.epoch + 1 } else none
  | .retOk r =>
    match s.reqs[r]? with
    | some q =>
      match q.phase with
      | .sent k => if (r, k) ∈ s.results then some (setReq s r { q with phase := .doneOk }) else none
      | .acked k => if (r, k) ∈ s.results then some (setReq s r { q with phase := .doneOk }) else none
      | _ => none
    | none => none
  | .retErr r =>
    match s.reqs[r]? with
    | some q =>
      match q.phase with
      | .idle => none
      | .doneOk => none
      | .doneErr => none
      | .acked _ =>
        if s.closed ∧ cfg.closeUnblocks then some (setReq s r { q with phase := .doneErr, reason := .closed })
        else if s.alive = false ∧ cfg.ackedNotRetryable then
          some (setReq s r { q with phase := .doneErr, reason := .ackedLost })
        else none
      | _ =>
        if s.closed ∧ cfg.closeUnblocks then some (setReq s r { q with phase := .doneErr, reason := .closed })
        else none
    | none => none
  | .sendFail r =>
    match s.reqs[r]? with
    | some q =>
      if q.phase = .waitConn ∧ s.alive = false ∧ cfg.sendErrorSurfaces then
        some (setReq s r { q with phase := .doneErr, reason := .sendError })
      else none
    | none => none
  | .close => if s.closed then none else some { s with closed := true, alive := false }

def run (cfg : Cfg) (s : State) : List Action → Option State
  | [] => some s
  | a :: as => match step cfg s a with
    | some s' => run cfg s' as
    | none => none

def runIdx (cfg : Cfg) (s : State) (i : Nat) : List Action → Except Nat State
  | [] => .ok s
  | a :: as => match step cfg s a with
    | some s' => runIdx cfg s' (i + 1) as
    | none => .error i

/-- Decidable monitor of one state: an acknowledged request was never received on a later epoch; no
request was received twice on one epoch; an error was returned only for an acknowledged request whose
connection was lost, or because the client was closed. -/
def holdsB (s : State) : Bool :=
  (List.range s.reqs.length).all (fun r =>
    match s.reqs[r]? with
    | some q =>
      (match q.ackSeen with
       | some k => s.arrivals.all (fun a => a.1 != r || a.2 ≤ k)
       | none => true) &&
      (q.phase != .doneErr || q.reason == .ackedLost || q.reason == .closed)
    | none => true) &&
  decide s.arrivals.Nodup

end TdModel.C29
