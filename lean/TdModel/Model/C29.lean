/-
C29 — requests survive primary connection loss without duplicate execution.

Composed model of `telegram.Client.invokeConn` (`telegram/invoke.go`), the replacement of the primary
connection (`reconnectUntilClosed` / `replaceConn`, `telegram/connect.go`, `client.go`), the rpc engine's
classification of a forced close (`rpc/engine.go`: unacknowledged → `ErrEngineClosed`, acknowledged →
plain context error) and a server that logs every request it receives.

One action per observable event of the end-to-end scenario (any number of requests, any number of
connection epochs):
* `inv r`        — a caller invokes request `r`;
* `bind r`       — top of the `invokeConn` loop: the invocation reads `c.conn` (and `connChanged`) and enters
                   `conn.Invoke` on the current connection epoch (it may wait there for the session);
* `init`         — the current connection completes its initialisation (`gotConfig`);
* `arr r k`      — the server receives `r` on connection epoch `k` (the client's write on `k`; a copy
                   written on an earlier epoch may arrive late);
* `ack r k`, `res r k` — the server acknowledges / executes-and-answers the copy it received on `k`;
* `rd r k`       — the client has read from the wire the acknowledgement / result that the server sent for
                   the copy of `r` on epoch `k` (the connection's handler goroutine is about to hand it to
                   the rpc engine, which registers it at `seen r`);
* `seen r`       — the client's engine left its retry loop for `r` (ack or result processed);
* `kill`         — the primary connection's transport dies and the connection's read loop notices first: it
                   returns its error only after the handlers of the messages already read have finished,
                   only then the rpc engine is force-closed;
* `killw`        — … and another task of the connection (a writer: salts / ack / ping loop, the init
                   callback) fails first: the engine is force-closed at once, whatever was read but not yet
                   handled is dropped;
* `fail r`       — `conn.Invoke` on a dead connection returns a retryable error (un-acknowledged request:
                   `ErrEngineClosed`; not yet initialised connection: `ErrConnDead` from `waitSession`;
                   failed write: `ErrConnDead`); `invokeConn` parks on the `connChanged` channel it captured;
* `reconnect`    — `replaceConn`: a new epoch, `connChanged` closed;
* `retOk r` / `retErr r` — `Invoke` returns;
* `sendFail r`   — the send on the dying connection fails with a transport error that is returned to the
                   caller (exists only while `Cfg.sendErrorSurfaces` — the pre-fix behaviour, see notes/C29.md);
* `close`        — the client is closed.
Core Lean only (linked into `drv_c29`).
-/
import TdModel.Gen.C29

namespace TdModel.C29

structure Cfg where
  /-- `errRetryableOnNewConn` = `ErrConnDead ∨ ErrEngineClosed` and the engine reports an
  un-acknowledged forced close with cause `ErrEngineClosed` -/
  unackedRetryable : Bool
  /-- an acknowledged request interrupted by a forced close returns `reqCtx.Err()` (not the cause) -/
  ackedNotRetryable : Bool
  /-- `invokeConn` leaves its wait when the client context is done -/
  closeUnblocks : Bool
  /-- a failed transport send is returned to the caller as a plain error (not retried): the rpc engine
  returns it plainly and `manager.Conn.Invoke` does not map it to `pool.ErrConnDead` -/
  sendErrorSurfaces : Bool
  /-- `invokeConn` reads `connChanged` together with `conn` (same `connMux` critical section) BEFORE
  `conn.Invoke`, so a replacement that happens while the invocation fails is not missed -/
  snapshotBeforeInvoke : Bool
  /-- `manager.Conn.Run` signals `dead` on every return (deferred), so an invocation parked in
  `waitSession` on a connection that dies before it is initialised gets `ErrConnDead` -/
  deadAlwaysSignalled : Bool
  /-- an acknowledgement / result that the client has read from the wire is registered in the rpc engine
  before the read loop's error can close that engine: `mtproto.Conn.readLoop` waits for its per-message
  handler goroutines before it returns its read error (only then the connection's group is cancelled and
  the engine force-closed), and `rpc.Engine.NotifyAcks` registers every id of a batch (an unknown id is
  skipped) -/
  readRegisters : Bool
  deriving Repr, DecidableEq

/-- Position of the first occurrence of an operation code in a regenerated operation list. -/
def opIdx (ops : List Nat) (code : Nat) : Option Nat :=
  let i := ops.findIdx (· == code)
  if i < ops.length then some i else none

/-- `a` occurs, `b` occurs, and the first `a` precedes the first `b`. -/
def opBefore (ops : List Nat) (a b : Nat) : Bool :=
  match opIdx ops a, opIdx ops b with
  | some i, some j => decide (i < j)
  | _, _ => false

/-- Interpreted from the regenerated statement order of `invokeConn`'s loop body: `conn` and `connChanged`
are read in one `connMux` critical section that ends before `conn.Invoke` is called, and the wait on
`connChanged` comes after the classification of the error. -/
def snapshotFromOps (ops : List Nat) : Bool :=
  opBefore ops 1 2 && opBefore ops 1 3 && opBefore ops 2 4 && opBefore ops 3 4 && opBefore ops 4 5 &&
  opBefore ops 5 6 && opBefore ops 6 7

/-- Interpreted from the regenerated statement list of `mtproto.Conn.readLoop`: `defer handlers.Wait()`
precedes the loop, every message is handled by a goroutine counted in (`handlers.Add(1)` before the `go`
statement, `defer handlers.Done()` first inside), and no other goroutine handles messages. -/
def readLoopWaits (ops : List Nat) : Bool :=
  opBefore ops 1 2 && opBefore ops 2 3 && !ops.contains 4

/-- Interpreted from the regenerated body of the loop of `NotifyAcks`: the lookup, then "unknown id:
continue" (never leave the loop), then the registration. -/
def ackBatchComplete (ops : List Nat) : Bool :=
  opBefore ops 1 2 && opBefore ops 2 3 && !ops.contains 9

def cfgOfSource : Cfg :=
  { unackedRetryable := Facts.C29.retryableIsDeadOrEngineClosed && Facts.C29.unackedCloseReportsCause &&
      Facts.C29.forceCloseCause && Facts.C29.waitsConnChanged && Facts.C29.replaceConnSignals
    ackedNotRetryable := Facts.C29.ackedCloseReportsCtxErr
    closeUnblocks := Facts.C29.waitsClientDone
    sendErrorSurfaces := Facts.C29.sendErrorPlain && !Facts.C29.sendErrorMapped
    snapshotBeforeInvoke := snapshotFromOps Facts.C29.invokeLoopOps
    deadAlwaysSignalled := Facts.C29.connRunOps.contains 1 && opBefore Facts.C29.connRunOps 1 3 &&
      Facts.C29.waitSessionCases.contains 2
    readRegisters := readLoopWaits Facts.C29.readLoopOps && ackBatchComplete Facts.C29.notifyAcksOps }

/-- Client-side state of one invocation.
`ready`: in `invokeConn`, about to read `c.conn`; `bound k`: inside `conn.Invoke` on connection epoch
`k` (waiting for the session or writing); `sent k`: written on `k`, not acknowledged; `acked k`;
`parked w`: `Invoke` failed with a retryable error, waiting for the `connChanged` channel of epoch `w`
(closed as soon as the epoch exceeds `w`). -/
inductive Phase
  | idle | ready | bound (k : Nat) | sent (k : Nat) | acked (k : Nat) | parked (w : Nat) | doneOk | doneErr
  deriving DecidableEq, Repr

inductive Reason | none | ackedLost | closed | sendError
  deriving DecidableEq, Repr

structure Req where
  phase : Phase
  reason : Reason
  ackSeen : Option Nat      -- epoch on which the client saw the acknowledgement / result
  read : Option Nat         -- epoch on which the client has read the acknowledgement / result from the wire
  deriving DecidableEq, Repr

structure State where
  reqs : List Req
  epoch : Nat
  alive : Bool
  closed : Bool
  inited : List Nat             -- epochs whose connection completed its initialisation
  arrivals : List (Nat × Nat)   -- (request, epoch), newest first
  acks : List (Nat × Nat)
  results : List (Nat × Nat)
  wdead : List Nat              -- epochs whose connection was torn down by a task other than the read loop
  deriving DecidableEq, Repr

inductive Action
  | inv (r : Nat) | bind (r : Nat) | init | arr (r k : Nat) | ack (r k : Nat) | res (r k : Nat) | seen (r : Nat)
  | rd (r k : Nat) | killw
  | kill | fail (r : Nat) | reconnect | retOk (r : Nat) | retErr (r : Nat) | sendFail (r : Nat) | close
  deriving DecidableEq, Repr

def init (n : Nat) : State :=
  { reqs := List.replicate n { phase := .idle, reason := .none, ackSeen := none, read := none },
    epoch := 0, alive := true, closed := false, inited := [], arrivals := [], acks := [], results := [], wdead := [] }

/-- `k` is not later than the epoch on which the acknowledgement was seen (if any). -/
def notAfterAck : Option Nat → Nat → Bool
  | some a, k => decide (k ≤ a)
  | none, _ => true

/-- A late copy on epoch `k` is consistent with the request's state: the request was issued, `k` is
before its latest proper send and not after the acknowledgement the client has seen. -/
def lateOk (q : Req) (k : Nat) : Bool :=
  notAfterAck q.ackSeen k &&
  (match q.phase with
   | .idle => false
   | .ready => false
   | .bound k2 => decide (k < k2)
   | .sent k2 => decide (k < k2)
   | .parked w => decide (k ≤ w)
   | _ => true)

def setReq (s : State) (r : Nat) (q : Req) : State := { s with reqs := s.reqs.set r q }

/-- The connection of epoch `k` is dead: it was replaced, or it is the current one and its transport died. -/
def connDead (s : State) (k : Nat) : Bool := decide (k < s.epoch) || !s.alive

/-- The rpc engine registers what the server sent for `r`: if the copy written on the request's current
epoch was acknowledged / answered, the request is acknowledged from now on. -/
def seenStep (s : State) (r : Nat) : Option State :=
  match s.reqs[r]? with
  | some q =>
    match q.phase with
    | .sent k =>
      if (r, k) ∈ s.acks ∨ (r, k) ∈ s.results then
        some (setReq s r { q with phase := .acked k, ackSeen := some k })
      else some s
    | .idle => none
    | _ => some s
  | none => none

/-- The acknowledgement / result of the copy on `k` has been read and is going to be registered before
the engine of connection `k` is closed: the read loop waits for its handlers, the connection was not torn
down by another task, the client is not being closed (its context would force-close the engine). -/
def readPending (cfg : Cfg) (s : State) (q : Req) (k : Nat) : Bool :=
  cfg.readRegisters && q.read == some k && !s.wdead.contains k && !s.closed

def step (cfg : Cfg) (s : State) : Action → Option State
  | .inv r =>
    match s.reqs[r]? with
    | some q => if q.phase = .idle then some (setReq s r { q with phase := .ready }) else none
    | none => none
  | .bind r =>
    -- top of the `invokeConn` loop: `conn := c.conn` (and the `connChanged` snapshot)
    match s.reqs[r]? with
    | some q =>
      match q.phase with
      | .ready => some (setReq s r { q with phase := .bound s.epoch })
      | .parked w => if w < s.epoch then some (setReq s r { q with phase := .bound s.epoch }) else none
      | _ => none
    | none => none
  | .init => if s.epoch ∉ s.inited then some { s with inited := s.epoch :: s.inited } else none
  | .arr r k =>
    match s.reqs[r]? with
    | some q =>
      if q.phase = .bound k ∧ k = s.epoch ∧ k ∈ s.inited ∧ (r, k) ∉ s.arrivals then
        some { setReq s r { q with phase := .sent k } with arrivals := (r, k) :: s.arrivals }
      else if k < s.epoch ∧ (r, k) ∉ s.arrivals ∧ lateOk q k = true then
        -- a copy written on an earlier connection reaches the server late (the client has moved on)
        some { s with arrivals := (r, k) :: s.arrivals }
      else none
    | none => none
  | .ack r k => if (r, k) ∈ s.arrivals then some { s with acks := (r, k) :: s.acks } else none
  | .res r k => if (r, k) ∈ s.arrivals then some { s with results := (r, k) :: s.results } else none
  | .seen r => seenStep s r
  | .rd r k =>
    match s.reqs[r]? with
    | some q =>
      if q.phase = .sent k ∧ ((r, k) ∈ s.acks ∨ (r, k) ∈ s.results) then some (setReq s r { q with read := some k })
      else some s
    | none => none
  | .killw => if s.alive then some { s with alive := false, wdead := s.epoch :: s.wdead } else none
  | .kill => if s.alive then some { s with alive := false } else none
  | .fail r =>
    -- `conn.Invoke` returns a retryable error; `invokeConn` parks on `connChanged`
    match s.reqs[r]? with
    | some q =>
      match q.phase with
      | .sent k =>
        -- (not while an acknowledgement that was read is still going to be registered: `seen` comes first)
        if connDead s k ∧ cfg.unackedRetryable ∧ readPending cfg s q k = false then
          some (setReq s r { q with phase := .parked (if cfg.snapshotBeforeInvoke then k else s.epoch) })
        else none
      | .bound k =>
        -- waiting for the session of a connection that died (`ErrConnDead` from `waitSession`), or the
        -- write on the dead transport failed and is reported as `ErrConnDead`
        if connDead s k ∧ ((k ∈ s.inited ∧ cfg.sendErrorSurfaces = false) ∨ (k ∉ s.inited ∧ cfg.deadAlwaysSignalled)) then
          some (setReq s r { q with phase := .parked (if cfg.snapshotBeforeInvoke then k else s.epoch) })
        else none
      | _ => none
    | none => none
  | .reconnect =>
    if s.alive = false ∧ s.closed = false then some { s with alive := true, epoch := s.epoch + 1 } else none
  | .retOk r =>
    match s.reqs[r]? with
    | some q =>
      match q.phase with
      | .sent k => if (r, k) ∈ s.results then some (setReq s r { q with phase := .doneOk }) else none
      | .acked k => if (r, k) ∈ s.results then some (setReq s r { q with phase := .doneOk }) else none
      | _ => none
    | none => none
  | .retErr r =>
    match s.reqs[r]? with
    | some q =>
      match q.phase with
      | .idle => none
      | .doneOk => none
      | .doneErr => none
      | .acked k =>
        if s.closed ∧ cfg.closeUnblocks then some (setReq s r { q with phase := .doneErr, reason := .closed })
        else if connDead s k ∧ cfg.ackedNotRetryable then
          some (setReq s r { q with phase := .doneErr, reason := .ackedLost })
        else none
      | _ =>
        if s.closed ∧ cfg.closeUnblocks then some (setReq s r { q with phase := .doneErr, reason := .closed })
        else none
    | none => none
  | .sendFail r =>
    match s.reqs[r]? with
    | some q =>
      match q.phase with
      | .bound k =>
        if connDead s k ∧ cfg.sendErrorSurfaces then
          some (setReq s r { q with phase := .doneErr, reason := .sendError })
        else none
      | _ => none
    | none => none
  | .close => if s.closed then none else some { s with closed := true, alive := false }

def run (cfg : Cfg) (s : State) : List Action → Option State
  | [] => some s
  | a :: as => match step cfg s a with
    | some s' => run cfg s' as
    | none => none

def runIdx (cfg : Cfg) (s : State) (i : Nat) : List Action → Except Nat State
  | [] => .ok s
  | a :: as => match step cfg s a with
    | some s' => runIdx cfg s' (i + 1) as
    | none => .error i

/-- Decidable monitor of one state: an acknowledged request was never received on a later epoch; no
request was received twice on one epoch; an error was returned only for an acknowledged request whose
connection was lost, or because the client was closed; no invocation is parked on the `connChanged`
channel of the current epoch while that connection is alive (it would never be woken). -/
def holdsB (s : State) : Bool :=
  (List.range s.reqs.length).all (fun r =>
    match s.reqs[r]? with
    | some q =>
      (match q.ackSeen with
       | some k => s.arrivals.all (fun a => a.1 != r || a.2 ≤ k)
       | none => true) &&
      (q.phase != .doneErr || q.reason == .ackedLost || q.reason == .closed) &&
      (match q.phase with
       | .parked w => decide (w < s.epoch) || !s.alive
       | _ => true)
    | none => true) &&
  decide s.arrivals.Nodup

end TdModel.C29
