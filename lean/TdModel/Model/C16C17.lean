/-
C16 + C17 — shared model of /repo/proto/codec (abridged.go, intermediate.go,
padded_intermediate.go, full.go, codec.go, errors.go) and /repo/transport/detect_codec.go.

The readers are *panic-explicit*: Lean functions are total, so Go's run-time checks are made part of
the model.  Every slice expression goes through `Res.slice` (Go's bounds check `0 ≤ i ≤ j ≤ len`),
every `make([]byte, n)` through `Res.make` (`n ≥ 0`), and every growth of `b.Buf` is recorded in the
allocation trace (`Res.allocs`, the length the buffer is grown to).  `io.ReadFull(r, buf[:k])` is
`take k` on the whole remaining stream (`Res.readN`), which makes the readers independent of how the
stream is chunked by construction; that the code touches the stream through `io.ReadFull` only is a
regenerated fact (`readsOnlyViaReadFull`).

All constants come through a `Cfg` that C16 and C17 each build from their own regenerated facts
(`TdModel.C16.cfg`, `TdModel.C17.cfg`); the lemmas are proved for `Cfg.spec` (the specification's
literals) and the property files prove `cfg = Cfg.spec`.  `Cfg.pinned` is the tree before the
`fix:` commits (no guards, no envelope allowance) and is used for the counterexample theorems only.

`crc : Bytes → Nat` (hash/crc32.ChecksumIEEE) is a parameter.
-/
import TdModel.Model.Bin

namespace TdModel.Codec
open TdModel TdModel.Bin

structure Cfg where
  /-- `codec.maxMessageSize` -/
  maxMsg : Nat
  /-- `writeAbridged`: `encodeLength < 127` -/
  abrThrW : Nat
  /-- `readAbridged`: `b.Buf[0] >= 127` -/
  abrThrR : Nat
  /-- `writeAbridged`: `buf[0] = 0x7f` -/
  abrMark : Nat
  /-- `readAbridged` rejects `n<<2 > maxMessageSize` before `ResetN` (fix for D6) -/
  abrGuard : Bool
  /-- `readFull` rejects `n < fullMin` before `Expand` (fix for D6); `fullMin = 3*bin.Word` -/
  fullGuard : Bool
  fullMin : Nat
  /-- envelope the full reader allows on top of `maxMessageSize` (`3*bin.Word` after the fix, 0 before) -/
  fullOver : Nat
  /-- padding the padded-intermediate reader allows on top of `maxMessageSize` (3 after the fix) -/
  padOver : Nat
  tagAbridged : Bytes
  tagIntermediate : Bytes
  tagPadded : Bytes
  deriving Repr, DecidableEq

/-- The specification's literals (the repaired tree). -/
def Cfg.spec : Cfg where
  maxMsg := 16777216
  abrThrW := 127
  abrThrR := 127
  abrMark := 127
  abrGuard := true
  fullGuard := true
  fullMin := 12
  fullOver := 12
  padOver := 3
  tagAbridged := [0xef]
  tagIntermediate := [0xee, 0xee, 0xee, 0xee]
  tagPadded := [0xdd, 0xdd, 0xdd, 0xdd]

/-- The tree as pinned (before `fix:` commits for D6 and the frame-limit envelope). -/
def Cfg.pinned : Cfg :=
  { Cfg.spec with abrGuard := false, fullGuard := false, fullOver := 0, padOver := 0 }

inductive Kind where
  | abridged | intermediate | padded | full
  deriving Repr, DecidableEq

def Kind.tag : Kind → String
  | .abridged => "abridged" | .intermediate => "intermediate" | .padded => "padded" | .full => "full"

def Kind.ofTag : String → Option Kind
  | "abridged" => some .abridged | "intermediate" => some .intermediate
  | "padded" => some .padded | "full" => some .full | _ => none

/-- Read errors (classes of the Go errors). -/
inductive RErr where
  /-- `io.EOF`: the stream ended before the first byte of a read -/
  | eof
  /-- `io.ErrUnexpectedEOF` -/
  | ueof
  /-- `invalidMsgLenErr{n}` -/
  | badLen (n : Nat)
  | seqMismatch
  | crcMismatch
  /-- `*ProtocolErr{Code}` (a four-byte frame) -/
  | proto (code : Int)
  deriving Repr, DecidableEq

def RErr.tag : RErr → String
  | .eof => "eof" | .ueof => "ueof" | .badLen n => s!"badlen:{n}" | .seqMismatch => "seq"
  | .crcMismatch => "crc" | .proto c => s!"proto:{c}"

inductive Out where
  | ok (frame rest : Bytes)
  | err (e : RErr)
  | panic (msg : String)
  deriving Repr, DecidableEq

def Out.isPanic : Out → Bool
  | .panic _ => true
  | _ => false

/-- Outcome of one `Read` plus the trace of buffer lengths requested while it ran. -/
structure Res where
  allocs : List Nat
  out : Out
  deriving Repr, DecidableEq

namespace Res
def ok (frame rest : Bytes) : Res := ⟨[], .ok frame rest⟩
def err (e : RErr) : Res := ⟨[], .err e⟩
def panic (msg : String) : Res := ⟨[], .panic msg⟩

/-- `b.Buf` is grown to length `n` (`ResetN`, `Expand`, `Put*`). -/
def alloc (n : Nat) (k : Res) : Res := ⟨n :: k.allocs, k.out⟩

/-- `make([]byte, n)`: panics (`makeslice: len out of range`) for negative `n`. -/
def make (n : Int) (k : Nat → Res) : Res :=
  if 0 ≤ n then k n.toNat else panic "makeslice: len out of range"

/-- `b[i:j]` with Go's bounds check. -/
def slice (b : Bytes) (i j : Int) (k : Bytes → Res) : Res :=
  if 0 ≤ i ∧ i ≤ j ∧ j ≤ b.length then k ((b.drop i.toNat).take (j.toNat - i.toNat))
  else panic "slice bounds out of range"

/-- `io.ReadFull(r, buf)` with `len(buf) = n`: `io.EOF` if nothing could be read,
`io.ErrUnexpectedEOF` after a partial read; `n = 0` always succeeds. -/
def readN (n : Nat) (s : Bytes) (k : Bytes → Bytes → Res) : Res :=
  if s.length < n then err (if s.length = 0 then .eof else .ueof) else k (s.take n) (s.drop n)

def maxAlloc (r : Res) : Nat := r.allocs.foldl max 0
end Res

/-- `codec.readLen` (`limit` = `maxMessageSize` plus the envelope the caller allows). -/
def readLen (limit : Nat) (s : Bytes) (k : Nat → Bytes → Res) : Res :=
  Res.alloc 4 <| Res.readN 4 s fun lenB s1 =>
  let n := fromLE lenB
  if n = 0 ∨ n > limit then Res.err (.badLen n) else k n s1

/-- `codec.readIntermediate`. -/
def readIntermediate (cfg : Cfg) (padding : Bool) (s : Bytes) : Res :=
  readLen (cfg.maxMsg + (if padding then cfg.padOver else 0)) s fun n s1 =>
  Res.make n fun m => Res.alloc m <| Res.readN m s1 fun payload s2 =>
  if padding then Res.slice payload 0 ((n : Int) - (n % 4 : Nat)) fun p => Res.ok p s2
  else Res.ok payload s2

/-- `codec.readPaddedIntermediate` (its second trim is the identity on an aligned buffer, but is
modelled: `b.Buf[:b.Len()-b.Len()%4]`). -/
def readPadded (cfg : Cfg) (s : Bytes) : Res :=
  match readIntermediate cfg true s with
  | ⟨a, .ok p rest⟩ => Res.slice p 0 ((p.length : Int) - (p.length % 4 : Nat)) fun q => ⟨a, .ok q rest⟩
  | r => r

/-- `codec.readAbridged`.  The 4-byte scratch buffer is zeroed by `ResetN`, so `b.Int()` sees the
one length byte, or — when it is `≥ 127` — the next three bytes, with a zero top byte. -/
def readAbridged (cfg : Cfg) (s : Bytes) : Res :=
  Res.alloc 4 <| Res.readN 1 s fun b0 s1 =>
  let cont (n : Nat) (s2 : Bytes) : Res :=
    if cfg.abrGuard ∧ n * 4 > cfg.maxMsg then Res.err (.badLen (n * 4))
    else Res.make ((n : Int) * 4) fun m => Res.alloc m <| Res.readN m s2 fun payload s3 => Res.ok payload s3
  if fromLE b0 ≥ cfg.abrThrR then Res.readN 3 s1 fun l3 s2 => cont (fromLE l3) s2
  else cont (fromLE b0) s1

/-- `codec.readFull`; `seq` is the reader's counter value for this frame. -/
def readFull (cfg : Cfg) (crc : Bytes → Nat) (seq : Int) (s : Bytes) : Res :=
  readLen (cfg.maxMsg + cfg.fullOver) s fun n s1 =>
  if cfg.fullGuard ∧ n < cfg.fullMin then Res.err (.badLen n) else
  -- b.PutInt(n); b.Expand(n - bin.Word)
  Res.alloc 8 <| Res.make ((n : Int) - 4) fun e => Res.alloc (8 + e) <|
  -- inner := b.Buf[bin.Word:n]  (a view of the 8+e byte buffer)
  Res.slice (zeros (8 + e)) 4 n fun innerView =>
  Res.readN innerView.length s1 fun inner s2 =>
  let buf := leN 4 n ++ inner ++ zeros (8 + e - 4 - inner.length)
  -- serverSeqNo, err := inner.Int()
  if inner.length < 4 then Res.err .ueof else
  if toInt32 (fromLE (inner.take 4)) ≠ seq then Res.err .seqMismatch else
  -- inner.Skip(payloadLength)
  Res.slice (inner.drop 4) ((n : Int) - 12) (inner.drop 4).length fun tail =>
  -- crc, err := inner.Uint32()
  if tail.length < 4 then Res.err .ueof else
  Res.slice buf 0 ((n : Int) - 4) fun crcIn =>
  if fromLE (tail.take 4) ≠ crc crcIn then Res.err .crcMismatch else
  -- copy(b.Buf, b.Buf[2*bin.Word:n-bin.Word]); b.Buf = b.Buf[:payloadLength]
  Res.slice buf 8 ((n : Int) - 4) fun payload =>
  Res.slice payload 0 ((n : Int) - 12) fun frame => Res.ok frame s2

/-- `-code` on an `int32`. -/
def negInt32 (v : Nat) : Int := toInt32 (ofInt32 (- toInt32 v))

/-- `codec.checkProtocolError`: a four-byte frame is a transport error code. -/
def checkProto (r : Res) : Res :=
  match r with
  | ⟨a, .ok p rest⟩ => if p.length = 4 then ⟨a, .err (.proto (negInt32 (fromLE p)))⟩ else ⟨a, .ok p rest⟩
  | r => r

/-- The unexported readers. -/
def readRaw (cfg : Cfg) (crc : Bytes → Nat) (k : Kind) (seq : Int) (s : Bytes) : Res :=
  match k with
  | .abridged => readAbridged cfg s
  | .intermediate => readIntermediate cfg false s
  | .padded => readPadded cfg s
  | .full => readFull cfg crc seq s

/-- `Codec.Read` of each protocol. -/
def read (cfg : Cfg) (crc : Bytes → Nat) (k : Kind) (seq : Int) (s : Bytes) : Res :=
  checkProto (readRaw cfg crc k seq s)

/-! ## Writers -/

inductive WErr where
  | badLen (n : Nat)
  | notAligned
  deriving Repr, DecidableEq

def WErr.tag : WErr → String
  | .badLen n => s!"badlen:{n}" | .notAligned => "align"

/-- `writeAbridged`'s length prefix. -/
def abridgedHead (cfg : Cfg) (len : Nat) : Bytes :=
  if len / 4 < cfg.abrThrW then [UInt8.ofNat (len / 4)] else UInt8.ofNat cfg.abrMark :: leN 3 (len / 4)

/-- `writePaddedIntermediate`'s padding length: the *last payload byte* mod 4. -/
def padLenB (last : UInt8) : Nat := last.toNat % 4

def lastByte (p : Bytes) : UInt8 := p.getLast?.getD 0

def padLen (p : Bytes) : Nat := padLenB (lastByte p)

/-- What precedes the payload on the wire; depends on the payload only through its length and its
last byte. -/
def encHead (cfg : Cfg) (k : Kind) (seq : Int) (len : Nat) (last : UInt8) : Bytes :=
  match k with
  | .abridged => abridgedHead cfg len
  | .intermediate => putU32 len
  | .padded => putU32 (len + padLenB last)
  | .full => putU32 (len + 12) ++ putU32 (ofInt32 seq)

/-- What follows the payload: padding (`rnd` = the four bytes drawn from the random source by
`writePaddedIntermediate`) or the CRC of everything before it. -/
def encTail (crc : Bytes → Nat) (k : Kind) (rnd : Bytes) (headAndPayload : Bytes) (last : UInt8) : Bytes :=
  match k with
  | .padded => rnd.take (padLenB last)
  | .full => putU32 (crc headAndPayload)
  | _ => []

/-- Bytes put on the wire by `Codec.Write` (without the validity checks). -/
def encRaw (cfg : Cfg) (crc : Bytes → Nat) (k : Kind) (seq : Int) (rnd : Bytes) (p : Bytes) : Bytes :=
  let hp := encHead cfg k seq p.length (lastByte p) ++ p
  hp ++ encTail crc k rnd hp (lastByte p)

/-- `checkOutgoingMessage` + `checkAlign` + write. -/
def enc (cfg : Cfg) (crc : Bytes → Nat) (k : Kind) (seq : Int) (rnd : Bytes) (p : Bytes) : Except WErr Bytes :=
  if p.length > cfg.maxMsg ∨ p.length = 0 then .error (.badLen p.length)
  else if k ≠ .full ∧ p.length % 4 ≠ 0 then .error .notAligned
  else .ok (encRaw cfg crc k seq rnd p)

/-- The stream written for a list of payloads, counters `seq, seq+1, …` (`rnd i` = random source of
the i-th write). -/
def encAll (cfg : Cfg) (crc : Bytes → Nat) (k : Kind) (seq : Int) (rnd : Nat → Bytes) : List Bytes → Bytes
  | [] => []
  | p :: ps => encRaw cfg crc k seq (rnd 0) p ++ encAll cfg crc k (seq + 1) (fun i => rnd (i + 1)) ps

/-- What a receiver sees: a payload, or a transport error code. -/
inductive Item where
  | frame (p : Bytes)
  | code (c : Int)
  deriving Repr, DecidableEq

/-- Repeated `Read` until the stream is exhausted; stops at the first error other than a protocol
error code.  `fuel` bounds the recursion (every successful read consumes at least one byte). -/
def decAll (cfg : Cfg) (crc : Bytes → Nat) (k : Kind) : Nat → Int → Bytes → List Item × Option RErr
  | 0, _, _ => ([], some .ueof)
  | fuel + 1, seq, s =>
    if s = [] then ([], none) else
    match (read cfg crc k seq s).out with
    | .ok p rest =>
      let (xs, e) := decAll cfg crc k fuel (seq + 1) rest
      (.frame p :: xs, e)
    | .err (.proto c) => ([.code c], some (.proto c))
    | .err e => ([], some e)
    | .panic _ => ([], some .ueof)

/-! ## Headers and detection -/

/-- `Codec.WriteHeader`. -/
def header (cfg : Cfg) : Kind → Bytes
  | .abridged => cfg.tagAbridged
  | .intermediate => cfg.tagIntermediate
  | .padded => cfg.tagPadded
  | .full => []

/-- `transport.detectCodec`: the protocol and the stream handed to its codec (for `full` the four
bytes already read are pushed back). -/
def detect (cfg : Cfg) (s : Bytes) : Except RErr (Kind × Bytes) :=
  if s.length < 1 then .error .eof
  else if s.take 1 = cfg.tagAbridged then .ok (.abridged, s.drop 1)
  else if s.length < 4 then .error (if s.length = 1 then .eof else .ueof)
  else if s.take 4 = cfg.tagIntermediate then .ok (.intermediate, s.drop 4)
  else if s.take 4 = cfg.tagPadded then .ok (.padded, s.drop 4)
  else .ok (.full, s)

end TdModel.Codec
