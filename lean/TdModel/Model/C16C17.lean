/-
C16 + C17 — shared model of /repo/proto/codec (abridged.go, intermediate.go,
padded_intermediate.go, full.go, codec.go, errors.go) and /repo/transport/detect_codec.go.

The readers are *panic-explicit*: Lean functions are total, so Go's run-time checks are made part of
the model.  Every slice expression goes through `Res.slice` (Go's bounds check `0 ≤ i ≤ j ≤ len`),
every `make([]byte, n)` through `Res.make` (`n ≥ 0`), and every growth of `b.Buf` is recorded in the
allocation trace (`Res.allocs`, the length the buffer is grown to).  `io.ReadFull(r, buf[:k])` is
`take k` on the whole remaining stream (`Res.readN`), which makes the readers independent of how the
stream is chunked by construction; that the code touches the stream through `io.ReadFull` only is a
regenerated fact (`readsOnlyViaReadFull`).

All integer decisions and arithmetic (length checks, the abridged switch, slice bounds of the full
reader, padding) come through a `Cfg` of *functions* that C16 and C17 each fill with the Go
expressions translated from the current source (`TdModel.C16.cfg`, `TdModel.C17.cfg`); the lemmas are
proved for `Cfg.spec` (the specification's literals) and the property files prove `cfg = Cfg.spec`
by arithmetic, field by field.  `Cfg.pinned` is the tree before the
`fix:` commits (no guards, no envelope allowance) and is used for the counterexample theorems only.

`crc : Bytes → Nat` (hash/crc32.ChecksumIEEE) is a parameter.
-/
import TdModel.Model.Bin

namespace TdModel.Codec
open TdModel TdModel.Bin

/-- The integer decisions and arithmetic of the codecs.  `TdModel.C16.cfg` / `TdModel.C17.cfg` fill
every function field with the *translation of the corresponding Go expression* regenerated from
the source (`harness/c16c17/semantic.go`); `Cfg.spec` states them with the specification's literals. -/
@[ext] structure Cfg where
  /-- `readLen`: `n <= 0 || n > maxMessageSize+envelope` (length word `n`, caller's `envelope`) -/
  lenRejects : Nat → Nat → Bool
  /-- `checkOutgoingMessage`: `length > maxMessageSize || length == 0` -/
  outRejects : Nat → Bool
  /-- `checkAlign(b, 4)`: `length%4 != 0` -/
  misaligned : Nat → Bool
  /-- `checkProtocolError`: `b.Len() == bin.Word` -/
  isCode : Nat → Bool
  /-- `writeAbridged`: `encodeLength := b.Len() >> 2` -/
  abrWords : Nat → Nat
  /-- `writeAbridged`: `encodeLength < 127` (one length byte) -/
  abrShort : Nat → Bool
  /-- `writeAbridged`: `buf[0] = 0x7f` -/
  abrMark : Nat
  /-- `readAbridged`: `b.Buf[0] >= 127` (three more length bytes follow) -/
  abrLong : Nat → Bool
  /-- `readAbridged`: the guard before `ResetN` (`n<<2 > maxMessageSize`; constantly false when absent) -/
  abrRejects : Nat → Bool
  /-- `readAbridged`: argument of `b.ResetN` (`n << 2`) -/
  abrBytes : Nat → Int
  /-- `readFull`: the guard before `Expand` (`n < 3*bin.Word`; constantly false when absent) -/
  fullRejects : Nat → Bool
  /-- `readFull`: envelope argument of `readLen` (`3*bin.Word`; 0 when absent) -/
  fullEnvelope : Nat
  /-- `readFull`: argument of `b.Expand` (`n - bin.Word`) -/
  fullExpand : Nat → Int
  /-- `readFull`: `inner := b.Buf[bin.Word:n]` -/
  fullInnerLo : Nat → Int
  fullInnerHi : Nat → Int
  /-- `readFull`: `payloadLength := n - 3*bin.Word` -/
  fullPayload : Nat → Int
  /-- `readFull`: CRC input `b.Buf[0 : n-bin.Word]` -/
  fullCrcLo : Nat → Int
  fullCrcHi : Nat → Int
  /-- `readFull`: `copy(b.Buf, b.Buf[2*bin.Word:n-bin.Word])` -/
  fullCopyLo : Nat → Int
  fullCopyHi : Nat → Int
  /-- `writeFull`: the length word `4 + 4 + b.Len() + 4` -/
  fullWire : Nat → Nat
  /-- `Full.Write`: the write counter is taken only after the validity checks passed (statement order) -/
  fullSeqAfterCheck : Bool
  /-- `readIntermediate`: envelope when `padding` (3; 0 when absent) -/
  padEnvelope : Nat
  /-- `writePaddedIntermediate`: `int(b.Buf[length-1]) % 4` -/
  padOf : Nat → Nat
  /-- `readIntermediate` / `readPaddedIntermediate`: `n % 4` -/
  padStrip : Nat → Nat
  tagAbridged : Bytes
  tagIntermediate : Bytes
  tagPadded : Bytes

/-- The specification's literals (the repaired tree). -/
def Cfg.spec : Cfg where
  lenRejects := fun n e => decide (n = 0 ∨ n > 16777216 + e)
  outRejects := fun l => decide (l > 16777216 ∨ l = 0)
  misaligned := fun l => decide (l % 4 ≠ 0)
  isCode := fun l => decide (l = 4)
  abrWords := fun l => l / 4
  abrShort := fun w => decide (w < 127)
  abrMark := 127
  abrLong := fun b0 => decide (b0 ≥ 127)
  abrRejects := fun n => decide (n * 4 > 16777216)
  abrBytes := fun n => (n : Int) * 4
  fullRejects := fun n => decide (n < 12)
  fullEnvelope := 12
  fullExpand := fun n => (n : Int) - 4
  fullInnerLo := fun _ => 4
  fullInnerHi := fun n => n
  fullPayload := fun n => (n : Int) - 12
  fullCrcLo := fun _ => 0
  fullCrcHi := fun n => (n : Int) - 4
  fullCopyLo := fun _ => 8
  fullCopyHi := fun n => (n : Int) - 4
  fullWire := fun l => l + 12
  fullSeqAfterCheck := true
  padEnvelope := 3
  padOf := fun last => last % 4
  padStrip := fun n => n % 4
  tagAbridged := [0xef]
  tagIntermediate := [0xee, 0xee, 0xee, 0xee]
  tagPadded := [0xdd, 0xdd, 0xdd, 0xdd]

/-- The fields the readers use, the others replaced by the specification's: `read c = read c.readerPart`
by unfolding, so a statement about reading depends on the reader's expressions only. -/
def Cfg.readerPart (c : Cfg) : Cfg :=
  { Cfg.spec with
    lenRejects := c.lenRejects, isCode := c.isCode, abrLong := c.abrLong, abrRejects := c.abrRejects,
    abrBytes := c.abrBytes, fullRejects := c.fullRejects, fullEnvelope := c.fullEnvelope,
    fullExpand := c.fullExpand, fullInnerLo := c.fullInnerLo, fullInnerHi := c.fullInnerHi,
    fullPayload := c.fullPayload, fullCrcLo := c.fullCrcLo, fullCrcHi := c.fullCrcHi,
    fullCopyLo := c.fullCopyLo, fullCopyHi := c.fullCopyHi, padEnvelope := c.padEnvelope,
    padStrip := c.padStrip }

/-- The tree as pinned (before the `fix:` commits for D6 and the frame-limit envelope). -/
def Cfg.pinned : Cfg :=
  { Cfg.spec with abrRejects := fun _ => false, fullRejects := fun _ => false, fullEnvelope := 0, padEnvelope := 0 }

inductive Kind where
  | abridged | intermediate | padded | full
  deriving Repr, DecidableEq

def Kind.tag : Kind → String
  | .abridged => "abridged" | .intermediate => "intermediate" | .padded => "padded" | .full => "full"

def Kind.ofTag : String → Option Kind
  | "abridged" => some .abridged | "intermediate" => some .intermediate
  | "padded" => some .padded | "full" => some .full | _ => none

/-- Read errors (classes of the Go errors). -/
inductive RErr where
  /-- `io.EOF`: the stream ended before the first byte of a read -/
  | eof
  /-- `io.ErrUnexpectedEOF` -/
  | ueof
  /-- `invalidMsgLenErr{n}` -/
  | badLen (n : Nat)
  | seqMismatch
  | crcMismatch
  /-- `*ProtocolErr{Code}` (a four-byte frame) -/
  | proto (code : Int)
  /-- `ErrProtocolHeaderMismatch` -/
  | headerMismatch
  deriving Repr, DecidableEq

def RErr.tag : RErr → String
  | .eof => "eof" | .ueof => "ueof" | .badLen n => s!"badlen:{n}" | .seqMismatch => "seq"
  | .crcMismatch => "crc" | .proto c => s!"proto:{c}" | .headerMismatch => "header"

inductive Out where
  | ok (frame rest : Bytes)
  | err (e : RErr)
  | panic (msg : String)
  deriving Repr, DecidableEq

def Out.isPanic : Out → Bool
  | .panic _ => true
  | _ => false

/-- Outcome of one `Read` plus the trace of buffer lengths requested while it ran. -/
structure Res where
  allocs : List Nat
  out : Out
  deriving Repr, DecidableEq

namespace Res
def ok (frame rest : Bytes) : Res := ⟨[], .ok frame rest⟩
def err (e : RErr) : Res := ⟨[], .err e⟩
def panic (msg : String) : Res := ⟨[], .panic msg⟩

/-- `b.Buf` is grown to length `n` (`ResetN`, `Expand`, `Put*`). -/
def alloc (n : Nat) (k : Res) : Res := ⟨n :: k.allocs, k.out⟩

/-- `make([]byte, n)`: panics (`makeslice: len out of range`) for negative `n`. -/
def make (n : Int) (k : Nat → Res) : Res :=
  if 0 ≤ n then k n.toNat else panic "makeslice: len out of range"

/-- `b[i:j]` with Go's bounds check. -/
def slice (b : Bytes) (i j : Int) (k : Bytes → Res) : Res :=
  if 0 ≤ i ∧ i ≤ j ∧ j ≤ b.length then k ((b.drop i.toNat).take (j.toNat - i.toNat))
  else panic "slice bounds out of range"

/-- `b[i]` with Go's index check on a buffer of length `blen` (`index out of range`). -/
def index (blen : Nat) (i : Int) (k : Res) : Res :=
  if 0 ≤ i ∧ i < blen then k else panic "index out of range"

/-- The bounds check of `b[i:j]` on a buffer of length `blen` whose contents do not matter yet (a view
that is about to be overwritten by `io.ReadFull`): passes the length of the view. -/
def sliceLen (blen : Nat) (i j : Int) (k : Nat → Res) : Res :=
  if 0 ≤ i ∧ i ≤ j ∧ j ≤ blen then k (j.toNat - i.toNat) else panic "slice bounds out of range"

/-- `io.ReadFull(r, buf)` with `len(buf) = n`: `io.EOF` if nothing could be read,
`io.ErrUnexpectedEOF` after a partial read; `n = 0` always succeeds. -/
def readN (n : Nat) (s : Bytes) (k : Bytes → Bytes → Res) : Res :=
  if s.length < n then err (if s.length = 0 then .eof else .ueof) else k (s.take n) (s.drop n)

def maxAlloc (r : Res) : Nat := r.allocs.foldl max 0
end Res

/-- `codec.readLen`. -/
def readLen (cfg : Cfg) (envelope : Nat) (s : Bytes) (k : Nat → Bytes → Res) : Res :=
  Res.alloc 4 <| Res.readN 4 s fun lenB s1 =>
  let n := fromLE lenB
  if cfg.lenRejects n envelope then Res.err (.badLen n) else k n s1

/-- `codec.readIntermediate`. -/
def readIntermediate (cfg : Cfg) (padding : Bool) (s : Bytes) : Res :=
  readLen cfg (if padding then cfg.padEnvelope else 0) s fun n s1 =>
  Res.make n fun m => Res.alloc m <| Res.readN m s1 fun payload s2 =>
  if padding then Res.slice payload 0 ((n : Int) - (cfg.padStrip n : Nat)) fun p => Res.ok p s2
  else Res.ok payload s2

/-- `codec.readPaddedIntermediate` (its second trim is the identity on an aligned buffer, but is
modelled: `b.Buf[:b.Len()-b.Len()%4]`). -/
def readPadded (cfg : Cfg) (s : Bytes) : Res :=
  match readIntermediate cfg true s with
  | ⟨a, .ok p rest⟩ => Res.slice p 0 ((p.length : Int) - (cfg.padStrip p.length : Nat)) fun q => ⟨a, .ok q rest⟩
  | r => r

/-- `codec.readAbridged`.  The 4-byte scratch buffer is zeroed by `ResetN`, so `b.Int()` sees the
one length byte, or — when `abrLong` — the next three bytes, with a zero top byte. -/
def readAbridged (cfg : Cfg) (s : Bytes) : Res :=
  Res.alloc 4 <| Res.readN 1 s fun b0 s1 =>
  -- `b.Buf[0]` on the 4-byte scratch buffer
  Res.index 4 0 <|
  let cont (n : Nat) (s2 : Bytes) : Res :=
    if cfg.abrRejects n then Res.err (.badLen (cfg.abrBytes n).toNat)
    else Res.make (cfg.abrBytes n) fun m => Res.alloc m <| Res.readN m s2 fun payload s3 => Res.ok payload s3
  if cfg.abrLong (fromLE b0) then Res.readN 3 s1 fun l3 s2 => cont (fromLE l3) s2
  else cont (fromLE b0) s1

/-- `codec.readFull`; `seq` is the reader's counter value for this frame. -/
def readFull (cfg : Cfg) (crc : Bytes → Nat) (seq : Int) (s : Bytes) : Res :=
  readLen cfg cfg.fullEnvelope s fun n s1 =>
  if cfg.fullRejects n then Res.err (.badLen n) else
  -- b.PutInt(n); b.Expand(n - bin.Word)
  Res.alloc 8 <| Res.make (cfg.fullExpand n) fun e => Res.alloc (8 + e) <|
  -- inner := b.Buf[bin.Word:n]  (a view into the 8+e byte buffer, filled by io.ReadFull)
  Res.sliceLen (8 + e) (cfg.fullInnerLo n) (cfg.fullInnerHi n) fun viewLen =>
  Res.readN viewLen s1 fun inner s2 =>
  -- the buffer after PutInt, Expand and the read (built only now: a short stream never gets here)
  let buf0 := leN 4 n ++ leN 4 n ++ zeros e
  let buf := buf0.take (cfg.fullInnerLo n).toNat ++ inner ++ buf0.drop (cfg.fullInnerHi n).toNat
  -- serverSeqNo, err := inner.Int()
  if inner.length < 4 then Res.err .ueof else
  if toInt32 (fromLE (inner.take 4)) ≠ seq then Res.err .seqMismatch else
  -- inner.Skip(payloadLength)
  Res.slice (inner.drop 4) (cfg.fullPayload n) (inner.drop 4).length fun tail =>
  -- crc, err := inner.Uint32()
  if tail.length < 4 then Res.err .ueof else
  Res.slice buf (cfg.fullCrcLo n) (cfg.fullCrcHi n) fun crcIn =>
  if fromLE (tail.take 4) ≠ crc crcIn then Res.err .crcMismatch else
  -- copy(b.Buf, b.Buf[2*bin.Word:n-bin.Word]); b.Buf = b.Buf[:payloadLength]
  Res.slice buf (cfg.fullCopyLo n) (cfg.fullCopyHi n) fun payload =>
  Res.slice payload 0 (cfg.fullPayload n) fun frame => Res.ok frame s2

/-- `-code` on an `int32`. -/
def negInt32 (v : Nat) : Int := toInt32 (ofInt32 (- toInt32 v))

/-- `codec.checkProtocolError`: a four-byte frame is a transport error code. -/
def checkProto (cfg : Cfg) (r : Res) : Res :=
  match r with
  | ⟨a, .ok p rest⟩ => if cfg.isCode p.length then ⟨a, .err (.proto (negInt32 (fromLE p)))⟩ else ⟨a, .ok p rest⟩
  | r => r

/-- The unexported readers. -/
def readRaw (cfg : Cfg) (crc : Bytes → Nat) (k : Kind) (seq : Int) (s : Bytes) : Res :=
  match k with
  | .abridged => readAbridged cfg s
  | .intermediate => readIntermediate cfg false s
  | .padded => readPadded cfg s
  | .full => readFull cfg crc seq s

/-- `Codec.Read` of each protocol. -/
def read (cfg : Cfg) (crc : Bytes → Nat) (k : Kind) (seq : Int) (s : Bytes) : Res :=
  checkProto cfg (readRaw cfg crc k seq s)

/-! ## Writers -/

inductive WErr where
  | badLen (n : Nat)
  | notAligned
  deriving Repr, DecidableEq

def WErr.tag : WErr → String
  | .badLen n => s!"badlen:{n}" | .notAligned => "align"

/-- `writeAbridged`'s length prefix. -/
def abridgedHead (cfg : Cfg) (len : Nat) : Bytes :=
  if cfg.abrShort (cfg.abrWords len) then [UInt8.ofNat (cfg.abrWords len)]
  else UInt8.ofNat cfg.abrMark :: leN 3 (cfg.abrWords len)

/-- `writePaddedIntermediate`'s padding length: the *last payload byte* mod 4. -/
def padLenB (cfg : Cfg) (last : UInt8) : Nat := cfg.padOf last.toNat

def lastByte (p : Bytes) : UInt8 := p.getLast?.getD 0

def padLen (cfg : Cfg) (p : Bytes) : Nat := padLenB cfg (lastByte p)

/-- What precedes the payload on the wire; depends on the payload only through its length and its
last byte. -/
def encHead (cfg : Cfg) (k : Kind) (seq : Int) (len : Nat) (last : UInt8) : Bytes :=
  match k with
  | .abridged => abridgedHead cfg len
  | .intermediate => putU32 len
  | .padded => putU32 (len + padLenB cfg last)
  | .full => putU32 (cfg.fullWire len) ++ putU32 (ofInt32 seq)

/-- What follows the payload: padding (`rnd` = the four bytes drawn from the random source by
`writePaddedIntermediate`) or the CRC of everything before it. -/
def encTail (cfg : Cfg) (crc : Bytes → Nat) (k : Kind) (rnd : Bytes) (headAndPayload : Bytes) (last : UInt8) : Bytes :=
  match k with
  | .padded => rnd.take (padLenB cfg last)
  | .full => putU32 (crc headAndPayload)
  | _ => []

/-- Bytes put on the wire by `Codec.Write` (without the validity checks). -/
def encRaw (cfg : Cfg) (crc : Bytes → Nat) (k : Kind) (seq : Int) (rnd : Bytes) (p : Bytes) : Bytes :=
  let hp := encHead cfg k seq p.length (lastByte p) ++ p
  hp ++ encTail cfg crc k rnd hp (lastByte p)

/-- `checkOutgoingMessage` + `checkAlign` + write. -/
def enc (cfg : Cfg) (crc : Bytes → Nat) (k : Kind) (seq : Int) (rnd : Bytes) (p : Bytes) : Except WErr Bytes :=
  if cfg.outRejects p.length then .error (.badLen p.length)
  else if k ≠ .full ∧ cfg.misaligned p.length then .error .notAligned
  else .ok (encRaw cfg crc k seq rnd p)

/-- Whether `Codec.Write` accepts a payload (depends on its length and the protocol only). -/
def accepts (cfg : Cfg) (k : Kind) (p : Bytes) : Bool :=
  !(cfg.outRejects p.length) && !(k ≠ .full && cfg.misaligned p.length)

/-- `Codec.Write` as a transition of the writer's state (`Full.wSeqNo`; the other protocols are
stateless, the counter is carried but unused): the bytes written or the error, and the new counter.
A rejected write leaves the counter alone iff the counter is taken after the checks. -/
def writeOp (cfg : Cfg) (crc : Bytes → Nat) (k : Kind) (wSeq : Int) (rnd p : Bytes) : Except WErr Bytes × Int :=
  match enc cfg crc k wSeq rnd p with
  | .ok b => (.ok b, wSeq + 1)
  | .error e => (.error e, if cfg.fullSeqAfterCheck then wSeq else wSeq + 1)

/-- A sequence of `Write` calls on one codec object: per call the outcome, and the final counter. -/
def writeSession (cfg : Cfg) (crc : Bytes → Nat) (k : Kind) : Int → List (Bytes × Bytes) → List (Except WErr Bytes) × Int
  | s, [] => ([], s)
  | s, (rnd, p) :: ops =>
    let (o, s1) := writeOp cfg crc k s rnd p
    let (os, s2) := writeSession cfg crc k s1 ops
    (o :: os, s2)

/-- Everything a session put on the wire. -/
def sessionWire : List (Except WErr Bytes) → Bytes
  | [] => []
  | .ok b :: os => b ++ sessionWire os
  | .error _ :: os => sessionWire os

/-- The stream written for a list of payloads, counters `seq, seq+1, …` (`rnd i` = random source of
the i-th write). -/
def encAll (cfg : Cfg) (crc : Bytes → Nat) (k : Kind) (seq : Int) (rnd : Nat → Bytes) : List Bytes → Bytes
  | [] => []
  | p :: ps => encRaw cfg crc k seq (rnd 0) p ++ encAll cfg crc k (seq + 1) (fun i => rnd (i + 1)) ps

/-- What a receiver sees: a payload, or a transport error code. -/
inductive Item where
  | frame (p : Bytes)
  | code (c : Int)
  deriving Repr, DecidableEq

/-- Repeated `Read` until the stream is exhausted; stops at the first error other than a protocol
error code.  `fuel` bounds the recursion (every successful read consumes at least one byte). -/
def decAll (cfg : Cfg) (crc : Bytes → Nat) (k : Kind) : Nat → Int → Bytes → List Item × Option RErr
  | 0, _, _ => ([], some .ueof)
  | fuel + 1, seq, s =>
    if s = [] then ([], none) else
    match (read cfg crc k seq s).out with
    | .ok p rest =>
      let (xs, e) := decAll cfg crc k fuel (seq + 1) rest
      (.frame p :: xs, e)
    | .err (.proto c) => ([.code c], some (.proto c))
    | .err e => ([], some e)
    | .panic _ => ([], some .ueof)

/-! ## Headers and detection -/

/-- `Codec.WriteHeader`. -/
def header (cfg : Cfg) : Kind → Bytes
  | .abridged => cfg.tagAbridged
  | .intermediate => cfg.tagIntermediate
  | .padded => cfg.tagPadded
  | .full => []

/-- `Codec.ReadHeader` (used by `transport.ListenCodec`): the stream after the tag, or
`ErrProtocolHeaderMismatch`; the full protocol has no tag. -/
def readHeader (cfg : Cfg) (k : Kind) (s : Bytes) : Except RErr Bytes :=
  let tag := header cfg k
  if s.length < tag.length then .error (if s.length = 0 then .eof else .ueof)
  else if s.take tag.length = tag then .ok (s.drop tag.length) else .error .headerMismatch

/-- `transport.detectCodec`: the protocol and the stream handed to its codec (for `full` the four
bytes already read are pushed back). -/
def detect (cfg : Cfg) (s : Bytes) : Except RErr (Kind × Bytes) :=
  if s.length < 1 then .error .eof
  else if s.take 1 = cfg.tagAbridged then .ok (.abridged, s.drop 1)
  else if s.length < 4 then .error (if s.length = 1 then .eof else .ueof)
  else if s.take 4 = cfg.tagIntermediate then .ok (.intermediate, s.drop 4)
  else if s.take 4 = cfg.tagPadded then .ok (.padded, s.drop 4)
  else .ok (.full, s)

end TdModel.Codec
