/-
C16 — the transport codecs of /repo/proto/codec and /repo/transport with the constants, guards and
tags regenerated from the current source (`TdModel.Facts.C16`).  The model itself is
`TdModel/Model/C16C17.lean` (`TdModel.Codec`): writers, panic-explicit readers, headers, detection.

This file adds the model of concurrent `connection.Send` calls: each sender takes `writeMux`, has
the codec write one frame into the connection in one or more `Write` calls, and releases it.
-/
import TdModel.Model.C16C17
import TdModel.Gen.C16

namespace TdModel.C16
open TdModel TdModel.Codec

/-- The codec configuration read from the source on this run. -/
def cfg : Cfg where
  maxMsg := Facts.C16.maxMessageSize
  abrThrW := Facts.C16.abrThrW
  abrThrR := Facts.C16.abrThrR
  abrMark := Facts.C16.abrMark
  abrGuard := Facts.C16.abrGuard
  fullGuard := Facts.C16.fullGuard
  fullMin := Facts.C16.fullMin
  fullOver := Facts.C16.fullOver
  padOver := Facts.C16.padOver
  tagAbridged := Facts.C16.tagAbridged
  tagIntermediate := Facts.C16.tagIntermediate
  tagPadded := Facts.C16.tagPadded

/-! ## Concurrent senders on one connection (`connection.Send`)

`Send` = `writeMux.Lock(); defer writeMux.Unlock(); …; codec.Write(conn, b)` (lock scope is a
regenerated fact).  Inside the lock the codec takes the next write counter (full protocol), and
writes the frame with one or more `conn.Write` calls, each of which may itself be split by the
connection.  Any number of senders (`Nat` ids), each with its own list of payloads. -/

structure SState where
  /-- bytes that reached the connection so far -/
  wire : Bytes
  /-- lock holder and the bytes of its frame not yet written -/
  cur : Option (Nat × Bytes)
  /-- `Full.wSeqNo` -/
  wSeq : Int
  /-- per sender: payloads whose `Send` has not started -/
  pending : Nat → List Bytes
  /-- (sender, payload) in lock-acquisition order -/
  log : List (Nat × Bytes)

inductive SAct where
  /-- sender `t` enters `Send` with its next payload and gets `writeMux` -/
  | acquire (t : Nat)
  /-- the next `n` bytes of the holder's frame reach the connection -/
  | write (t n : Nat)
  /-- the holder's `Send` returns (deferred `Unlock`) -/
  | release (t : Nat)

/-- One atomic step; `none` when the action is not enabled. `rnd i` is the random source of the
`i`-th frame written on this connection (padded intermediate). -/
def sstep (c : Cfg) (crc : Bytes → Nat) (k : Kind) (rnd : Nat → Bytes) (s : SState) : SAct → Option SState
  | .acquire t =>
    match s.cur, s.pending t with
    | none, p :: rest =>
      some { s with
        cur := some (t, encRaw c crc k s.wSeq (rnd s.log.length) p)
        wSeq := s.wSeq + 1
        pending := fun u => if u = t then rest else s.pending u
        log := s.log ++ [(t, p)] }
    | _, _ => none
  | .write t n =>
    match s.cur with
    | some (h, rem) =>
      if h = t ∧ 0 < n ∧ n ≤ rem.length then
        some { s with wire := s.wire ++ rem.take n, cur := some (h, rem.drop n) }
      else none
    | none => none
  | .release t =>
    match s.cur with
    | some (h, []) => if h = t then some { s with cur := none } else none
    | _ => none

def srun (c : Cfg) (crc : Bytes → Nat) (k : Kind) (rnd : Nat → Bytes) : SState → List SAct → Option SState
  | s, [] => some s
  | s, a :: as => match sstep c crc k rnd s a with
    | some s' => srun c crc k rnd s' as
    | none => none

def sinit (seq0 : Int) (pending : Nat → List Bytes) : SState :=
  { wire := [], cur := none, wSeq := seq0, pending := pending, log := [] }

/-- `encAll` with the random source indexed by absolute frame number. -/
def encLog (c : Cfg) (crc : Bytes → Nat) (k : Kind) (seq0 : Int) (rnd : Nat → Bytes) (ps : List Bytes) : Bytes :=
  encAll c crc k seq0 rnd ps

end TdModel.C16
