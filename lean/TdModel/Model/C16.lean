/-
C16 — the transport codecs of /repo/proto/codec and /repo/transport with the constants, guards and
tags regenerated from the current source (`TdModel.Facts.C16`).  The model itself is
`TdModel/Model/C16C17.lean` (`TdModel.Codec`): writers, panic-explicit readers, headers, detection.

This file adds the model of concurrent `connection.Send` calls: each sender takes `writeMux`, has
the codec write one frame into the connection in one or more `Write` calls, and releases it.
-/
import TdModel.Model.C16C17
import TdModel.Gen.C16

namespace TdModel.C16
open TdModel TdModel.Codec

/-- The codec configuration of this run: every function field is the translation of the Go
expression found in the current source (see the doc comments in `TdModel/Gen/C16.lean`), applied to
the unsigned view of its arguments. -/
def cfg : Cfg where
  lenRejects := fun n e => Facts.C16.lenRejects n e
  outRejects := fun l => Facts.C16.outRejects l
  misaligned := fun l => Facts.C16.misaligned l 4
  isCode := fun l => !(Facts.C16.notCode l)
  abrWords := fun l => (Facts.C16.abrWords l).toNat
  abrShort := fun w => Facts.C16.abrShort w
  abrMark := Facts.C16.abrMark
  abrLong := fun b0 => Facts.C16.abrLong b0
  abrRejects := fun n => Facts.C16.abrRejects n
  abrBytes := fun n => Facts.C16.abrBytes n
  fullRejects := fun n => Facts.C16.fullRejects n
  fullEnvelope := Facts.C16.fullOver
  fullExpand := fun n => Facts.C16.fullExpand n
  fullInnerLo := fun n => Facts.C16.fullInnerLo n
  fullInnerHi := fun n => Facts.C16.fullInnerHi n
  fullPayload := fun n => Facts.C16.fullPayload n
  fullCrcLo := fun n => Facts.C16.fullCrcLo n
  fullCrcHi := fun n => Facts.C16.fullCrcHi n
  fullCopyLo := fun n => Facts.C16.fullCopyLo n
  fullCopyHi := fun n => Facts.C16.fullCopyHi n
  fullWire := fun l => (Facts.C16.fullWire l).toNat
  fullSeqAfterCheck := Facts.C16.fullSeqAfterCheck
  padEnvelope := Facts.C16.padOver
  padOf := fun last => (Facts.C16.padOf last).toNat
  padStrip := fun n => (Facts.C16.padStrip n).toNat
  tagAbridged := Facts.C16.tagAbridged
  tagIntermediate := Facts.C16.tagIntermediate
  tagPadded := Facts.C16.tagPadded

/-! ## Concurrent senders on one connection (`connection.Send`)

`Send` = `writeMux.Lock(); defer writeMux.Unlock(); …; codec.Write(conn, b)` (lock scope is a
regenerated fact).  Inside the lock the codec takes the next write counter (full protocol), and
writes the frame with one or more `conn.Write` calls, each of which may itself be split by the
connection.  Any number of senders (`Nat` ids), each with its own list of payloads. -/

structure SState where
  /-- bytes that reached the connection so far -/
  wire : Bytes
  /-- lock holder and the bytes of its frame not yet written -/
  cur : Option (Nat × Bytes)
  /-- `Full.wSeqNo` -/
  wSeq : Int
  /-- per sender: payloads whose `Send` has not started -/
  pending : Nat → List Bytes
  /-- (sender, payload) in lock-acquisition order -/
  log : List (Nat × Bytes)

inductive SAct where
  /-- sender `t` enters `Send` with its next payload and gets `writeMux` -/
  | acquire (t : Nat)
  /-- the next `n` bytes of the holder's frame reach the connection -/
  | write (t n : Nat)
  /-- the holder's `Send` returns (deferred `Unlock`) -/
  | release (t : Nat)

/-- One atomic step; `none` when the action is not enabled. `rnd i` is the random source of the
`i`-th frame written on this connection (padded intermediate). -/
def sstep (c : Cfg) (crc : Bytes → Nat) (k : Kind) (rnd : Nat → Bytes) (s : SState) : SAct → Option SState
  | .acquire t =>
    match s.cur, s.pending t with
    | none, p :: rest =>
      some { s with
        cur := some (t, encRaw c crc k s.wSeq (rnd s.log.length) p)
        wSeq := s.wSeq + 1
        pending := fun u => if u = t then rest else s.pending u
        log := s.log ++ [(t, p)] }
    | _, _ => none
  | .write t n =>
    match s.cur with
    | some (h, rem) =>
      if h = t ∧ 0 < n ∧ n ≤ rem.length then
        some { s with wire := s.wire ++ rem.take n, cur := some (h, rem.drop n) }
      else none
    | none => none
  | .release t =>
    match s.cur with
    | some (h, []) => if h = t then some { s with cur := none } else none
    | _ => none

def srun (c : Cfg) (crc : Bytes → Nat) (k : Kind) (rnd : Nat → Bytes) : SState → List SAct → Option SState
  | s, [] => some s
  | s, a :: as => match sstep c crc k rnd s a with
    | some s' => srun c crc k rnd s' as
    | none => none

def sinit (seq0 : Int) (pending : Nat → List Bytes) : SState :=
  { wire := [], cur := none, wSeq := seq0, pending := pending, log := [] }

/-- `encAll` with the random source indexed by absolute frame number. -/
def encLog (c : Cfg) (crc : Bytes → Nat) (k : Kind) (seq0 : Int) (rnd : Nat → Bytes) (ps : List Bytes) : Bytes :=
  encAll c crc k seq0 rnd ps

end TdModel.C16
