/-
C27 — the pool model of `TdModel/Model/C27Pool.lean` instantiated with the facts regenerated from
`/repo/pool` by `harness/c27 facts`.
-/
import TdModel.Gen.C27
import TdModel.Model.C27Pool

namespace TdModel.C27
open TdModel.C27

/-- The configuration read from the current source. -/
def cfgOfSource : Cfg :=
  { handoutChecksDead := Facts.C27.handoutSites == Facts.C27.guardedHandoutSites && Facts.C27.aliveChecksDead
    createCancelReleases := Facts.C27.createCancelReleases && Facts.C27.acqCreateSelect.contains 70 &&
      !Facts.C27.acqCreateSelect.contains 71
    bgOffersWaiters := Facts.C27.bgReadyOps == [60]
    totalUnderCheck := opBefore Facts.C27.acqCreateOps 21 22 && opBefore Facts.C27.acqCreateOps 22 24 &&
      !Facts.C27.createConnOps.contains 21
    resetAlways := Facts.C27.deadOps == [1, 2, 3, 4, 5, 6] }

/-- The remaining source facts the model's atomicity assumptions rest on: `transfer` sends under the
lock, the stuck channel is captured under the pool mutex, `total++` is guarded by the limit inside
the critical section, waiter channels have capacity 1, `dead` decrements once under the mutex and
signals, `release` is one critical section. -/
def atomicityFacts : Bool :=
  Facts.C27.transferSendsUnderLock && Facts.C27.stuckCapturedUnderMu && Facts.C27.limitGuard &&
  Facts.C27.waiterChanCap1 && Facts.C27.deadOnceUnderMu && Facts.C27.releaseUnderMu &&
  -- interpreted from the regenerated operation lists
  opBefore Facts.C27.acqWaitOps 30 31 && opBefore Facts.C27.acqWaitOps 31 32 && opBefore Facts.C27.acqWaitOps 32 33 &&
  Facts.C27.acqWaitSelect.contains 82 && !Facts.C27.acqWaitSelect.contains 83 &&
  opBefore Facts.C27.acqWaitOps 40 41 && opBefore Facts.C27.acqStuckOps 40 41 &&
  opBefore Facts.C27.transferOps 50 51 && opBefore Facts.C27.transferOps 51 52 && opBefore Facts.C27.transferOps 52 54 &&
  Facts.C27.acqCreateSelect.contains 73 && !Facts.C27.acqCreateSelect.contains 74 &&
  Facts.C27.acqWaitSelect.contains 80 && !Facts.C27.acqWaitSelect.contains 81

end TdModel.C27
