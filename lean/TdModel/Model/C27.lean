/-
C27 — the pool model of `TdModel/Model/C27Pool.lean` instantiated with the facts regenerated from
`/repo/pool` by `harness/c27 facts`.
-/
import TdModel.Gen.C27
import TdModel.Model.C27Pool

namespace TdModel.C27
open TdModel.C27

/-- The configuration read from the current source. -/
def cfgOfSource : Cfg :=
  { handoutChecksDead := Facts.C27.handoutSites == Facts.C27.guardedHandoutSites && Facts.C27.aliveChecksDead
    createCancelReleases := Facts.C27.createCancelReleases }

/-- The remaining source facts the model's atomicity assumptions rest on: `transfer` sends under the
lock, the stuck channel is captured under the pool mutex, `total++` is guarded by the limit inside
the critical section, waiter channels have capacity 1, `dead` decrements once under the mutex and
signals, `release` is one critical section. -/
def atomicityFacts : Bool :=
  Facts.C27.transferSendsUnderLock && Facts.C27.stuckCapturedUnderMu && Facts.C27.limitGuard &&
  Facts.C27.waiterChanCap1 && Facts.C27.deadOnceUnderMu && Facts.C27.releaseUnderMu

end TdModel.C27
