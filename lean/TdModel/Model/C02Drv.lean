/-
C02/C03 — line protocol of the manager model (shared by Drv/C02.lean and Drv/C03.lean, each with
its own regenerated `Orders`).
-/
import TdModel.Util
import TdModel.Model.C02Mgr

namespace TdModel.C02Core
open TdModel TdModel.C01

def kindOfChar : Char → Option Kind
  | 'm' => some .msg | 'o' => some .other | 'q' => some .qts | 'r' => some .qother
  | 'M' => some .chmsg | 'O' => some .chother | 'p' => some .plain
  | 'a' => some .aff | 'A' => some .chaff | _ => none

/-- `m1:0:11:1` = kind, id, channel, pos, count; `m1:0:11:1:3`: … and the user it refers to. -/
def parseEntry (s : String) : Option Entry :=
  match s.toList with
  | [] => none
  | k :: rest =>
    match (String.ofList rest).splitOn ":" with
    | [id, ch, pos, cnt] => do
      pure { id := (← id.toNat?), kind := (← kindOfChar k), chan := (← ch.toNat?), pos := (← pos.toInt?), count := (← cnt.toInt?) }
    | [id, ch, pos, cnt, user] => do
      pure { id := (← id.toNat?), kind := (← kindOfChar k), chan := (← ch.toNat?), pos := (← pos.toInt?), count := (← cnt.toInt?),
             user := (← user.toNat?) }
    | _ => none

def parseList {α} (f : String → Option α) (sep : String) (s : String) : Option (List α) :=
  if s == "_" then some [] else (s.splitOn sep).mapM f

def parsePair (s : String) : Option (Nat × Int) :=
  match s.splitOn "=" with
  | [c, p] => do pure ((← c.toNat?), (← p.toInt?))
  | _ => none

/-- `5=5,12^4`: persisted channel pts; `^` marks a channel whose access hash is learnt late. -/
def parseStored (s : String) : Option (List (Nat × Int) × List Nat) :=
  if s == "_" then some ([], [])
  else do
    let items ← (s.splitOn ",").mapM fun it =>
      match it.splitOn "=" with
      | [c, p] => do pure ((← c.toNat?), (← p.toInt?), false)
      | _ => match it.splitOn "^" with
        | [c, p] => do pure ((← c.toNat?), (← p.toInt?), true)
        | _ => none
    pure (items.map (fun x => (x.1, x.2.1)), (items.filter (·.2.2)).map (·.1))

/-- `11~7`: channel 11 has no stored state and will first be contacted at position 7; `11^7`: the
same for a channel whose access hash is learnt late; `11!`: a channel without stored state whose
access hash is unknown and which is never contacted with a known one (it never becomes a sequence). -/
def parseCreated (s : String) : Option (List (Nat × Int) × List Nat) :=
  if s == "_" then some ([], [])
  else do
    let items ← (s.splitOn ",").mapM fun it =>
      match it.splitOn "~" with
      | [c, p] => do pure ((← c.toNat?), some (← p.toInt?), false)
      | _ => match it.splitOn "^" with
        | [c, p] => do pure ((← c.toNat?), some (← p.toInt?), true)
        | _ => match it.splitOn "!" with
          | [c, ""] => do pure ((← c.toNat?), none, true)
          | _ => none
    pure (items.filterMap (fun x => x.2.1.map fun p => (x.1, p)), (items.filter (·.2.2)).map (·.1))

def parseAction (s : String) : Option Action :=
  match s.splitOn ":" with
  | ["e", n] => do pure (.emit (← n.toNat?))
  | ["p", ids] => do pure (.push (← (ids.splitOn ",").mapM String.toNat?))
  | ["a", id] => do pure (.affected (← id.toNat?))
  | ["z", c] => do pure (.affectedZero (← c.toNat?))
  | ["T"] => some .tooLong
  | ["PC"] => some .tooLong   -- a container with updatePtsChanged: `getDifference("seq-zero-pts-changed")`
  | ["CT", c] => do pure (.chTooLong (← c.toNat?))
  | ["W"] => some .wait
  | ["F"] => some .wait
  | ["sl", n] => do pure (.slice (← n.toNat?))
  | ["csl", n] => do pure (.chSlice (← n.toNat?))
  | ["TL"] => some .tlNext
  | ["CTL", c] => do pure (.chTlNext (← c.toNat?))
  | ["ERR", k] => do pure (.failNext (← k.toNat?))
  | ["K", c] => do pure (.known (← c.toNat?))
  | ["ps", a, b, ids] => do pure (.pushSeq (← a.toNat?) (← b.toNat?) (← (ids.splitOn ",").mapM String.toNat?))
  | ["es", n] => do pure (.emitSeq (← n.toNat?))
  | ["PRIV", c] => do pure (.setPriv (← c.toNat?) true)
  | ["PUB", c] => do pure (.setPriv (← c.toNat?) false)
  | ["U", ids] => do pure (.knowUsers (← (ids.splitOn ",").mapM String.toNat?))
  | ["X", k, ids] => do pure (.extra (← k.toNat?) (← (ids.splitOn ",").mapM String.toNat?))
  | _ => none

def showInts (l : List Int) : String := ",".intercalate (l.map toString)
def showNats (l : List Nat) : String := ",".intercalate (l.map toString)

def showEvent : Event → String
  | .dispatch ids => "D:" ++ showNats ids
  | .storePts v => s!"S:pts={v}"
  | .storeQts v => s!"S:qts={v}"
  | .storeState p q => s!"S:state={p},{q}"
  | .storeChan c v => s!"S:c{c}={v}"
  | .apiDiff p q => s!"A:diff({p},{q})"
  | .apiChDiff c p => s!"A:chdiff{c}({p})"
  | .apiRestore p q => s!"A:restore({p},{q})"
  | .storeSeq v => s!"S:seq={v}"
  | .inaccessible c => s!"I:c{c}"
  | .tooLong => "L"
  | .chTooLong c => s!"L:c{c}"

def showTrace (t : List Event) : String :=
  if t.isEmpty then "_" else " ".intercalate (t.map showEvent)

def dropPrefix (s p : String) : Option String :=
  if s.startsWith p then some (s.drop p.length).toString else none

def parseEvent (s : String) : Option Event :=
  if s == "L" then some .tooLong
  else if let some r := dropPrefix s "L:c" then do pure (.chTooLong (← r.toNat?))
  else if let some r := dropPrefix s "D:" then do pure (.dispatch (← (r.splitOn ",").mapM String.toNat?))
  else if let some r := dropPrefix s "S:pts=" then do pure (.storePts (← r.toInt?))
  else if let some r := dropPrefix s "S:qts=" then do pure (.storeQts (← r.toInt?))
  else if let some r := dropPrefix s "I:c" then do pure (.inaccessible (← r.toNat?))
  else if let some r := dropPrefix s "S:seq=" then do pure (.storeSeq (← r.toInt?))
  else if let some r := dropPrefix s "S:state=" then
    match r.splitOn "," with
    | [p, q] => do pure (.storeState (← p.toInt?) (← q.toInt?))
    | _ => none
  else if let some r := dropPrefix s "S:c" then
    match r.splitOn "=" with
    | [c, v] => do pure (.storeChan (← c.toNat?) (← v.toInt?))
    | _ => none
  else if let some r := dropPrefix s "A:diff(" then
    match (r.dropEnd 1).toString.splitOn "," with
    | [p, q] => do pure (.apiDiff (← p.toInt?) (← q.toInt?))
    | _ => none
  else if let some r := dropPrefix s "A:restore(" then
    match (r.dropEnd 1).toString.splitOn "," with
    | [p, q] => do pure (.apiRestore (← p.toInt?) (← q.toInt?))
    | _ => none
  else if let some r := dropPrefix s "A:chdiff" then
    match (r.dropEnd 1).toString.splitOn "(" with
    | [c, p] => do pure (.apiChDiff (← c.toNat?) (← p.toInt?))
    | _ => none
  else none

def b2s (b : Bool) : String := if b then "1" else "0"

/-- The checks evaluated on a model run. `p0 q0 c0` = the log's origin (tiling); `fp fq fc` = the
persisted state the run started from. -/
def checksOf (O : Orders) (log : List Entry) (p0 q0 : Int) (c0 : List (Nat × Int))
    (fp fq : Int) (fc : List (Nat × Int)) (m : Mgr) : String :=
  -- `fc` here already includes the declared first contacts: every channel that is or becomes tracked
  let keys := seqKeys fc
  let mk := mkOf log
  let wf := !m.bad && scnOK log keys (initOf p0 q0 c0) && keys.all fun k =>
    wfRun (applyCfgOf O mk k) (seqLog log k) { state := initOf fp fq fc k } (opsOf m.ops k)
  let sf := keys.all fun k => safe (seqLog log k) mk (initOf fp fq fc k) [] false (projSeq log k m.trace)
  -- completeness is claimed for sequences that have a worker (a stored channel whose access hash
  -- never became known, or a channel that was never met, has none)
  let cp := keys.all fun k => (m.getBox k).isNone || complete (seqLog log k) mk (initOf fp fq fc k) (projSeq log k m.trace)
  let rf := keys.all fun k =>
    decide (projSeq log k m.trace = (srun (applyCfgOf O mk k) { state := initOf fp fq fc k } (opsOf m.ops k)).2)
  s!"wf={b2s wf} safe={b2s sf} complete={b2s cp} ref={b2s rf}"

def mgrHandle (O : Orders) (line : String) : String :=
  match words line with
  | "mgr" :: p0 :: q0 :: c0 :: fc :: cr :: log :: acts =>
    match p0.toInt?, q0.toInt?, parseList parsePair "," c0, parseStored fc, parseCreated cr, parseList parseEntry "," log,
        acts.mapM parseAction with
    | some p0, some q0, some c0, some (fc, late), some (cr, late'), some log, some acts =>
      let w : World := { log := log, p0 := p0, q0 := q0, c0 := c0, late := late ++ late', persisted := fc, cr := cr }
      let m := (Mgr.start O w p0 q0 fc).runActions O acts
      showTrace m.trace ++ " | " ++ checksOf O log p0 q0 c0 p0 q0 (fc ++ cr) m
    | _, _, _, _, _, _, _ => "bad-op"
  | "restart" :: fp :: fq :: fc :: cr :: p0 :: q0 :: c0 :: log :: acts =>
    match fp.toInt?, fq.toInt?, parseStored fc, parseCreated cr, p0.toInt?, q0.toInt?, parseList parsePair "," c0,
        parseList parseEntry "," log, acts.mapM parseAction with
    | some fp, some fq, some (fc, late), some (cr, late'), some p0, some q0, some c0, some log, some acts =>
      let w : World := { log := log, p0 := p0, q0 := q0, c0 := c0, emitted := log.length, late := late ++ late', persisted := fc, cr := cr }
      let m := (Mgr.start O w fp fq fc).runActions O acts
      showTrace m.trace ++ " | " ++ checksOf O log p0 q0 c0 fp fq (fc ++ cr) m
    | _, _, _, _, _, _, _, _, _ => "bad-op"
  | "check" :: fp :: fq :: fc :: cr :: c0 :: log :: evs =>
    -- the properties evaluated on a trace of the implementation
    match fp.toInt?, fq.toInt?, parseStored fc, parseCreated cr, parseList parsePair "," c0, parseList parseEntry "," log,
        (evs.filter (· != "_")).mapM parseEvent with
    | some fp, some fq, some (fc, _), some (cr, _), some _, some log, some tr =>
      let keys := seqKeys (fc ++ cr)
      let sf := keys.all fun k => safe (seqLog log k) (mkOf log) (initOf fp fq (fc ++ cr) k) [] false (projSeq log k tr)
      let cp := keys.all fun k => complete (seqLog log k) (mkOf log) (initOf fp fq (fc ++ cr) k) (projSeq log k tr)
      s!"safe={b2s sf} complete={b2s cp}"
    | _, _, _, _, _, _, _ => "bad-op"
  | op :: p0 :: q0 :: c0 :: fc :: cr :: log :: acts =>
    -- `first:<n>`: the storage holds no common state; `n` log entries have happened before the
    -- client starts, the server's state at that moment is what it starts from
    match dropPrefix op "first:", p0.toInt?, q0.toInt?, parseList parsePair "," c0, parseStored fc, parseCreated cr,
        parseList parseEntry "," log, acts.mapM parseAction with
    | some pre, some p0, some q0, some c0, some (fc, late), some (cr, late'), some log, some acts =>
      match pre.toNat? with
      | some pre =>
        let w : World := { log := log, p0 := p0, q0 := q0, c0 := c0, emitted := min pre log.length, late := late ++ late',
                           persisted := fc, cr := cr }
        let m := (Mgr.start O w w.serverPts w.serverQts fc true).runActions O acts
        showTrace m.trace ++ " | " ++ checksOf O log p0 q0 c0 w.serverPts w.serverQts (fc ++ cr) m
      | none => "bad-op"
    | _, _, _, _, _, _, _, _ => "bad-op"
  | _ => "bad-op"

end TdModel.C02Core
