/-
Model of /repo/bin (TL primitive (de)serialisation).

`bin.Buffer` is modelled by "the remaining bytes"; every decoder returns the value and the
rest.  Integers are `Nat` (unsigned view) — the signed views used by the Go API
(`int32(v)`, `int64(v)`) are bijections on the same bit patterns, so round-trip statements
are made on the unsigned value and `toInt32/ofInt32` are provided for the drivers.

Error classes mirror the Go errors: `eof` = io.ErrUnexpectedEOF, `invalidLength` =
*bin.InvalidLengthError, `unexpectedID` = *bin.UnexpectedIDErr.
-/
import TdModel.Util

namespace TdModel.Bin
open TdModel

inductive Err where
  | eof
  | invalidLength
  | unexpectedID
  | other (msg : String)
  deriving Repr, DecidableEq, BEq

def Err.tag : Err → String
  | .eof => "eof"
  | .invalidLength => "invalid-length"
  | .unexpectedID => "unexpected-id"
  | .other m => "other:" ++ m

abbrev Res (α : Type) := Except Err (α × Bytes)

/-- Little-endian encoding of `n` on `k` bytes (`binary.LittleEndian.PutUintXX`). -/
def leN : Nat → Nat → Bytes
  | 0, _ => []
  | k+1, n => UInt8.ofNat (n % 256) :: leN k (n / 256)

/-- Little-endian value of a byte string (`binary.LittleEndian.UintXX`). -/
def fromLE : Bytes → Nat
  | [] => 0
  | b :: bs => b.toNat + 256 * fromLE bs

def word : Nat := 4

/-- `bin.nearestPaddedValueLength`. -/
def padded (l : Nat) : Nat :=
  let n := word * (l / word)
  if n < l then n + word else n

def zeros (n : Nat) : Bytes := List.replicate n 0

/-- `Buffer.PutUint32` / `PutInt32` / `PutInt` / `PutID` (value taken modulo 2^32). -/
def putU32 (v : Nat) : Bytes := leN 4 v
/-- `Buffer.PutUint64` / `PutLong` / `PutDouble` (bit pattern). -/
def putU64 (v : Nat) : Bytes := leN 8 v

def maxSmall : Nat := 253
def firstLong : Nat := 254

/-- `bin.encodeBytes` / `encodeString` (identical code on the byte content). -/
def putBytes (v : Bytes) : Bytes :=
  let l := v.length
  if l ≤ maxSmall then
    UInt8.ofNat l :: v ++ zeros (padded (l + 1) - (l + 1))
  else
    UInt8.ofNat firstLong :: UInt8.ofNat l :: UInt8.ofNat (l / 256) :: UInt8.ofNat (l / 65536) :: v
      ++ zeros (padded (l + 4) - (l + 4))

def typeTrue : Nat := 0x997275b5
def typeFalse : Nat := 0xbc799737
def typeVector : Nat := 0x1cb5c415

def putBool (b : Bool) : Bytes := putU32 (if b then typeTrue else typeFalse)

def putVectorHeader (n : Nat) : Bytes := putU32 typeVector ++ putU32 n

/-- Consume exactly `n` bytes or fail with `eof` (`ConsumeN`, `Int128`, `Int256`). -/
def getN (n : Nat) (b : Bytes) : Res Bytes :=
  if b.length < n then .error .eof else .ok (b.take n, b.drop n)

def getU32 (b : Bytes) : Res Nat :=
  if b.length < 4 then .error .eof else .ok (fromLE (b.take 4), b.drop 4)

def getU64 (b : Bytes) : Res Nat :=
  if b.length < 8 then .error .eof else .ok (fromLE (b.take 8), b.drop 8)

/-- `bin.decodeBytes`: returns (consumed length, value). -/
def decodeBytes (b : Bytes) : Except Err (Nat × Bytes) :=
  match b with
  | [] => .error .eof
  | b0 :: _ =>
    if b0.toNat = firstLong then
      if b.length < 4 then .error .eof
      else
        let strLen := fromLE ((b.drop 1).take 3)
        if b.length < strLen + 4 then .error .eof
        else .ok (padded (strLen + 4), (b.drop 4).take strLen)
    else
      let strLen := b0.toNat
      if b.length < strLen + 1 then .error .eof
      else if strLen > maxSmall then .error .invalidLength
      else .ok (padded (strLen + 1), (b.drop 1).take strLen)

/-- `Buffer.Bytes` / `Buffer.String`. -/
def getBytes (b : Bytes) : Res Bytes :=
  match decodeBytes b with
  | .error e => .error e
  | .ok (n, v) => if b.length < n then .error .eof else .ok (v, b.drop n)

def getBool (b : Bytes) : Res Bool :=
  if b.length < 4 then .error .eof
  else
    let v := fromLE (b.take 4)
    if v = typeTrue then .ok (true, b.drop 4)
    else if v = typeFalse then .ok (false, b.drop 4)
    else .error .unexpectedID

/-- `Buffer.ConsumeID`. -/
def consumeID (id : Nat) (b : Bytes) : Res Unit :=
  if b.length < 4 then .error .eof
  else if fromLE (b.take 4) = id then .ok ((), b.drop 4) else .error .unexpectedID

def toInt32 (v : Nat) : Int := if v < 2^31 then (v : Int) else (v : Int) - 2^32
def ofInt32 (i : Int) : Nat := (i % 2^32).toNat
def toInt64 (v : Nat) : Int := if v < 2^63 then (v : Int) else (v : Int) - 2^64
def ofInt64 (i : Int) : Nat := (i % 2^64).toNat

/-- `Buffer.VectorHeader`: id, then a non-negative int32 length. -/
def getVectorHeader (b : Bytes) : Res Nat :=
  match consumeID typeVector b with
  | .error e => .error e
  | .ok (_, r) =>
    match getU32 r with
    | .error e => .error e
    | .ok (n, r') => if toInt32 n < 0 then .error .invalidLength else .ok (n, r')

/-! ### Extensions for C20/C22 (signed views, 128/256-bit ints, double, header of the bytes form) -/

/-- `Buffer.PutInt32` / `PutInt` (Go converts with `int32(v)`, i.e. modulo 2^32). -/
def putInt32 (i : Int) : Bytes := putU32 (ofInt32 i)
/-- `Buffer.PutLong` / `PutInt53`. -/
def putInt64 (i : Int) : Bytes := putU64 (ofInt64 i)
/-- `Buffer.PutDouble`: the value is its IEEE-754 bit pattern (`math.Float64bits`). -/
def putDouble (bits : Nat) : Bytes := putU64 bits
/-- `Buffer.PutInt128` (`v` is the 16-byte array). -/
def putInt128 (v : Bytes) : Bytes := v
/-- `Buffer.PutInt256` (`v` is the 32-byte array). -/
def putInt256 (v : Bytes) : Bytes := v
/-- `Buffer.PutString`: `encodeString` is `encodeBytes` on the string's bytes. -/
def putString (v : Bytes) : Bytes := putBytes v
/-- `Buffer.Put`. -/
def putRaw (v : Bytes) : Bytes := v

def int128Size : Nat := 16
def int256Size : Nat := 32

/-- `Buffer.Int32` / `Buffer.Int`. -/
def getInt32 (b : Bytes) : Res Int :=
  match getU32 b with
  | .error e => .error e
  | .ok (v, r) => .ok (toInt32 v, r)

/-- `Buffer.Long` / `Buffer.Int53`. -/
def getInt64 (b : Bytes) : Res Int :=
  match getU64 b with
  | .error e => .error e
  | .ok (v, r) => .ok (toInt64 v, r)

/-- `Buffer.Double` (bit pattern of the result). -/
def getDouble (b : Bytes) : Res Nat := getU64 b
/-- `Buffer.Int128`. -/
def getInt128 (b : Bytes) : Res Bytes := getN int128Size b
/-- `Buffer.Int256`. -/
def getInt256 (b : Bytes) : Res Bytes := getN int256Size b
/-- `Buffer.String`. -/
def getString (b : Bytes) : Res Bytes := getBytes b

/-- The length prefix written by `encodeBytes`/`encodeString` for a value of `l` bytes. -/
def bytesHeader (l : Nat) : Bytes :=
  if l ≤ maxSmall then [UInt8.ofNat l]
  else [UInt8.ofNat firstLong, UInt8.ofNat l, UInt8.ofNat (l / 256), UInt8.ofNat (l / 65536)]

/-- Number of zero bytes appended after a value of `l` bytes. -/
def bytesPad (l : Nat) : Nat :=
  if l ≤ maxSmall then padded (l + 1) - (l + 1) else padded (l + 4) - (l + 4)

/-- Bytes consumed by a decoder: input length minus what is left. -/
def consumed (input rest : Bytes) : Nat := input.length - rest.length

/-! ### Panic-explicit layer

Go slice expressions, indexing, `binary.LittleEndian.UintXX` and `make` panic when their bounds
are violated.  `Out` adds that third outcome; the `go*` primitives below carry exactly Go's checks
(with `len` in place of `cap` for the upper bound of a slice expression, which is the stricter
reading).  The `…P` decoders transliterate /repo/bin/decode.go, string.go, bytes.go statement by
statement *using only these primitives*, so "the decoder never panics" is the theorem
`…P b = Out.ofExcept (… b)` (Lemmas/Bin.lean): the bounds checks written in the Go code are
sufficient for every slice operation that follows them. -/

inductive Out (α : Type) where
  | ok (a : α)
  | err (e : Err)
  | panic
  deriving Repr, DecidableEq

def Out.bind {α β : Type} (x : Out α) (f : α → Out β) : Out β :=
  match x with
  | .ok a => f a
  | .err e => .err e
  | .panic => .panic

instance : Monad Out where
  pure := Out.ok
  bind := Out.bind

def Out.ofExcept {α : Type} : Except Err α → Out α
  | .ok a => .ok a
  | .error e => .err e

def Out.isPanic {α : Type} : Out α → Bool
  | .panic => true
  | _ => false

/-- `b[i]`. -/
def goIdx (b : Bytes) (i : Nat) : Out UInt8 :=
  match b[i]? with
  | some x => .ok x
  | none => .panic

/-- `b[lo:]`. -/
def goFrom (b : Bytes) (lo : Nat) : Out Bytes :=
  if lo ≤ b.length then .ok (b.drop lo) else .panic

/-- `b[lo:hi]`. -/
def goSlice (b : Bytes) (lo hi : Nat) : Out Bytes :=
  if lo ≤ hi ∧ hi ≤ b.length then .ok ((b.drop lo).take (hi - lo)) else .panic

/-- `binary.LittleEndian.Uint32(b)` (`_ = b[3]`). -/
def goLE32 (b : Bytes) : Out Nat :=
  if 4 ≤ b.length then .ok (fromLE (b.take 4)) else .panic

/-- `binary.LittleEndian.Uint64(b)` (`_ = b[7]`). -/
def goLE64 (b : Bytes) : Out Nat :=
  if 8 ≤ b.length then .ok (fromLE (b.take 8)) else .panic

/-- `make([]byte, n)` for a Go `int` `n`: panics for a negative length; the result is `n` zero
bytes, represented by its length (the executable model must not materialise a buffer just to
overwrite it). -/
def goMake (n : Int) : Out Nat :=
  if n < 0 then .panic else .ok n.toNat

/-- `Buffer.PeekID`. -/
def peekIDP (b : Bytes) : Out Nat :=
  if b.length < word then .err .eof else goLE32 b

/-- `Buffer.Uint32` / `ID`. -/
def getU32P (b : Bytes) : Out (Nat × Bytes) := do
  let v ← peekIDP b
  let r ← goFrom b word
  pure (v, r)

/-- `Buffer.Uint64`. -/
def getU64P (b : Bytes) : Out (Nat × Bytes) :=
  if b.length < word * 2 then .err .eof
  else do
    let v ← goLE64 b
    let r ← goFrom b (word * 2)
    pure (v, r)

/-- `Buffer.Int32` / `Int`. -/
def getInt32P (b : Bytes) : Out (Int × Bytes) := do
  let (v, r) ← getU32P b
  pure (toInt32 v, r)

/-- `Buffer.Long` / `Int53`. -/
def getInt64P (b : Bytes) : Out (Int × Bytes) := do
  let (v, r) ← getU64P b
  pure (toInt64 v, r)

/-- `Buffer.Bool`. -/
def getBoolP (b : Bytes) : Out (Bool × Bytes) := do
  let v ← peekIDP b
  if v = typeTrue then
    let r ← goFrom b word
    pure (true, r)
  else if v = typeFalse then
    let r ← goFrom b word
    pure (false, r)
  else .err .unexpectedID

/-- `Buffer.ConsumeID`. -/
def consumeIDP (id : Nat) (b : Bytes) : Out (Unit × Bytes) := do
  let v ← peekIDP b
  if v = id then
    let r ← goFrom b word
    pure ((), r)
  else .err .unexpectedID

/-- `Buffer.VectorHeader`. -/
def getVectorHeaderP (b : Bytes) : Out (Nat × Bytes) := do
  let (_, r) ← consumeIDP typeVector b
  let (n, r') ← getU32P r
  if toInt32 n < 0 then .err .invalidLength else pure (n, r')

/-- `Buffer.PeekN` + `ConsumeN` / `Int128` / `Int256` (`copy(dst, b.Buf[:n])`, `b.Buf[n:]`). -/
def getNP (n : Nat) (b : Bytes) : Out (Bytes × Bytes) :=
  if b.length < n then .err .eof
  else do
    let v ← goSlice b 0 n
    let r ← goFrom b n
    pure (v, r)

/-- `bin.decodeBytes` / `decodeString`. -/
def decodeBytesP (b : Bytes) : Out (Nat × Bytes) :=
  if b.length = 0 then .err .eof
  else do
    let b0 ← goIdx b 0
    if b0.toNat = firstLong then
      if b.length < 4 then .err .eof
      else do
        let b1 ← goIdx b 1
        let b2 ← goIdx b 2
        let b3 ← goIdx b 3
        let strLen := b1.toNat + 256 * (b2.toNat + 256 * b3.toNat)
        if b.length < strLen + 4 then .err .eof
        else do
          let v ← goSlice b 4 (strLen + 4)
          pure (padded (strLen + 4), v)
    else
      let strLen := b0.toNat
      if b.length < strLen + 1 then .err .eof
      else if strLen > maxSmall then .err .invalidLength
      else do
        let v ← goSlice b 1 (strLen + 1)
        pure (padded (strLen + 1), v)

/-- `Buffer.Bytes` / `Buffer.String`. -/
def getBytesP (b : Bytes) : Out (Bytes × Bytes) := do
  let (n, v) ← decodeBytesP b
  if b.length < n then .err .eof
  else do
    let r ← goFrom b n
    pure (v, r)

end TdModel.Bin
