/-
Model of /repo/bin (TL primitive (de)serialisation).

`bin.Buffer` is modelled by "the remaining bytes"; every decoder returns the value and the
rest.  Integers are `Nat` (unsigned view) — the signed views used by the Go API
(`int32(v)`, `int64(v)`) are bijections on the same bit patterns, so round-trip statements
are made on the unsigned value and `toInt32/ofInt32` are provided for the drivers.

Error classes mirror the Go errors: `eof` = io.ErrUnexpectedEOF, `invalidLength` =
*bin.InvalidLengthError, `unexpectedID` = *bin.UnexpectedIDErr.
-/
import TdModel.Util

namespace TdModel.Bin
open TdModel

inductive Err where
  | eof
  | invalidLength
  | unexpectedID
  | other (msg : String)
  deriving Repr, DecidableEq, BEq

def Err.tag : Err → String
  | .eof => "eof"
  | .invalidLength => "invalid-length"
  | .unexpectedID => "unexpected-id"
  | .other m => "other:" ++ m

abbrev Res (α : Type) := Except Err (α × Bytes)

/-- Little-endian encoding of `n` on `k` bytes (`binary.LittleEndian.PutUintXX`). -/
def leN : Nat → Nat → Bytes
  | 0, _ => []
  | k+1, n => UInt8.ofNat (n % 256) :: leN k (n / 256)

/-- Little-endian value of a byte string (`binary.LittleEndian.UintXX`). -/
def fromLE : Bytes → Nat
  | [] => 0
  | b :: bs => b.toNat + 256 * fromLE bs

def word : Nat := 4

/-- `bin.nearestPaddedValueLength`. -/
def padded (l : Nat) : Nat :=
  let n := word * (l / word)
  if n < l then n + word else n

def zeros (n : Nat) : Bytes := List.replicate n 0

/-- `Buffer.PutUint32` / `PutInt32` / `PutInt` / `PutID` (value taken modulo 2^32). -/
def putU32 (v : Nat) : Bytes := leN 4 v
/-- `Buffer.PutUint64` / `PutLong` / `PutDouble` (bit pattern). -/
def putU64 (v : Nat) : Bytes := leN 8 v

def maxSmall : Nat := 253
def firstLong : Nat := 254

/-- `bin.encodeBytes` / `encodeString` (identical code on the byte content). -/
def putBytes (v : Bytes) : Bytes :=
  let l := v.length
  if l ≤ maxSmall then
    UInt8.ofNat l :: v ++ zeros (padded (l + 1) - (l + 1))
  else
    UInt8.ofNat firstLong :: UInt8.ofNat l :: UInt8.ofNat (l / 256) :: UInt8.ofNat (l / 65536) :: v
      ++ zeros (padded (l + 4) - (l + 4))

def typeTrue : Nat := 0x997275b5
def typeFalse : Nat := 0xbc799737
def typeVector : Nat := 0x1cb5c415

def putBool (b : Bool) : Bytes := putU32 (if b then typeTrue else typeFalse)

def putVectorHeader (n : Nat) : Bytes := putU32 typeVector ++ putU32 n

/-- Consume exactly `n` bytes or fail with `eof` (`ConsumeN`, `Int128`, `Int256`). -/
def getN (n : Nat) (b : Bytes) : Res Bytes :=
  if b.length < n then .error .eof else .ok (b.take n, b.drop n)

def getU32 (b : Bytes) : Res Nat :=
  if b.length < 4 then .error .eof else .ok (fromLE (b.take 4), b.drop 4)

def getU64 (b : Bytes) : Res Nat :=
  if b.length < 8 then .error .eof else .ok (fromLE (b.take 8), b.drop 8)

/-- `bin.decodeBytes`: returns (consumed length, value). -/
def decodeBytes (b : Bytes) : Except Err (Nat × Bytes) :=
  match b with
  | [] => .error .eof
  | b0 :: _ =>
    if b0.toNat = firstLong then
      if b.length < 4 then .error .eof
      else
        let strLen := fromLE ((b.drop 1).take 3)
        if b.length < strLen + 4 then .error .eof
        else .ok (padded (strLen + 4), (b.drop 4).take strLen)
    else
      let strLen := b0.toNat
      if b.length < strLen + 1 then .error .eof
      else if strLen > maxSmall then .error .invalidLength
      else .ok (padded (strLen + 1), (b.drop 1).take strLen)

/-- `Buffer.Bytes` / `Buffer.String`. -/
def getBytes (b : Bytes) : Res Bytes :=
  match decodeBytes b with
  | .error e => .error e
  | .ok (n, v) => if b.length < n then .error .eof else .ok (v, b.drop n)

def getBool (b : Bytes) : Res Bool :=
  if b.length < 4 then .error .eof
  else
    let v := fromLE (b.take 4)
    if v = typeTrue then .ok (true, b.drop 4)
    else if v = typeFalse then .ok (false, b.drop 4)
    else .error .unexpectedID

/-- `Buffer.ConsumeID`. -/
def consumeID (id : Nat) (b : Bytes) : Res Unit :=
  if b.length < 4 then .error .eof
  else if fromLE (b.take 4) = id then .ok ((), b.drop 4) else .error .unexpectedID

def toInt32 (v : Nat) : Int := if v < 2^31 then (v : Int) else (v : Int) - 2^32
def ofInt32 (i : Int) : Nat := (i % 2^32).toNat
def toInt64 (v : Nat) : Int := if v < 2^63 then (v : Int) else (v : Int) - 2^64
def ofInt64 (i : Int) : Nat := (i % 2^64).toNat

/-- `Buffer.VectorHeader`: id, then a non-negative int32 length. -/
def getVectorHeader (b : Bytes) : Res Nat :=
  match consumeID typeVector b with
  | .error e => .error e
  | .ok (_, r) =>
    match getU32 r with
    | .error e => .error e
    | .ok (n, r') => if toInt32 n < 0 then .error .invalidLength else .ok (n, r')

end TdModel.Bin
