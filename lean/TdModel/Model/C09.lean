/-
C09 / C10 — message-level model of the MTProto key exchange in /repo/exchange:
`ClientExchange.Run` (client_flow.go) and `ServerExchange.Run` (server_flow.go), with
`crypto.TempAESKeys`, `crypto.NonceHash1`, `crypto.ServerSalt`, `crypto.Key.ID`,
`crypto.CheckDH/CheckGP/CheckDHParams` restated on `Nat`.

Messages are abstract TL values; `*big.Int` values are `Nat` (`SetBytes` of the wire bytes);
nonces and hashes are raw byte strings.  The composite cryptographic operations are *parameters*
(`XP`): RSA_PAD encryption of `p_q_inner_data` under the key with a given fingerprint, the
SHA1+AES-IGE "answer" encryption of `server_DH_inner_data` / `client_DH_inner_data`, SHA-1, the
primality test and the factorisation.  Their round-trip laws (`LawfulXP`) are what C11/C14 prove for
the byte-level code; nothing else about them is assumed.  `Ct` is the type of ciphertexts.

The random streams of both sides are explicit tapes.
-/
import TdModel.Util
import TdModel.Gen.C09

namespace TdModel.C09
open TdModel

/-! ## arithmetic and byte helpers -/

/-- `big.Int.Exp(b, e, m)` for `m > 0`: square-and-multiply. -/
def powMod (b e m : Nat) : Nat :=
  if h : e = 0 then 1 % m
  else
    let r := powMod b (e / 2) m
    let s := r * r % m
    if e % 2 = 1 then s * (b % m) % m else s
termination_by e
decreasing_by omega

/-- Big-endian bytes of `n`, exactly `len` bytes (`big.Int.FillBytes`; high part dropped if too big). -/
def natToBE : Nat → Nat → Bytes
  | 0, _ => []
  | len + 1, n => natToBE len (n / 256) ++ [UInt8.ofNat (n % 256)]

def xorBytes (a b : Bytes) : Bytes := List.zipWith (· ^^^ ·) a b

/-- `crypto.TempAESKeys` (nonces at their full fixed length): `(tmp_aes_key, tmp_aes_iv)`. -/
def tempAESKeys (sha1 : Bytes → Bytes) (newNonce serverNonce : Bytes) : Bytes × Bytes :=
  let a := sha1 (newNonce ++ serverNonce)
  let b := sha1 (serverNonce ++ newNonce)
  let c := sha1 (newNonce ++ newNonce)
  (a ++ b.take 12, (b.drop 12).take 8 ++ c ++ newNonce.take 4)

/-- `crypto.NonceHash1(newNonce, key)`; `key` = the 256 key bytes. -/
def nonceHash1 (sha1 : Bytes → Bytes) (newNonce key : Bytes) : Bytes :=
  ((sha1 (newNonce ++ [1] ++ (sha1 key).take 8)).drop 4).take 16

/-- `crypto.ServerSalt`: the 8 bytes `newNonce[0:8] xor serverNonce[0:8]` (read little-endian by Go). -/
def serverSalt (newNonce serverNonce : Bytes) : Bytes :=
  xorBytes (newNonce.take 8) (serverNonce.take 8)

/-- `crypto.Key.ID`: `sha1(key)[12:20]`. -/
def keyID (sha1 : Bytes → Bytes) (key : Bytes) : Bytes := (sha1 key).drop 12

/-- The 256 bytes of an auth key value (`authKey.FillBytes(key[:])`). -/
def keyBytes (k : Nat) : Bytes := natToBE 256 k

/-! ## DH parameter checks (crypto/check_gp.go, check_dh.go, dh.go) -/

def bitLen (n : Nat) : Nat := if n = 0 then 0 else n.log2 + 1

/-- `crypto.CheckGP`, interpreting the switch table regenerated from the source: `g` must have a
row `(g, divider, residues)` and `p mod divider` must be one of the residues. -/
def checkGP (g : Int) (p : Nat) : Bool :=
  match Facts.C09.gpTable.find? (fun r => (r.1 : Int) == g) with
  | some (_, d, rs) => rs.contains (p % d)
  | none => false

/-- `crypto.CheckDH`; `isPrime` = `crypto.Prime` (`ProbablyPrime(64)`). -/
def checkDH (isPrime : Nat → Bool) (g : Int) (p : Nat) : Bool :=
  bitLen p == Facts.C09.rsaKeyBits && checkGP g p && isPrime p && isPrime ((p - 1) / 2)

/-- `crypto.InRange`: `lo < x < hi`. -/
def inRange (x lo hi : Nat) : Bool := decide (lo < x) && decide (x < hi)

/-- `2^{2048-64}`. -/
def safetyMin : Nat := 2 ^ (Facts.C09.rsaKeyBits - 64)

/-- The values `crypto.CheckDHParams` tests, by their Go names. -/
def dhVal (g gA gB : Nat) : String → Option Nat
  | "g" => some g
  | "gA" => some gA
  | "gB" => some gB
  | _ => none

/-- The bounds of `crypto.CheckDHParams`, by their Go names (definitions pinned in Props). -/
def dhBnd (p : Nat) : String → Option Nat
  | "one" => some 1
  | "dhPrimeMinusOne" => some (p - 1)
  | "safetyRangeMin" => some safetyMin
  | "safetyRangeMax" => some (p - safetyMin)
  | _ => none

/-- `crypto.CheckDHParams(dhPrime, g, gA, gB)`, interpreting the list of `InRange` tests
regenerated from the source (which value against which bounds), for `dhPrime ≥ 2^2047`
(established by `checkDH` before it is called, so the `Nat` subtractions do not truncate).
An unknown name makes the check fail (and the theorems about it unprovable). -/
def checkDHParams (p g gA gB : Nat) : Bool :=
  Facts.C09.dhParamChecks.all fun r =>
    match dhVal g gA gB r.1, dhBnd p r.2.1, dhBnd p r.2.2 with
    | some x, some lo, some hi => inRange x lo hi
    | _, _, _ => false

/-! ## abstract TL payloads and messages -/

/-- `p_q_inner_data_dc` / `p_q_inner_data_temp_dc`. -/
structure PQInner where
  temp : Bool
  pq : Nat
  p : Nat
  q : Nat
  nonce : Bytes
  serverNonce : Bytes
  newNonce : Bytes
  dc : Int
  expiresIn : Int
  deriving Repr, DecidableEq

/-- `server_DH_inner_data`. -/
structure SInner where
  nonce : Bytes
  serverNonce : Bytes
  g : Int
  dhPrime : Nat
  gA : Nat
  serverTime : Int
  deriving Repr, DecidableEq

/-- `client_DH_inner_data`. -/
structure CInner where
  nonce : Bytes
  serverNonce : Bytes
  retryId : Int
  gB : Nat
  deriving Repr, DecidableEq

inductive Msg (Ct : Type) where
  | reqPQ (nonce : Bytes)
  | resPQ (nonce serverNonce : Bytes) (pq : Nat) (fps : List Nat)
  | reqDH (nonce serverNonce : Bytes) (p q fp : Nat) (enc : Ct)
  | dhOk (nonce serverNonce : Bytes) (answer : Ct)
  | dhFail (nonce serverNonce hash : Bytes)
  | setDH (nonce serverNonce : Bytes) (enc : Ct)
  | genOk (nonce serverNonce hash1 : Bytes)
  | genRetry (nonce serverNonce hash2 : Bytes)
  | genFail (nonce serverNonce hash3 : Bytes)
  /-- anything the receiving side cannot decode as the message it waits for
  (wrong constructor id, truncated, bad message-id type). -/
  | junk
  deriving DecidableEq

/-- The composite primitives, as parameters. -/
structure XP (Ct : Type) where
  sha1 : Bytes → Bytes
  /-- `crypto.Prime`. -/
  isPrime : Nat → Bool
  /-- `crypto.DecomposePQ`. -/
  factor : Nat → Option (Nat × Nat)
  /-- TL-encode + `crypto.RSAPad` under the public key with fingerprint `fp`; `pad` = random tape. -/
  rsaEnc : (fp : Nat) → PQInner → (pad : Nat) → Ct
  /-- `crypto.DecodeRSAPad` with the private key of fingerprint `fp` + TL-decode. -/
  rsaDec : (fp : Nat) → Ct → Option PQInner
  /-- TL-encode + `crypto.EncryptExchangeAnswer(key, iv)`. -/
  encS : Bytes × Bytes → SInner → (pad : Nat) → Ct
  /-- `crypto.DecryptExchangeAnswer(key, iv)` + TL-decode. -/
  decS : Bytes × Bytes → Ct → Option SInner
  encC : Bytes × Bytes → CInner → (pad : Nat) → Ct
  decC : Bytes × Bytes → Ct → Option CInner

structure LawfulXP {Ct : Type} (P : XP Ct) : Prop where
  rsa_dec_enc : ∀ fp d pad, P.rsaDec fp (P.rsaEnc fp d pad) = some d
  decS_encS : ∀ k d pad, P.decS k (P.encS k d pad) = some d
  decC_encC : ∀ k d pad, P.decC k (P.encC k d pad) = some d

/-! ## client (exchange/client_flow.go) -/

structure CCfg where
  /-- fingerprints of the trusted public keys, in the client's order -/
  keys : List Nat
  dc : Int
  temp : Bool
  expiresIn : Int
  deriving Repr

/-- The client's random stream, in the order it is consumed. -/
structure CTape where
  nonce : Bytes
  newNonce : Bytes
  rsaPad : Nat
  b : Nat
  ansPad : Nat
  sessionId : Nat
  deriving Repr

inductive CErr where
  | resNonce | noKey | badPQ | factor | junk
  | dhNonce | dhServerNonce | decrypt | innerNonce | innerServerNonce | checkDH | dhParams | dhFail
  | genNonce | genServerNonce | hash | retry | genFail
  deriving Repr, DecidableEq

def CErr.tag : CErr → String
  | .resNonce => "res-nonce" | .noKey => "no-key" | .badPQ => "bad-pq" | .factor => "factor" | .junk => "junk"
  | .dhNonce => "dh-nonce" | .dhServerNonce => "dh-server-nonce" | .decrypt => "decrypt"
  | .innerNonce => "inner-nonce" | .innerServerNonce => "inner-server-nonce" | .checkDH => "check-dh"
  | .dhParams => "dh-params" | .dhFail => "dh-fail" | .genNonce => "gen-nonce"
  | .genServerNonce => "gen-server-nonce" | .hash => "hash" | .retry => "retry" | .genFail => "gen-fail"

/-- `ClientExchangeResult` (`ExpiresAt` is clock-dependent and left out). -/
structure CResult where
  key : Nat
  salt : Bytes
  sessionId : Nat
  deriving Repr, DecidableEq

inductive CState where
  | waitResPQ
  | waitDH (serverNonce : Bytes)
  | waitGen (serverNonce : Bytes) (authKey : Nat)
  | done (r : CResult)
  | failed (e : CErr)
  deriving Repr, DecidableEq

/-- "Selecting first public key that match fingerprint". -/
def selectKey (keys fps : List Nat) : Option Nat := keys.find? (fun k => fps.contains k)

/-- `pqMax = 2^63`; `pq.Cmp(pqMax) > 0` is refused. -/
def pqMax : Nat := 2 ^ Facts.C09.pqMaxExp

/-- Step 2–4: ResPQ received. -/
def onResPQ {Ct} (P : XP Ct) (cfg : CCfg) (t : CTape) : Msg Ct → CState × Option (Msg Ct)
  | .resPQ n sn pq fps =>
    if n ≠ t.nonce then (.failed .resNonce, none)
    else match selectKey cfg.keys fps with
      | none => (.failed .noKey, none)
      | some fp =>
        if pq > pqMax then (.failed .badPQ, none)
        -- pq ≤ 1 or prime cannot be decomposed (`pq.Cmp(big.NewInt(1)) <= 0 || pq.ProbablyPrime(0)`;
        -- the primality oracle is exact on this range)
        else if pq ≤ 1 ∨ P.isPrime pq = true then (.failed .badPQ, none)
        else match P.factor pq with
          | none => (.failed .factor, none)
          | some (p, q) =>
            let inner : PQInner := ⟨cfg.temp, pq, p, q, t.nonce, sn, t.newNonce, cfg.dc, if cfg.temp then cfg.expiresIn else 0⟩
            (.waitDH sn, some (.reqDH t.nonce sn p q fp (P.rsaEnc fp inner t.rsaPad)))
  | _ => (.failed .junk, none)

/-- Step 5–6: Server_DH_Params received. -/
def onDHParams {Ct} (P : XP Ct) (t : CTape) (sn : Bytes) : Msg Ct → CState × Option (Msg Ct)
  | .dhOk n sn' ans =>
    if n ≠ t.nonce then (.failed .dhNonce, none)
    else if sn' ≠ sn then (.failed .dhServerNonce, none)
    else
      let k := tempAESKeys P.sha1 t.newNonce sn
      match P.decS k ans with
      | none => (.failed .decrypt, none)
      | some d =>
        if d.nonce ≠ t.nonce then (.failed .innerNonce, none)
        else if d.serverNonce ≠ sn then (.failed .innerServerNonce, none)
        else if !checkDH P.isPrime d.g d.dhPrime then (.failed .checkDH, none)
        else
          let g := d.g.toNat
          let gB := powMod g t.b d.dhPrime
          if !checkDHParams d.dhPrime g d.gA gB then (.failed .dhParams, none)
          else
            let ci : CInner := ⟨d.nonce, d.serverNonce, 0, gB⟩
            (.waitGen sn (powMod d.gA t.b d.dhPrime), some (.setDH t.nonce sn (P.encC k ci t.ansPad)))
  | .dhFail _ _ _ => (.failed .dhFail, none)
  | _ => (.failed .junk, none)

/-- Step 7–9: Set_client_DH_params_answer received. -/
def onDhGen {Ct} (P : XP Ct) (t : CTape) (sn : Bytes) (authKey : Nat) : Msg Ct → CState × Option (Msg Ct)
  | .genOk n sn' h =>
    if n ≠ t.nonce then (.failed .genNonce, none)
    else if sn' ≠ sn then (.failed .genServerNonce, none)
    else if nonceHash1 P.sha1 t.newNonce (keyBytes authKey) ≠ h then (.failed .hash, none)
    else (.done ⟨authKey, serverSalt t.newNonce sn', t.sessionId⟩, none)
  | .genRetry _ _ _ => (.failed .retry, none)
  | .genFail _ _ _ => (.failed .genFail, none)
  | _ => (.failed .junk, none)

/-- The client's reaction to one incoming message. Terminal states ignore input. -/
def cstep {Ct} (P : XP Ct) (cfg : CCfg) (t : CTape) : CState → Msg Ct → CState × Option (Msg Ct)
  | .waitResPQ, m => onResPQ P cfg t m
  | .waitDH sn, m => onDHParams P t sn m
  | .waitGen sn k, m => onDhGen P t sn k m
  | s, _ => (s, none)

/-- Step 1: the client opens with `req_pq_multi`. -/
def cinit {Ct} (t : CTape) : CState × Msg Ct := (.waitResPQ, .reqPQ t.nonce)

/-- The client fed with a whole sequence of incoming messages: final state and everything it sent. -/
def crun {Ct} (P : XP Ct) (cfg : CCfg) (t : CTape) : CState → List (Msg Ct) → CState × List (Msg Ct)
  | s, [] => (s, [])
  | s, m :: rest =>
    let (s', o) := cstep P cfg t s m
    let (s'', os) := crun P cfg t s' rest
    (s'', o.toList ++ os)

/-! ## server (exchange/server_flow.go, generator.go) -/

structure SCfg where
  fp : Nat
  dc : Int
  deriving Repr

structure STape where
  serverNonce : Bytes
  pq : Nat
  dhPrime : Nat
  a : Nat
  serverTime : Int
  ansPad : Nat
  deriving Repr

inductive SErr where
  | junk | rsa | wrongDC | gp | decrypt
  deriving Repr, DecidableEq

def SErr.tag : SErr → String
  | .junk => "junk" | .rsa => "rsa" | .wrongDC => "wrong-dc" | .gp => "gp" | .decrypt => "decrypt"

structure SResult where
  key : Nat
  salt : Bytes
  deriving Repr, DecidableEq

inductive SState where
  | waitReqPQ
  | waitReqDH (nonce : Bytes)
  | waitSetDH (nonce newNonce : Bytes)
  | done (r : SResult)
  | failed (e : SErr)
  deriving Repr, DecidableEq

/-- The generator the server uses (`g := 3` in `ServerExchange.Run`). -/
def serverG : Nat := Facts.C09.serverG

/-- The acceptance test of `TestServerRNG.GA`'s draw loop: `1 < g_a < p − 1` and
`2^1984 < g_a < p − 2^1984` for `g_a = g^a mod p`. -/
def gaOK (p a : Nat) : Bool :=
  inRange (powMod serverG a p) 1 (p - 1) && inRange (powMod serverG a p) safetyMin (p - safetyMin)

/-- `TestServerRNG.GA`: `a` is re-drawn until `g_a` passes `gaOK`; `draws` = the successive
256-byte draws of the server's random stream. -/
def pickA (p : Nat) (draws : List Nat) : Option Nat := draws.find? (gaOK p)

def sstep {Ct} (P : XP Ct) (cfg : SCfg) (t : STape) : SState → Msg Ct → SState × Option (Msg Ct)
  | .waitReqPQ, .reqPQ n => (.waitReqDH n, some (.resPQ n t.serverNonce t.pq [cfg.fp]))
  | .waitReqPQ, _ => (.failed .junk, none)
  -- "Client can send fake req_pq on start. Ignore it."
  | .waitReqDH _, .reqPQ n => (.waitReqDH n, some (.resPQ n t.serverNonce t.pq [cfg.fp]))
  | .waitReqDH nonce, .reqDH _ _ _ _ _ enc =>
    match P.rsaDec cfg.fp enc with
    | none => (.failed .rsa, none)
    | some d =>
      if d.dc ≠ cfg.dc then (.failed .wrongDC, none)
      else if !checkGP (serverG : Int) t.dhPrime then (.failed .gp, none)
      else
        let gA := powMod serverG t.a t.dhPrime
        let si : SInner := ⟨nonce, t.serverNonce, (serverG : Int), t.dhPrime, gA, t.serverTime⟩
        let k := tempAESKeys P.sha1 d.newNonce t.serverNonce
        (.waitSetDH nonce d.newNonce, some (.dhOk nonce t.serverNonce (P.encS k si t.ansPad)))
  | .waitReqDH _, _ => (.failed .junk, none)
  | .waitSetDH nonce newNonce, .setDH _ _ enc =>
    let k := tempAESKeys P.sha1 newNonce t.serverNonce
    match P.decC k enc with
    | none => (.failed .decrypt, none)
    | some ci =>
      let key := powMod ci.gB t.a t.dhPrime
      (.done ⟨key, serverSalt newNonce t.serverNonce⟩,
       some (.genOk nonce t.serverNonce (nonceHash1 P.sha1 newNonce (keyBytes key))))
  | .waitSetDH _ _, _ => (.failed .junk, none)
  | s, _ => (s, none)

/-- The server fed with a whole sequence of incoming messages: final state and everything it sent. -/
def srun {Ct} (P : XP Ct) (cfg : SCfg) (t : STape) : SState → List (Msg Ct) → SState × List (Msg Ct)
  | s, [] => (s, [])
  | s, m :: rest =>
    ((srun P cfg t (sstep P cfg t s m).1 rest).1, (sstep P cfg t s m).2.toList ++ (srun P cfg t (sstep P cfg t s m).1 rest).2)

/-! ## the honest composition over a faithful channel -/

/-- Strict request/response: the message `m` is in flight to the server; each side reacts to what
it receives.  Returns both final states and the transcript after `m`. -/
def pump {Ct} (P : XP Ct) (cc : CCfg) (ct : CTape) (sc : SCfg) (st : STape) :
    Nat → CState → SState → Msg Ct → CState × SState × List (Msg Ct)
  | 0, c, s, _ => (c, s, [])
  | n + 1, c, s, m =>
    let sr := sstep P sc st s m
    match sr.2 with
    | none => (c, sr.1, [])
    | some r =>
      let cr := cstep P cc ct c r
      match cr.2 with
      | none => (cr.1, sr.1, [r])
      | some m' =>
        let rest := pump P cc ct sc st n cr.1 sr.1 m'
        (rest.1, rest.2.1, r :: m' :: rest.2.2)

/-- Client and server run against each other (three round trips). -/
def honestRun {Ct} (P : XP Ct) (cc : CCfg) (ct : CTape) (sc : SCfg) (st : STape) :
    CState × SState × List (Msg Ct) :=
  let r := pump P cc ct sc st 3 .waitResPQ .waitReqPQ (.reqPQ ct.nonce)
  (r.1, r.2.1, .reqPQ ct.nonce :: r.2.2)

/-! ## a symbolic instance: ciphertexts are tagged plaintexts (used by the drivers, and as the
witness that `LawfulXP` is satisfiable) -/

inductive Sym where
  | rsa (fp : Nat) (d : PQInner)
  | ansS (k : Bytes × Bytes) (d : SInner)
  | ansC (k : Bytes × Bytes) (d : CInner)
  | junk
  deriving Repr, DecidableEq

def symXP (sha1 : Bytes → Bytes) (isPrime : Nat → Bool) (factor : Nat → Option (Nat × Nat)) : XP Sym where
  sha1 := sha1
  isPrime := isPrime
  factor := factor
  rsaEnc := fun fp d _ => .rsa fp d
  rsaDec := fun fp c => match c with
    | .rsa fp' d => if fp = fp' then some d else none
    | _ => none
  encS := fun k d _ => .ansS k d
  decS := fun k c => match c with
    | .ansS k' d => if k = k' then some d else none
    | _ => none
  encC := fun k d _ => .ansC k d
  decC := fun k c => match c with
    | .ansC k' d => if k = k' then some d else none
    | _ => none

end TdModel.C09
