/-
C09 — the two exchange machines as an asynchronous product system: every read/write interleaving
of client and server over the two FIFO directions of the transport.

`Sys` = both machine states, the message each is about to write, and the messages in flight in
each direction.  Actions: a process writes its pending message (`cSend`/`sSend`) or reads the next
message addressed to it and reacts (`cRecv`/`sRecv`; a process with a pending write does not read:
`Run` is sequential code).  A schedule is any list of actions; `exec` fails on a non-enabled one.
-/
import TdModel.Model.C09

namespace TdModel.C09
open TdModel

structure Sys (Ct : Type) where
  c : CState
  cOut : Option (Msg Ct)
  s : SState
  sOut : Option (Msg Ct)
  toS : List (Msg Ct)
  toC : List (Msg Ct)

inductive Act where
  | cSend | sRecv | sSend | cRecv
  deriving Repr, DecidableEq

def step {Ct} (P : XP Ct) (cc : CCfg) (ct : CTape) (sc : SCfg) (st : STape) (x : Sys Ct) : Act → Option (Sys Ct)
  | .cSend =>
    match x.cOut with
    | some m => some { x with cOut := none, toS := x.toS ++ [m] }
    | none => none
  | .sRecv =>
    match x.sOut, x.toS with
    | none, m :: rest => some { x with s := (sstep P sc st x.s m).1, sOut := (sstep P sc st x.s m).2, toS := rest }
    | _, _ => none
  | .sSend =>
    match x.sOut with
    | some m => some { x with sOut := none, toC := x.toC ++ [m] }
    | none => none
  | .cRecv =>
    match x.cOut, x.toC with
    | none, m :: rest => some { x with c := (cstep P cc ct x.c m).1, cOut := (cstep P cc ct x.c m).2, toC := rest }
    | _, _ => none

def exec {Ct} (P : XP Ct) (cc : CCfg) (ct : CTape) (sc : SCfg) (st : STape) : Sys Ct → List Act → Option (Sys Ct)
  | x, [] => some x
  | x, a :: rest =>
    match step P cc ct sc st x a with
    | some y => exec P cc ct sc st y rest
    | none => none

/-- Both `Run`s have just been started: the client is about to write req_pq. -/
def Sys.init {Ct} (ct : CTape) : Sys Ct := ⟨.waitResPQ, some (.reqPQ ct.nonce), .waitReqPQ, none, [], []⟩

/-- Nothing is pending or in flight: no action is enabled (both sides returned or wait for ever). -/
def Sys.quiescent {Ct} (x : Sys Ct) : Prop := x.cOut = none ∧ x.sOut = none ∧ x.toS = [] ∧ x.toC = []

/-- Number of messages pending or in flight. -/
def Sys.tokens {Ct} (x : Sys Ct) : Nat :=
  x.cOut.toList.length + x.toS.length + x.sOut.toList.length + x.toC.length

end TdModel.C09
