/-
Line protocol of the pool drivers (`drv_c27`, `drv_c28`): replay a trace through `C27.step` and
print the state after every action in the harness's summary format.
-/
import TdModel.Model.C27Pool
import TdModel.Util

namespace TdModel.C27
open TdModel

def parseOptKey (w : String) : Option (Option Nat) :=
  if w == "-" then some none else (w.toNat?).map some

def parseAct (w : String) : Option Action :=
  match w.splitOn ":" with
  | ["st", i] => i.toNat?.map .start
  | ["en", i] => i.toNat?.map .enter
  | ["mk", i] => i.toNat?.map .mk
  | ["ck", i] => i.toNat?.map .check
  | ["cw", i, b] => do
    let i ← i.toNat?
    match b with
    | "r" => some (.cwake i .ready) | "d" => some (.cwake i .dead) | "c" => some (.cwake i .ctx)
    | "x" => some (.cwake i .dc) | _ => none
  | ["ww", i, b] => do
    let i ← i.toNat?
    match b with
    | "h" => some (.wwake i .ch) | "s" => some (.wwake i .stuck) | "c" => some (.wwake i .ctx)
    | "x" => some (.wwake i .dc) | _ => none
  | ["gu", i, k] => do
    let i ← i.toNat?
    let k ← parseOptKey k
    some (.giveup i k)
  | ["fi", i, r, k] => do
    let i ← i.toNat?
    let k ← parseOptKey k
    match r with
    | "o" => some (.finish i .ok k) | "e" => some (.finish i .err k) | "r" => some (.finish i .retry k) | _ => none
  | ["rd", c] => c.toNat?.map .ready
  | ["di", c] => c.toNat?.map .die
  | ["ca", i] => i.toNat?.map .cancel
  | ["cl"] => some .closeDC
  | ["bg", c, b, k] => do
    let c ← c.toNat?
    let k ← parseOptKey k
    match b with
    | "r" => some (.bg c true k) | "d" => some (.bg c false k) | _ => none
  | _ => none

def showPC : PC → String
  | .idle => "I" | .start => "S" | .reserved => "R"
  | .check c => s!"C{c}" | .creating c => s!"N{c}"
  | .waiting k _ => s!"W{k}"
  | .giveup k .stuck => s!"G{k}s" | .giveup k .ctx => s!"G{k}c"
  | .using c => s!"U{c}" | .done => "D"

def showConn (x : Conn) : String :=
  (if x.dead then "d" else "l") ++ (if x.ready then "r" else "n") ++ (if x.orphan then "o" else "-")

def insertByKey (e : Nat × Nat) : List (Nat × Nat) → List (Nat × Nat)
  | [] => [e]
  | x :: xs => if e.1 ≤ x.1 then e :: x :: xs else x :: insertByKey e xs

def sortByKey (l : List (Nat × Nat)) : List (Nat × Nat) := l.foldr insertByKey []

def insertNat (e : Nat) : List Nat → List Nat
  | [] => [e]
  | x :: xs => if e ≤ x then e :: x :: xs else x :: insertNat e xs

def commaNat (l : List Nat) : String := ",".intercalate (l.map toString)

def showState (s : State) : String :=
  s!"t{s.total} f{commaNat s.free.reverse} r{commaNat (s.reqs.foldr insertNat [])} x" ++
  ",".intercalate ((sortByKey s.inbox).map (fun e => s!"{e.1}:{e.2}")) ++
  " p" ++ ";".intercalate (s.callers.map (fun x => showPC x.pc ++ (if x.cancelled then "!" else ""))) ++
  " c" ++ ";".intercalate (s.conns.map showConn) ++ (if s.closed then " z1" else " z0")

/-- Replay; returns the summaries of the visited states (newest first), whether `holdsB` held in
all of them, and the index of the first action that was not enabled. -/
def replay (cfg : Cfg) (s : State) (k : Nat) (acc : List String) (ok : Bool) :
    List Action → (List String × Bool × Option Nat)
  | [] => (acc, ok, none)
  | a :: as =>
    match step cfg s a with
    | some s' => replay cfg s' (k + 1) (showState s' :: acc) (ok && holdsB s') as
    | none => (acc, ok, some k)

def b01 (b : Bool) : String := if b then "1" else "0"

/-- `pool <max> <ncallers> <actions…>` -/
def handleWith (cfg : Cfg) (line : String) : String :=
  match words line with
  | "pool" :: m :: n :: acts =>
    match m.toNat?, n.toNat?, acts.mapM parseAct with
    | some m, some n, some as =>
      let s0 := init m n
      match replay cfg s0 0 [] (holdsB s0) as with
      | (sums, ok, none) => "ok " ++ "|".intercalate sums.reverse ++ " holds=" ++ b01 ok
      | (sums, _, some k) => s!"notenabled {k} " ++ "|".intercalate sums.reverse
    | _, _, _ => "bad-op"
  | _ => "bad-op"

end TdModel.C27
