/-
C21 — ONE generic model of the (de)serialisation scheme that /repo/gen emits for every TL
constructor (templates gen/_template/encode.tmpl, decode.tmpl, set_flags.tmpl, box.tmpl).

A *schema* is data (constructors with ordered fields, interfaces = lists of constructors); the
several thousand generated Go types of tg/, mt/, tg/e2e/ are instances, regenerated on every
run from the generated Go code itself (harness/c21/schema.go) into `Gen/C21.schema`, which the
driver loads; `Schema.wf` is evaluated on it.

`bin.Buffer` = remaining bytes; primitives are those of `TdModel.Bin` (owned by C20).
Core Lean only.
-/
import TdModel.Model.Bin
import TdModel.Gen.C21

namespace TdModel.C21
open TdModel TdModel.Bin

/-- Field types the generator knows. -/
inductive Ty where
  | int                       -- `b.Int()` / `PutInt` (32-bit pattern)
  | long                      -- `b.Long()` / `PutLong` (64-bit pattern)
  | double                    -- `b.Double()` (64-bit pattern)
  | int128 | int256           -- `b.Int128()`, `b.Int256()`
  | str                       -- `b.String()` and `b.Bytes()` (identical wire format)
  | bool                      -- `b.Bool()`: boolTrue / boolFalse ids
  | trueFlag                  -- `flags.N?true`: no bytes, `x.F = x.Flags.Has(N)`
  | flags                     -- `bin.Fields`: one 32-bit word
  | boxed (iface : Nat)       -- `DecodeXxx(b)`: any constructor of the interface, id first
  | ctor (c : Nat) (bare : Bool)  -- `value.Decode(b)` (id checked) / `value.DecodeBare(b)`
  | vec (bareHdr : Bool) (elem : Ty)  -- `VectorHeader()` (or `Int()` for bare vectors) then elements
  | generic                   -- `bin.Object` field (invokeWithLayer & co.): the object held, boxed
  deriving DecidableEq, Repr, Inhabited

structure Field where
  ty : Ty
  /-- `(k, bit)`: present iff bit `bit` of the constructor's `k`-th flags field is set. -/
  cond : Option (Nat × Nat)
  deriving DecidableEq, Repr, Inhabited

structure Ctor where
  /-- constructor id; `none` for the id-less generated `Vector<T>` result wrappers. -/
  id : Option Nat
  fields : List Field
  /-- the translator did not understand the generated code of this constructor. -/
  bad : Bool := false
  deriving Repr, Inhabited

structure Schema where
  ctors : Array Ctor
  ifaces : Array (List Nat)
  /-- The constructor of the object a generic (`!X`, Go `bin.Object`) field holds before `Decode`
  is called: the generated code decodes *into* whatever object the field already holds
  (`x.Query.Decode(b)`), `none` = nil interface.  A parameter of the decode, not part of the TL
  schema; the same for every generic field of one request. -/
  generic : Option Nat := none
  deriving Inhabited

mutual
/-- A TL value tree. Integers are bit patterns (`Nat`), strings/bytes/int128/int256 are `raw`. -/
inductive Val where
  | num (n : Nat)
  | raw (b : Bytes)
  | bool (b : Bool)
  | absent                          -- conditional field whose flag bit is clear
  | obj (c : Nat) (fs : Vals)       -- constructor number `c` of the schema
  | vec (xs : Vals)
inductive Vals where
  | nil
  | cons (v : Val) (vs : Vals)
end

def Vals.length : Vals → Nat
  | .nil => 0
  | .cons _ vs => vs.length + 1

mutual
def Val.size : Val → Nat
  | .obj _ fs => fs.size + 1
  | .vec xs => xs.size + 1
  | _ => 1
def Vals.size : Vals → Nat
  | .nil => 1
  | .cons v vs => v.size + vs.size + 1
end

def Val.bool? : Val → Option Bool
  | .bool b => some b
  | _ => none

def Val.isAbsent : Val → Bool
  | .absent => true
  | _ => false

/-- A 32-bit flags word. -/
def Val.word? : Val → Option Nat
  | .num n => if n < 2 ^ 32 then some n else none
  | _ => none

mutual
/-- Nesting depth of constructor values (an upper bound of the nesting of boxed objects). -/
def Val.depth : Val → Nat
  | .obj _ fs => fs.depth + 1
  | .vec xs => xs.depth
  | _ => 0
def Vals.depth : Vals → Nat
  | .nil => 0
  | .cons v vs => max v.depth vs.depth
end

/-- `bin.Fields.Has`. -/
def hasBit (w bit : Nat) : Bool := w.testBit bit

/-- Flags word number `k` seen so far in this constructor (0 if the schema is ill-formed). -/
def envWord (env : List Nat) (k : Nat) : Nat := env.getD k 0

/-- Constructor id used on the wire (id-less wrappers are never boxed; `Schema.wf` checks it). -/
def Ctor.wireId (c : Ctor) : Nat := c.id.getD 0

def ctorId (S : Schema) (c : Nat) : Option Nat :=
  match S.ctors[c]? with
  | some ct => ct.id
  | none => none

/-- The `switch id` of a generated `DecodeXxx`: first constructor of the interface with this id. -/
def findIn (S : Schema) (id : Nat) : List Nat → Option Nat
  | [] => none
  | c :: cs => if ctorId S c = some id then some c else findIn S id cs

def findCtor (S : Schema) (iface id : Nat) : Option Nat :=
  match S.ifaces[iface]? with
  | some cs => findIn S id cs
  | none => none

def ifaceHas (S : Schema) (iface c : Nat) : Bool :=
  match S.ifaces[iface]? with
  | some cs => cs.contains c
  | none => false

/-! ### Encoding (gen/_template/encode.tmpl)

`none` = the value is not a value of that type (ill-typed tree, `nil` interface, integer outside
its width, string ≥ 2^24, presence not matching the flag bits).  The flags word is *stored* in
the value (as in the Go struct after `SetFlags`); `setFlags` below derives it from presence. -/

mutual
def encTy (S : Schema) : Ty → Val → Option Bytes
  | .int, .num n => if n < 2 ^ 32 then some (putU32 n) else none
  | .long, .num n => if n < 2 ^ 64 then some (putU64 n) else none
  | .double, .num n => if n < 2 ^ 64 then some (putU64 n) else none
  | .int128, .raw b => if b.length = 16 then some b else none
  | .int256, .raw b => if b.length = 32 then some b else none
  | .str, .raw b => if b.length < 2 ^ 24 then some (putBytes b) else none
  | .bool, .bool v => some (putBool v)
  | .boxed i, .obj c fs =>
    if ifaceHas S i c then
      match S.ctors[c]? with
      | some ct =>
        match ct.id with
        | some id =>
          match encFields S [] ct.fields fs with
          | some e => some (putU32 id ++ e)
          | none => none
        | none => none
      | none => none
    else none
  | .ctor c bare, .obj c' fs =>
    if c = c' then
      match S.ctors[c]? with
      | some ct =>
        match encFields S [] ct.fields fs with
        | some e =>
          if bare then some e
          else match ct.id with
            | some id => some (putU32 id ++ e)
            | none => none
        | none => none
      | none => none
    else none
  | .generic, .obj c fs =>
    -- `x.Query.Encode(b)`: the boxed encoding of the object held (its type is the decode parameter)
    if S.generic = some c then
      match S.ctors[c]? with
      | some ct =>
        match encFields S [] ct.fields fs with
        | some e =>
          match ct.id with
          | some id => some (putU32 id ++ e)
          | none => none
        | none => none
      | none => none
    else none
  | .vec bareHdr t, .vec xs =>
    if xs.length < 2 ^ 31 then
      match encElems S t xs with
      | some e => some ((if bareHdr then putU32 xs.length else putVectorHeader xs.length) ++ e)
      | none => none
    else none
  | _, _ => none

/-- `EncodeBare` body: fields in order; `env` = flags words written so far. -/
def encFields (S : Schema) (env : List Nat) : List Field → Vals → Option Bytes
  | [], .nil => some []
  | f :: fs, .cons v vs =>
    match f.cond with
    | some (k, bit) =>
      let present := hasBit (envWord env k) bit
      if f.ty = .trueFlag then
        if v.bool? = some present then encFields S env fs vs else none
      else if present then
        match encTy S f.ty v with
        | some e =>
          match encFields S env fs vs with
          | some e' => some (e ++ e')
          | none => none
        | none => none
      else
        if v.isAbsent then encFields S env fs vs else none
    | none =>
      if f.ty = .flags then
        match v.word? with
        | some n =>
          match encFields S (env ++ [n]) fs vs with
          | some e' => some (putU32 n ++ e')
          | none => none
        | none => none
      else
        match encTy S f.ty v with
        | some e =>
          match encFields S env fs vs with
          | some e' => some (e ++ e')
          | none => none
        | none => none
  | _, _ => none

def encElems (S : Schema) (t : Ty) : Vals → Option Bytes
  | .nil => some []
  | .cons v vs =>
    match encTy S t v with
    | some e =>
      match encElems S t vs with
      | some e' => some (e ++ e')
      | none => none
    | none => none
end

/-! ### Decoding (gen/_template/decode.tmpl, box.tmpl)

`fuel` bounds the recursion (every call spends one unit); running out of fuel is the explicit
error `fuelOut`, never produced when `fuel ≥ size of the value` (see `tl_roundtrip`).
`d` is the remaining nesting budget of `bin.Buffer` (`EnterObject`/`LeaveObject` in every
generated `DecodeXxx`, the only recursion points of the generated code): it starts at
`bin.MaxNestingDepth` and every boxed object spends one unit for its extent. -/

def fuelOut : Err := .other "fuel"
/-- `*bin.NestingDepthError`: more than `bin.MaxNestingDepth` nested boxed objects. -/
def depthErr : Err := .other "depth"
def badSchema : Err := .other "bad-schema"

/-- Header of a bare vector: `b.Int()`; a negative count runs the loop zero times. -/
def getBareLen (b : Bytes) : Res Nat :=
  match getU32 b with
  | .error e => .error e
  | .ok (n, r) => .ok (if toInt32 n < 0 then 0 else n, r)

/-- Capacity passed to `make` by every generated vector decoder:
`if headerLen > 0 { make(T, 0, headerLen % bin.PreallocateLimit) }`. -/
def vecCap (headerLen : Nat) : Nat :=
  if headerLen > 0 then headerLen % TdModel.Facts.C21.preallocateLimit else 0

mutual
def decTy (S : Schema) : Nat → Nat → Ty → Bytes → Res Val
  | 0, _, _, _ => .error fuelOut
  | fuel + 1, d, ty, b =>
    match ty with
    | .int =>
      match getU32 b with
      | .ok (n, r) => .ok (.num n, r)
      | .error e => .error e
    | .long =>
      match getU64 b with
      | .ok (n, r) => .ok (.num n, r)
      | .error e => .error e
    | .double =>
      match getU64 b with
      | .ok (n, r) => .ok (.num n, r)
      | .error e => .error e
    | .int128 =>
      match getN 16 b with
      | .ok (x, r) => .ok (.raw x, r)
      | .error e => .error e
    | .int256 =>
      match getN 32 b with
      | .ok (x, r) => .ok (.raw x, r)
      | .error e => .error e
    | .str =>
      match getBytes b with
      | .ok (x, r) => .ok (.raw x, r)
      | .error e => .error e
    | .bool =>
      match getBool b with
      | .ok (x, r) => .ok (.bool x, r)
      | .error e => .error e
    | .trueFlag => .error badSchema
    | .flags => .error badSchema
    | .generic =>
      -- `if x.Query == nil { return error }; x.Query.Decode(b)`: Decode of the object held
      match S.generic with
      | none => .error (.other "nil-generic")
      | some c =>
        match S.ctors[c]? with
        | none => .error badSchema
        | some ct =>
          match ct.id with
          | none => .error badSchema
          | some id =>
            match consumeID id b with
            | .error e => .error e
            | .ok (_, r) =>
              match decFields S fuel d [] ct.fields r with
              | .ok (fs, r') => .ok (.obj c fs, r')
              | .error e => .error e
    | .boxed i =>
      -- DecodeXxx: PeekID, then `buf.EnterObject()` (depth budget), then the switch
      match getU32 b with
      | .error e => .error e
      | .ok (id, r) =>
        match d with
        | 0 => .error depthErr
        | d' + 1 =>
          match findCtor S i id with
          | none => .error .unexpectedID
          | some c =>
            match S.ctors[c]? with
            | none => .error badSchema
            | some ct =>
              match decFields S fuel d' [] ct.fields r with
              | .ok (fs, r') => .ok (.obj c fs, r')
              | .error e => .error e
    | .ctor c bare =>
      match S.ctors[c]? with
      | none => .error badSchema
      | some ct =>
        if bare then
          match decFields S fuel d [] ct.fields b with
          | .ok (fs, r') => .ok (.obj c fs, r')
          | .error e => .error e
        else
          match ct.id with
          | none => .error badSchema
          | some id =>
            match consumeID id b with
            | .error e => .error e
            | .ok (_, r) =>
              match decFields S fuel d [] ct.fields r with
              | .ok (fs, r') => .ok (.obj c fs, r')
              | .error e => .error e
    | .vec bareHdr t =>
      match (if bareHdr then getBareLen b else getVectorHeader b) with
      | .error e => .error e
      | .ok (n, r) =>
        match decElems S fuel d t n r with
        | .ok (xs, r') => .ok (.vec xs, r')
        | .error e => .error e

def decFields (S : Schema) : Nat → Nat → List Nat → List Field → Bytes → Res Vals
  | 0, _, _, _, _ => .error fuelOut
  | _ + 1, _, _, [], b => .ok (.nil, b)
  | fuel + 1, d, env, f :: fs, b =>
    match f.cond with
    | some (k, bit) =>
      let present := hasBit (envWord env k) bit
      if f.ty = .trueFlag then
        match decFields S fuel d env fs b with
        | .ok (vs, r) => .ok (.cons (.bool present) vs, r)
        | .error e => .error e
      else if present then
        match decTy S fuel d f.ty b with
        | .error e => .error e
        | .ok (v, r) =>
          match decFields S fuel d env fs r with
          | .ok (vs, r') => .ok (.cons v vs, r')
          | .error e => .error e
      else
        match decFields S fuel d env fs b with
        | .ok (vs, r) => .ok (.cons .absent vs, r)
        | .error e => .error e
    | none =>
      if f.ty = .flags then
        match getU32 b with
        | .error e => .error e
        | .ok (n, r) =>
          match decFields S fuel d (env ++ [n]) fs r with
          | .ok (vs, r') => .ok (.cons (.num n) vs, r')
          | .error e => .error e
      else
        match decTy S fuel d f.ty b with
        | .error e => .error e
        | .ok (v, r) =>
          match decFields S fuel d env fs r with
          | .ok (vs, r') => .ok (.cons v vs, r')
          | .error e => .error e

def decElems (S : Schema) : Nat → Nat → Ty → Nat → Bytes → Res Vals
  | 0, _, _, _, _ => .error fuelOut
  | _ + 1, _, _, 0, b => .ok (.nil, b)
  | fuel + 1, d, t, n + 1, b =>
    match decTy S fuel d t b with
    | .error e => .error e
    | .ok (v, r) =>
      match decElems S fuel d t n r with
      | .ok (vs, r') => .ok (.cons v vs, r')
      | .error e => .error e
end

/-! ### Well-formedness of a schema (decidable; evaluated by the driver on the regenerated schema) -/

def idsDistinct (S : Schema) : List Nat → Bool
  | [] => true
  | c :: cs => (match ctorId S c with
      | some id => id < 2 ^ 32 && findIn S id cs == none
      | none => false) && idsDistinct S cs

def Ctor.ok (c : Ctor) : Bool :=
  !c.bad && (match c.id with | some id => id < 2 ^ 32 | none => true)

/-- Every constructor was understood by the translator and has a 32-bit id; inside every
interface the constructor ids are pairwise distinct (the `switch id` is a function). -/
def Schema.wf (S : Schema) : Bool :=
  S.ctors.toList.all Ctor.ok && S.ifaces.toList.all (idsDistinct S)

/-! ### `SetFlags` (gen/_template/set_flags.tmpl): flag bits derived from field presence

Before `EncodeBare` writes anything it calls `SetFlags`, which ORs into each flags word the bit of
every conditional field whose Go value is not the zero value.  On value trees: a conditional
field counts when it is not `absent` and not `bool false`. -/

mutual
/-- Go's zero test used by `SetFlags` / the generated `Zero()` on the tree form of a field value
of type `t`: `0`, `0.0`/`-0.0`, `""`, all-zero int128/int256, a nil slice, `false`, a nil interface
(`absent`), a struct all of whose fields are zero. A non-nil interface is never zero. -/
def Val.isZero (S : Schema) : Ty → Val → Bool
  | _, .absent => true
  | _, .bool b => !b
  | .double, .num n => n == 0 || n == 2 ^ 63
  | _, .num n => n == 0
  | .int128, .raw b => b.all (· == 0)
  | .int256, .raw b => b.all (· == 0)
  | _, .raw b => b.isEmpty
  | _, .vec .nil => true
  | .ctor _ _, .obj c fs =>
    match S.ctors[c]? with
    | some ct => Vals.allZero S ct.fields fs
    | none => false
  | _, _ => false
def Vals.allZero (S : Schema) : List Field → Vals → Bool
  | f :: fs, .cons v vs => v.isZero S f.ty && Vals.allZero S fs vs
  | _, _ => true
end

/-- Bits that `SetFlags` ORs into flags word number `k`. -/
def presenceBits (S : Schema) (k : Nat) : List Field → Vals → Nat
  | f :: fs, .cons v vs =>
    (match f.cond with
     | some (k', bit) => if k' = k ∧ v.isZero S f.ty = false then 2 ^ bit else 0
     | none => 0) ||| presenceBits S k fs vs
  | _, _ => 0

/-- `SetFlags` of one constructor followed by the presence view `EncodeBare` takes: flags word
number `j` gets the presence bits ORed in; a conditional field whose bit is clear in the final
word is not part of the value (`absent`; it holds its zero value then). -/
def applyFlags (S : Schema) (allF : List Field) (allV : Vals) : Nat → List Nat → List Field → Vals → Vals
  | j, env, f :: fs, .cons v vs =>
    match f.cond with
    | none =>
      if f.ty = .flags then
        match v with
        | .num w =>
          .cons (.num (w ||| presenceBits S j allF allV))
            (applyFlags S allF allV (j + 1) (env ++ [w ||| presenceBits S j allF allV]) fs vs)
        | _ => .cons v (applyFlags S allF allV (j + 1) (env ++ [0]) fs vs)
      else .cons v (applyFlags S allF allV j env fs vs)
    | some (k, bit) =>
      if f.ty = .trueFlag then .cons v (applyFlags S allF allV j env fs vs)
      else .cons (if hasBit (envWord env k) bit then v else .absent) (applyFlags S allF allV j env fs vs)
  | _, _, _, vs => vs

mutual
/-- `SetFlags` on every constructor of the tree (what the nested `Encode` calls do on the way). -/
def normVal (S : Schema) : Val → Val
  | .obj c fs =>
    let fs' := normVals S fs
    match S.ctors[c]? with
    | some ct => .obj c (applyFlags S ct.fields fs' 0 [] ct.fields fs')
    | none => .obj c fs'
  | .vec xs => .vec (normVals S xs)
  | v => v
def normVals (S : Schema) : Vals → Vals
  | .nil => .nil
  | .cons v vs => .cons (normVal S v) (normVals S vs)
end

/-- The generated `Encode`: `SetFlags` everywhere, then write. -/
def encGo (S : Schema) (t : Ty) (v : Val) : Option Bytes := encTy S t (normVal S v)

/-! ### The MTProto and end-to-end schemas as a Lean term (regenerated in `Gen/C21.lean`) -/

/-- Numeric encoding of `Ty` used by the regenerated facts. -/
def tyOfCodes : List Nat → Option Ty
  | [0] => some .int
  | [1] => some .long
  | [2] => some .double
  | [3] => some .int128
  | [4] => some .int256
  | [5] => some .str
  | [6] => some .bool
  | [7] => some .trueFlag
  | [8] => some .flags
  | [9] => some .generic
  | [10, i] => some (.boxed i)
  | [11, c] => some (.ctor c false)
  | [12, c] => some (.ctor c true)
  | 13 :: rest => (tyOfCodes rest).map (.vec false)
  | 14 :: rest => (tyOfCodes rest).map (.vec true)
  | _ => none

def fieldsOfCodes : List (List Nat × Option (Nat × Nat)) → Option (List Field)
  | [] => some []
  | (codes, cond) :: rest =>
    match tyOfCodes codes, fieldsOfCodes rest with
    | some t, some fs => some (⟨t, cond⟩ :: fs)
    | _, _ => none

def ctorOfCodes (c : Option Nat × Bool × List (List Nat × Option (Nat × Nat))) : Ctor :=
  match fieldsOfCodes c.2.2 with
  | some fs => { id := c.1, fields := fs, bad := c.2.1 }
  | none => { id := c.1, fields := [], bad := true }

/-- The constructors and interfaces of mt/ and tg/e2e/ (they come first in the schema file and
refer only to each other). -/
def coreSchema : Schema :=
  { ctors := (TdModel.Facts.C21.coreCtors.map ctorOfCodes).toArray,
    ifaces := TdModel.Facts.C21.coreIfaces.toArray }

def Ctor.same (a b : Ctor) : Bool := a.id == b.id && a.fields == b.fields && a.bad == b.bad

/-- `S` starts with exactly the core schema (the driver checks this on the loaded data file). -/
def Schema.extendsCore (S : Schema) : Bool :=
  coreSchema.ctors.size ≤ S.ctors.size && coreSchema.ifaces.size ≤ S.ifaces.size &&
  (List.range coreSchema.ctors.size).all (fun i =>
    match S.ctors[i]?, coreSchema.ctors[i]? with
    | some a, some b => a.same b
    | _, _ => false) &&
  (List.range coreSchema.ifaces.size).all (fun i => S.ifaces[i]? == coreSchema.ifaces[i]?)

/-! ### digest of a schema (ties the data file loaded by the driver to the Lean term whose
well-formedness the kernel checks: both must have the digest the translator computed) -/

def mix (h x : Nat) : Nat := (h * 1000003 + x + 1) % 2305843009213693951

def Ty.digest : Ty → Nat
  | .int => 1
  | .long => 2
  | .double => 3
  | .int128 => 4
  | .int256 => 5
  | .str => 6
  | .bool => 7
  | .trueFlag => 8
  | .flags => 9
  | .generic => 10
  | .boxed i => mix 11 i
  | .ctor c false => mix 12 c
  | .ctor c true => mix 13 c
  | .vec false t => mix 14 t.digest
  | .vec true t => mix 15 t.digest

def Field.digest (f : Field) : Nat :=
  mix f.ty.digest (match f.cond with | none => 0 | some (k, b) => 1 + k * 64 + b)

def Ctor.digest (c : Ctor) : Nat :=
  c.fields.foldl (fun h f => mix h f.digest)
    (mix (match c.id with | none => 0 | some i => i + 1) (if c.bad then 1 else 0))

def Schema.digest (S : Schema) : Nat :=
  S.ifaces.toList.foldl (fun h l => l.foldl mix (mix h 77))
    (S.ctors.toList.foldl (fun h c => mix h c.digest) 0)

end TdModel.C21
