/-
C01 — model of /repo/telegram/updates: gap_check.go (`checkGap`), gap_buffer.go (`gapBuffer`),
sequence_box.go (`sequenceBox.Handle / applyPending / setState`).

Go `int` is 64-bit; positions here are `Int` (the TL fields are `int32`, so no overflow is
reachable).  The gap timer is a flag (`armed`): `Reset` sets it, `Stop` clears it; real time is
not modelled.  `update.Value` is a tag.

`checkGap` is not hand-written: `Facts.C01.checkGapCode` is translated from the Go source of
`checkGap` on every run (`hc.TranslateFuncs`), and the three result codes are the regenerated
iota constants.
-/
import TdModel.Gen.C01

namespace TdModel.C01

/-- `updates.update` (`Value` is reduced to a tag). -/
structure Upd where
  state : Int
  count : Int
  tag : Nat
  deriving Repr, DecidableEq, BEq

/-- `update.start`. (`update.end` is `state`.) -/
def Upd.start (u : Upd) : Int := u.state - u.count

inductive GapRes where
  | apply | ignore | refetch | invalid
  deriving Repr, DecidableEq, BEq

/-- `updates.checkGap`, through the regenerated translation of its body. -/
def checkGap (l r c : Int) : GapRes :=
  let code := Facts.C01.checkGapCode l r c
  if code = (Facts.C01.gapApply : Int) then .apply
  else if code = (Facts.C01.gapIgnore : Int) then .ignore
  else if code = (Facts.C01.gapRefetch : Int) then .refetch
  else .invalid

/-- `updates.gap` as `(from, to)`. -/
abbrev Gap := Int × Int

/-- `gapBuffer.Consume`: the first gap containing the update is split (left part, right part
appended at the end, in this order) and removed; `none` = not accepted. -/
def consume : List Gap → Upd → Option (List Gap)
  | [], _ => none
  | g :: gs, u =>
    if g.1 ≤ u.start ∧ g.2 ≥ u.state then
      some (gs ++ (if g.1 < u.start then [(g.1, u.start)] else [])
               ++ (if g.2 > u.state then [(u.state, g.2)] else []))
    else (consume gs u).map (g :: ·)

/-- `for _, u := range s.pending { _ = s.gaps.Consume(u) }`. -/
def consumeAll (gaps : List Gap) : List Upd → List Gap
  | [] => gaps
  | u :: us => consumeAll ((consume gaps u).getD gaps) us

/-- Insertion step of the stable sort by `start`. -/
def insertByStart (x : Upd) : List Upd → List Upd
  | [] => [x]
  | y :: ys => if y.start < x.start then y :: insertByStart x ys else x :: y :: ys

/-- `sort.SliceStable(pending, start(i) < start(j))` (a stable sort is unique). -/
def sortByStart (l : List Upd) : List Upd := l.foldr insertByStart []

/-- The `loop:` of `applyPending`: (accepted, new state, remaining pending). -/
def walk (state : Int) : List Upd → List Upd × Int × List Upd
  | [] => ([], state, [])
  | u :: us =>
    match checkGap state u.state u.count with
    | .apply => let r := walk u.state us; (u :: r.1, r.2.1, r.2.2)
    | .ignore => walk state us
    | _ => ([], state, u :: us)

structure Box where
  state : Int
  gaps : List Gap := []
  pending : List Upd := []
  armed : Bool := false
  deriving Repr, DecidableEq, BEq

/-- What a box does to its environment. `apply ns us ok`: the `apply` callback was called with
new state `ns` and updates `us` and returned `nil` (`ok`) or an error. -/
inductive Ev where
  | apply (ns : Int) (us : List Upd) (ok : Bool)
  | setState (x : Int)
  deriving Repr, DecidableEq, BEq

/-- `sequenceBox.applyPending`; `ok` = the callback's result. -/
def applyPending (b : Box) (ok : Bool) : Box × List Ev :=
  let r := walk b.state (sortByStart b.pending)
  let b1 := { b with pending := r.2.2 }
  if r.1.isEmpty then (b1, [])
  else if ok then ({ b1 with state := r.2.1 }, [.apply r.2.1 r.1 true])
  else (b1, [.apply r.2.1 r.1 false])

/-- `sequenceBox.Handle`. -/
def handle (b : Box) (u : Upd) (ok : Bool) : Box × List Ev :=
  if checkGap b.state u.state u.count = .ignore then (b, [])
  else if !b.gaps.isEmpty then
    match consume b.gaps u with
    | none => ({ b with pending := b.pending ++ [u] }, [])
    | some g' =>
      if g'.isEmpty then
        applyPending { b with pending := b.pending ++ [u], gaps := g', armed := false } ok
      else ({ b with pending := b.pending ++ [u], gaps := g' }, [])
  else
    match checkGap b.state u.state u.count with
    | .apply =>
      if !b.pending.isEmpty then applyPending { b with pending := b.pending ++ [u] } ok
      else if ok then ({ b with state := u.state }, [.apply u.state [u] true])
      else (b, [.apply u.state [u] false])
    | .refetch =>
      if (consumeAll [(b.state, u.start)] (b.pending ++ [u])).isEmpty then
        applyPending { b with pending := b.pending ++ [u],
                              gaps := consumeAll [(b.state, u.start)] (b.pending ++ [u]) } ok
      else ({ b with pending := b.pending ++ [u],
                     gaps := consumeAll [(b.state, u.start)] (b.pending ++ [u]), armed := true }, [])
    | _ => (b, [])   -- `panic("unreachable")`: `ignore` was returned above

inductive Op where
  | handle (u : Upd) (ok : Bool)
  | setState (x : Int)        -- `sequenceBox.SetState` (a fetched difference)
  | clearGaps                 -- `gaps.Clear()` at the start of `getDifference`
  | applyPending (ok : Bool)  -- `sequenceBox.applyPending` called directly
  deriving Repr, DecidableEq, BEq

def step (b : Box) : Op → Box × List Ev
  | .handle u ok => handle b u ok
  | .setState x => ({ b with state := x }, [.setState x])
  | .clearGaps => ({ b with gaps := [] }, [])
  | .applyPending ok => applyPending b ok

/-- Observation of one op: the events it caused and `State()` afterwards. -/
abbrev Obs := List (List Ev × Int)

def observe (b : Box) : List Op → Obs
  | [] => []
  | op :: ops => let r := step b op; (r.2, r.1.state) :: observe r.1 ops

def run (b : Box) : List Op → Box
  | [] => b
  | op :: ops => run (step b op).1 ops

/-- All events of a run, in order. -/
def events (b : Box) : List Op → List Ev
  | [] => []
  | op :: ops => let r := step b op; r.2 ++ events r.1 ops

/-! ### The property as a decidable function on observations -/

/-- Walking a batch from cursor `cur`: each update must start exactly at the cursor
(`cur + Count = State`; `State = 0` is the code's "no position" escape and resets the cursor). -/
def chain (cur : Int) : List Upd → Option Int
  | [] => some cur
  | u :: us => if u.state = 0 ∨ cur + u.count = u.state then chain u.state us else none

/-- Cursor after the events of one op, `none` if an applied batch is not in order. -/
def walkEvs (cur : Int) : List Ev → Option Int
  | [] => some cur
  | .apply ns us ok :: rest =>
    match chain cur us with
    | some c => if c = ns ∧ !us.isEmpty then walkEvs (if ok then c else cur) rest else none
    | none => none
  | .setState x :: rest => walkEvs x rest

/-- `holds`: batches are in order from the cursor, the callback's new state is the end of the
batch, and `State()` after every op equals the cursor (so the position moves only by an
in-order batch or a fetched difference). -/
def holds (cur : Int) : Obs → Bool
  | [] => true
  | (evs, st) :: rest =>
    match walkEvs cur evs with
    | some c => c == st && holds c rest
    | none => false

/-- Updates handed to the callback with a `nil` result, in order. -/
def delivered : List Ev → List Upd
  | [] => []
  | .apply _ us true :: rest => us ++ delivered rest
  | _ :: rest => delivered rest

/-- Difference positions never move backwards (an honest server). -/
def monoDiffs (cur : Int) : List Ev → Bool
  | [] => true
  | .apply ns _ ok :: rest => monoDiffs (if ok then ns else cur) rest
  | .setState x :: rest => decide (cur ≤ x) && monoDiffs x rest

/-- At-most-once in order: every earlier delivered update ends at or before the start of every
later one (so the `(start, end]` ranges of positive-count updates are pairwise disjoint). -/
def orderedRanges : List Upd → Bool
  | [] => true
  | u :: us => us.all (fun v => decide (u.state ≤ v.start)) && orderedRanges us

/-! ### Independent boxes (one per sequence / channel) -/

/-- A system of boxes indexed by a key (pts, qts, seq, channel id …). -/
def Sys := Nat → Box

def Sys.step (s : Sys) (k : Nat) (op : Op) : Sys :=
  fun j => if j = k then (TdModel.C01.step (s k) op).1 else s j

def Sys.run (s : Sys) : List (Nat × Op) → Sys
  | [] => s
  | (k, op) :: rest => Sys.run (s.step k op) rest

def Sys.events (s : Sys) (k : Nat) : List (Nat × Op) → List Ev
  | [] => []
  | (j, op) :: rest =>
    (if j = k then (TdModel.C01.step (s j) op).2 else []) ++ Sys.events (s.step j op) k rest

def proj (k : Nat) (ops : List (Nat × Op)) : List Op :=
  (ops.filter (fun p => p.1 == k)).map (·.2)

end TdModel.C01
