/-
C37 — model of /repo/telegram/message/html/unescape.go: `unescapeEntity`, `telegramUnescape`
(Telegram Bot-API flavour of HTML character references: only `&lt; &gt; &amp; &quot;` and numeric
references are replaced).

The Go code works IN PLACE on one byte slice: it reads from `b[src:]` and writes to `b[dst:]` with
`dst ≤ src`.  The model separates the two: `unescapeEntity s` takes `s = b[src:]` (first byte `&`)
and returns the bytes written at `dst` and the number of bytes consumed from `src`.  Every index
expression of the Go code is a checked read here (`rd`, result `none` = index out of range = panic),
guarded exactly as in the source; `Lemmas/C37.lean` proves that `none` never occurs and that the
written bytes are never more than the consumed ones (so the in-place writes `b[dst] = …`,
`utf8.EncodeRune(b[dst:], x)`, `copy(b[dst:dst1], …)` stay inside the slice and never overtake the
read position).  `rune` arithmetic is int32 with wrap-around (`wrap32`), as in Go.
-/
import TdModel.Util

namespace TdModel.C37U
open TdModel

/-- `s[i]`: `none` when out of range (a Go panic). -/
def rd (s : Bytes) (i : Nat) : Option UInt8 := s[i]?

def wrap32 (v : Int) : Int := (v + 2147483648) % 4294967296 - 2147483648

def isDigit (c : UInt8) : Bool := 48 ≤ c.toNat ∧ c.toNat ≤ 57
def isLowerHex (c : UInt8) : Bool := 97 ≤ c.toNat ∧ c.toNat ≤ 102
def isUpperHex (c : UInt8) : Bool := 65 ≤ c.toNat ∧ c.toNat ≤ 70
def isAlnum (c : UInt8) : Bool :=
  (97 ≤ c.toNat ∧ c.toNat ≤ 122) ∨ (65 ≤ c.toNat ∧ c.toNat ≤ 90) ∨ (48 ≤ c.toNat ∧ c.toNat ≤ 57)

/-- `utf8.EncodeRune` (invalid runes — negative, surrogates, > U+10FFFF — are written as U+FFFD). -/
def encodeRune (x : Int) : Bytes :=
  let b (n : Int) : UInt8 := UInt8.ofNat n.toNat
  if 0 ≤ x ∧ x < 0x80 then [b x]
  else if 0 ≤ x ∧ x < 0x800 then [b (0xC0 + x / 64), b (0x80 + x % 64)]
  else if x < 0 ∨ x > 0x10FFFF ∨ (0xD800 ≤ x ∧ x ≤ 0xDFFF) then [0xEF, 0xBF, 0xBD]
  else if x < 0x10000 then [b (0xE0 + x / 4096), b (0x80 + x / 64 % 64), b (0x80 + x % 64)]
  else [b (0xF0 + x / 262144), b (0x80 + x / 4096 % 64), b (0x80 + x / 64 % 64), b (0x80 + x % 64)]

/-- The digit loop of a numeric reference `for i < len(s) { c = s[i]; i++; … }`: returns the value
and the index after the loop. `fuel` bounds the iterations (`len(s) - i` suffices). -/
def numLoop (hex : Bool) (s : Bytes) : Nat → Nat → Int → Option (Int × Nat)
  | 0, i, x => some (x, i)
  | fuel + 1, i, x =>
    if i < s.length then
      match rd s i with
      | none => none
      | some c =>
        if hex && isDigit c then numLoop hex s fuel (i + 1) (wrap32 (16 * x + (c.toNat - 48)))
        else if hex && isLowerHex c then numLoop hex s fuel (i + 1) (wrap32 (16 * x + (c.toNat - 97 + 10)))
        else if hex && isUpperHex c then numLoop hex s fuel (i + 1) (wrap32 (16 * x + (c.toNat - 65 + 10)))
        else if !hex && isDigit c then numLoop hex s fuel (i + 1) (wrap32 (10 * x + (c.toNat - 48)))
        else some (x, if c.toNat ≠ 59 then i else i + 1)
    else some (x, i)

/-- The name loop `for i < len(s) { c := s[i]; i++; if alnum { continue }; if c != ';' { i-- }; break }`. -/
def nameLoop (s : Bytes) : Nat → Nat → Option Nat
  | 0, i => some i
  | fuel + 1, i =>
    if i < s.length then
      match rd s i with
      | none => none
      | some c =>
        if isAlnum c then nameLoop s fuel (i + 1)
        else some (if c.toNat ≠ 59 then i else i + 1)
    else some i

/-- `b[dst] = b[src]; return dst + 1, src + 1`. -/
def literalAmp (s : Bytes) : Option (Bytes × Nat) :=
  match rd s 0 with
  | none => none
  | some a => some ([a], 1)

/-- `unescapeEntity(b, dst, src)` with `s = b[src:]`: (bytes written at `dst`, bytes consumed). -/
def unescapeEntity (s : Bytes) : Option (Bytes × Nat) :=
  if s.length ≤ 1 then literalAmp s
  else
    match rd s 1 with
    | none => none
    | some c1 =>
      if c1.toNat = 35 then -- '#'
        if s.length ≤ 3 then literalAmp s
        else
          match rd s 2 with
          | none => none
          | some c2 =>
            let hex : Bool := c2.toNat = 120 ∨ c2.toNat = 88
            let i0 := if hex then 3 else 2
            match numLoop hex s (s.length - i0) i0 0 with
            | none => none
            | some (x, i) =>
              if i ≤ 3 then literalAmp s
              else if x = 0 ∨ x ≥ 0x10ffff then literalAmp s
              else some (encodeRune x, i)
      else
        match nameLoop s (s.length - 1) 1 with
        | none => none
        | some i =>
          -- `if i > 0 && s[tagEnd-1] == ';' { tagEnd-- }`
          match (if i > 0 then rd s (i - 1) else some 0) with
          | none => none
          | some last =>
            let tagEnd := if i > 0 ∧ last.toNat = 59 then i - 1 else i
            -- `string(s[1:tagEnd])`
            if ¬ (1 ≤ tagEnd ∧ tagEnd ≤ s.length) then none
            else
              let name := (s.take tagEnd).drop 1
              let x : Nat :=
                if name = [108, 116] then 60        -- "lt"  → '<'
                else if name = [103, 116] then 62   -- "gt"  → '>'
                else if name = [97, 109, 112] then 38 -- "amp" → '&'
                else if name = [113, 117, 111, 116] then 34 -- "quot" → '"'
                else 0
              if x ≠ 0 then some (encodeRune x, i)
              else if i ≤ s.length then some (s.take i, i) -- `copy(b[dst:dst+i], b[src:src+i])`
              else none

/-- The inner loop of `telegramUnescape` from the first `&` on. -/
def unescapeFrom : Nat → Bytes → Option Bytes
  | 0, _ => some []
  | _ + 1, [] => some []
  | fuel + 1, c :: rest =>
    if c.toNat = 38 then
      match unescapeEntity (c :: rest) with
      | none => none
      | some (out, n) =>
        match unescapeFrom fuel ((c :: rest).drop n) with
        | none => none
        | some tail => some (out ++ tail)
    else
      match unescapeFrom fuel rest with
      | none => none
      | some tail => some (c :: tail)

/-- `telegramUnescape(b)`: `none` would be a panic. -/
def telegramUnescape (b : Bytes) : Option Bytes := unescapeFrom b.length b

end TdModel.C37U
