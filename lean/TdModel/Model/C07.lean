/-
C07 — model of the acceptance of incoming encrypted messages.

Go code modelled:
* /repo/proto/message_id.go: `MessageIDBuf.Consume` (`consume`; `consumeOld` = before the `fix:`
  commit for D1), `MessageID.Time`, `MessageID.Type`
* /repo/mtproto/read.go: `checkMessageID`, `Conn.decryptMessage`, `Conn.consumeMessage`

Interface to the cipher (owned by C04/C05, `crypto.Cipher.Decrypt`): the outcome of
`c.cipher.DecryptFromBuffer(session.Key, b)` is abstracted as `cipherDecrypt keyOk m`:
it yields the message iff the frame decrypts under the session key (`keyOk`: auth-key id and
msg_key match) **and** its data length is ≥ 0 and divisible by 4 **and** it has 12..1024 bytes of
padding.  The lower padding bound is defect D2 of `crypto/cipher_decrypt.go`; it is not repaired
here (see notes/C07.md), the model states the interface C07 relies on.

Ids are `Int` (Go `int64`, no arithmetic that could overflow is performed on them); time is unix
nanoseconds as `Int`.  The replay buffer is the Go slice as a `List Int` (0 = never written).
-/
import TdModel.Util
import TdModel.Gen.C07

namespace TdModel.C07
open TdModel

def maxPast : Int := Facts.C07.pastLimitNs
def maxFuture : Int := Facts.C07.futureLimitNs
def bufSize : Nat := Facts.C07.bufSize
def modulo : Int := Facts.C07.messageIDModulo
def yieldServerResponse : Int := Facts.C07.yieldServerResponse
def yieldFromServer : Int := Facts.C07.yieldFromServer
def minPadding : Nat := 12            -- interface (crypto, D2): lower bound of the padding
def maxPadding : Nat := Facts.C07.maxPadding

/-- `MessageID.Type()` ∈ {FromServer, ServerResponse}: Go's `id % 4` truncates toward zero. -/
def serverTyped (id : Int) : Bool :=
  Facts.C07.acceptedYields.contains (id.tmod modulo)

/-- `int64(int32(id))`. -/
def low32 (id : Int) : Int :=
  let r := id % 4294967296
  if r < 2147483648 then r else r - 4294967296

/-- `MessageID.Time()` in unix nanoseconds: `time.Unix(id >> 32, int64(int32(id)))`. -/
def idTime (id : Int) : Int := (id / 4294967296) * 1000000000 + low32 id

/-- `a > b` or `a ≥ b`, as read from the source. -/
def exceeds (strict : Bool) (a b : Int) : Bool := if strict then decide (a > b) else decide (a ≥ b)

/-- `mtproto.checkMessageID(now, id) == nil`; the comparison operators, the `Before` guard and the
bounds are the regenerated ones. -/
def checkMessageID (now id : Int) : Bool :=
  serverTyped id &&
  let created := idTime id
  !((!Facts.C07.pastGuarded || decide (created < now)) && exceeds Facts.C07.pastStrict (now - created) maxPast) &&
  !(exceeds Facts.C07.futureStrict (created - now) maxFuture)

/-- A test inside the scan loop of `MessageIDBuf.Consume`. -/
inductive Item where
  | dup                  -- `if id == newID { return false }`
  | min (strict : Bool)  -- `if id < minID { minIDx, minID = i, id }` (`<=` when not strict)
  | other
  deriving Repr, DecidableEq

/-- The structure of `Consume` as read from the source by the fact extractor. -/
structure Shape where
  initFirst : Bool       -- minimum search starts from (0, buf[0]) rather than (0, 0)
  exclusive : Bool       -- the tests are cases of one `switch` (first match wins)
  items : List Item
  tailStrict : Bool      -- `if newID < minID { return false }` (`<=` when false)
  deriving Repr, DecidableEq

def itemOf : Nat → Item
  | 0 => .dup
  | 1 => .min true
  | 2 => .min false
  | _ => .other

def below (strict : Bool) (a b : Int) : Bool := if strict then decide (a < b) else decide (a ≤ b)

/-- The tests of one loop iteration on slot `i` holding `id`: `none` = `return false`. -/
def slotTests (excl : Bool) (x : Int) (i : Nat) (id : Int) : List Item → Nat × Int → Option (Nat × Int)
  | [], acc => some acc
  | .dup :: rest, acc => if id = x then none else slotTests excl x i id rest acc
  | .min s :: rest, acc =>
    if below s id acc.2 then (if excl then some (i, id) else slotTests excl x i id rest (i, id))
    else slotTests excl x i id rest acc
  | .other :: rest, acc => slotTests excl x i id rest acc

/-- The scan loop: `none` = an iteration returned false, otherwise index and value of the minimum found. -/
def scanW (sh : Shape) (x : Int) : List Int → Nat → Nat × Int → Option (Nat × Int)
  | [], _, acc => some acc
  | id :: rest, i, acc =>
    match slotTests sh.exclusive x i id sh.items acc with
    | none => none
    | some acc' => scanW sh x rest (i + 1) acc'

/-- `MessageIDBuf.Consume` for a given structure.  An empty buffer panics in Go; it rejects here. -/
def consumeW (sh : Shape) (buf : List Int) (newID : Int) : List Int × Bool :=
  match buf with
  | [] => (buf, false)
  | b0 :: _ =>
    match scanW sh newID buf 0 (0, if sh.initFirst then b0 else 0) with
    | none => (buf, false)
    | some (minIDx, minID) =>
      if below sh.tailStrict newID minID then (buf, false) else (buf.set minIDx newID, true)

/-- The structure of the current source. -/
def shape : Shape :=
  { initFirst := Facts.C07.consumeInitFirst, exclusive := Facts.C07.consumeExclusive,
    items := Facts.C07.consumeItems.map itemOf, tailStrict := Facts.C07.consumeTailStrict }

/-- `MessageIDBuf.Consume` as it is in the source. -/
def consume (buf : List Int) (newID : Int) : List Int × Bool := consumeW shape buf newID

/-- `MessageIDBuf.Consume` before the repair of D1: minimum search started from zero values. -/
def consumeOld (buf : List Int) (newID : Int) : List Int × Bool :=
  consumeW { initFirst := false, exclusive := false, items := [.dup, .min true], tailStrict := true } buf newID

/-- `NewMessageIDBuf(n)`. -/
def newBuf (n : Nat) : List Int := List.replicate n 0

/-- Verdicts of a history of `Consume` calls, with the final buffer. -/
def runBufWith (step : List Int → Int → List Int × Bool) : List Int → List Int → List Int × List Bool
  | b, [] => (b, [])
  | b, id :: ids =>
    let r := step b id
    let rest := runBufWith step r.1 ids
    (rest.1, r.2 :: rest.2)

def runBuf := runBufWith consume

/-- Final buffer and the accepted ids (most recent first) of a history. -/
def runAcc : List Int → List Int → List Int → List Int × List Int
  | b, acc, [] => (b, acc)
  | b, acc, id :: ids => if (consume b id).2 then runAcc (consume b id).1 (id :: acc) ids else runAcc (consume b id).1 acc ids

/-- What `crypto.EncryptedMessageData` carries, as far as acceptance is concerned. -/
structure Msg where
  session : Int
  msgId : Int
  seqNo : Int := 0
  dataLen : Int        -- `MessageDataLen` (int32)
  padding : Nat        -- `len(MessageDataWithPadding) - MessageDataLen`
  deriving Repr, DecidableEq

/-- Interface of `Cipher.DecryptFromBuffer` (see the header). -/
def cipherDecrypt (keyOk : Bool) (m : Msg) : Option Msg :=
  if keyOk && decide (0 ≤ m.dataLen) && decide (m.dataLen.tmod 4 = 0) &&
     decide (minPadding ≤ m.padding) && decide (m.padding ≤ maxPadding) then some m else none

structure Conn where
  session : Int
  buf : List Int
  deriving Repr, DecidableEq

/-- `Conn.decryptMessage` with the checks in the canonical order decrypt, session, id, replay
buffer; `none` = error (the message is dropped).  Only the buffer can change, and only on
acceptance. -/
def decryptMessage (c : Conn) (now : Int) (keyOk : Bool) (m : Msg) : Conn × Option Msg :=
  match cipherDecrypt keyOk m with
  | none => (c, none)
  | some msg =>
    if msg.session ≠ c.session then (c, none)
    else if checkMessageID now msg.msgId = false then (c, none)
    else if (consume c.buf msg.msgId).2 = false then (c, none)
    else ({ c with buf := (consume c.buf msg.msgId).1 }, some msg)

/-- The checks after decryption, run in the order read from the source (1 session id, 2 message
id, 3 replay buffer — the only one that changes state; anything else rejects: fail closed). -/
def checksFrom (now : Int) (msg : Msg) : List Nat → Conn → Conn × Bool
  | [], c => (c, true)
  | 1 :: rest, c => if msg.session ≠ c.session then (c, false) else checksFrom now msg rest c
  | 2 :: rest, c => if checkMessageID now msg.msgId = false then (c, false) else checksFrom now msg rest c
  | 3 :: rest, c =>
    if (consume c.buf msg.msgId).2 = false then (c, false)
    else checksFrom now msg rest { c with buf := (consume c.buf msg.msgId).1 }
  | _ :: _, c => (c, false)

/-- `Conn.decryptMessage` with the order of checks of the current source (`Facts.C07.decryptOrder`). -/
def decryptMessageW (order : List Nat) (c : Conn) (now : Int) (keyOk : Bool) (m : Msg) : Conn × Option Msg :=
  match order with
  | 0 :: rest =>
    match cipherDecrypt keyOk m with
    | none => (c, none)
    | some msg =>
      let r := checksFrom now msg rest c
      if r.2 then (r.1, some msg) else (r.1, none)
  | _ => (c, none)

/-- What `Conn.consumeMessage` makes visible: the message handed to `handleMessage` (if any) and
whether an acknowledgement is queued (`seqNo & 1`). -/
structure Effect where
  handled : Option Int := none     -- msg id passed to handleMessage
  ack : Bool := false
  deriving Repr, DecidableEq

def consumeMessage (c : Conn) (now : Int) (keyOk : Bool) (m : Msg) : Conn × Effect :=
  match decryptMessage c now keyOk m with
  | (c', none) => (c', {})
  | (c', some msg) => (c', { handled := some msg.msgId, ack := msg.seqNo % 2 = 1 })

/-- A connection processing a sequence of frames: (now, keyOk, message). -/
def runConn : Conn → List (Int × Bool × Msg) → List Effect
  | _, [] => []
  | c, (now, k, m) :: rest => (consumeMessage c now k m).2 :: runConn (consumeMessage c now k m).1 rest

/-- `consumeMessage` / `runConn` computed with the order of checks of the current source. -/
def consumeMessageW (c : Conn) (now : Int) (keyOk : Bool) (m : Msg) : Conn × Effect :=
  match decryptMessageW Facts.C07.decryptOrder c now keyOk m with
  | (c', none) => (c', {})
  | (c', some msg) => (c', { handled := some msg.msgId, ack := msg.seqNo % 2 = 1 })

def runConnW : Conn → List (Int × Bool × Msg) → List Effect
  | _, [] => []
  | c, (now, k, m) :: rest => (consumeMessageW c now k m).2 :: runConnW (consumeMessageW c now k m).1 rest

/-! ### the read loop -/

/-- What `consumeMessage` returns to `readLoop` for one frame. -/
inductive Outcome where
  | handled (id : Int)   -- passed to handleMessage; nil
  | dropped              -- errRejected: logged, nil — the connection goes on
  | fatal                -- any other decryption error is returned: the loop halts
  deriving Repr, DecidableEq

/-- `Conn.consumeMessage` as seen by the read loop.  The cipher's error is not `errRejected`
(`otherErrorsAreFatal`), the three later checks wrap `errRejected` (`decryptChecksReject`). -/
def consumeOutcome (c : Conn) (now : Int) (keyOk : Bool) (m : Msg) : Conn × Outcome :=
  match cipherDecrypt keyOk m with
  | none => (c, .fatal)
  | some _ =>
    match decryptMessage c now keyOk m with
    | (c', none) => (c', .dropped)
    | (c', some msg) => (c', .handled msg.msgId)

/-- `readLoop` over the frames it receives, in the order their `Consume` calls are serialised by
the buffer's mutex: outcomes, and whether the loop halts ("halting" after a fatal outcome; frames
already read are still processed, which only adds outcomes of the same kind). -/
def readLoop : Conn → List (Int × Bool × Msg) → List Outcome × Bool
  | _, [] => ([], false)
  | c, (now, k, m) :: rest =>
    let r := consumeOutcome c now k m
    let tl := readLoop r.1 rest
    (r.2 :: tl.1, decide (r.2 = Outcome.fatal) || tl.2)

end TdModel.C07
