/-
C07 — model of the acceptance of incoming encrypted messages.

Go code modelled:
* /repo/proto/message_id.go: `MessageIDBuf.Consume` (`consume`; `consumeOld` = before the `fix:`
  commit for D1), `MessageID.Time`, `MessageID.Type`
* /repo/mtproto/read.go: `checkMessageID`, `Conn.decryptMessage`, `Conn.consumeMessage`

Interface to the cipher (owned by C04/C05, `crypto.Cipher.Decrypt`): the outcome of
`c.cipher.DecryptFromBuffer(session.Key, b)` is abstracted as `cipherDecrypt keyOk m`:
it yields the message iff the frame decrypts under the session key (`keyOk`: auth-key id and
msg_key match) **and** its data length is ≥ 0 and divisible by 4 **and** it has 12..1024 bytes of
padding.  The lower padding bound is defect D2 of `crypto/cipher_decrypt.go`; it is not repaired
here (see notes/C07.md), the model states the interface C07 relies on.

Ids are `Int` (Go `int64`, no arithmetic that could overflow is performed on them); time is unix
nanoseconds as `Int`.  The replay buffer is the Go slice as a `List Int` (0 = never written).
-/
import TdModel.Util
import TdModel.Gen.C07

namespace TdModel.C07
open TdModel

def maxPast : Int := Facts.C07.maxPast
def maxFuture : Int := Facts.C07.maxFuture
def bufSize : Nat := Facts.C07.bufSize
def modulo : Int := Facts.C07.messageIDModulo
def yieldServerResponse : Int := Facts.C07.yieldServerResponse
def yieldFromServer : Int := Facts.C07.yieldFromServer
def minPadding : Nat := 12            -- interface (crypto, D2): lower bound of the padding
def maxPadding : Nat := Facts.C07.maxPadding

/-- `MessageID.Type()` ∈ {FromServer, ServerResponse}: Go's `id % 4` truncates toward zero. -/
def serverTyped (id : Int) : Bool :=
  id.tmod modulo = yieldServerResponse || id.tmod modulo = yieldFromServer

/-- `int64(int32(id))`. -/
def low32 (id : Int) : Int :=
  let r := id % 4294967296
  if r < 2147483648 then r else r - 4294967296

/-- `MessageID.Time()` in unix nanoseconds: `time.Unix(id >> 32, int64(int32(id)))`. -/
def idTime (id : Int) : Int := (id / 4294967296) * 1000000000 + low32 id

/-- `mtproto.checkMessageID(now, id) == nil`. -/
def checkMessageID (now id : Int) : Bool :=
  serverTyped id &&
  let created := idTime id
  !(decide (created < now) && decide (now - created > maxPast)) &&
  !(decide (created - now > maxFuture))

/-- The loop of `MessageIDBuf.Consume`: `none` = an equal id was found (return false), otherwise
the index and value of the first minimum, starting from the accumulator `(minIDx, minID)`. -/
def scanMin (newID : Int) : List Int → Nat → Nat × Int → Option (Nat × Int)
  | [], _, acc => some acc
  | id :: rest, i, acc =>
    if id = newID then none
    else scanMin newID rest (i + 1) (if id < acc.2 then (i, id) else acc)

/-- `MessageIDBuf.Consume` (repaired: the minimum search starts from `buf[0]`).
An empty buffer (`NewMessageIDBuf(0)`) panics in Go; it rejects here and is never used. -/
def consume (buf : List Int) (newID : Int) : List Int × Bool :=
  match buf with
  | [] => (buf, false)
  | b0 :: _ =>
    match scanMin newID buf 0 (0, b0) with
    | none => (buf, false)
    | some (minIDx, minID) => if newID < minID then (buf, false) else (buf.set minIDx newID, true)

/-- `MessageIDBuf.Consume` before the repair: `var minIDx int; var minID int64` start at 0. -/
def consumeOld (buf : List Int) (newID : Int) : List Int × Bool :=
  match scanMin newID buf 0 (0, 0) with
  | none => (buf, false)
  | some (minIDx, minID) => if newID < minID then (buf, false) else (buf.set minIDx newID, true)

/-- `NewMessageIDBuf(n)`. -/
def newBuf (n : Nat) : List Int := List.replicate n 0

/-- Verdicts of a history of `Consume` calls, with the final buffer. -/
def runBufWith (step : List Int → Int → List Int × Bool) : List Int → List Int → List Int × List Bool
  | b, [] => (b, [])
  | b, id :: ids =>
    let r := step b id
    let rest := runBufWith step r.1 ids
    (rest.1, r.2 :: rest.2)

def runBuf := runBufWith consume

/-- Final buffer and the accepted ids (most recent first) of a history. -/
def runAcc : List Int → List Int → List Int → List Int × List Int
  | b, acc, [] => (b, acc)
  | b, acc, id :: ids => if (consume b id).2 then runAcc (consume b id).1 (id :: acc) ids else runAcc (consume b id).1 acc ids

/-- What `crypto.EncryptedMessageData` carries, as far as acceptance is concerned. -/
structure Msg where
  session : Int
  msgId : Int
  seqNo : Int := 0
  dataLen : Int        -- `MessageDataLen` (int32)
  padding : Nat        -- `len(MessageDataWithPadding) - MessageDataLen`
  deriving Repr, DecidableEq

/-- Interface of `Cipher.DecryptFromBuffer` (see the header). -/
def cipherDecrypt (keyOk : Bool) (m : Msg) : Option Msg :=
  if keyOk && decide (0 ≤ m.dataLen) && decide (m.dataLen.tmod 4 = 0) &&
     decide (minPadding ≤ m.padding) && decide (m.padding ≤ maxPadding) then some m else none

structure Conn where
  session : Int
  buf : List Int
  deriving Repr, DecidableEq

/-- `Conn.decryptMessage`: decrypt, session check, id check, replay buffer — in this order;
`none` = error (the message is dropped).  Only the buffer can change, and only on acceptance. -/
def decryptMessage (c : Conn) (now : Int) (keyOk : Bool) (m : Msg) : Conn × Option Msg :=
  match cipherDecrypt keyOk m with
  | none => (c, none)
  | some msg =>
    if msg.session ≠ c.session then (c, none)
    else if checkMessageID now msg.msgId = false then (c, none)
    else if (consume c.buf msg.msgId).2 = false then (c, none)
    else ({ c with buf := (consume c.buf msg.msgId).1 }, some msg)

/-- What `Conn.consumeMessage` makes visible: the message handed to `handleMessage` (if any) and
whether an acknowledgement is queued (`seqNo & 1`). -/
structure Effect where
  handled : Option Int := none     -- msg id passed to handleMessage
  ack : Bool := false
  deriving Repr, DecidableEq

def consumeMessage (c : Conn) (now : Int) (keyOk : Bool) (m : Msg) : Conn × Effect :=
  match decryptMessage c now keyOk m with
  | (c', none) => (c', {})
  | (c', some msg) => (c', { handled := some msg.msgId, ack := msg.seqNo % 2 = 1 })

/-- A connection processing a sequence of frames: (now, keyOk, message). -/
def runConn : Conn → List (Int × Bool × Msg) → List Effect
  | _, [] => []
  | c, (now, k, m) :: rest => (consumeMessage c now k m).2 :: runConn (consumeMessage c now k m).1 rest

end TdModel.C07
