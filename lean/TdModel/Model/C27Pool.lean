/-
C27 / C28 — the connection pool `pool.DC` (`/repo/pool/pool.go`, `req_map.go`, `pool_conn.go`).

Labelled transition system for ANY number of callers and connections (the state holds `List`s).
One action per atomic step between two scheduling points of the Go code (the `verifPoint` call
sites), i.e. one mutex critical section / one select decision each:

* `start i`      — caller `i` enters `DC.Invoke` → `acquire` (point `acq.start`).
* `enter i`      — critical section at the top of `acquire`: pop a free connection (→ `check c`),
                   or `total++` (reserve a slot, → `reserved`), or register a waiter key and capture the
                   stuck channel (→ `waiting k gen`).
* `mk i`         — outside the critical section: `nextConn.Inc()` + `createConnection` (the supervisor
                   goroutine is started), → `creating c` with the next connection id.
* `check i`      — `c.alive(r)` after the pop: dead → retry, else hand out.
* `cwake i b`    — the creation select takes branch `b` (ready / dead / caller ctx done).
* `wwake i b`    — the waiter select takes branch `b` (channel / stuck / ctx).
* `giveup i k?`  — `freeReq.delete(key)` + one non-blocking receive (after stuck: use or retry; after
                   ctx: release what was polled, `k?` = the waiter that release transferred it to).
* `finish i r k?`— the connection's `Invoke` returned: retryable error and caller not cancelled →
                   `dead(conn)` and retry; otherwise `release(conn)` (`k?` as above) and return.
* `ready c`, `die c` (`Run` returned → `DC.dead`), `cancel i` — environment.
* `bg c rel k?`  — the background releaser of a connection whose creator gave up (`releaseWhenReady`).
* `closeDC`      — `DC.Close`: `closed` is set and the DC context cancelled; afterwards `Invoke` refuses
                   new calls, the creation and waiter selects may leave through their `c.ctx.Done()` case
                   (`cwake i dc`, `wwake i dc`), the releaser may end without releasing, and every
                   connection's `Run` returns (`die c`), so a live connection may be left without holder.

`DC.dead` is idempotent per connection (`deleted.Swap`); it is one critical section: `total--`, remove
from `free`, `dead.Signal()`, `stuck.Reset()` (modelled by the generation counter `gen`).
`release` is one critical section (`transfer` sends while holding both mutexes).

Two source facts are parameters (`Cfg`): every hand-out path checks `Dead()`, and a creator that
gives up hands its connection to the background releaser; they are filled from the regenerated
facts in `Model/C27.lean` (for C27) and `Model/C28.lean` (for C28).  Core Lean only (linked into the drivers).
-/
namespace TdModel.C27

structure Cfg where
  /-- every `return <conn>, nil` of `acquire` is guarded by `c.alive(<conn>)` -/
  handoutChecksDead : Bool
  /-- `case <-ctx.Done(): c.releaseWhenReady(conn)` in the creation select -/
  createCancelReleases : Bool
  /-- the background releaser goes through `release` (offers the connection to a waiter first) -/
  bgOffersWaiters : Bool
  /-- `total++` is in the critical section of the limit check (not in `createConnection`) -/
  totalUnderCheck : Bool
  /-- `dead` resets the stuck signal on every death (not only when no connection is left) -/
  resetAlways : Bool
  deriving Repr, DecidableEq

/-- Position of the first occurrence of an operation code in a regenerated operation list. -/
def opIdx (ops : List Nat) (code : Nat) : Option Nat :=
  let i := ops.findIdx (· == code)
  if i < ops.length then some i else none

/-- `a` and `b` occur and the first `a` precedes the first `b`. -/
def opBefore (ops : List Nat) (a b : Nat) : Bool :=
  match opIdx ops a, opIdx ops b with
  | some i, some j => decide (i < j)
  | _, _ => false

inductive Why | stuck | ctx
  deriving DecidableEq, Repr

inductive PC
  | idle | start
  | reserved
  | check (c : Nat) | creating (c : Nat)
  | waiting (k g : Nat) | giveup (k : Nat) (w : Why)
  | using (c : Nat) | done
  deriving DecidableEq, Repr

structure Caller where
  pc : PC
  cancelled : Bool
  deriving DecidableEq, Repr

structure Conn where
  dead : Bool
  ready : Bool
  orphan : Bool
  deriving DecidableEq, Repr

structure State where
  max : Nat                  -- 0 = unlimited (`c.max < 1`)
  total : Nat
  conns : List Conn          -- index = connection id
  free : List Nat            -- head = most recently released (Go pops the last element of its slice)
  reqs : List Nat            -- keys of `reqMap.m`
  inbox : List (Nat × Nat)   -- (key, connection) sitting in a waiter's one-slot channel
  nextKey : Nat
  gen : Nat                  -- number of `stuck.Reset()` calls so far
  closed : Bool              -- `DC.Close` ran: `c.closed` is set and `c.ctx` is cancelled
  callers : List Caller
  deriving DecidableEq, Repr

inductive Br | ready | dead | ctx | dc
  deriving DecidableEq, Repr
inductive Wb | ch | stuck | ctx | dc
  deriving DecidableEq, Repr
inductive Fin | ok | err | retry
  deriving DecidableEq, Repr

inductive Action
  | start (i : Nat) | enter (i : Nat) | mk (i : Nat) | check (i : Nat)
  | cwake (i : Nat) (b : Br) | wwake (i : Nat) (b : Wb)
  | giveup (i : Nat) (k : Option Nat)
  | finish (i : Nat) (r : Fin) (k : Option Nat)
  | ready (c : Nat) | die (c : Nat) | cancel (i : Nat)
  | bg (c : Nat) (rel : Bool) (k : Option Nat)
  | closeDC
  deriving DecidableEq, Repr

def init (max ncallers : Nat) : State :=
  { max := max, total := 0, conns := [], free := [], reqs := [], inbox := [], nextKey := 0, gen := 0, closed := false,
    callers := List.replicate ncallers { pc := .idle, cancelled := false } }

/-- The connection's `Dead()` flag (an unknown id counts as dead: it can never be handed out). -/
def isDead (s : State) (c : Nat) : Bool :=
  match s.conns[c]? with
  | some x => x.dead
  | none => true

def setPc (s : State) (i : Nat) (x : Caller) (p : PC) : State :=
  { s with callers := s.callers.set i { x with pc := p } }

/-- `DC.dead(r)`: no-op when already deleted. -/
def markDead (s : State) (c : Nat) : State :=
  match s.conns[c]? with
  | some x =>
    if x.dead then s
    else { s with total := s.total - 1, free := s.free.erase c,
                  conns := s.conns.set c { x with dead := true }, gen := s.gen + 1 }
  | none => s

/-- `DC.dead` as the source has it: when the stuck signal is reset only after the last connection died,
the generation does not advance while connections remain. -/
def markDeadCfg (cfg : Cfg) (s : State) (c : Nat) : State :=
  let s' := markDead s c
  if cfg.resetAlways ∨ s'.total = 0 then s' else { s' with gen := s.gen }

/-- First entry of the inbox with key `k`, and the inbox without it (one channel receive). -/
def takeKey (k : Nat) : List (Nat × Nat) → Option (Nat × List (Nat × Nat))
  | [] => none
  | e :: es =>
    if e.1 = k then some (e.2, es)
    else match takeKey k es with
      | some (c, es') => some (c, e :: es')
      | none => none

/-- `DC.release(r)`: transfer to the waiter `k` chosen by the map iteration, or append to `free`
when nobody waits. -/
def release (s : State) (c : Nat) : Option Nat → Option State
  | none => if s.reqs = [] then some { s with free := c :: s.free } else none
  | some k => if k ∈ s.reqs then some { s with reqs := s.reqs.erase k, inbox := s.inbox ++ [(k, c)] } else none

/-- A path of `acquire` that returns connection `c` to caller `i`. -/
def handOut (cfg : Cfg) (s : State) (i : Nat) (x : Caller) (c : Nat) : State :=
  if cfg.handoutChecksDead ∧ isDead s c then setPc s i x .start else setPc s i x (.using c)

def step (cfg : Cfg) (s : State) : Action → Option State
  | .start i =>
    match s.callers[i]? with
    | some x => if x.pc = .idle then some (setPc s i x (if s.closed then .done else .start)) else none
    | none => none
  | .enter i =>
    match s.callers[i]? with
    | some x =>
      if x.pc = .start then
        match s.free with
        | c :: fs => some (setPc { s with free := fs } i x (.check c))
        | [] =>
          if s.max = 0 ∨ s.total < s.max then
            some (setPc { s with total := if cfg.totalUnderCheck then s.total + 1 else s.total } i x .reserved)
          else
            some (setPc { s with reqs := s.reqs ++ [s.nextKey], nextKey := s.nextKey + 1 }
                        i x (.waiting s.nextKey s.gen))
      else none
    | none => none
  | .mk i =>
    match s.callers[i]? with
    | some x =>
      if x.pc = .reserved then
        some (setPc { s with total := if cfg.totalUnderCheck then s.total else s.total + 1,
                             conns := s.conns ++ [{ dead := false, ready := false, orphan := false }] }
                    i x (.creating s.conns.length))
      else none
    | none => none
  | .check i =>
    match s.callers[i]? with
    | some x =>
      match x.pc with
      | .check c => if isDead s c then some (setPc s i x .start) else some (setPc s i x (.using c))
      | _ => none
    | none => none
  | .cwake i b =>
    match s.callers[i]? with
    | some x =>
      match x.pc with
      | .creating c =>
        match s.conns[c]? with
        | some cn =>
          match b with
          | .ready => if cn.ready then some (handOut cfg s i x c) else none
          | .dead => if cn.dead then some (setPc s i x .start) else none
          | .ctx =>
            if x.cancelled then
              some (setPc { s with conns := s.conns.set c { cn with orphan := cfg.createCancelReleases } } i x .done)
            else none
          | .dc => if s.closed then some (setPc s i x .done) else none
        | none => none
      | _ => none
    | none => none
  | .wwake i b =>
    match s.callers[i]? with
    | some x =>
      match x.pc with
      | .waiting k g =>
        match b with
        | .ch =>
          match takeKey k s.inbox with
          | some (c, rest) => some (handOut cfg { s with inbox := rest } i x c)
          | none => none
        | .stuck => if g < s.gen then some (setPc s i x (.giveup k .stuck)) else none
        | .ctx => if x.cancelled then some (setPc s i x (.giveup k .ctx)) else none
        | .dc => if s.closed then some (setPc s i x (.giveup k .ctx)) else none
      | _ => none
    | none => none
  | .giveup i k? =>
    match s.callers[i]? with
    | some x =>
      match x.pc with
      | .giveup k w =>
        let s1 := { s with reqs := s.reqs.erase k }
        match takeKey k s1.inbox with
        | none =>
          if k? = none then
            some (setPc s1 i x (match w with | .stuck => .start | .ctx => .done))
          else none
        | some (c, rest) =>
          let s2 := { s1 with inbox := rest }
          match w with
          | .stuck => if k? = none then some (handOut cfg s2 i x c) else none
          | .ctx =>
            match release s2 c k? with
            | some s3 => some (setPc s3 i x .done)
            | none => none
      | _ => none
    | none => none
  | .finish i r k? =>
    match s.callers[i]? with
    | some x =>
      match x.pc with
      | .using c =>
        if r = .retry ∧ x.cancelled = false then
          if k? = none then some (setPc (markDeadCfg cfg s c) i x .start) else none
        else
          match release s c k? with
          | some s1 => some (setPc s1 i x .done)
          | none => none
      | _ => none
    | none => none
  | .ready c =>
    match s.conns[c]? with
    | some cn => some { s with conns := s.conns.set c { cn with ready := true } }
    | none => none
  | .die c =>
    match s.conns[c]? with
    | some _ => some (markDeadCfg cfg s c)
    | none => none
  | .cancel i =>
    match s.callers[i]? with
    | some x => some { s with callers := s.callers.set i { x with cancelled := true } }
    | none => none
  | .bg c rel k? =>
    match s.conns[c]? with
    | some cn =>
      if cn.orphan then
        let s1 := { s with conns := s.conns.set c { cn with orphan := false } }
        if rel then
          if cn.ready then
            if cfg.bgOffersWaiters then release s1 c k?
            else if k? = none then some { s1 with free := c :: s1.free } else none
          else none
        else
          if (cn.dead ∨ s.closed) ∧ k? = none then some s1 else none
      else none
    | none => none

  | .closeDC => if s.closed then none else some { s with closed := true }

def run (cfg : Cfg) (s : State) : List Action → Option State
  | [] => some s
  | a :: as => match step cfg s a with
    | some s' => run cfg s' as
    | none => none

/-! ### Counting who holds a connection -/

def heldBy : PC → Option Nat
  | .check c => some c
  | .creating c => some c
  | .using c => some c
  | _ => none

def nCallers (s : State) (c : Nat) : Nat := s.callers.countP (fun x => heldBy x.pc == some c)
def nFree (s : State) (c : Nat) : Nat := s.free.count c
def nInbox (s : State) (c : Nat) : Nat := s.inbox.countP (fun e => e.2 == c)
def nOrphan (s : State) (c : Nat) : Nat :=
  match s.conns[c]? with
  | some x => if x.orphan then 1 else 0
  | none => 0

/-- Number of places that hold connection `c`: callers that popped / are creating / are using it, the
free list, waiters' channels, the background releaser. -/
def holders (s : State) (c : Nat) : Nat := nCallers s c + nFree s c + nInbox s c + nOrphan s c

def liveCount (s : State) : Nat := s.conns.countP (fun x => !x.dead)

/-- Callers that have reserved a slot (`total++`) and have not yet created their connection. -/
def nReserved (s : State) : Nat := s.callers.countP (fun x => x.pc == .reserved)

/-- A waiter key has a live reader: some caller is parked on it or is giving up on it (and will poll). -/
def hasReader (s : State) (k : Nat) : Bool :=
  s.callers.any (fun x => match x.pc with
    | .waiting k' _ => k' == k
    | .giveup k' _ => k' == k
    | _ => false)

/-- The property as a decidable monitor on one state (C27 + C28): the total is the number of live
connections plus reserved slots and respects the limit; every connection has at most one holder; every live connection
has exactly one; every connection in a channel has a live reader. -/
def holdsB (s : State) : Bool :=
  s.total == liveCount s + nReserved s &&
  (s.max == 0 || s.total ≤ s.max) &&
  (List.range s.conns.length).all (fun c =>
    holders s c ≤ 1 && (isDead s c || s.closed || holders s c == 1)) &&
  s.inbox.all (fun e => hasReader s e.1 && e.2 < s.conns.length) &&
  s.free.all (fun c => c < s.conns.length)

end TdModel.C27
