/-
C02 — the update-manager model (TdModel/Model/C02Core.lean, C02Mgr.lean) instantiated with the
call orders and routing facts regenerated from /repo/telegram/updates by `./check C02`.
-/
import TdModel.Model.C02Mgr
import TdModel.Gen.C02

namespace TdModel.C02
open TdModel.C02Core

/-- The regenerated orders (codes → calls). -/
def orders : Orders where
  applyPts := Facts.C02.applyPts.map Call.ofCode
  applyQts := Facts.C02.applyQts.map Call.ofCode
  chApplyPts := Facts.C02.chApplyPts.map Call.ofCode
  diffPrelude := Facts.C02.diffPrelude.map Call.ofCode
  diffSetState := Facts.C02.diffSetState.map Call.ofCode
  diffDifference := Facts.C02.diffDifference.map Call.ofCode
  diffEmpty := Facts.C02.diffEmpty.map Call.ofCode
  diffSlice := Facts.C02.diffSlice.map Call.ofCode
  diffTooLong := Facts.C02.diffTooLong.map Call.ofCode
  chDiffPrelude := Facts.C02.chDiffPrelude.map Call.ofCode
  chDiffDifference := Facts.C02.chDiffDifference.map Call.ofCode
  chDiffEmpty := Facts.C02.chDiffEmpty.map Call.ofCode
  chDiffTooLong := Facts.C02.chDiffTooLong.map Call.ofCode
  diffGuard := Facts.C02.diffGuard
  sliceGuard := Facts.C02.sliceGuard
  chDiffGuard := Facts.C02.chDiffGuard
  applyPtsBreak := decide (Facts.C02.applyPtsSkip ≠ 0)
  chApplyPtsBreak := decide (Facts.C02.chApplyPtsSkip ≠ 0)
  ownDirect := Facts.C02.ownDirect
  chOwnDirect := Facts.C02.chOwnDirect
  creationStoresLocal := decide (Facts.C02.creationStore = 0)
  diffLimit := Facts.C02.diffLimitUser

end TdModel.C02
