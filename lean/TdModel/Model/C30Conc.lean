/-
C30 — concurrent notifications and migrations.  Several connections (primary, sub-DC, CDN) may
call the client handler at the same time, and `migrateToDc` (`USER_MIGRATE`/`PHONE_MIGRATE`
handling in `invokeMigrate`, or `Client.MigrateTo`) may call `c.session.Migrate` in between.
`onSession` is not one critical section: it runs
  0. `storeDCSess`                      (under `sessionsMux`)
  1. `primaryDC := c.session.Load().DC` and the skip test
  2. `c.session.Store(sessionData)`     (under `connMux`)
  3. `c.storage.Load` and the computation of the new `session.Data`   — start of `saveSession`
  4. `c.storage.Save(data)`
each atomic by the lock named (3: the data is computed from the notification right after the
load; nothing shared is read there).  `onCDNSession` and `Migrate` are one step each.  This file
is the labelled transition system whose actions are "a notification / migration arrives" and
"agent `i` performs its next atomic step"; any action list is any interleaving of any number
of them.  This is the hand-written ("clean") LTS; `TdModel/Model/C30Interp.lean` is the one
interpreted from the regenerated facts, `Lemmas/C30Interp.lean` proves them equal.  Core Lean only.
-/
import TdModel.Model.C30

namespace TdModel.C30
open TdModel

structure Thread where
  n : Notif
  /-- next atomic step -/
  pc : Nat
  /-- returned early (skipped, no storage, storage error) -/
  done : Bool
  /-- `primaryDC` as read at step 1 -/
  saw : Int
  /-- the `session.Data` computed at step 3, written at step 4 -/
  pending : Stored
  res : Res
  deriving DecidableEq, Repr

def emptyStored : Stored := ⟨0, [], [], 0, ""⟩

def Thread.new (n : Notif) : Thread := ⟨n, 0, false, 0, emptyStored, .ok⟩

structure CSt where
  st : St
  /-- notifications / migrations in flight or finished, by arrival number -/
  threads : Nat → Option Thread
  count : Nat

inductive Act where
  | spawn (n : Notif)
  | adv (i : Nat)
  deriving DecidableEq, Repr

/-- One atomic step of one agent. -/
def advThread (s : St) (t : Thread) : St × Thread :=
  if t.done then (s, t)
  else
    match t.n.kind with
    | .cdn =>
      if t.pc = 0 then ({ s with cdnSessions := insertDC s.cdnSessions (sessOf t.n) }, { t with pc := 1 })
      else (s, { t with done := true })
    | .migrate =>
      if t.pc = 0 then ({ s with session := ⟨t.n.cfgDC, zeroAuthKey, 0⟩ }, { t with pc := 1 })
      else (s, { t with done := true })
    | .regular =>
      if t.pc = 0 then ({ s with dcSessions := insertDC s.dcSessions (sessOf t.n) }, { t with pc := 1 })
      else if t.pc = 1 then
        if skips s.session.dc t.n.cfgDC then (s, { t with saw := s.session.dc, done := true })
        else (s, { t with saw := s.session.dc, pc := 2 })
      else if t.pc = 2 then ({ s with session := sessOf t.n }, { t with pc := 3 })
      else if t.pc = 3 then
        if !s.hasStorage then (s, { t with done := true })
        else if t.n.fault = .loadErr then (s, { t with done := true, res := .errLoad })
        else
          (s, { t with pc := 4, pending := storedOf t.n (match s.stored with
                                                          | some d => d.addr
                                                          | none => "") })
      else if t.pc = 4 then
        if t.n.fault = .saveErr then (s, { t with done := true, res := .errSave })
        else ({ s with stored := some t.pending }, { t with pc := 5 })
      else (s, { t with done := true })

def updT (f : Nat → Option Thread) (i : Nat) (x : Option Thread) : Nat → Option Thread :=
  fun j => if j = i then x else f j

def cstepWith (adv : St → Thread → St × Thread) (c : CSt) : Act → CSt
  | .spawn n => { c with threads := updT c.threads c.count (some (Thread.new n)), count := c.count + 1 }
  | .adv i =>
    match c.threads i with
    | some t => { c with st := (adv c.st t).1, threads := updT c.threads i (some (adv c.st t).2) }
    | none => c

def cstep : CSt → Act → CSt := cstepWith advThread

def crun (c : CSt) (as : List Act) : CSt := as.foldl cstep c

def cinit (s : St) : CSt := ⟨s, fun _ => none, 0⟩

/-- The test `onSession` applied to the primary DC it read. -/
def eligible (t : Thread) : Prop := t.n.cfgDC = t.saw ∨ t.saw = 0 ∨ t.n.cfgDC = 0

/-- An agent run alone, start to end (6 steps suffice). -/
def aloneWith (adv : St → Thread → St × Thread) (s : St) (n : Notif) : St × Thread :=
  let r1 := adv s (Thread.new n)
  let r2 := adv r1.1 r1.2
  let r3 := adv r2.1 r2.2
  let r4 := adv r3.1 r3.2
  let r5 := adv r4.1 r4.2
  adv r5.1 r5.2

def alone : St → Notif → St × Thread := aloneWith advThread

end TdModel.C30
