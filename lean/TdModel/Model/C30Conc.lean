/-
C30 — concurrent notifications.  Several connections (primary, sub-DC, CDN) may call the client
handler at the same time.  `onSession` is not one critical section: it runs
  0. `storeDCSess`                      (under `sessionsMux`)
  1. `primaryDC := c.session.Load().DC` and the skip test
  2. `c.session.Store(sessionData)`     (under `connMux`)
  3. `c.storage.Load`                   (storage's own lock)   — start of `saveSession`
  4. `c.storage.Save(data)`             (storage's own lock)
each atomic by the lock named.  This file is the labelled transition system whose actions are
"a new notification arrives" and "notification `i` performs its next atomic step"; any action
list is any interleaving of any number of notifications.  Core Lean only.
-/
import TdModel.Model.C30

namespace TdModel.C30
open TdModel

structure Thread where
  n : Notif
  /-- next atomic step (0..4); 5 = returned -/
  pc : Nat
  /-- `primaryDC` as read at step 1 -/
  saw : Int
  /-- `data.Addr` as loaded at step 3 -/
  addr : String
  res : Res
  deriving DecidableEq, Repr

structure CSt where
  st : St
  /-- notifications in flight or finished, by arrival number -/
  threads : Nat → Option Thread
  count : Nat

inductive Act where
  | spawn (n : Notif)
  | adv (i : Nat)
  deriving DecidableEq, Repr

/-- One atomic step of one notification. -/
def advThread (s : St) (t : Thread) : St × Thread :=
  match t.n.kind with
  | .cdn =>
    if t.pc = 0 then ({ s with cdnSessions := insertDC s.cdnSessions (sessOf t.n) }, { t with pc := 5 })
    else (s, t)
  | .regular =>
    if t.pc = 0 then ({ s with dcSessions := insertDC s.dcSessions (sessOf t.n) }, { t with pc := 1 })
    else if t.pc = 1 then
      if skips s.session.dc t.n.cfgDC then (s, { t with pc := 5, saw := s.session.dc })
      else (s, { t with pc := 2, saw := s.session.dc })
    else if t.pc = 2 then ({ s with session := sessOf t.n }, { t with pc := 3 })
    else if t.pc = 3 then
      if !s.hasStorage then (s, { t with pc := 5 })
      else if t.n.fault = .loadErr then (s, { t with pc := 5, res := .errLoad })
      else
        (s, { t with pc := 4, addr := match s.stored with
                                      | some d => d.addr
                                      | none => "" })
    else if t.pc = 4 then
      if t.n.fault = .saveErr then (s, { t with pc := 5, res := .errSave })
      else ({ s with stored := some (storedOf t.n t.addr) }, { t with pc := 5 })
    else (s, t)

def updT (f : Nat → Option Thread) (i : Nat) (x : Option Thread) : Nat → Option Thread :=
  fun j => if j = i then x else f j

def cstep (c : CSt) : Act → CSt
  | .spawn n => { c with threads := updT c.threads c.count (some ⟨n, 0, 0, "", .ok⟩), count := c.count + 1 }
  | .adv i =>
    match c.threads i with
    | some t => { c with st := (advThread c.st t).1, threads := updT c.threads i (some (advThread c.st t).2) }
    | none => c

def crun (c : CSt) (as : List Act) : CSt := as.foldl cstep c

def cinit (s : St) : CSt := ⟨s, fun _ => none, 0⟩

/-- The test `onSession` applied to the primary DC it read. -/
def eligible (t : Thread) : Prop := t.n.cfgDC = t.saw ∨ t.saw = 0 ∨ t.n.cfgDC = 0

/-- A notification run alone, start to end (5 steps suffice). -/
def alone (s : St) (n : Notif) : St × Thread :=
  let t0 : Thread := ⟨n, 0, 0, "", .ok⟩
  let r1 := advThread s t0
  let r2 := advThread r1.1 r1.2
  let r3 := advThread r2.1 r2.2
  let r4 := advThread r3.1 r3.2
  advThread r4.1 r4.2

/-! ### executable exploration for the driver -/

/-- Is a final state satisfying `goal` reachable by running every notification of `ts` to completion
in some interleaving?  (fuel = total number of remaining steps) -/
def reach (goal : St → List Thread → Bool) : Nat → St → List Thread → Bool
  | 0, s, ts => goal s ts
  | fuel + 1, s, ts =>
    let live := (List.range ts.length).filter fun i => match ts[i]? with
      | some t => t.pc < 5
      | none => false
    if live.isEmpty then goal s ts
    else live.any fun i =>
      match ts[i]? with
      | some t => reach goal fuel (advThread s t).1 (ts.set i (advThread s t).2)
      | none => false

end TdModel.C30
