/-
C34 — model of /repo/telegram/downloader: cdn_plan.go (`largestCDNValidLimit`, `buildCDNRequestPlan`),
cdn_verify.go (`decrypt`, `hash`, `verifyChunk`, `loadAndVerifyWindow`), cdn_state_machine.go (`Chunk`,
CDN branch: plan → request → decrypt → append → verify), verifier.go (`verifier.next/update/verify`),
reader.go (`nextHashed`).

SHA-256 and the AES block function are parameters (`TdModel.Prims`); the drivers plug the executable
implementations of `TdModel/Prim`.  The CDN is an arbitrary function `offset → limit → bytes` (it is the
adversary); the hash windows come from the master DC (trusted) as a lookup function.
Constants (4 KiB, 1 MiB) are regenerated from the source.
-/
import TdModel.Model.Prims
import TdModel.Gen.C34

namespace TdModel.C34
open TdModel

def minChunk : Nat := Facts.C34.cdnMinChunk
def maxChunk : Nat := Facts.C34.cdnMaxChunk

/-! ## request plan

The functions take the two constants as parameters (`mn` = 4 KiB grid, `mx` = 1 MiB) and are
instantiated with the regenerated values below. -/

/-- `largestCDNValidLimit`: `for size := max; size >= mn; size -= mn { if mx%size == 0 {return size} }`.
`fuel` ≥ number of iterations. -/
def largestValidF (mn mx : Nat) : Nat → Nat → Nat
  | 0, _ => 0
  | f + 1, size =>
    if size ≥ mn then
      if mx % size = 0 then size else largestValidF mn mx f (size - mn)
    else 0

def largestValidP (mn mx max : Nat) : Nat := largestValidF mn mx (max / mn + 1) max

structure Range where
  offset : Nat
  limit : Nat
  deriving Repr, DecidableEq, BEq

inductive PlanErr where
  | badLimit | badOffset | offsetUnaligned | limitUnaligned | unable
  deriving Repr, DecidableEq, BEq

/-- The loop of `buildCDNRequestPlan`. -/
def planLoop (mn mx : Nat) : Nat → Nat → Nat → Except PlanErr (List Range)
  | 0, _, remaining => if remaining = 0 then .ok [] else .error .unable
  | f + 1, current, remaining =>
    if remaining = 0 then .ok []
    else
      let step := largestValidP mn mx (if remaining > mx - current % mx then mx - current % mx else remaining)
      if step = 0 then .error .unable
      else match planLoop mn mx f (current + step) (remaining - step) with
        | .ok rest => .ok ({ offset := current, limit := step } :: rest)
        | .error e => .error e

/-- `buildCDNRequestPlan` (offset, limit as Go ints). -/
def buildPlanP (mn mx : Nat) (offset limit : Int) : Except PlanErr (List Range) :=
  if limit ≤ 0 then .error .badLimit
  else if offset < 0 then .error .badOffset
  else if offset.toNat % mn ≠ 0 then .error .offsetUnaligned
  else if limit.toNat % mn ≠ 0 then .error .limitUnaligned
  else planLoop mn mx (limit.toNat / mn + 1) offset.toNat limit.toNat

def largestValid (max : Nat) : Nat := largestValidP minChunk maxChunk max
def buildPlan (offset limit : Int) : Except PlanErr (List Range) := buildPlanP minChunk maxChunk offset limit

/-! ## decryption -/

/-- Big-endian 32-bit encoding. -/
def be32 (n : Nat) : Bytes :=
  [UInt8.ofNat (n / 16777216 % 256), UInt8.ofNat (n / 65536 % 256), UInt8.ofNat (n / 256 % 256), UInt8.ofNat (n % 256)]

/-- The counter block `decrypt` starts from: the redirect's IV with its last four bytes replaced by
`uint32(offset / 16)` big-endian. -/
def ctrIV (iv : Bytes) (offset : Nat) : Bytes :=
  iv.take (iv.length - 4) ++ be32 (offset / (if Facts.C34.ctrCounterIsOffsetDiv16 then 16 else 1) % 4294967296)

/-! ## inline verification -/

structure FileHash where
  offset : Nat
  limit : Nat
  hash : Bytes
  deriving Repr, DecidableEq, BEq

inductive VErr where
  | mismatch      -- ErrHashMismatch
  | noHash        -- no hash window for an offset (after the retries)
  | badWindow     -- invalid limit / window
  | badLen        -- invalid CDN window length
  | badOverlap
  | plan          -- request plan could not be built
  | tooLong       -- CDN answered more bytes than requested
  | beyondTail    -- chunk bytes after the verified (short) last window
  | truncatedSplit -- short chunk although the verified window continues after it
  | depth         -- recursion bound of the model
  | stateLoop     -- `retry limit reached … state loop`: the attempts of `Chunk` are used up
  deriving Repr, DecidableEq, BEq

/-- The CDN branch of `Chunk` before verification: every range of the plan is requested, decrypted and
appended; a part shorter than requested ends the chunk (file tail); a part longer than requested is
rejected (`rejectsLongPart`: the repaired code; regenerated from the source). -/
def chunkRaw (cdn : Nat → Nat → Bytes) (dec : Nat → Bytes → Bytes) : List Range → Except VErr Bytes
  | [] => .ok []
  | r :: rest =>
    let part := dec r.offset (cdn r.offset r.limit)
    if Facts.C34.rejectsLongPart && decide (part.length > r.limit) then .error .tooLong
    else if part.length < r.limit then .ok part
    else match chunkRaw cdn dec rest with
      | .ok more => .ok (part ++ more)
      | .error e => .error e

/-! ### the control loop of `cdn.Chunk`: redirect, token refresh, reupload -/

/-- What the CDN (or the master DC on its behalf) does with one `upload.getCdnFile` request. -/
inductive Ev where
  | serve          -- answers `upload.cdnFile`
  | reupload       -- `upload.cdnFileReuploadNeeded` → `upload.reuploadCdnFile` → try the chunk again
  | tokenInvalid   -- FILE_TOKEN_INVALID → ask the master again → new redirect → try the chunk again
  | tokenInvalidFile -- FILE_TOKEN_INVALID → the master now serves the file itself (no longer on the CDN)
  deriving Repr, DecidableEq, BEq

def Ev.isControl : Ev → Bool
  | .serve => false
  | _ => true

inductive Pass where
  | data (d : Bytes)
  | restart
  | master          -- fall back to the chunk the master DC returned
  | fail (e : VErr)
  deriving Repr, DecidableEq

/-- One pass over the plan (the `partLoop`): every request consumes the next scripted event (`serve`
when the script is exhausted). Returns the unconsumed events. -/
def passEv (cdn : Nat → Nat → Bytes) (dec : Nat → Bytes → Bytes) : List Range → List Ev → List Ev × Pass
  | [], evs => (evs, .data [])
  | r :: rest, evs =>
    match evs.headD .serve with
    | .reupload => (evs.tail, .restart)
    | .tokenInvalid => (evs.tail, .restart)
    | .tokenInvalidFile => (evs.tail, .master)
    | .serve =>
      let part := dec r.offset (cdn r.offset r.limit)
      if Facts.C34.rejectsLongPart && decide (part.length > r.limit) then (evs.tail, .fail .tooLong)
      else if part.length < r.limit then (evs.tail, .data part)
      else match passEv cdn dec rest evs.tail with
        | (evs', .data more) => (evs', .data (part ++ more))
        | other => other

/-- The attempts loop of `Chunk` in CDN mode (`attempts` = iterations left). -/
def chunkLoop (cdn : Nat → Nat → Bytes) (dec : Nat → Bytes → Bytes) (masterData : Bytes) (plan : List Range) :
    Nat → List Ev → Except VErr Bytes
  | 0, _ => .error .stateLoop
  | n + 1, evs =>
    match passEv cdn dec plan evs with
    | (_, .data d) => .ok d
    | (evs', .restart) => chunkLoop cdn dec masterData plan n evs'
    | (_, .master) => .ok masterData
    | (_, .fail e) => .error e

/-- `Chunk` on a schema that has not seen the redirect yet: the first iteration asks the master DC, gets
`upload.fileCdnRedirect`, switches to CDN mode and `continue`s (one attempt spent). -/
def chunkFresh (cdn : Nat → Nat → Bytes) (dec : Nat → Bytes → Bytes) (masterData : Bytes)
    (offset limit : Int) (evs : List Ev) : Except VErr Bytes :=
  match buildPlan offset limit with
  | .error _ => .error .plan
  | .ok plan => chunkLoop cdn dec masterData plan (Facts.C34.maxRetryAttempts - 1) evs

/-- `verifyChunk`'s loop over the hash windows touched by `data` (which starts at `cStart`).
`look` = `hashForOffset` (master DC), `loadW` = `loadAndVerifyWindow`. Returns the (possibly patched) data. -/
def verifyLoop (sha : Bytes → Bytes) (look : Nat → Option FileHash) (loadW : FileHash → Except VErr Bytes)
    (cStart : Nat) (short : Bool) : Nat → Nat → Bytes → Except VErr Bytes
  | 0, _, d => .ok d
  | f + 1, cur, d =>
    let cEnd := cStart + d.length
    if cur ≥ cEnd then .ok d
    else match look cur with
      | none => .error .noHash
      | some h =>
        let wS := h.offset
        let wE := h.offset + h.limit
        if h.limit = 0 then .error .badWindow
        else if wE ≤ cur then .error .badWindow
        else if wS ≥ cStart ∧ wE ≤ cEnd then
          if sha ((d.drop (wS - cStart)).take (wE - wS)) = h.hash then verifyLoop sha look loadW cStart short f wE d
          else .error .mismatch
        else if short ∧ wS ≥ cStart ∧ wS < cEnd ∧ wE > cEnd then
          if sha (d.drop (wS - cStart)) = h.hash then .ok d else .error .mismatch
        else match loadW h with
          | .error e => .error e
          | .ok window =>
            let oS := if wS > cStart then wS else cStart
            let wDataEnd := wS + window.length
            let oE := if wDataEnd < cEnd then wDataEnd else cEnd
            if Facts.C34.rejectsBeyondTail && decide (wDataEnd < wE ∧ wDataEnd < cEnd) then .error .beyondTail
            else if Facts.C34.rejectsTruncatedSplit && short && decide (wDataEnd > cEnd) then .error .truncatedSplit
            else if oE ≤ oS then .error .badOverlap
            else
              let d' := d.take (oS - cStart) ++ (window.drop (oS - wS)).take (oE - oS) ++ d.drop (oE - cStart)
              verifyLoop sha look loadW cStart short f wE d'

/-- `verifyChunk`. -/
def verifyChunk (sha : Bytes → Bytes) (look : Nat → Option FileHash) (loadW : FileHash → Except VErr Bytes)
    (verify : Bool) (offset reqLimit : Nat) (data : Bytes) : Except VErr Bytes :=
  if !verify || data.isEmpty then .ok data
  else verifyLoop sha look loadW offset (decide (reqLimit > 0 ∧ data.length < reqLimit)) (data.length + 1) offset data

/-- `cdn.Chunk` in CDN mode (`depth` bounds the `Chunk → verifyChunk → loadAndVerifyWindow → Chunk`
recursion, which the real code leaves after one level for consistent windows). -/
def chunkCDN (sha : Bytes → Bytes) (cdn : Nat → Nat → Bytes) (dec : Nat → Bytes → Bytes)
    (look : Nat → Option FileHash) (verify : Bool) : Nat → Nat → Nat → Except VErr Bytes
  | 0, _, _ => .error .depth
  | depth + 1, offset, limit =>
    match buildPlan offset limit with
    | .error _ => .error .plan
    | .ok plan =>
      match chunkRaw cdn dec plan with
      | .error e => .error e
      | .ok data =>
        let loadW : FileHash → Except VErr Bytes := fun h =>
          match chunkCDN sha cdn dec look verify depth h.offset h.limit with
          | .error e => .error e
          | .ok full =>
            if full.isEmpty || decide (full.length > h.limit) then .error .badLen
            else if sha full = h.hash then .ok full else .error .mismatch
        verifyChunk sha look loadW verify offset limit data

/-- Result of a streamed download. -/
structure DOut where
  data : Bytes := []
  err : Option VErr := none
  done : Bool := false
  deriving Repr, DecidableEq

/-- `Downloader.stream` over a chunk function with part size `ps` (plain reader). -/
def streamChunks (chunk : Nat → Nat → Except VErr Bytes) (ps : Nat) : Nat → Nat → DOut
  | 0, _ => {}
  | f + 1, k =>
    match chunk (k * ps) ps with
    | .error e => { err := some e, done := true }
    | .ok d =>
      if d.length < 1 then { done := true }
      else if d.length < ps then { data := d, done := true }
      else
        let o := streamChunks chunk ps f (k + 1)
        { o with data := d ++ o.data }

/-! ## verifier queue (`WithVerify(true)`) -/

/-- Stable insertion sort by offset (`sort.SliceStable`). -/
def insertByOffset (h : FileHash) : List FileHash → List FileHash
  | [] => [h]
  | x :: l => if h.offset < x.offset then h :: x :: l else x :: insertByOffset h l

def sortByOffset (l : List FileHash) : List FileHash := l.foldr insertByOffset []

structure VState where
  queue : List FileHash := []
  offset : Nat := 0
  deriving Repr, DecidableEq

/-- `verifier.update`. `none` = no further hash (end of file). -/
def vUpdate (v : VState) (hashes : List FileHash) : VState × Option FileHash :=
  match (sortByOffset hashes).getLast? with
  | none => (v, none)
  | some last =>
    if (last.offset : Int) = (v.offset : Int) - (last.limit : Int) then (v, none)
    else
      let q := v.queue ++ sortByOffset hashes
      match q with
      | [] => ({ v with offset := last.offset + last.limit }, none)
      | h :: rest => ({ queue := rest, offset := last.offset + last.limit }, some h)

/-- `verifier.next` against a hash service. -/
def vNext (hs : Nat → List FileHash) (v : VState) : VState × Option FileHash :=
  match v.queue with
  | h :: rest => ({ v with queue := rest }, some h)
  | [] => vUpdate v (hs v.offset)

/-- `reader.nextHashed` + `stream`: blocks are requested per hash window and delivered only if their
SHA-256 equals the server-provided hash. -/
def hashedStream (sha : Bytes → Bytes) (hs : Nat → List FileHash) (chunk : Nat → Nat → Except VErr Bytes) :
    Nat → VState → DOut
  | 0, _ => {}
  | f + 1, v =>
    match vNext hs v with
    | (_, none) => { done := true }
    | (v', some h) =>
      match chunk h.offset h.limit with
      | .error e => { err := some e, done := true }
      | .ok d =>
        if sha d = h.hash then
          if d.length < 1 then { done := true }
          else
            let o := hashedStream sha hs chunk f v'
            { o with data := d ++ o.data }
        else { err := some .mismatch, done := true }

/-- Genuine hash table of a file for a list of window sizes (the last window keeps its nominal limit but
hashes only the remaining tail, as Telegram does). -/
def windowsOf (sha : Bytes → Bytes) : Nat → List Nat → Bytes → List FileHash
  | _, [], _ => []
  | off, w :: ws, rest =>
    if rest.isEmpty then [] else { offset := off, limit := w, hash := sha (rest.take w) } :: windowsOf sha (off + w) ws (rest.drop w)

/-- `cdn.hash`: exact offset match, else the window containing the offset. -/
def lookupIn (tbl : List FileHash) (off : Nat) : Option FileHash :=
  match tbl.find? (fun h => h.offset == off && decide (h.limit > 0)) with
  | some h => some h
  | none => tbl.find? (fun h => decide (h.limit > 0 ∧ h.offset ≤ off ∧ off < h.offset + h.limit))

end TdModel.C34
