/-
C30 — model of /repo/telegram/session.go: `onSession`, `onCDNSession`, `saveSession`,
`storeDCSess`, `dcSessionFromMTProto`, `restoreConnection`, with `crypto.Key.ID` and the
`session.Storage` behind `session.Loader` (a memory cell that can be made to fail).

A notification is what `manager.Conn` hands to the client handler once the server has confirmed
a connection: the `tg.Config` of that connection (`cfg.ThisDC`) and its `mtproto.Session`
(key, permanent key under PFS, salt).  DC ids and salts are `Int` (Go `int`, `int64`); keys are
byte lists (`[256]byte`, `[8]byte` on the Go side).  Core Lean only.
-/
import TdModel.Model.Prims
import TdModel.Gen.C30

namespace TdModel.C30
open TdModel

structure AuthKey where
  value : Bytes
  id : Bytes
  deriving DecidableEq, Repr

def allZero (b : Bytes) : Bool := b.all (· == 0)

/-- `crypto.AuthKey.Zero`: `a == AuthKey{}`. -/
def AuthKey.isZero (k : AuthKey) : Bool := allZero k.value && allZero k.id

inductive Kind where
  | regular   -- primary or sub-DC connection: `clientHandler.OnSession` → `onSession`
  | cdn       -- CDN connection: `cdnClientHandler.OnSession` → `onCDNSession`
  | migrate   -- not a notification: `migrateToDc` → `c.session.Migrate(cfgDC)` (USER_MIGRATE / `MigrateTo`)
  deriving DecidableEq, Repr

/-- Behaviour of the session storage during one notification. -/
inductive Fault where
  | none | loadErr | saveErr
  deriving DecidableEq, Repr

structure Notif where
  kind : Kind
  cfgDC : Int
  key : AuthKey
  permKey : AuthKey
  salt : Int
  fault : Fault
  deriving DecidableEq, Repr

/-- `pool.Session`. -/
structure Sess where
  dc : Int
  key : AuthKey
  salt : Int
  deriving DecidableEq, Repr

/-- The fields of `session.Data` this property is about. -/
structure Stored where
  dc : Int
  authKey : Bytes
  authKeyID : Bytes
  salt : Int
  addr : String
  deriving DecidableEq, Repr

structure St where
  hasStorage : Bool
  /-- `c.session` — its `DC` is the primary DC -/
  session : Sess
  /-- content of the session storage -/
  stored : Option Stored
  /-- `c.sessions` -/
  dcSessions : List (Int × Sess)
  /-- `c.cdnSessions` -/
  cdnSessions : List (Int × Sess)
  deriving Repr

inductive Res where
  | ok | errLoad | errSave
  deriving DecidableEq, Repr

/-- `dcSessionFromMTProto` / `saveSession`: the permanent key when there is one. -/
def effKey (n : Notif) : AuthKey := if n.permKey.isZero then n.key else n.permKey

def sessOf (n : Notif) : Sess := ⟨n.cfgDC, effKey n, n.salt⟩

/-- `storeDCSess` on a Go map. -/
def insertDC (m : List (Int × Sess)) (s : Sess) : List (Int × Sess) :=
  (s.dc, s) :: m.filter (fun e => e.1 ≠ s.dc)

/-- `saveSession`: load (not found → empty `Data`), overwrite DC / key / salt, save. -/
def saveSession (s : St) (n : Notif) : St × Res :=
  if !s.hasStorage then (s, .ok)
  else
    match n.fault with
    | .loadErr => (s, .errLoad)
    | .saveErr => (s, .errSave)
    | .none =>
      let addr := match s.stored with
        | some d => d.addr
        | none => ""
      ({ s with stored := some ⟨n.cfgDC, (effKey n).value, (effKey n).id, n.salt, addr⟩ }, .ok)

/-- `onSession` skips notifications of a non-primary DC. -/
def skips (primary cfgDC : Int) : Bool := cfgDC ≠ 0 && primary ≠ 0 && primary ≠ cfgDC

/-- `Client.onSession`. -/
def onSession (s : St) (n : Notif) : St × Res :=
  let s1 := { s with dcSessions := insertDC s.dcSessions (sessOf n) }
  if skips s.session.dc n.cfgDC then (s1, .ok)
  else saveSession { s1 with session := sessOf n } n

/-- `Client.onCDNSession`. -/
def onCDNSession (s : St) (n : Notif) : St × Res :=
  ({ s with cdnSessions := insertDC s.cdnSessions (sessOf n) }, .ok)

/-- `crypto.AuthKey{}`. -/
def zeroAuthKey : AuthKey := ⟨List.replicate 256 0, List.replicate 8 0⟩

/-- `pool.SyncSession.Migrate`: new DC, key and salt zeroed. -/
def migrate (s : St) (n : Notif) : St × Res :=
  ({ s with session := ⟨n.cfgDC, zeroAuthKey, 0⟩ }, .ok)

def step (s : St) (n : Notif) : St × Res :=
  match n.kind with
  | .regular => onSession s n
  | .cdn => onCDNSession s n
  | .migrate => migrate s n

def run (s : St) (ns : List Notif) : St := ns.foldl (fun s n => (step s n).1) s

/-- Did notification `n` reach the storage in state `s`? -/
def accepted (s : St) (n : Notif) : Bool :=
  n.kind = .regular && !skips s.session.dc n.cfgDC && s.hasStorage && n.fault = .none

def storedOf (n : Notif) (addr : String) : Stored :=
  ⟨n.cfgDC, (effKey n).value, (effKey n).id, n.salt, addr⟩

/-! ### restoreConnection -/

/-- Go `copy(dst[:], src)` into a zeroed `[n]byte`. -/
def fit (n : Nat) (b : Bytes) : Bytes := (b ++ List.replicate n 0).take n

/-- `crypto.Key.ID`: bytes 12..19 of the SHA-1 of the key. -/
def keyID (P : Prims) (v : Bytes) : Bytes :=
  ((P.sha1 v).drop Facts.C30.keyIDOffset).take Facts.C30.keyIDLen

inductive LoadRes where
  | notFound | err | data (d : Stored)
  deriving Repr

inductive RErr where
  | load | corrupted
  deriving DecidableEq, Repr

/-- `Client.restoreConnection` given what `c.storage.Load` returned. -/
def restore (P : Prims) (s : St) (l : LoadRes) : Except RErr St :=
  if !s.hasStorage then .ok s
  else
    match l with
    | .notFound => .ok s
    | .err => .error .load
    | .data d =>
      let dc := if d.dc = 0 then s.session.dc else d.dc
      let key : AuthKey := ⟨fit 256 d.authKey, fit 8 d.authKeyID⟩
      if keyID P key.value ≠ key.id then .error .corrupted
      else .ok { s with session := ⟨dc, key, d.salt⟩ }

def loadOf (s : St) : LoadRes :=
  match s.stored with
  | some d => .data d
  | none => .notFound

end TdModel.C30
