/-
C09 / C10 — the byte level of the key-exchange messages: TL (de)serialisation of the constructors
the exchange puts on the wire (package mt: req_pq_multi, resPQ, req_DH_params, p_q_inner_data_dc /
_temp_dc, server_DH_params_ok/fail, server_DH_inner_data, set_client_DH_params,
client_DH_inner_data, dh_gen_ok/retry/fail) and the unencrypted-message envelope (proto).

The constructor ids and the order and kind of the fields are *regenerated* from the generated Go
code (`Facts.C09.tlLayouts`: what `EncodeBare` writes, what `DecodeBare` reads) and interpreted here
by one generic record codec over the primitives of `TdModel.Bin`.  Hand-written: which model value
sits in which named field (`fieldsOf…` / `…OfFields`).  `*big.Int` ↔ bytes is `big.Int.Bytes()` /
`SetBytes` (`natBE` / `beNat`).  Ciphertexts are opaque byte strings here (`Msg Bytes`).
-/
import TdModel.Model.C09
import TdModel.Model.Bin

namespace TdModel.C09
open TdModel TdModel.Bin

/-- `big.Int.Bytes()`: minimal big-endian bytes (empty for 0). -/
def natBE (n : Nat) : Bytes :=
  if _h : n = 0 then [] else natBE (n / 256) ++ [UInt8.ofNat (n % 256)]
termination_by n
decreasing_by omega

/-- `big.Int.SetBytes`. -/
def beNat (b : Bytes) : Nat := b.foldl (fun acc x => acc * 256 + x.toNat) 0

/-- A TL field value. -/
inductive FV where
  | raw (b : Bytes)        -- int128 / int256: the bytes themselves
  | bytes (b : Bytes)      -- bytes / string
  | int (i : Int)          -- int (32-bit two's complement on the wire)
  | long (n : Nat)         -- long, as its unsigned 64-bit pattern
  | vlong (l : List Nat)   -- Vector<long>
  deriving Repr, DecidableEq

def encField : FV → Bytes
  | .raw b => b
  | .bytes b => putBytes b
  | .int i => putInt32 i
  | .long n => putU64 n
  | .vlong l => putVectorHeader l.length ++ l.flatMap putU64

/-- `for idx := 0; idx < headerLen; idx++ { b.Long() }`. -/
def getLongs : Nat → Bytes → Res (List Nat)
  | 0, b => .ok ([], b)
  | n + 1, b =>
    match getU64 b with
    | .error e => .error e
    | .ok (v, r) =>
      match getLongs n r with
      | .error e => .error e
      | .ok (vs, r') => .ok (v :: vs, r')

/-- One field read, by the kind `DecodeBare` uses. -/
def decField (kind : String) (b : Bytes) : Res FV :=
  if kind = "Int128" then (getInt128 b).map fun x => (.raw x.1, x.2)
  else if kind = "Int256" then (getInt256 b).map fun x => (.raw x.1, x.2)
  else if kind = "Bytes" then (getBytes b).map fun x => (.bytes x.1, x.2)
  else if kind = "Int" then (getInt32 b).map fun x => (.int x.1, x.2)
  else if kind = "Long" then (getU64 b).map fun x => (.long x.1, x.2)
  else if kind = "VectorLong" then
    match getVectorHeader b with
    | .error e => .error e
    | .ok (n, r) => (getLongs n r).map fun x => (.vlong x.1, x.2)
  else .error (.other ("unknown field kind " ++ kind))

def decFields : List String → Bytes → Res (List FV)
  | [], b => .ok ([], b)
  | k :: ks, b =>
    match decField k b with
    | .error e => .error e
    | .ok (v, r) =>
      match decFields ks r with
      | .error e => .error e
      | .ok (vs, r') => .ok (v :: vs, r')

/-- The value has the kind the layout names (and a size the wire format can carry). -/
def kindOK (kind : String) : FV → Bool
  | .raw b => (kind == "Int128" && b.length == 16) || (kind == "Int256" && b.length == 32)
  | .bytes b => kind == "Bytes" && decide (b.length < 2 ^ 24)
  | .int i => kind == "Int" && decide (-2 ^ 31 ≤ i ∧ i < 2 ^ 31)
  | .long n => kind == "Long" && decide (n < 2 ^ 64)
  | .vlong l => kind == "VectorLong" && decide (l.length < 2 ^ 31) && l.all (fun x => decide (x < 2 ^ 64))

structure Layout where
  id : Nat
  enc : List (String × String)   -- (kind, Go field) in `EncodeBare` order
  dec : List String              -- kinds in `DecodeBare` order
  deriving DecidableEq, Repr

def layoutOf (T : String) : Option Layout :=
  (Facts.C09.tlLayouts.find? (fun r => r.1 == T)).map fun r => ⟨r.2.1, r.2.2.1, r.2.2.2⟩

/-- The values of the named fields, in layout order, each of the kind the layout names. -/
def collect (fields : String → Option FV) : List (String × String) → Option (List FV)
  | [] => some []
  | kf :: rest =>
    match fields kf.2 with
    | none => none
    | some v => if kindOK kf.1 v then (collect fields rest).map (v :: ·) else none

/-- `T.Encode`: id, then the named fields in the order `EncodeBare` writes them. -/
def encObj (T : String) (fields : String → Option FV) : Option Bytes :=
  match layoutOf T with
  | none => none
  | some L =>
    match collect fields L.enc with
    | none => none
    | some vs => some (putU32 L.id ++ vs.flatMap encField)

/-- `T.Decode`: `ConsumeID`, then the fields in the order `DecodeBare` reads them; the values come
back labelled with the Go field names. -/
def decObj (T : String) (b : Bytes) : Except Bin.Err (List (String × FV) × Bytes) :=
  match layoutOf T with
  | none => .error (.other "no layout")
  | some L =>
    match consumeID L.id b with
    | .error e => .error e
    | .ok (_, r) =>
      match decFields L.dec r with
      | .error e => .error e
      | .ok (vs, r') => .ok ((L.enc.map (·.2)).zip vs, r')

def fget (fs : List (String × FV)) (name : String) : Option FV := (fs.find? (fun f => f.1 == name)).map (·.2)
def fRaw (fs : List (String × FV)) (n : String) : Option Bytes := match fget fs n with | some (.raw b) => some b | _ => none
def fBytes (fs : List (String × FV)) (n : String) : Option Bytes := match fget fs n with | some (.bytes b) => some b | _ => none
def fInt (fs : List (String × FV)) (n : String) : Option Int := match fget fs n with | some (.int i) => some i | _ => none
def fLong (fs : List (String × FV)) (n : String) : Option Nat := match fget fs n with | some (.long v) => some v | _ => none
def fVLong (fs : List (String × FV)) (n : String) : Option (List Nat) := match fget fs n with | some (.vlong v) => some v | _ => none

def assoc (l : List (String × FV)) (n : String) : Option FV := fget l n

/-! ### the inner data objects -/

def encPQInner (d : PQInner) : Option Bytes :=
  encObj (if d.temp then "PQInnerDataTempDC" else "PQInnerDataDC") (assoc
    [("Pq", .bytes (natBE d.pq)), ("P", .bytes (natBE d.p)), ("Q", .bytes (natBE d.q)), ("Nonce", .raw d.nonce),
     ("ServerNonce", .raw d.serverNonce), ("NewNonce", .raw d.newNonce), ("DC", .int d.dc), ("ExpiresIn", .int d.expiresIn)])

def pqInnerOf (temp : Bool) (fs : List (String × FV)) : Option PQInner := do
  let ex ← (if temp then fInt fs "ExpiresIn" else some 0)
  pure ⟨temp, beNat (← fBytes fs "Pq"), beNat (← fBytes fs "P"), beNat (← fBytes fs "Q"), ← fRaw fs "Nonce",
    ← fRaw fs "ServerNonce", ← fRaw fs "NewNonce", ← fInt fs "DC", ex⟩

/-- `mt.DecodePQInnerData` restricted to the two constructors the client sends. -/
def decPQInner (b : Bytes) : Option PQInner :=
  match decObj "PQInnerDataDC" b with
  | .ok (fs, _) => pqInnerOf false fs
  | .error _ =>
    match decObj "PQInnerDataTempDC" b with
    | .ok (fs, _) => pqInnerOf true fs
    | .error _ => none

def encSInner (d : SInner) : Option Bytes :=
  encObj "ServerDHInnerData" (assoc
    [("Nonce", .raw d.nonce), ("ServerNonce", .raw d.serverNonce), ("G", .int d.g), ("DhPrime", .bytes (natBE d.dhPrime)),
     ("GA", .bytes (natBE d.gA)), ("ServerTime", .int d.serverTime)])

/-- `innerData.Decode(b)` of the client (trailing bytes are not looked at). -/
def decSInner (b : Bytes) : Option SInner :=
  match decObj "ServerDHInnerData" b with
  | .ok (fs, _) => do
    pure ⟨← fRaw fs "Nonce", ← fRaw fs "ServerNonce", ← fInt fs "G", beNat (← fBytes fs "DhPrime"), beNat (← fBytes fs "GA"),
      ← fInt fs "ServerTime"⟩
  | .error _ => none

def encCInner (d : CInner) : Option Bytes :=
  encObj "ClientDHInnerData" (assoc
    [("Nonce", .raw d.nonce), ("ServerNonce", .raw d.serverNonce), ("RetryID", .long (ofInt64 d.retryId)), ("GB", .bytes (natBE d.gB))])

def decCInner (b : Bytes) : Option CInner :=
  match decObj "ClientDHInnerData" b with
  | .ok (fs, _) => do
    pure ⟨← fRaw fs "Nonce", ← fRaw fs "ServerNonce", toInt64 (← fLong fs "RetryID"), beNat (← fBytes fs "GB")⟩
  | .error _ => none

/-! ### the messages (ciphertexts = opaque bytes) -/

def encMsg : Msg Bytes → Option Bytes
  | .reqPQ n => encObj "ReqPqMultiRequest" (assoc [("Nonce", .raw n)])
  | .resPQ n sn pq fps => encObj "ResPQ" (assoc
      [("Nonce", .raw n), ("ServerNonce", .raw sn), ("Pq", .bytes (natBE pq)), ("ServerPublicKeyFingerprints", .vlong fps)])
  | .reqDH n sn p q fp ct => encObj "ReqDHParamsRequest" (assoc
      [("Nonce", .raw n), ("ServerNonce", .raw sn), ("P", .bytes (natBE p)), ("Q", .bytes (natBE q)),
       ("PublicKeyFingerprint", .long fp), ("EncryptedData", .bytes ct)])
  | .dhOk n sn ct => encObj "ServerDHParamsOk" (assoc [("Nonce", .raw n), ("ServerNonce", .raw sn), ("EncryptedAnswer", .bytes ct)])
  | .dhFail n sn h => encObj "ServerDHParamsFail" (assoc [("Nonce", .raw n), ("ServerNonce", .raw sn), ("NewNonceHash", .raw h)])
  | .setDH n sn ct => encObj "SetClientDHParamsRequest" (assoc [("Nonce", .raw n), ("ServerNonce", .raw sn), ("EncryptedData", .bytes ct)])
  | .genOk n sn h => encObj "DhGenOk" (assoc [("Nonce", .raw n), ("ServerNonce", .raw sn), ("NewNonceHash1", .raw h)])
  | .genRetry n sn h => encObj "DhGenRetry" (assoc [("Nonce", .raw n), ("ServerNonce", .raw sn), ("NewNonceHash2", .raw h)])
  | .genFail n sn h => encObj "DhGenFail" (assoc [("Nonce", .raw n), ("ServerNonce", .raw sn), ("NewNonceHash3", .raw h)])
  | .junk => none

def threeRaw (T h : String) (mk : Bytes → Bytes → Bytes → Msg Bytes) (b : Bytes) : Option (Msg Bytes) :=
  match decObj T b with
  | .ok (fs, _) => do pure (mk (← fRaw fs "Nonce") (← fRaw fs "ServerNonce") (← fRaw fs h))
  | .error _ => none

/-- What the client makes of the payload of the frame it reads at step 2 (`res.Decode`), step 5
(`mt.DecodeServerDHParams`) and step 7 (`mt.DecodeSetClientDHParamsAnswer`): `junk` = decode error. -/
def decServerMsg (stage : Nat) (b : Bytes) : Msg Bytes :=
  match stage with
  | 0 =>
    match decObj "ResPQ" b with
    | .ok (fs, _) =>
      (do pure (Msg.resPQ (← fRaw fs "Nonce") (← fRaw fs "ServerNonce") (beNat (← fBytes fs "Pq"))
            (← fVLong fs "ServerPublicKeyFingerprints"))).getD .junk
    | .error _ => .junk
  | 1 =>
    match decObj "ServerDHParamsOk" b with
    | .ok (fs, _) => (do pure (Msg.dhOk (← fRaw fs "Nonce") (← fRaw fs "ServerNonce") (← fBytes fs "EncryptedAnswer"))).getD .junk
    | .error _ => (threeRaw "ServerDHParamsFail" "NewNonceHash" .dhFail b).getD .junk
  | _ =>
    match threeRaw "DhGenOk" "NewNonceHash1" .genOk b with
    | some m => m
    | none =>
      match threeRaw "DhGenRetry" "NewNonceHash2" .genRetry b with
      | some m => m
      | none => (threeRaw "DhGenFail" "NewNonceHash3" .genFail b).getD .junk

/-- What the server makes of a client payload (`reqPQ.Decode`, `reqOrDH.Decode`, `SetClientDHParamsRequest.Decode`). -/
def decClientMsg (b : Bytes) : Msg Bytes :=
  match decObj "ReqPqMultiRequest" b with
  | .ok (fs, _) => ((fRaw fs "Nonce").map Msg.reqPQ).getD .junk
  | .error _ =>
    match decObj "ReqPqRequest" b with
    | .ok (fs, _) => ((fRaw fs "Nonce").map Msg.reqPQ).getD .junk
    | .error _ =>
      match decObj "ReqDHParamsRequest" b with
      | .ok (fs, _) =>
        (do pure (Msg.reqDH (← fRaw fs "Nonce") (← fRaw fs "ServerNonce") (beNat (← fBytes fs "P")) (beNat (← fBytes fs "Q"))
              (← fLong fs "PublicKeyFingerprint") (← fBytes fs "EncryptedData"))).getD .junk
      | .error _ =>
        match decObj "SetClientDHParamsRequest" b with
        | .ok (fs, _) => (do pure (Msg.setDH (← fRaw fs "Nonce") (← fRaw fs "ServerNonce") (← fBytes fs "EncryptedData"))).getD .junk
        | .error _ => .junk

/-! ### the unencrypted-message envelope (proto.UnencryptedMessage) -/

/-- `auth_key_id = 0 : long, message_id : long, message_data_length : int, message_data`. -/
def encEnvelope (msgId : Nat) (data : Bytes) : Bytes := putU64 0 ++ putU64 msgId ++ putU32 data.length ++ data

/-- `UnencryptedMessage.Decode`: (message id, data); trailing bytes after the data are ignored. -/
def decEnvelope (b : Bytes) : Option (Nat × Bytes) :=
  match getU64 b with
  | .ok (0, r) =>
    match getU64 r with
    | .ok (id, r') =>
      match getInt32 r' with
      | .ok (len, r'') => if len < 0 ∨ r''.length < len.toNat then none else some (id, r''.take len.toNat)
      | .error _ => none
    | .error _ => none
  | _ => none

end TdModel.C09
