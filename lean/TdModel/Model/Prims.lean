/-
Cryptographic primitives as *parameters* of the models (never axioms).

Theorems are stated `∀ P : Prims, LawfulPrims P → …`; the drivers instantiate `Prims` with the
executable Lean implementations of `TdModel/Prim/*` (validated against Go's standard library on
every run by `harness/prim`).  Collision resistance / unforgeability are never assumed here; where a
statement needs them it carries an explicit, named hypothesis.
-/
import TdModel.Util

namespace TdModel

structure Prims where
  sha1 : Bytes → Bytes
  sha256 : Bytes → Bytes
  /-- AES-256 single block: key (32 bytes) → block (16 bytes) → block. -/
  aesEnc : Bytes → Bytes → Bytes
  aesDec : Bytes → Bytes → Bytes

structure LawfulPrims (P : Prims) : Prop where
  sha1_len : ∀ x, (P.sha1 x).length = 20
  sha256_len : ∀ x, (P.sha256 x).length = 32
  aesEnc_len : ∀ k b, b.length = 16 → (P.aesEnc k b).length = 16
  aesDec_len : ∀ k b, b.length = 16 → (P.aesDec k b).length = 16
  aes_dec_enc : ∀ k b, b.length = 16 → P.aesDec k (P.aesEnc k b) = b
  aes_enc_dec : ∀ k b, b.length = 16 → P.aesEnc k (P.aesDec k b) = b

/-- A trivially lawful instance (identity cipher, constant-length "hashes"): shows the hypotheses of
every `LawfulPrims` theorem are satisfiable. -/
def Prims.toy : Prims where
  sha1 := fun x => (x ++ List.replicate 20 0).take 20
  sha256 := fun x => (x ++ List.replicate 32 0).take 32
  aesEnc := fun _ b => b
  aesDec := fun _ b => b

theorem Prims.toy_lawful : LawfulPrims Prims.toy where
  sha1_len := by intro x; simp [Prims.toy]
  sha256_len := by intro x; simp [Prims.toy]
  aesEnc_len := by intro _ b h; simpa [Prims.toy] using h
  aesDec_len := by intro _ b h; simpa [Prims.toy] using h
  aes_dec_enc := by intro _ b _; rfl
  aes_enc_dec := by intro _ b _; rfl

end TdModel
