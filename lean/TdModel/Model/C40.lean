/-
C40 — model of /repo/tgerr: error.go (`New`, `extractArgument`) and flood_wait.go (`AsFloodWait`,
`FloodWait`).

Strings are their UTF-8 bytes (`Bytes`).  This is exact for `extractArgument`: it splits on the
ASCII byte `_` (never part of a multi-byte sequence) and a part is "digit-only" iff every *rune*
is in '0'..'9' iff every *byte* is (any non-ASCII or invalid sequence decodes to a rune ≥ 0x80).

`time.Duration` is an `Int` of nanoseconds wrapped to 64 bits (`wrap64`), so the model also says
what the code does when `Argument` seconds do not fit a Duration.
-/
import TdModel.Util
import TdModel.Gen.C40

namespace TdModel.C40
open TdModel

/-- The separator of `strings.Split(e.Message, "_")` / `strings.Join(nonDigit, "_")` (regenerated). -/
def sep : UInt8 := Facts.C40.sepByte

/-- `strings.Split(s, "_")` (never empty: `Split("", "_") = [""]`). -/
def splitUs : Bytes → List Bytes
  | [] => [[]]
  | c :: cs =>
    if c = sep then [] :: splitUs cs
    else
      match splitUs cs with
      | [] => [[c]]
      | p :: ps => (c :: p) :: ps

/-- `strings.Join(parts, "_")`. -/
def joinUs : List Bytes → Bytes
  | [] => []
  | [p] => p
  | p :: q :: ps => p ++ sep :: joinUs (q :: ps)

/-- `ascii.IsDigit` on a byte (regenerated translation of the Go function). -/
def isDigit (c : UInt8) : Bool := Facts.C40.isDigit (c.toNat : Int)

/-- The inner `for _, r := range part` loop: no rune that is not a digit (true for ""). -/
def allDigits (p : Bytes) : Bool := p.all isDigit

/-- Decimal value of a digit string. -/
def digitsVal (p : Bytes) : Nat := p.foldl (fun a c => a * 10 + (c.toNat - 48)) 0

/-- `strconv.Atoi` on a digit-only part: error on "" (syntax) and on values above MaxInt64 (range). -/
def atoi (p : Bytes) : Option Nat :=
  if p.isEmpty then none
  else if digitsVal p < 2 ^ 63 then some (digitsVal p) else none

/-- The `Parts:` loop.  State: `nonDigit` so far and `e.Argument` so far.  `.error a` = the early
`return` on an `Atoi` error (Type stays the whole message, Argument keeps `a`). -/
def scan : List Bytes → List Bytes → Nat → Except Nat (List Bytes × Nat)
  | [], nd, a => .ok (nd, a)
  | p :: ps, nd, a =>
    if allDigits p then
      match atoi p with
      | none => .error a
      | some v => scan ps nd v
    else scan ps (nd ++ [p]) a

structure Parsed where
  type : Bytes
  arg : Nat
  deriving Repr, DecidableEq

/-- `tgerr.New(code, msg)`: fields `Type` and `Argument` (`Code`, `Message` are copied). -/
def parse (msg : Bytes) : Parsed :=
  if msg.isEmpty then ⟨[], 0⟩
  else
    let parts := splitUs msg
    if Facts.C40.tooFewParts (parts.length : Int) then ⟨msg, 0⟩
    else
      match scan parts [] 0 with
      | .error a => ⟨msg, a⟩
      | .ok (nd, a) => ⟨joinUs nd, a⟩

/-- Insert the numeric part at position `k` of the word list. -/
def insertAt (k : Nat) (x : Bytes) (ws : List Bytes) : List Bytes := ws.take k ++ x :: ws.drop k

def digitChar (d : Nat) : UInt8 := UInt8.ofNat (48 + d)

/-- `strconv.Itoa` for n ≥ 0. -/
def decimal (n : Nat) : Bytes :=
  if _h : n < 10 then [digitChar n] else decimal (n / 10) ++ [digitChar (n % 10)]
termination_by n
decreasing_by omega

/-! ### Flood wait -/

/-- int64 wrap-around of Go's `time.Duration` arithmetic. -/
def wrap64 (x : Int) : Int := (x + 2 ^ 63) % 2 ^ 64 - 2 ^ 63

/-- `tgerr.FloodWaitErrors` (regenerated: the values of the two constants, in list order). -/
def floodTypes : List Bytes := Facts.C40.floodWaitErrors

/-- `AsFloodWait`: the duration expression of the source (translated: `Facts.C40.floodDuration`)
for the first matching type, in int64 arithmetic. -/
def asFloodWait (e : Parsed) : Option Int :=
  if floodTypes.contains e.type then some (wrap64 (Facts.C40.floodDuration (e.arg : Int))) else none

/-- The duration `FloodWait` hands to `clock.Timer` (translated: `Facts.C40.floodTimerArg d`). -/
def floodTimer (e : Parsed) : Option Int :=
  match asFloodWait e with
  | some d => some (wrap64 (Facts.C40.floodTimerArg d))
  | none => none

inductive WaitResult where
  | waited       -- (true, err): the timer fired
  | cancelled    -- (false, ctx.Err())
  | notFlood     -- (false, err)
  deriving Repr, DecidableEq

/-- `FloodWait`: which of the two channels of the `select` is ready first is an input. -/
def floodWait (e : Parsed) (ctxDoneFirst : Bool) : WaitResult :=
  match floodTimer e with
  | some _ => if ctxDoneFirst then .cancelled else .waited
  | none => .notFlood

/-- `FloodWait`'s `select` as a relation: the results possible when the timer has fired and/or the
context is done (Go chooses among ready cases at random; with none ready the call blocks: `[]`). -/
def floodWaitOutcomes (e : Parsed) (timerFired ctxDone : Bool) : List WaitResult :=
  match floodTimer e with
  | none => [.notFlood]
  | some _ => (if timerFired then [.waited] else []) ++ (if ctxDone then [.cancelled] else [])

/-! ### Matching helpers: `As`, `AsType`, `Is`, `IsCode`, `Error()`

`errors.As(err, &rpcErr)` walks the `Unwrap` chain and stops at the first `*tgerr.Error`
(`*Error` has no `Unwrap`).  The chain is therefore represented by what that search finds:
`none` (nil error, or no `*Error` in the chain) or the first `*Error`. -/

structure RpcErr where
  code : Int
  msg : Bytes
  type : Bytes
  arg : Nat
  deriving Repr, DecidableEq

/-- `tgerr.New(code, msg)`. -/
def newErr (code : Int) (msg : Bytes) : RpcErr :=
  let p := parse msg
  ⟨code, msg, p.type, p.arg⟩

/-- `tgerr.As`. -/
def asErr (first : Option RpcErr) : Option RpcErr := first
/-- `tgerr.AsType(err, t)`. -/
def asType (first : Option RpcErr) (t : Bytes) : Option RpcErr :=
  match first with
  | some e => if e.type = t then some e else none
  | none => none
/-- `(*Error).IsOneOf` / `tgerr.Is(err, tt...)`. -/
def isOneOf (first : Option RpcErr) (tt : List Bytes) : Bool :=
  match first with
  | some e => tt.any (fun t => e.type = t)
  | none => false
/-- `tgerr.IsCode(err, codes...)`. -/
def isCode (first : Option RpcErr) (codes : List Int) : Bool :=
  match first with
  | some e => codes.any (fun c => e.code = c)
  | none => false

/-- `AsFloodWait` on an error chain: first matching entry of `FloodWaitErrors`. -/
def asFloodWaitErr (first : Option RpcErr) : Option Int :=
  match first with
  | some e => asFloodWait ⟨e.type, e.arg⟩
  | none => none

/-- Signed decimal (`%d`). -/
def decimalInt (i : Int) : Bytes := if i < 0 then 45 :: decimal i.natAbs else decimal i.natAbs

def strBytes (s : String) : Bytes := s.toUTF8.toList

/-- `(*Error).Error()`. -/
def errorString (e : RpcErr) : Bytes :=
  if e.type ≠ e.msg then
    strBytes "rpc error code " ++ decimalInt e.code ++ strBytes ": " ++ e.type ++ strBytes " (" ++ decimal e.arg ++ strBytes ")"
  else strBytes "rpc error code " ++ decimalInt e.code ++ strBytes ": " ++ e.msg

end TdModel.C40
