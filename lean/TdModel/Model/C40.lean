/-
C40 — model of /repo/tgerr: error.go (`New`, `extractArgument`) and flood_wait.go (`AsFloodWait`,
`FloodWait`).

Strings are their UTF-8 bytes (`Bytes`).  This is exact for `extractArgument`: it splits on the
ASCII byte `_` (never part of a multi-byte sequence) and a part is "digit-only" iff every *rune*
is in '0'..'9' iff every *byte* is (any non-ASCII or invalid sequence decodes to a rune ≥ 0x80).

`time.Duration` is an `Int` of nanoseconds wrapped to 64 bits (`wrap64`), so the model also says
what the code does when `Argument` seconds do not fit a Duration.
-/
import TdModel.Util
import TdModel.Gen.C40

namespace TdModel.C40
open TdModel

/-- The separator of `strings.Split(e.Message, "_")` / `strings.Join(nonDigit, "_")` (regenerated). -/
def sep : UInt8 := Facts.C40.sepByte

/-- `strings.Split(s, "_")` (never empty: `Split("", "_") = [""]`). -/
def splitUs : Bytes → List Bytes
  | [] => [[]]
  | c :: cs =>
    if c = sep then [] :: splitUs cs
    else
      match splitUs cs with
      | [] => [[c]]
      | p :: ps => (c :: p) :: ps

/-- `strings.Join(parts, "_")`. -/
def joinUs : List Bytes → Bytes
  | [] => []
  | [p] => p
  | p :: q :: ps => p ++ sep :: joinUs (q :: ps)

/-- `ascii.IsDigit` on a byte (regenerated translation of the Go function). -/
def isDigit (c : UInt8) : Bool := Facts.C40.isDigit (c.toNat : Int)

/-- The inner `for _, r := range part` loop: no rune that is not a digit (true for ""). -/
def allDigits (p : Bytes) : Bool := p.all isDigit

/-- Decimal value of a digit string. -/
def digitsVal (p : Bytes) : Nat := p.foldl (fun a c => a * 10 + (c.toNat - 48)) 0

/-- `strconv.Atoi` on a digit-only part: error on "" (syntax) and on values above MaxInt64 (range). -/
def atoi (p : Bytes) : Option Nat :=
  if p.isEmpty then none
  else if digitsVal p < 2 ^ 63 then some (digitsVal p) else none

/-- The `Parts:` loop.  State: `nonDigit` so far and `e.Argument` so far.  `.error a` = the early
`return` on an `Atoi` error (Type stays the whole message, Argument keeps `a`). -/
def scan : List Bytes → List Bytes → Nat → Except Nat (List Bytes × Nat)
  | [], nd, a => .ok (nd, a)
  | p :: ps, nd, a =>
    if allDigits p then
      match atoi p with
      | none => .error a
      | some v => scan ps nd v
    else scan ps (nd ++ [p]) a

structure Parsed where
  type : Bytes
  arg : Nat
  deriving Repr, DecidableEq

/-- `tgerr.New(code, msg)`: fields `Type` and `Argument` (`Code`, `Message` are copied). -/
def parse (msg : Bytes) : Parsed :=
  if msg.isEmpty then ⟨[], 0⟩
  else
    let parts := splitUs msg
    if parts.length < Facts.C40.minParts then ⟨msg, 0⟩
    else
      match scan parts [] 0 with
      | .error a => ⟨msg, a⟩
      | .ok (nd, a) => ⟨joinUs nd, a⟩

/-- Insert the numeric part at position `k` of the word list. -/
def insertAt (k : Nat) (x : Bytes) (ws : List Bytes) : List Bytes := ws.take k ++ x :: ws.drop k

def digitChar (d : Nat) : UInt8 := UInt8.ofNat (48 + d)

/-- `strconv.Itoa` for n ≥ 0. -/
def decimal (n : Nat) : Bytes :=
  if _h : n < 10 then [digitChar n] else decimal (n / 10) ++ [digitChar (n % 10)]
termination_by n
decreasing_by omega

/-! ### Flood wait -/

/-- int64 wrap-around of Go's `time.Duration` arithmetic. -/
def wrap64 (x : Int) : Int := (x + 2 ^ 63) % 2 ^ 64 - 2 ^ 63

/-- `tgerr.FloodWaitErrors` (regenerated: the values of the two constants, in list order). -/
def floodTypes : List Bytes := Facts.C40.floodWaitErrors

/-- `AsFloodWait`: `time.Second * time.Duration(rpcErr.Argument)` for the first matching type. -/
def asFloodWait (e : Parsed) : Option Int :=
  if floodTypes.contains e.type then some (wrap64 ((Facts.C40.secondNs : Int) * (e.arg : Int))) else none

/-- The duration `FloodWait` hands to `clock.Timer`: `d + 1*time.Second`. -/
def floodTimer (e : Parsed) : Option Int :=
  match asFloodWait e with
  | some d => some (wrap64 (d + (Facts.C40.marginNs : Int)))
  | none => none

inductive WaitResult where
  | waited       -- (true, err): the timer fired
  | cancelled    -- (false, ctx.Err())
  | notFlood     -- (false, err)
  deriving Repr, DecidableEq

/-- `FloodWait`: which of the two channels of the `select` is ready first is an input. -/
def floodWait (e : Parsed) (ctxDoneFirst : Bool) : WaitResult :=
  match floodTimer e with
  | some _ => if ctxDoneFirst then .cancelled else .waited
  | none => .notFlood

end TdModel.C40
