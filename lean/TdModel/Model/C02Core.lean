/-
C02/C03 — shared core of the update-manager model (no regenerated facts here: C02 and C03 each
instantiate it with their own regenerated call orders, so that `./check C02` and `./check C03`
are self-contained).

Part A — one sequence (common pts, qts, or one channel's pts): a C01 `Box` plus what the
surrounding code of telegram/updates (state_apply.go `applyPts/applyQts`, state_channel.go
`applyPts`, the branches of the two `getDifference`s) does with it: dispatch to the handler,
persist, report too-long.  Which of these happens in which order is NOT fixed here: every step
interprets a list of calls (`SCall`) that is regenerated from the Go AST.
-/
import TdModel.Model.C01

namespace TdModel.C02Core
open TdModel.C01

inductive Kind where
  | msg | other | qts | qother | chmsg | chother | plain
  | aff     -- a messages.affected* result for the common pts sequence (non-dispatchable marker)
  | chaff   -- the same for a channel's pts sequence
  deriving DecidableEq, Repr

/-- One update of the server's log (harness/c02/mgr `Entry`). `pos` is the sequence position
after the update, `count` how many positions it covers. -/
structure Entry where
  id : Nat
  kind : Kind
  chan : Nat
  pos : Int
  count : Int
  /-- the user a (non-channel) message refers to (0: none): its access hash must be known -/
  user : Nat := 0
  deriving DecidableEq, Repr

/-- The `update` handed to the sequence box for an entry (`Value` = the entry id). -/
def Entry.upd (e : Entry) : Upd := { state := e.pos, count := e.count, tag := e.id }

/-- Calls that matter for one sequence, in the order the Go code makes them. -/
inductive SCall where
  | dispatch   -- handler.Handle with the batch
  | store      -- storage.SetPts / SetQts / SetChannelPts / SetState with the new position
  | setBox     -- box.SetState(new position)
  | cb         -- the too-long callback
  deriving DecidableEq, Repr

/-- Observable events of one sequence. -/
inductive SEv where
  | dispatch (ids : List Nat)
  | store (v : Int)
  | tooLong
  deriving DecidableEq, Repr

/-- Events of a call list for new position `x` and batch `ids` (`if len(batch) > 0` guards the
dispatch, as in the Go code). -/
def callEvs (x : Int) (ids : List Nat) : List SCall → List SEv
  | [] => []
  | .dispatch :: cs => (if ids.isEmpty then [] else [.dispatch ids]) ++ callEvs x ids cs
  | .store :: cs => .store x :: callEvs x ids cs
  | .setBox :: cs => callEvs x ids cs
  | .cb :: cs => .tooLong :: callEvs x ids cs

/-- How an apply callback (`applyPts`, `applyQts`, channel `applyPts`) treats a batch:
`calls` = its modelled calls in source order; `breakAtMarker` = the statement that skips an
`affectedPts` marker in the conversion loop is `break` (true) instead of `continue` (false), both
regenerated from the Go AST; `mk` = which tags are markers (see `Manager.HandleAffected`). -/
structure ACfg where
  calls : List SCall
  breakAtMarker : Bool
  isMarker : Nat → Bool

/-- The ids handed to the handler for a batch: the loop `for _, update := range updates` that
skips markers. -/
def batchIds (c : ACfg) (us : List Upd) : List Nat :=
  if c.breakAtMarker then (us.map (·.tag)).takeWhile (fun i => !c.isMarker i)
  else (us.map (·.tag)).filter (fun i => !c.isMarker i)

/-- The apply callback of a box: the box reports a batch `us` ending at `ns`; the callback's calls
are interpreted. -/
def applyEvs (c : ACfg) : Ev → List SEv
  | .apply ns us _ => callEvs ns (batchIds c us) c.calls
  | .setState _ => []

inductive SOp where
  | push (e : Entry)                                    -- box.Handle(update of e)
  | clear                                               -- gaps.Clear() (start of getDifference)
  | seq (calls : List SCall) (x : Int) (direct : List Entry)
      -- a branch of getDifference: `direct` is dispatched without the box, position `x` is set
  | fire                                                -- the gap timer fired (`<-gapTimeout.C`)
  | reset                                               -- a new worker (`newChannelState`) at the position the old one had persisted
  deriving DecidableEq, Repr

def sstep (c : ACfg) (b : Box) : SOp → Box × List SEv
  | .push e => let r := handle b e.upd true; (r.1, r.2.flatMap (applyEvs c))
  | .clear => ({ b with gaps := [] }, [])
  | .seq calls x direct =>
    ({ b with state := if calls.contains .setBox then x else b.state },
     callEvs x (direct.map (·.id)) calls)
  | .fire => ({ b with armed := false }, [])
  | .reset => ({ state := b.state }, [])

def srun (c : ACfg) (b : Box) : List SOp → Box × List SEv
  | [] => (b, [])
  | op :: ops =>
    let r := sstep c b op
    let r' := srun c r.1 ops
    (r'.1, r.2 ++ r'.2)

/-! ### The properties as decidable functions on one sequence's events -/

def dispatchedIds : List SEv → List Nat
  | [] => []
  | .dispatch ids :: r => ids ++ dispatchedIds r
  | _ :: r => dispatchedIds r

def hasTooLong : List SEv → Bool
  | [] => false
  | .tooLong :: _ => true
  | _ :: r => hasTooLong r

/-- Entries the coverage requirements do not apply to: markers (nothing to dispatch) and updates
that cover no position (`count = 0`, e.g. updateReadChannelInbox): a lost push of such an update is
not returned by any later difference, so no client can guarantee its delivery.  (When a difference
does carry one, it is dispatched like everything else the difference carries.) -/
def exempt (mk : Nat → Bool) (e : Entry) : Bool := mk e.id || decide (e.count = 0)

/-- `covered log mk lo v D`: every log entry above the initial position `lo` and at or below `v`
that is not exempt has its id in `D`. -/
def covered (log : List Entry) (mk : Nat → Bool) (lo v : Int) (D : List Nat) : Bool :=
  log.all fun e => decide (e.pos ≤ lo) || decide (v < e.pos) || exempt mk e || D.contains e.id

/-- C03, prefix form: at every store the persisted value covers only entries that were already
dispatched (`D` = ids dispatched so far), unless too-long was reported before (`tl`). -/
def safe (log : List Entry) (mk : Nat → Bool) (lo : Int) (D : List Nat) (tl : Bool) : List SEv → Bool
  | [] => true
  | .dispatch ids :: r => safe log mk lo (ids ++ D) tl r
  | .tooLong :: r => safe log mk lo D true r
  | .store v :: r => (tl || covered log mk lo v D) && safe log mk lo D tl r

/-- C02 for one sequence: every entry above `lo` has been dispatched, unless too-long was
reported. -/
def complete' (log : List Entry) (mk : Nat → Bool) (lo : Int) (evs : List SEv) : Bool :=
  hasTooLong evs || log.all fun e => decide (e.pos ≤ lo) || exempt mk e || (dispatchedIds evs).contains e.id

/-- The entries of one sequence tile the positions above `c`: each starts where the previous
one ended; it covers zero or more positions and sits at a positive position. -/
def tiled (c : Int) : List Entry → Bool
  | [] => true
  | e :: es => decide (e.pos - e.count = c) && decide (0 ≤ e.count) && decide (0 < e.pos) && tiled e.pos es

/-- The three shapes of a `getDifference` branch, as seen by one sequence. -/
def diffShape : List SCall := [.dispatch, .store, .setBox]
def emptyShape : List SCall := [.store, .setBox]
def tooLongShape : List SCall := [.cb, .store, .setBox]
/-- `channelState.handleTooLong` beyond the difference limit: only the callback. -/
def cbOnlyShape : List SCall := [.cb]
/-- `internalState.handleChannel` on first contact with a channel: the initial `SetChannelPts`. -/
def storeOnlyShape : List SCall := [.store]

/-- Well-formedness of an op in box state `b`: a push is a log entry, or a count-0 marker at a
positive position (an affected result that covers no position); a difference branch has one of the
three shapes, and (honest server, complete routing) a difference that sets position `x` carries in
`direct` every non-exempt log entry in `(b.state, x]`; an empty one has nothing to carry. -/
def wfOp (log : List Entry) (mk : Nat → Bool) (b : Box) : SOp → Bool
  | .push e => decide (e ∈ log) || (decide (e.count = 0) && decide (0 < e.pos) && mk e.id)
  | .clear => true
  | .fire => true
  | .reset => true
  | .seq calls x direct =>
    direct.all (fun e => decide (e ∈ log)) &&
    ((decide (calls = diffShape) &&
        log.all fun e => !(decide (b.state < e.pos) && decide (e.pos ≤ x)) || exempt mk e || decide (e ∈ direct))
    || (decide (calls = emptyShape) &&
        log.all fun e => !(decide (b.state < e.pos) && decide (e.pos ≤ x)) || exempt mk e)
    || decide (calls = tooLongShape) || decide (calls = cbOnlyShape)
    || (decide (calls = storeOnlyShape) && decide (x = b.state)))

def wfRun (c : ACfg) (log : List Entry) (b : Box) : List SOp → Bool
  | [] => true
  | op :: ops => wfOp log c.isMarker b op && wfRun c log (sstep c b op).1 ops

end TdModel.C02Core
