/-
AES-IGE block chaining of github.com/gotd/ige (`EncryptBlocks`, `DecryptBlocks`), over an arbitrary
16-byte block function (the models instantiate it with `P.aesEnc key` / `P.aesDec key`).
Used by C04/C05 (message encryption), C06 (bind message), C11 (exchange answers).

The Go loops walk `o = 0, 16, …, len(src)-16` (they panic when `len(src) % 16 ≠ 0`, callers check
that first); here recursion is over the number of blocks `src.length / 16`.  Core Lean only.
-/
import TdModel.Model.Prims

namespace TdModel.Ige
open TdModel

/-- `xor.Bytes(dst, a, b)` for equally long `a`, `b`. -/
def xorB (a b : Bytes) : Bytes := List.zipWith (· ^^^ ·) a b

/-- `ige.EncryptBlocks` loop: `c` = previous ciphertext block (initially `iv[:16]`), `m` = previous
plaintext block (initially `iv[16:]`). -/
def encN (f : Bytes → Bytes) : Nat → Bytes → Bytes → Bytes → Bytes
  | 0, _, _, _ => []
  | n + 1, c, m, src =>
    let x := src.take 16
    let y := xorB (f (xorB x c)) m
    y ++ encN f n y x (src.drop 16)

/-- `ige.DecryptBlocks` loop. -/
def decN (g : Bytes → Bytes) : Nat → Bytes → Bytes → Bytes → Bytes
  | 0, _, _, _ => []
  | n + 1, c, m, src =>
    let t := src.take 16
    let y := xorB (g (xorB t m)) c
    y ++ decN g n t y (src.drop 16)

/-- `ige.EncryptBlocks(block, iv, dst, src)` with a 32-byte `iv`. -/
def enc (f : Bytes → Bytes) (iv src : Bytes) : Bytes :=
  encN f (src.length / 16) (iv.take 16) (iv.drop 16) src

/-- `ige.DecryptBlocks(block, iv, dst, src)`. -/
def dec (g : Bytes → Bytes) (iv src : Bytes) : Bytes :=
  decN g (src.length / 16) (iv.take 16) (iv.drop 16) src

end TdModel.Ige
