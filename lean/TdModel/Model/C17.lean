/-
C17 — the transport readers of /repo/proto/codec with the constants and guards regenerated from the
current source (`TdModel.Facts.C17`).  The model itself is `TdModel/Model/C16C17.lean`
(`TdModel.Codec`, panic-explicit readers with an allocation trace).
-/
import TdModel.Model.C16C17
import TdModel.Gen.C17

namespace TdModel.C17
open TdModel TdModel.Codec

/-- The codec configuration of this run: every function field is the translation of the Go
expression found in the current source (see the doc comments in `TdModel/Gen/C17.lean`), applied to
the unsigned view of its arguments. -/
def cfg : Cfg where
  lenRejects := fun n e => Facts.C17.lenRejects n e
  outRejects := fun l => Facts.C17.outRejects l
  misaligned := fun l => Facts.C17.misaligned l 4
  isCode := fun l => !(Facts.C17.notCode l)
  abrWords := fun l => (Facts.C17.abrWords l).toNat
  abrShort := fun w => Facts.C17.abrShort w
  abrMark := Facts.C17.abrMark
  abrLong := fun b0 => Facts.C17.abrLong b0
  abrRejects := fun n => Facts.C17.abrRejects n
  abrBytes := fun n => Facts.C17.abrBytes n
  fullRejects := fun n => Facts.C17.fullRejects n
  fullEnvelope := Facts.C17.fullOver
  fullExpand := fun n => Facts.C17.fullExpand n
  fullInnerLo := fun n => Facts.C17.fullInnerLo n
  fullInnerHi := fun n => Facts.C17.fullInnerHi n
  fullPayload := fun n => Facts.C17.fullPayload n
  fullCrcLo := fun n => Facts.C17.fullCrcLo n
  fullCrcHi := fun n => Facts.C17.fullCrcHi n
  fullCopyLo := fun n => Facts.C17.fullCopyLo n
  fullCopyHi := fun n => Facts.C17.fullCopyHi n
  fullWire := fun l => (Facts.C17.fullWire l).toNat
  fullSeqAfterCheck := Facts.C17.fullSeqAfterCheck
  padEnvelope := Facts.C17.padOver
  padOf := fun last => (Facts.C17.padOf last).toNat
  padStrip := fun n => (Facts.C17.padStrip n).toNat
  tagAbridged := Facts.C17.tagAbridged
  tagIntermediate := Facts.C17.tagIntermediate
  tagPadded := Facts.C17.tagPadded

/-- A connection's read loop: `Read` is called again after every delivered frame (next expected
seqno, rest of the stream) until a read fails; `fuel` = number of `Read` calls observed.  Unlike
`Codec.decAll` it keeps every `Res` (allocation trace and panic outcome) of the session. -/
def readSession (c : Cfg) (crc : Bytes → Nat) (k : Kind) : Nat → Int → Bytes → List Res
  | 0, _, _ => []
  | fuel + 1, seq, s =>
    read c crc k seq s ::
      match (read c crc k seq s).out with
      | .ok _ rest => readSession c crc k fuel (seq + 1) rest
      | _ => []

end TdModel.C17
