/-
C17 — the transport readers of /repo/proto/codec with the constants and guards regenerated from the
current source (`TdModel.Facts.C17`).  The model itself is `TdModel/Model/C16C17.lean`
(`TdModel.Codec`, panic-explicit readers with an allocation trace).
-/
import TdModel.Model.C16C17
import TdModel.Gen.C17

namespace TdModel.C17
open TdModel TdModel.Codec

/-- The codec configuration read from the source on this run. -/
def cfg : Cfg where
  maxMsg := Facts.C17.maxMessageSize
  abrThrW := Facts.C17.abrThrW
  abrThrR := Facts.C17.abrThrR
  abrMark := Facts.C17.abrMark
  abrGuard := Facts.C17.abrGuard
  fullGuard := Facts.C17.fullGuard
  fullMin := Facts.C17.fullMin
  fullOver := Facts.C17.fullOver
  padOver := Facts.C17.padOver
  tagAbridged := Facts.C17.tagAbridged
  tagIntermediate := Facts.C17.tagIntermediate
  tagPadded := Facts.C17.tagPadded

end TdModel.C17
