/-
C43 — model of pings and pongs as a labelled transition system.

Go code modelled: /repo/mtproto/ping.go — `Conn.Ping` / `Conn.pingDelayDisconnect` (register a
channel under the ping id, write the request, `select { <-pong | <-ctx.Done() }`, deferred
`removePong`), `Conn.pong`, `Conn.removePong`, `Conn.handlePong` (close and delete the registered
channel, if any), `Conn.pingLoop` (one `pingDelayDisconnect` per tick under
`context.WithTimeout(ctx, pingTimeout)`; the first failure ends the loop with an error) and the
task group of `Conn.Run` (the first task error cancels the group and is returned).

Each call of `Ping` is a *ping* with its own channel; the `c.ping` map sends a ping id to the ping
whose channel is registered (a later call with the same id overwrites the entry, exactly as the Go
map assignment does).  Any number of pings, pongs and callers; actions are the atomic steps
between the synchronisation points (`pingMux` critical sections, channel close, select).

Ghost field `pongs`: how many `pong` actions carrying this ping's id happened since the ping was
called (it does not influence any transition).
-/
import TdModel.Util
import TdModel.Gen.C43

namespace TdModel.C43
open TdModel

structure Ping where
  id : Int
  closed : Bool := false          -- the ping's channel has been closed by handlePong
  ret : Option Bool := none       -- returned: `some true` = nil, `some false` = error (ctx ended / write failed)
  pongs : Nat := 0                -- ghost
  deriving Repr, DecidableEq

structure State where
  pings : List Ping := []
  reg : List (Int × Nat) := []    -- c.ping : ping id ↦ index of the ping whose channel is registered
  deriving Repr, DecidableEq

inductive Action where
  | call (id : Int)       -- Ping: `c.pong(id)` registers a fresh channel (then the request is written)
  | pong (id : Int)       -- handlePong for a pong carrying `id`
  | retOk (p : Nat)       -- ping p's select takes the closed channel; deferred removePong
  | retErr (p : Nat)      -- ping p's context ends (or the write failed); deferred removePong
  deriving Repr, DecidableEq

def regGet (reg : List (Int × Nat)) (id : Int) : Option Nat :=
  (reg.find? (fun e => e.1 = id)).map (·.2)

def regDel (reg : List (Int × Nat)) (id : Int) : List (Int × Nat) :=
  reg.filter (fun e => e.1 ≠ id)

def regSet (reg : List (Int × Nat)) (id : Int) (p : Nat) : List (Int × Nat) :=
  (id, p) :: regDel reg id

/-- The `pong` action on the list of pings: every ping with this id counts it (ghost); the
registered one (index `target`) gets its channel closed. -/
def pongPings (id : Int) (target : Option Nat) : Nat → List Ping → List Ping
  | _, [] => []
  | i, pg :: rest =>
    (if pg.id = id then
      { pg with pongs := pg.pongs + 1, closed := pg.closed || (target = some i) }
     else pg) :: pongPings id target (i + 1) rest

def setRet (ps : List Ping) (p : Nat) (r : Bool) : List Ping :=
  match ps[p]? with
  | some pg => ps.set p { pg with ret := some r }
  | none => ps

/-- The cases of the `select` at the end of `Ping` / `pingDelayDisconnect` as read from the source:
(channel, result) with channel 0 = the ping's own channel, 1 = `ctx.Done()`, result 0 = `return nil`,
1 = `return ctx.Err()`. -/
def selectCases : List (Nat × Nat) := Facts.C43.pingCases ++ Facts.C43.pingDelayCases

/-- Does the closed-channel case return success?  Does the context case? -/
def pongCaseReturnsNil : Bool := Facts.C43.pingCases.contains (0, 0) && Facts.C43.pingDelayCases.contains (0, 0)
def ctxCaseReturnsNil : Bool := selectCases.contains (1, 0)

def step (s : State) : Action → Option State
  | .call id => some { pings := s.pings ++ [{ id := id }], reg := regSet s.reg id s.pings.length }
  | .pong id => some { pings := pongPings id (regGet s.reg id) 0 s.pings, reg := regDel s.reg id }
  | .retOk p =>
    match s.pings[p]? with
    | some pg => if pg.closed ∧ pg.ret = none then some { pings := setRet s.pings p pongCaseReturnsNil, reg := regDel s.reg pg.id } else none
    | none => none
  | .retErr p =>
    match s.pings[p]? with
    | some pg => if pg.ret = none then some { pings := setRet s.pings p ctxCaseReturnsNil, reg := regDel s.reg pg.id } else none
    | none => none

def run : State → List Action → Option State
  | s, [] => some s
  | s, a :: rest => match step s a with
    | some s' => run s' rest
    | none => none

/-- Registered ids in ascending order (what `VerifC43PendingPings` shows). -/
def regIds (s : State) : List Int :=
  let ids := s.reg.map (·.1)
  ids.foldr (fun x acc => let (lo, hi) := acc.partition (· < x); lo ++ x :: hi) []

/-! ### the keep-alive loop and the task group of `Run` -/

/-- How one tick's `pingDelayDisconnect` ended. -/
inductive TickOutcome where
  | ok            -- matching pong arrived in time
  | missed        -- the per-ping timeout (`pingTimeout`) ended the context first
  | writeErr      -- the request could not be written
  deriving Repr, DecidableEq

inductive LoopResult where
  | running                       -- all ticks so far were acknowledged
  | failed (tick : Nat)           -- "disconnect (pong missed)" at this tick
  deriving Repr, DecidableEq

/-- `pingLoop` over the outcomes of its successive ticks. -/
def pingLoopFrom : Nat → List TickOutcome → LoopResult
  | _, [] => .running
  | k, .ok :: rest => pingLoopFrom (k + 1) rest
  | k, .writeErr :: rest =>
    -- the loop gives up on the error its ping returned; if the source decided on something else
    -- (fact false) a failed write would be taken for an acknowledged tick
    if Facts.C43.pingLoopFailsOnPingError then .failed k else pingLoopFrom (k + 1) rest
  | k, _ :: _ => .failed k

def pingLoop (os : List TickOutcome) : LoopResult := pingLoopFrom 0 os

/-- The task group of `Conn.Run`: it ends with an error as soon as one task returns one. -/
def runEnds (loop : LoopResult) : Bool :=
  match loop with
  | .running => false
  | .failed _ => true

/-- Outcome of the loop's ping `p` read off the LTS state: `ok` iff the ping returned nil. -/
def tickOutcome (s : State) (p : Nat) : Option TickOutcome :=
  match s.pings[p]? with
  | some pg => match pg.ret with
    | some true => some .ok
    | some false => some .missed
    | none => none
  | none => none

/-! ### timing of one keep-alive tick -/

/-- How long a tick's ping may wait for its pong: the duration handed to `context.WithTimeout` in
`pingLoop`, as coefficients of (pingInterval, pingTimeout) read from the source. -/
def pingWait (interval timeout : Nat) : Nat :=
  Facts.C43.pingWaitCoeffInterval * interval + Facts.C43.pingWaitCoeffTimeout * timeout

/-- The `disconnect_delay` announced to the server (same units as the inputs). -/
def disconnectDelay (interval timeout : Nat) : Nat :=
  Facts.C43.disconnectDelayCoeffInterval * interval + Facts.C43.disconnectDelayCoeffTimeout * timeout

/-- One tick: the matching pong arrives `d` after the ping was written (`none` = never).  Outcome
and how long the tick lasted. -/
def tick (interval timeout : Nat) : Option Nat → TickOutcome × Nat
  | some d => if d < pingWait interval timeout then (.ok, d) else (.missed, pingWait interval timeout)
  | none => (.missed, pingWait interval timeout)

end TdModel.C43
