/-
C20 — the parts of the TL primitive model that are REGENERATED from /repo/bin on every run.

`TdModel/Model/Bin.lean` is the hand-written transliteration shared with other properties.  Here the
same functions are assembled from definitions that `harness/c20 facts` translates out of the Go
source (`TdModel/Gen/C20.lean`): the conditions, length computations, header bytes, padding amounts,
slice bounds and the order of the appends of `encodeBytes`, `encodeString`, `decodeBytes`,
`decodeString`, and the bounds checks / advances of the `Buffer` decoders.  `Props/C20.lean` proves
each assembled function equal to its transliteration for every input, so a semantic change of any
of those Go expressions breaks a proof obligation, while renamings or equivalent constants do not.
The driver (`Drv/C20.lean`) runs the assembled versions.
-/
import TdModel.Model.Bin
import TdModel.Gen.C20

namespace TdModel.C20
open TdModel TdModel.Bin

def toBytes (xs : List Int) : Bytes := xs.map (fun i => UInt8.ofNat i.toNat)

/-- Concatenate header / payload / padding in the order in which the source appends them. -/
def assemble (hdr payload : Bytes) (pad : Nat) : List String → Option Bytes
  | [] => some []
  | tag :: rest =>
    match assemble hdr payload pad rest with
    | none => none
    | some tl =>
      if tag = "hdr" then some (hdr ++ tl)
      else if tag = "payload" then some (payload ++ tl)
      else if tag = "pad" then some (zeros pad ++ tl)
      else none

/-- The translated pieces of one encoder (`encodeBytes` or `encodeString`). -/
structure EncFacts where
  short : Int → Bool
  shortHdr : Int → List Int
  shortCur : Int → Int
  shortPad : Int → Int
  shortOrder : List String
  longHdr : Int → List Int
  longCur : Int → Int
  longPad : Int → Int
  longOrder : List String

def encB : EncFacts := ⟨Facts.C20.encB_short, Facts.C20.encB_shortHdr, Facts.C20.encB_shortCur, Facts.C20.encB_shortPad,
  Facts.C20.encB_shortOrder, Facts.C20.encB_longHdr, Facts.C20.encB_longCur, Facts.C20.encB_longPad, Facts.C20.encB_longOrder⟩
def encS : EncFacts := ⟨Facts.C20.encS_short, Facts.C20.encS_shortHdr, Facts.C20.encS_shortCur, Facts.C20.encS_shortPad,
  Facts.C20.encS_shortOrder, Facts.C20.encS_longHdr, Facts.C20.encS_longCur, Facts.C20.encS_longPad, Facts.C20.encS_longOrder⟩

/-- `encodeBytes` / `encodeString` assembled from the translated pieces. -/
def putBytesG (E : EncFacts) (v : Bytes) : Option Bytes :=
  let l : Int := v.length
  if E.short l then assemble (toBytes (E.shortHdr l)) v (E.shortPad (E.shortCur l)).toNat E.shortOrder
  else assemble (toBytes (E.longHdr l)) v (E.longPad (E.longCur l)).toNat E.longOrder

/-- The translated pieces of one decoder (`decodeBytes` or `decodeString`). -/
structure DecFacts where
  c0 : Int → Bool          -- len(b) == 0
  c1 : Int → Bool          -- b[0] == firstLongStringByte
  c2 : Int → Bool          -- len(b) < 4
  c3 : Int → Int → Bool    -- len(b) < strLen + 4
  c4 : Int → Int → Bool    -- len(b) < strLen + 1
  c5 : Int → Bool          -- strLen > maxSmallStringLength
  longLen : Int → Int → Int → Int
  shortLen : Int → Int
  longN : Int → Int
  longLo : Int
  longHi : Int → Int
  shortN : Int → Int
  shortLo : Int
  shortHi : Int → Int

def decB : DecFacts := ⟨Facts.C20.decB_c0, Facts.C20.decB_c1, Facts.C20.decB_c2, Facts.C20.decB_c3, Facts.C20.decB_c4,
  Facts.C20.decB_c5, Facts.C20.decB_longLen, Facts.C20.decB_shortLen, Facts.C20.decB_longN, Facts.C20.decB_longLo,
  Facts.C20.decB_longHi, Facts.C20.decB_shortN, Facts.C20.decB_shortLo, Facts.C20.decB_shortHi⟩
def decS : DecFacts := ⟨Facts.C20.decS_c0, Facts.C20.decS_c1, Facts.C20.decS_c2, Facts.C20.decS_c3, Facts.C20.decS_c4,
  Facts.C20.decS_c5, Facts.C20.decS_longLen, Facts.C20.decS_shortLen, Facts.C20.decS_longN, Facts.C20.decS_longLo,
  Facts.C20.decS_longHi, Facts.C20.decS_shortN, Facts.C20.decS_shortLo, Facts.C20.decS_shortHi⟩

def byteAt (b : Bytes) (i : Nat) : Int := ((b.getD i 0).toNat : Int)

/-- `b[lo:hi]` once the guards have established the bounds. -/
def sliceT (b : Bytes) (lo hi : Int) : Bytes := (b.drop lo.toNat).take (hi.toNat - lo.toNat)

/-- `decodeBytes` / `decodeString` assembled from the translated pieces. -/
def decodeBytesG (D : DecFacts) (b : Bytes) : Except Err (Nat × Bytes) :=
  let len : Int := b.length
  if D.c0 len then .error .eof
  else if D.c1 (byteAt b 0) then
    if D.c2 len then .error .eof
    else
      let strLen := D.longLen (byteAt b 1) (byteAt b 2) (byteAt b 3)
      if D.c3 len strLen then .error .eof
      else .ok ((D.longN strLen).toNat, sliceT b D.longLo (D.longHi strLen))
  else
    let strLen := D.shortLen (byteAt b 0)
    if D.c4 len strLen then .error .eof
    else if D.c5 strLen then .error .invalidLength
    else .ok ((D.shortN strLen).toNat, sliceT b D.shortLo (D.shortHi strLen))

/-- `Buffer.Bytes` (`isString = false`) / `Buffer.String` (`true`): decode, the translated padded-length
check, the translated advance. -/
def getBytesG (isString : Bool) (b : Bytes) : Res Bytes :=
  match decodeBytesG (if isString then decS else decB) b with
  | .error e => .error e
  | .ok (n, v) =>
    let short := if isString then Facts.C20.stringShort b.length n else Facts.C20.bytesShort b.length n
    if short then .error .eof
    else .ok (v, b.drop (if isString then Facts.C20.stringAdvance n else Facts.C20.bytesAdvance n).toNat)

/-- `Buffer.Uint32` with the translated check of `PeekID` and the translated advance. -/
def getU32G (b : Bytes) : Res Nat :=
  if Facts.C20.peekIDShort b.length then .error .eof
  else .ok (fromLE (b.take 4), b.drop Facts.C20.uint32Advance.toNat)

/-- `Buffer.Uint64` with the translated check and advance. -/
def getU64G (b : Bytes) : Res Nat :=
  if Facts.C20.uint64Short b.length then .error .eof
  else .ok (fromLE (b.take 8), b.drop Facts.C20.uint64Advance.toNat)

/-- `Buffer.ConsumeN` / `PeekN` with the translated check and advance. -/
def getNG (n : Nat) (b : Bytes) : Res Bytes :=
  if Facts.C20.peekNShort b.length n then .error .eof
  else .ok (b.take n, b.drop (Facts.C20.consumeNAdvance n).toNat)

/-- `Buffer.ConsumeID` with the translated mismatch test and advance. -/
def consumeIDG (id : Nat) (b : Bytes) : Res Unit :=
  if Facts.C20.peekIDShort b.length then .error .eof
  else if Facts.C20.consumeIDMismatch (fromLE (b.take 4)) id then .error .unexpectedID
  else .ok ((), b.drop Facts.C20.consumeIDAdvance.toNat)

/-- `Buffer.VectorHeader` with the translated sign test. -/
def getVectorHeaderG (b : Bytes) : Res Nat :=
  match consumeIDG typeVector b with
  | .error e => .error e
  | .ok (_, r) =>
    match getU32G r with
    | .error e => .error e
    | .ok (n, r') => if Facts.C20.vectorNegative (toInt32 n) then .error .invalidLength else .ok (n, r')

/-- `Buffer.PutBool`, interpreting the regenerated switch table (value ↦ type id). -/
def putBoolG (v : Bool) : Option Bytes :=
  match Facts.C20.boolEncodeTable.lookup v with
  | some id => some (putU32 id)
  | none => none

/-- `Buffer.Bool`, interpreting the regenerated switch table (type id ↦ value; `default` = unexpected id). -/
def getBoolG (b : Bytes) : Res Bool :=
  if Facts.C20.peekIDShort b.length then .error .eof
  else
    match Facts.C20.boolDecodeTable.lookup (fromLE (b.take 4)) with
    | some v => .ok (v, b.drop Facts.C20.uint32Advance.toNat)
    | none => .error .unexpectedID

/-! ### `bin.Fields` (the TL `#` flags word) -/

/-- `1 << n` in `uint32` arithmetic (shift count ≥ 32 gives 0). -/
def bit32 (n : Nat) : Nat := (2 ^ n) % 2 ^ 32

/-- `Fields.Has(n)`: `f&(1<<n) != 0`. -/
def fieldsHas (f n : Nat) : Bool := (f &&& bit32 n) != 0
/-- `Fields.Set(n)`: `*f |= 1 << n`. -/
def fieldsSet (f n : Nat) : Nat := f ||| bit32 n
/-- `Fields.Unset(n)`: `*f &= ^(1 << n)` (`^x` on uint32 = (2^32 − 1) xor x). -/
def fieldsUnset (f n : Nat) : Nat := f &&& ((2 ^ 32 - 1) ^^^ bit32 n)
/-- `Fields.Zero()`. -/
def fieldsZero (f : Nat) : Bool := f == 0
/-- `Fields.Encode`: `PutUint32(uint32(f))`. -/
def putFields (f : Nat) : Bytes := putU32 f
/-- `Fields.Decode`: `Int32()` then `Fields(v)` (int32 → uint32: the same 32 bits). -/
def getFields (b : Bytes) : Res Nat :=
  match getInt32 b with
  | .error e => .error e
  | .ok (v, r) => .ok (ofInt32 v, r)

/-! ### `bin.Buffer` housekeeping (`ResetN`, `Expand`, `Skip`, `Read`, `Copy`, `Put`, …) and `bin.Pool` -/

/-- `Buffer.ResetN(n)`: `append(b.Buf[:0], make([]byte, n)...)`. -/
def bufResetN (n : Int) : Out Bytes :=
  match goMake n with
  | .ok k => .ok (zeros k)
  | .err e => .err e
  | .panic => .panic
/-- `Buffer.Expand(n)`: `append(b.Buf, make([]byte, n)...)`. -/
def bufExpand (b : Bytes) (n : Int) : Out Bytes :=
  match goMake n with
  | .ok k => .ok (b ++ zeros k)
  | .err e => .err e
  | .panic => .panic
/-- `Buffer.Skip(n)`: `b.Buf = b.Buf[n:]` (no check of its own). -/
def bufSkip (b : Bytes) (n : Nat) : Out Bytes := goFrom b n
/-- `Buffer.Read(p)` with `len(p) = k`: (bytes copied, io.EOF?, rest). -/
def bufRead (b : Bytes) (k : Nat) : Bytes × Bool × Bytes :=
  if k = 0 then ([], false, b)
  else if b.isEmpty then ([], true, b)
  else (b.take k, false, b.drop k)
/-- `Buffer.Put(raw)`. -/
def bufPut (b raw : Bytes) : Bytes := b ++ raw
/-- `Pool.GetSize(n)`: whatever buffer the pool hands out, `Reset` then `ResetN(n)`. -/
def poolGetSize (_recycled : Bytes) (n : Int) : Out Bytes := bufResetN n
/-- `Pool.Get()`: `Reset` of whatever buffer the pool hands out. -/
def poolGet (_recycled : Bytes) : Bytes := []

/-- Reading a buffer to the end with reads of the given sizes (each ≥ 1): the chunks in order. -/
def readChunks : List Nat → Bytes → List Bytes × Bytes
  | [], b => ([], b)
  | k :: ks, b =>
    let (c, _, r) := bufRead b k
    let (cs, r') := readChunks ks r
    (c :: cs, r')

end TdModel.C20
