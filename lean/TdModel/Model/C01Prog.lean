/-
C01 — the control structure of `sequenceBox.Handle`, `sequenceBox.applyPending` and
`gapBuffer.Consume`, regenerated from the Go source as programs (`Facts.C01.handleProg`, …,
harness/c01/prog.go) and *interpreted* here.

The leaves of a program are single Go statements / conditions recognised by their exact text;
the interpreter gives each its meaning on the box.  `Lemmas/C01Prog.lean` proves that the
interpreter run on the expected programs is the hand-written model of `Model/C01.lean` (about
which all C01 theorems are stated), and `Props/C01.lean` proves that the regenerated programs
*are* the expected ones.  The driver executes the interpreter on the regenerated programs, so the
executable model follows the code.
-/
import TdModel.Model.C01

namespace TdModel.C01

/-- Programs: statements with explicit continuations (an `if` whose branch does not return carries
the rest of the function in both arms). -/
inductive Prog where
  | ret | retErr | panic | retTrue | retFalse | cont | brk
  | act (a : Nat) (k : Prog)
  | ite (c : Nat) (t e : Prog)
  deriving DecidableEq, Repr

/-- Prefix decoding (fuel = an upper bound of the number of nodes). -/
def Prog.parse : Nat → List Nat → Option (Prog × List Nat)
  | 0, _ => none
  | _ + 1, 0 :: r => some (.ret, r)
  | _ + 1, 3 :: r => some (.retErr, r)
  | _ + 1, 4 :: r => some (.panic, r)
  | _ + 1, 5 :: r => some (.retTrue, r)
  | _ + 1, 6 :: r => some (.retFalse, r)
  | _ + 1, 7 :: r => some (.cont, r)
  | _ + 1, 8 :: r => some (.brk, r)
  | f + 1, 1 :: a :: r =>
    match Prog.parse f r with
    | some (k, r') => some (.act a k, r')
    | none => none
  | f + 1, 2 :: c :: r =>
    match Prog.parse f r with
    | some (t, r1) =>
      match Prog.parse f r1 with
      | some (e, r2) => some (.ite c t e, r2)
      | none => none
    | none => none
  | _, _ => none

/-- A code list that is exactly one program. -/
def Prog.ofCodes (l : List Nat) : Option Prog :=
  match Prog.parse (l.length + 1) l with
  | some (p, []) => some p
  | _ => none

/-! ### `gapBuffer.Consume` -/

/-- State of one `Consume` call inside the loop body for index `i`, gap `g`. -/
structure CM where
  gaps : List Gap
  result : Option Bool := none   -- `return true / false`
  next : Bool := false           -- fell off the body / `continue`
  deriving Repr, DecidableEq

def consumeCond (c : Nat) (g : Gap) (u : Upd) : Bool :=
  if c = 70 then decide (g.1 ≤ u.start) && decide (g.2 ≥ u.state)
  else if c = 71 then decide (g.1 < u.start)
  else if c = 72 then decide (g.2 > u.state)
  else false

def consumeAct (a : Nat) (i : Nat) (g : Gap) (u : Upd) (m : CM) : CM :=
  if a = 60 then { m with gaps := m.gaps ++ [(g.1, u.start)] }
  else if a = 61 then { m with gaps := m.gaps ++ [(u.state, g.2)] }
  else if a = 62 then { m with gaps := m.gaps.eraseIdx i }
  else m

/-- The loop body for index `i`. -/
def consumeBody (i : Nat) (g : Gap) (u : Upd) : Prog → CM → CM
  | .act a k, m => consumeBody i g u k (consumeAct a i g u m)
  | .ite c t e, m => if consumeCond c g u then consumeBody i g u t m else consumeBody i g u e m
  | .retTrue, m => { m with result := some true }
  | .retFalse, m => { m with result := some false }
  | .cont, m => { m with next := true }
  | _, m => { m with result := some false }

/-- `for i, g := range b.gaps { body }` (the range is over the slice as it was at the start). -/
def consumeLoop (body : Prog) (u : Upd) : Nat → List Gap → List Gap → Option (List Gap)
  | _, [], _ => none
  | i, g :: gs, gaps =>
    let m := consumeBody i g u body { gaps := gaps }
    match m.result with
    | some true => some m.gaps
    | some false => none
    | none => consumeLoop body u (i + 1) gs m.gaps

/-- `gapBuffer.Consume` through its regenerated loop body (`none` = not accepted). -/
def consumeI (body : Prog) (gaps : List Gap) (u : Upd) : Option (List Gap) := consumeLoop body u 0 gaps gaps

/-- `for _, u := range s.pending { _ = s.gaps.Consume(u) }`. -/
def consumeAllI (body : Prog) (gaps : List Gap) : List Upd → List Gap
  | [] => gaps
  | u :: us => consumeAllI body ((consumeI body gaps u).getD gaps) us

/-! ### `sequenceBox.applyPending` -/

/-- Loop state of applyPending's `for i, update := range s.pending`. -/
structure LS where
  lstate : Int
  accepted : List Upd := []
  cursor : Nat := 0
  deriving Repr, DecidableEq

def loopCond (c : Nat) (u : Upd) (s : LS) : Bool :=
  if c = 24 then checkGap s.lstate u.state u.count = .apply
  else if c = 20 then checkGap s.lstate u.state u.count = .ignore
  else if c = 25 then checkGap s.lstate u.state u.count = .refetch
  else false

def loopAct (a : Nat) (i : Nat) (u : Upd) (s : LS) : LS :=
  if a = 50 then { s with accepted := s.accepted ++ [u] }
  else if a = 51 then { s with lstate := u.state }
  else if a = 52 then { s with cursor := i + 1 }
  else s

/-- One iteration: the new loop state and whether the loop goes on. -/
def loopBody (i : Nat) (u : Upd) : Prog → LS → LS × Bool
  | .act a k, s => loopBody i u k (loopAct a i u s)
  | .ite c t e, s => if loopCond c u s then loopBody i u t s else loopBody i u e s
  | .brk, s => (s, false)
  | _, s => (s, true)

def loopI (body : Prog) : Nat → List Upd → LS → LS
  | _, [], s => s
  | i, u :: us, s =>
    let r := loopBody i u body s
    if r.2 then loopI body (i + 1) us r.1 else r.1

structure AM where
  b : Box
  ls : LS
  endv : Nat := 0
  trim : Nat := 0
  evs : List Ev := []
  failed : Bool := false
  deriving Repr, DecidableEq

def zeroUpd : Upd := { state := 0, count := 0, tag := 0 }

def apAct (loop : Prog) (ok : Bool) (a : Nat) (m : AM) : AM :=
  if a = 30 then { m with b := { m.b with pending := sortByStart m.b.pending } }
  else if a = 31 then { m with ls := { lstate := m.b.state } }
  else if a = 32 then { m with ls := loopI loop 0 m.b.pending m.ls }
  else if a = 33 then { m with endv := m.b.pending.length }
  else if a = 34 then { m with trim := m.endv - m.ls.cursor }
  else if a = 35 then   -- copy(s.pending, s.pending[cursor:])
    { m with b := { m.b with pending := m.b.pending.drop m.ls.cursor ++ m.b.pending.drop (m.b.pending.length - m.ls.cursor) } }
  else if a = 36 then   -- for i := trim; i < end; i++ { s.pending[i] = update{} }
    { m with b := { m.b with pending := m.b.pending.take m.trim ++ List.replicate (m.endv - m.trim) zeroUpd } }
  else if a = 37 then { m with b := { m.b with pending := m.b.pending.take m.trim } }
  else if a = 38 then { m with evs := m.evs ++ [.apply m.ls.lstate m.ls.accepted ok], failed := !ok }
  else if a = 39 then { m with b := { m.b with state := m.ls.lstate } }
  else m

def apCond (c : Nat) (m : AM) : Bool :=
  if c = 40 then m.ls.accepted.isEmpty
  else if c = 27 then m.failed
  else false

def apRun (loop : Prog) (ok : Bool) : Prog → AM → AM
  | .act a k, m => apRun loop ok k (apAct loop ok a m)
  | .ite c t e, m => if apCond c m then apRun loop ok t m else apRun loop ok e m
  | _, m => m

/-- `sequenceBox.applyPending` through its regenerated programs. -/
def applyPendingI (prog loop : Prog) (b : Box) (ok : Bool) : Box × List Ev :=
  let m := apRun loop ok prog { b := b, ls := { lstate := b.state } }
  (m.b, m.evs)

/-! ### `sequenceBox.Handle` -/

/-- The regenerated programs together. -/
structure Progs where
  handle : Prog
  applyPending : Prog
  applyLoop : Prog
  consumeBody : Prog
  deriving Repr, DecidableEq

structure HM where
  b : Box
  accepted : Bool := true
  evs : List Ev := []
  failed : Bool := false
  deriving Repr, DecidableEq

def hAct (P : Progs) (u : Upd) (ok : Bool) (a : Nat) (m : HM) : HM :=
  if a = 10 then { m with b := { m.b with pending := m.b.pending ++ [u] } }
  else if a = 11 then
    match consumeI P.consumeBody m.b.gaps u with
    | none => { m with accepted := false }
    | some g' => { m with b := { m.b with gaps := g' }, accepted := true }
  else if a = 12 then { m with b := { m.b with armed := false } }
  else if a = 13 then
    let r := applyPendingI P.applyPending P.applyLoop m.b ok
    { m with b := r.1, evs := m.evs ++ r.2 }
  else if a = 14 then { m with evs := m.evs ++ [.apply u.state [u] ok], failed := !ok }
  else if a = 15 then { m with b := { m.b with state := u.state } }
  else if a = 16 then { m with b := { m.b with gaps := m.b.gaps ++ [(m.b.state, u.start)] } }
  else if a = 17 then { m with b := { m.b with gaps := consumeAllI P.consumeBody m.b.gaps m.b.pending } }
  else if a = 18 then { m with b := { m.b with armed := true } }
  else m

def hCond (u : Upd) (c : Nat) (m : HM) : Bool :=
  if c = 20 then checkGap m.b.state u.state u.count = .ignore
  else if c = 21 then !m.b.gaps.isEmpty
  else if c = 22 then !m.accepted
  else if c = 23 then m.b.gaps.isEmpty
  else if c = 24 then checkGap m.b.state u.state u.count = .apply
  else if c = 25 then checkGap m.b.state u.state u.count = .refetch
  else if c = 26 then !m.b.pending.isEmpty
  else if c = 27 then m.failed
  else false

def hRun (P : Progs) (u : Upd) (ok : Bool) : Prog → HM → HM
  | .act a k, m => hRun P u ok k (hAct P u ok a m)
  | .ite c t e, m => if hCond u c m then hRun P u ok t m else hRun P u ok e m
  | _, m => m

/-- `sequenceBox.Handle` through the regenerated programs. -/
def handleI (P : Progs) (b : Box) (u : Upd) (ok : Bool) : Box × List Ev :=
  let m := hRun P u ok P.handle { b := b }
  (m.b, m.evs)

/-- One op of the box, through the regenerated programs. -/
def stepI (P : Progs) (b : Box) : Op → Box × List Ev
  | .handle u ok => handleI P b u ok
  | .setState x => ({ b with state := x }, [.setState x])
  | .clearGaps => ({ b with gaps := [] }, [])
  | .applyPending ok => applyPendingI P.applyPending P.applyLoop b ok

/-- Observation of a run through the regenerated programs (cf. `observe`). -/
def observeI (P : Progs) (b : Box) : List Op → Obs
  | [] => []
  | op :: ops => let r := stepI P b op; (r.2, r.1.state) :: observeI P r.1 ops

/-- The programs regenerated from the current source (a program that does not decode is `panic`). -/
def regenProgs : Progs :=
  { handle := (Prog.ofCodes Facts.C01.handleProg).getD .panic
    applyPending := (Prog.ofCodes Facts.C01.applyPendingProg).getD .panic
    applyLoop := (Prog.ofCodes Facts.C01.applyLoopProg).getD .panic
    consumeBody := (Prog.ofCodes Facts.C01.consumeLoopProg).getD .panic }

end TdModel.C01
