/-
C31 — crash model of one directory of a POSIX file system, and the shape of an atomic
file replacement.  Model of what `/repo/session/storage_file.go: FileStorage.StoreSession`
does to the session directory, expressed as the system calls it issues (the trace is *observed*
with strace by `harness/c31`, not assumed).

State: inodes with their current content and the older contents written since the last
`fsync` of that inode (what may be on disk after a power loss), the current directory and the
older directory versions since the last directory `fsync`, and the descriptor table.

* process crash (kill -9, panic): the kernel keeps everything already written — the crash
  state is the *current* state after a prefix of the trace, with the write in flight cut at
  any byte (`partials`).
* power loss: additionally, any un-fsynced inode may fall back to any content it had since its
  last fsync, and the directory to any version since its last fsync (renames are atomic and
  ordered), independently of each other.  `plReads` lists every content `path` may then have.

File names are opaque strings (the harness sends the hex of the base name).  Core Lean only.
-/
import TdModel.Util
import TdModel.Gen.C31

namespace TdModel.C31
open TdModel

structure Inode where
  /-- content as seen by the running system -/
  cur : Bytes
  /-- older contents since the last fsync of this inode (oldest first); `[]` = clean -/
  hist : List Bytes

structure Fd where
  /-- `none`: descriptor of the directory itself -/
  ino : Option Nat
  off : Nat
  app : Bool
  deriving DecidableEq

structure FS where
  next : Nat
  ino : Nat → Inode
  dir : String → Option Nat
  /-- older versions of the directory since its last fsync (oldest first) -/
  dirHist : List (String → Option Nat)
  fds : Nat → Option Fd
  /-- every name that was ever bound (for listing; superset of the bound names) -/
  names : List String

/-- One *successful* system call touching the session directory. -/
inductive Op where
  | openF (fd : Nat) (name : String) (creat excl trunc app : Bool)
  | openDir (fd : Nat)
  | write (fd : Nat) (data : Bytes)
  | fsync (fd : Nat)              -- fsync or fdatasync
  | close (fd : Nat)
  | rename (a b : String)
  | ftruncate (fd : Nat) (n : Nat)
  | unlink (name : String)
  | other (tag : String)          -- anything else (never accepted by `isAtomicReplace`)
  deriving DecidableEq, Repr

def upd {α} (f : Nat → α) (i : Nat) (x : α) : Nat → α := fun j => if j = i then x else f j
def updS {α} (f : String → α) (n : String) (x : α) : String → α := fun m => if m = n then x else f m

/-- `pwrite`-style overwrite of `c` at offset `off` (holes are zero-filled). -/
def overwrite (c : Bytes) (off : Nat) (d : Bytes) : Bytes :=
  (c ++ List.replicate (off - c.length) 0).take off ++ d ++ c.drop (off + d.length)

def resize (c : Bytes) (n : Nat) : Bytes := (c ++ List.replicate (n - c.length) 0).take n

/-- Effect of one system call.  Calls that would fail (unknown descriptor, `O_EXCL` on an
existing name, …) change nothing. -/
def step (s : FS) : Op → FS
  | .openF fd name creat excl trunc app =>
    match s.dir name with
    | some i =>
      if creat && excl then s
      else
        let ino := if trunc then upd s.ino i ⟨[], (s.ino i).hist ++ [(s.ino i).cur]⟩ else s.ino
        { s with ino := ino, fds := upd s.fds fd (some ⟨some i, 0, app⟩) }
    | none =>
      if creat then
        { next := s.next + 1
          ino := upd s.ino s.next ⟨[], []⟩
          dir := updS s.dir name (some s.next)
          dirHist := s.dirHist ++ [s.dir]
          fds := upd s.fds fd (some ⟨some s.next, 0, app⟩)
          names := name :: s.names }
      else s
  | .openDir fd => { s with fds := upd s.fds fd (some ⟨none, 0, false⟩) }
  | .write fd data =>
    match s.fds fd with
    | some ⟨some i, off, app⟩ =>
      let c := (s.ino i).cur
      let o := if app then c.length else off
      { s with ino := upd s.ino i ⟨overwrite c o data, (s.ino i).hist ++ [c]⟩
               fds := upd s.fds fd (some ⟨some i, o + data.length, app⟩) }
    | _ => s
  | .fsync fd =>
    match s.fds fd with
    | some ⟨some i, _, _⟩ => { s with ino := upd s.ino i ⟨(s.ino i).cur, []⟩ }
    | some ⟨none, _, _⟩ => { s with dirHist := [] }
    | none => s
  | .close fd => { s with fds := upd s.fds fd none }
  | .rename a b =>
    match s.dir a with
    | some i =>
      if a = b then s
      else { s with dir := fun n => if n = b then some i else if n = a then none else s.dir n
                    dirHist := s.dirHist ++ [s.dir]
                    names := b :: s.names }
    | none => s
  | .ftruncate fd n =>
    match s.fds fd with
    | some ⟨some i, _, _⟩ =>
      { s with ino := upd s.ino i ⟨resize (s.ino i).cur n, (s.ino i).hist ++ [(s.ino i).cur]⟩ }
    | _ => s
  | .unlink name =>
    match s.dir name with
    | some _ => { s with dir := updS s.dir name none, dirHist := s.dirHist ++ [s.dir] }
    | none => s
  | .other _ => s

def run (tr : List Op) (s : FS) : FS := tr.foldl step s

/-- States a crash *inside* `op` can leave: a write cut after `k < len` bytes. -/
def partials (s : FS) : Op → List FS
  | .write fd d => (List.range d.length).map fun k => step s (.write fd (d.take k))
  | _ => []

/-- Every state the system can be in when it stops: before the first call, inside a write,
between any two calls, after the last call. -/
def crashStates : List Op → FS → List FS
  | [], s => [s]
  | op :: rest, s => s :: (partials s op ++ crashStates rest (step s op))

/-- What the next start reads from `path` after a process crash. -/
def readCur (s : FS) (path : String) : Option Bytes := (s.dir path).map fun i => (s.ino i).cur

def durableDirs (s : FS) : List (String → Option Nat) := s.dirHist ++ [s.dir]
def durableContents (n : Inode) : List Bytes := n.hist ++ [n.cur]

/-- Everything the next start may read from `path` after a power loss in state `s`. -/
def plReads (s : FS) (path : String) : List (Option Bytes) :=
  (durableDirs s).flatMap fun d =>
    match d path with
    | none => [none]
    | some i => (durableContents (s.ino i)).map some

/-- The directory has no un-synced change that affects `path`, and the file bound to `path`
(if any) is fully on disk: the state left by a completed, synced save (or a fresh start). -/
def Quiescent (s : FS) (path : String) : Prop :=
  (∀ d ∈ s.dirHist, d path = s.dir path) ∧
  ∀ i, s.dir path = some i → i < s.next ∧ (s.ino i).hist = []

/-! ### the shape of an atomic replacement -/

/-- Leading writes to `fd`, and the rest of the trace. -/
def splitWrites (fd : Nat) : List Op → List Bytes × List Op
  | .write fd' d :: rest =>
    if fd' = fd then ((splitWrites fd rest).1.cons d, (splitWrites fd rest).2)
    else ([], .write fd' d :: rest)
  | rest => ([], rest)

/-- Calls that cannot change any file content or directory entry. -/
def Op.harmless : Op → Bool
  | .openDir _ | .fsync _ | .close _ => true
  | _ => false

/-- `tr` is: create a fresh temporary file exclusively, write `new` into it (any chunking),
fsync it, close it, rename it over `path`; afterwards only directory-sync bookkeeping. -/
def isAtomicReplace (tr : List Op) (path : String) (new : Bytes) : Bool :=
  match tr with
  | .openF fd tmp true true _ false :: rest =>
    match (splitWrites fd rest).2 with
    | .fsync f1 :: .close f2 :: .rename a b :: tail =>
      f1 = fd && f2 = fd && a = tmp && b = path && tmp ≠ path &&
        (splitWrites fd rest).1.flatten = new && tail.all Op.harmless
    | _ => false
  | _ => false

/-- Name created by the leading `open` of a trace. -/
def tmpOf : List Op → Option String
  | .openF _ name _ _ _ _ :: _ => some name
  | _ => none

/-- Somewhere in `tail` the directory is opened and fsynced, and only bookkeeping follows. -/
def tailDirSync : List Op → Bool
  | [] => false
  | op :: rest =>
    (match op, rest with
      | .openDir d, .fsync d' :: r2 => d = d' && r2.all Op.harmless
      | _, _ => false) || tailDirSync rest

/-- What follows the rename in a trace of the atomic-replace shape. -/
def tailOf (tr : List Op) : List Op :=
  match tr with
  | .openF fd _ _ _ _ _ :: rest =>
    match (splitWrites fd rest).2 with
    | _ :: _ :: _ :: tail => tail
    | _ => []
  | _ => []

/-- Atomic replacement that also makes the rename durable (directory fsync) before returning. -/
def isDurableReplace (tr : List Op) (path : String) (new : Bytes) : Bool :=
  isAtomicReplace tr path new && tailDirSync (tailOf tr)

/-- A sequence of saves, each an atomic durable replacement whose temporary name is free when
the save starts. -/
def SavesOK (path : String) : FS → List (List Op × Bytes) → Prop
  | _, [] => True
  | s, sv :: rest =>
    isDurableReplace sv.1 path sv.2 = true ∧ (∀ t, tmpOf sv.1 = some t → s.dir t = none) ∧
      SavesOK path (run sv.1 s) rest

/-- The canonical atomic-replace trace. -/
def atomicTrace (fd : Nat) (tmp path : String) (trunc : Bool) (chunks : List Bytes) (tail : List Op) : List Op :=
  .openF fd tmp true true trunc false ::
    (chunks.map (Op.write fd) ++ (.fsync fd :: .close fd :: .rename tmp path :: tail))

/-- The pinned tree's `os.WriteFile`: open with `O_CREAT|O_TRUNC`, write, close. -/
def truncWriteTrace (fd : Nat) (path : String) (chunks : List Bytes) : List Op :=
  .openF fd path true false true false :: (chunks.map (Op.write fd) ++ [.close fd])

/-- Write-temp-then-rename *without* fsync of the temporary file. -/
def unsyncedTrace (fd : Nat) (tmp path : String) (chunks : List Bytes) : List Op :=
  .openF fd tmp true true false false :: (chunks.map (Op.write fd) ++ [.close fd, .rename tmp path])

/-! ### the publication discipline (any trace, any number of writers, failing calls, cleanup)

A trace is *disciplined* w.r.t. `path` when, call by call, in the state reached so far:
the session file itself is never opened, unlinked or renamed away; no write / truncation goes to
an inode that `path` is (or, after a power loss, may be) bound to; and whatever is renamed onto
`path` is clean (fully fsynced) at that moment.  `published` lists the contents so renamed. -/

/-- `path` is, in some directory version that may be on disk, bound to inode `i`. -/
def guarded (s : FS) (path : String) (i : Nat) : Bool :=
  (durableDirs s).any fun d => d path == some i

def opOK (s : FS) (path : String) : Op → Bool
  | .openF _ name _ _ trunc _ =>
    name ≠ path &&
      (match s.dir name with
        | some i => !(trunc && guarded s path i)
        | none => true)
  | .openDir _ => true
  | .write fd _ =>
    (match s.fds fd with
      | some ⟨some i, _, _⟩ => !guarded s path i
      | _ => true)
  | .ftruncate fd _ =>
    (match s.fds fd with
      | some ⟨some i, _, _⟩ => !guarded s path i
      | _ => true)
  | .fsync _ => true
  | .close _ => true
  | .rename a b =>
    a ≠ path &&
      (if b = path then
        (match s.dir a with
          | some i => (s.ino i).hist.isEmpty
          | none => true)
      else true)
  | .unlink name => name ≠ path
  | .other _ => false

def disciplined (path : String) : FS → List Op → Bool
  | _, [] => true
  | s, op :: rest => opOK s path op && disciplined path (step s op) rest

/-- Content renamed onto `path` by `op` in state `s`, if any. -/
def pubOf (s : FS) (path : String) : Op → List Bytes
  | .rename a b =>
    if b = path ∧ a ≠ b then
      (match s.dir a with
        | some i => [(s.ino i).cur]
        | none => [])
    else []
  | _ => []

def published (path : String) : FS → List Op → List Bytes
  | _, [] => []
  | s, op :: rest => pubOf s path op ++ published path (step s op) rest

/-- The failing-call variant of a trace: the first `k` calls succeed, call `k` fails (no effect),
then the cleanup of `writeFileAtomic`'s deferred function runs (`Close` — a no-op system call-wise
when the file was already closed — and `Remove`). -/
def abortTrace (fd : Nat) (tmp : String) (tr : List Op) (k : Nat) (stillOpen : Bool) : List Op :=
  tr.take k ++ (if stillOpen then [.close fd] else []) ++ [.unlink tmp]

/-! ### `StoreSession` as a call sequence regenerated from the source

`Facts.C31.storeOps` is the ordered list of file-system calls in `FileStorage.StoreSession`
(with same-package helpers inlined, error branches and `defer` skipped), each tagged with the
CLASSES of its operands (`dir-of-path` = `filepath.Dir(path)`, `tmp-file` = what `os.CreateTemp`
returned, `tmp-name` = its `Name()`, `opened:dir-of-path`, `data`, `path`), read from the source
on every run.  A temp file created elsewhere, a rename of something else, a partial write are
different tags and become `Op.other`.  `implTrace` interprets it; the harness compares the strace-observed trace with it.
-/

def interp (fd dfd : Nat) (tmp path : String) (chunks : List Bytes) : List String → List Op
  | [] => []
  | t :: r =>
    (if t = "CreateTemp:dir-of-path" then [.openF fd tmp true true false false]
     else if t = "WriteFile:path<data" then
       .openF fd path true false true false :: (chunks.map (Op.write fd) ++ [.close fd])
     else if t = "Write:tmp-file<data" then chunks.map (Op.write fd)
     else if t = "Sync:tmp-file" then [.fsync fd]
     else if t = "Close:tmp-file" then [.close fd]
     else if t = "Rename:tmp-name>path" then [.rename tmp path]
     else if t = "Open:dir-of-path" then [.openDir dfd]
     else if t = "Sync:opened:dir-of-path" then [.fsync dfd]
     else if t = "Close:opened:dir-of-path" then [.close dfd]
     else [.other t]) ++ interp fd dfd tmp path chunks r

def implTrace (fd dfd : Nat) (tmp path : String) (chunks : List Bytes) : List Op :=
  interp fd dfd tmp path chunks Facts.C31.storeOps

/-! ### error paths: `writeFileAtomic`'s deferred cleanup, regenerated as `Facts.C31.storeCleanup` -/

def cleanupOps (fd : Nat) (tmp : String) (stillOpen : Bool) : List String → List Op
  | [] => []
  | t :: r =>
    (if t = "Close:tmp-file" then (if stillOpen then [.close fd] else [])
     else if t = "Remove:tmp-name" then [.unlink tmp]
     else [.other t]) ++ cleanupOps fd tmp stillOpen r

/-- `StoreSession` when its `k`-th file-system call (0-based, `k` before or at the rename) fails:
the first `k` calls, then the cleanup.  `tmp.Close()` issues a system call only if `Close` was not
called before. -/
def implAbortBefore (fd dfd : Nat) (tmp path : String) (chunks : List Bytes) (k : Nat) (stillOpen : Bool) : List Op :=
  (implTrace fd dfd tmp path chunks).take k ++ cleanupOps fd tmp stillOpen Facts.C31.storeCleanup

def isRename : Op → Bool
  | .rename _ _ => true
  | _ => false

/-- `StoreSession` when its `k`-th call fails, anywhere: after the rename failures are ignored
(best-effort directory sync; a failed `os.Open(dir)` skips the sync). -/
def implAbort (fd dfd : Nat) (tmp path : String) (chunks : List Bytes) (k : Nat) : List Op :=
  let tr := implTrace fd dfd tmp path chunks
  if k ≤ tr.findIdx isRename then
    implAbortBefore fd dfd tmp path chunks k (!(tr.take (k + 1)).contains (.close fd))
  else
    match tr[k]? with
    | some (.openDir _) => tr.take k
    | _ => tr.eraseIdx k

/-! ### executable helpers for the driver -/

def lookupIdx (n : String) : List (String × Bytes) → Nat → Option Nat
  | [], _ => none
  | e :: es, k => if e.1 = n then some k else lookupIdx n es (k + 1)

/-- A directory holding exactly `ents`, everything on disk, nothing open. -/
def initFS (ents : List (String × Bytes)) : FS where
  next := ents.length
  ino := fun i => ⟨((ents[i]?).map (·.2)).getD [], []⟩
  dir := fun n => lookupIdx n ents 0
  dirHist := []
  fds := fun _ => none
  names := ents.map (·.1)

def fnv64 (bs : Bytes) : UInt64 :=
  bs.foldl (fun h b => (h ^^^ b.toUInt64) * 1099511628211) 14695981039346656037

/-- Canonical listing of the current directory: `name:len:fnv64(content)` sorted by name. -/
def listing (s : FS) : String :=
  let ns := (s.names.eraseDups.toArray.qsort (· < ·)).toList
  ",".intercalate (ns.filterMap fun n =>
    (s.dir n).map fun i => n ++ ":" ++ toString (s.ino i).cur.length ++ ":" ++ toString (fnv64 (s.ino i).cur).toNat)

end TdModel.C31
