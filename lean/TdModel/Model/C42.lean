/-
C42 — racing dials to a DC (`telegram/dcs/plain.go: plain.connect`).

Labelled transition system for ANY number `n` of concurrent dialers (the state holds a `List`).
One action per atomic step between two synchronisation points of the Go code:

* `dialOk i` / `dialFail i` / `dialHsFail i` — `p.dialTransport` of dialer `i` returns (a connection,
  an error without a connection, an error after the dialed connection was closed by the deferred
  `conn.Close()` in `dialTransport` because the handshake failed);
* `deliver i`   — the rendezvous `results <- dialResult{..}` / `result := <-results` (one atomic step of
  both goroutines because the channel is unbuffered) followed by the collector's bookkeeping
  (`remain--`, `multierr.Append`, `return`) and, on return, the deferred `dialCancel()`;
* `abandon i`   — dialer `i` takes the `<-ctx.Done()` branch of its select (closing its connection);
* `callerCancel`— the caller's context is cancelled (`dialCtx` is derived from it);
* `collCancel`  — the collector takes `<-ctx.Done()` and returns `ctx.Err()`.

The three source facts the argument rests on are parameters of the model and are regenerated from
the source on every run (`TdModel.Gen.C42`): the channel is unbuffered, the abandoning branch closes
the connection, the collector's return cancels `dialCtx`.
Core Lean only (linked into `drv_c42`).
-/
import TdModel.Gen.C42

namespace TdModel.C42

/-- Source facts the model depends on. -/
structure Cfg where
  /-- `results := make(chan dialResult)` has no capacity argument. -/
  unbuffered : Bool
  /-- the `<-ctx.Done()` branch of `tryDial` calls `conn.Close()` when `conn != nil`. -/
  abandonCloses : Bool
  /-- `defer dialCancel()` in `connect` and the dialers are started with `dialCtx`. -/
  cancelOnReturn : Bool
  /-- `dialTransport` closes the dialed connection when it returns an error (deferred `conn.Close()`). -/
  hsCloses : Bool
  deriving Repr, DecidableEq

/-- Position of the first occurrence of an operation code in a regenerated operation list. -/
def opIdx (ops : List Nat) (code : Nat) : Option Nat :=
  let i := ops.findIdx (· == code)
  if i < ops.length then some i else none

/-- `a` and `b` occur and the first `a` precedes the first `b`. -/
def opBefore (ops : List Nat) (a b : Nat) : Bool :=
  match opIdx ops a, opIdx ops b with
  | some i, some j => decide (i < j)
  | _, _ => false

/-- The configuration read from the current source; the structural part is interpreted from the
regenerated lists: `tryDial`'s select has exactly the send on `results` and the `Done` case of its own
context that closes a non-nil connection; `connect` makes an unbuffered channel, derives `dialCtx`, defers
`dialCancel`, starts the dialers on `dialCtx`, all before the collector loop. -/
def cfgOfSource : Cfg :=
  { unbuffered := Facts.C42.resultsUnbuffered && Facts.C42.connectOps.contains 10 && !Facts.C42.connectOps.contains 11
    abandonCloses := Facts.C42.abandonCloses && Facts.C42.tryDialSelect == [1, 2]
    cancelOnReturn := Facts.C42.dialCancelDeferred && Facts.C42.dialersUseDialCtx &&
      opBefore Facts.C42.connectOps 20 21 && opBefore Facts.C42.connectOps 21 22 &&
      opBefore Facts.C42.connectOps 22 40 && !Facts.C42.connectOps.contains 23
    hsCloses := Facts.C42.hsFailCloses }

inductive ConnSt | none | opened | closed
  deriving DecidableEq, Repr

inductive Phase | dialing | blocked | delivered | abandoned
  deriving DecidableEq, Repr

structure Dialer where
  phase : Phase
  ok : Bool
  conn : ConnSt
  deriving DecidableEq, Repr

/-- The collector (`connect`'s own goroutine). -/
inductive Coll
  | waiting (remain errs : Nat)
  | returned (i : Nat)
  | failed (errs : Nat)
  | cancelled
  deriving DecidableEq, Repr

structure State where
  ds : List Dialer
  coll : Coll
  callerDone : Bool
  dialDone : Bool
  deriving DecidableEq, Repr

inductive Action
  | dialOk (i : Nat) | dialFail (i : Nat) | dialHsFail (i : Nat)
  | deliver (i : Nat) | abandon (i : Nat)
  | callerCancel | collCancel
  deriving DecidableEq, Repr

def fresh : Dialer := { phase := .dialing, ok := false, conn := .none }

/-- `connect` with `n = len(dcOptions)` addresses: `remain := len(dcOptions)`. -/
def init (n : Nat) : State :=
  { ds := List.replicate n fresh, coll := .waiting n 0, callerDone := false, dialDone := false }

/-- Dialer `i` finishes dialing with the given result. -/
def finishDial (s : State) (i : Nat) (ok : Bool) (conn : ConnSt) : Option State :=
  match s.ds[i]? with
  | some d => if d.phase = .dialing then
      some { s with ds := s.ds.set i { phase := .blocked, ok := ok, conn := conn } } else none
  | none => none

/-- The collector's reaction to a received result (`case result := <-results`). -/
def collect (c : Cfg) (s : State) (i : Nat) (ok : Bool) (remain errs : Nat) : State :=
  if ok then { s with coll := .returned i, dialDone := s.dialDone || c.cancelOnReturn }
  else if remain - 1 = 0 then { s with coll := .failed (errs + 1), dialDone := s.dialDone || c.cancelOnReturn }
  else { s with coll := .waiting (remain - 1) (errs + 1) }

def step (c : Cfg) (s : State) : Action → Option State
  | .dialOk i => finishDial s i true .opened
  | .dialFail i => finishDial s i false .none
  | .dialHsFail i => finishDial s i false (if c.hsCloses then .closed else .opened)
  | .deliver i =>
    match s.ds[i]? with
    | some d =>
      if d.phase = .blocked then
        match s.coll with
        | .waiting r e =>
          some (collect c { s with ds := s.ds.set i { d with phase := .delivered } } i d.ok r e)
        | _ =>
          -- a buffered channel would accept the value although nobody will ever read it
          if c.unbuffered then none else some { s with ds := s.ds.set i { d with phase := .delivered } }
      else none
    | none => none
  | .abandon i =>
    match s.ds[i]? with
    | some d =>
      if d.phase = .blocked ∧ s.dialDone then
        let d' : Dialer := { d with phase := .abandoned,
                                    conn := if d.conn = .opened ∧ c.abandonCloses then .closed else d.conn }
        some { s with ds := s.ds.set i d' }
      else none
    | none => none
  | .callerCancel => some { s with callerDone := true, dialDone := true }
  | .collCancel =>
    match s.coll with
    | .waiting _ _ => if s.callerDone then some { s with coll := .cancelled } else none
    | _ => none

/-- Run a whole action list; `none` as soon as an action is not enabled. -/
def run (c : Cfg) (s : State) : List Action → Option State
  | [] => some s
  | a :: as => match step c s a with
    | some s' => run c s' as
    | none => none

/-- Index of the first action that is not enabled (for the driver's diagnostics). -/
def runIdx (c : Cfg) (s : State) (k : Nat) : List Action → Except Nat State
  | [] => .ok s
  | a :: as => match step c s a with
    | some s' => runIdx c s' (k + 1) as
    | none => .error k

/-- All actions that mention indices `< n` (the finite action alphabet of an `n`-dialer race). -/
def allActions (n : Nat) : List Action :=
  (List.range n).flatMap (fun i => [.dialOk i, .dialFail i, .dialHsFail i, .deliver i, .abandon i])
    ++ [.collCancel]

/-- Executable form of "nothing but a caller cancel can happen any more". -/
def terminalB (c : Cfg) (s : State) : Bool :=
  (allActions s.ds.length).all (fun a => (step c s a).isNone)

/-- The property as a decidable monitor on one state (evaluated by the driver on every replayed trace):
every open connection is still in the hands of its blocked dialer or is the returned one; at most the
returned dialer is in phase delivered with a success; a failed race has delivered only errors. -/
def holdsB (s : State) : Bool :=
  (List.range s.ds.length).all (fun i =>
    match s.ds[i]? with
    | some d =>
      (d.conn != .opened || d.phase == .blocked || s.coll == .returned i) &&
      (!(d.phase == .delivered && d.ok) || s.coll == .returned i)
    | none => true) &&
  (match s.coll with
   | .failed e => e == s.ds.length && s.ds.all (fun d => d.phase == .delivered && !d.ok)
   | .returned i => (s.ds[i]?).any (fun d => d.phase == .delivered && d.ok && d.conn == .opened)
   | _ => true)

end TdModel.C42
