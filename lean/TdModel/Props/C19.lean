/-
C19 — FakeTLS carries any write sizes intact and checks the server digest.
Property theorems only (helper lemmas: TdModel/Lemmas/C19.lean).

Model: TdModel/Model/C19.lean (`writeAll` = what a sequence of `FakeTLS.Write` calls puts on the
connection, `delivered` = everything a peer's `FakeTLS.Read` calls return from a connection stream,
`readCall` = one `Read` with a buffer of `k` bytes, `readServerHello` with HMAC as a parameter).
-/
import TdModel.Model.C19
import TdModel.Lemmas.C19

namespace TdModel.C19
open TdModel

/-- Tie: regenerated constants are the specification's. -/
theorem record_limit_is_65535 : Facts.C19.maxRecord = 65535 := by decide
theorem record_types : Facts.C19.typeChangeCipherSpec = 0x14 ∧ Facts.C19.typeHandshake = 0x16
    ∧ Facts.C19.typeApplication = 0x17 := by decide
theorem server_random_at_11 : Facts.C19.serverRandomOffset = 11 ∧ Facts.C19.maxHandshakeRecords = 16 := by decide
theorem writes_version_12 : Facts.C19.writesVersion12 = true ∧ Facts.C19.version12 = [3, 3] := by decide
/-- Tie: `FakeTLS.Write` in the current source loops, one record per chunk, advancing by the chunk;
the translated cut condition / position mean "more than 65 535 bytes" / "at 65 535" for every length. -/
theorem write_splits : Facts.C19.writeSplits = true ∧ (∀ n : Nat, splitNeeded n = decide (n > 65535))
    ∧ splitAt = 65535 := ⟨by decide, splitNeeded_eq, splitAt_eq⟩
/-- Tie: the `switch rec.Type` of `FakeTLS.Read`, read from the source as a table and interpreted by the
model, skips ChangeCipherSpec, delivers application data, and fails on a handshake record. -/
theorem read_switch : actionOf tCCS = .skip ∧ actionOf tApp = .deliver ∧ actionOf tHandshake = .errHandshake :=
  ⟨act_CCS, act_App, act_Hs⟩
theorem client_random_at_11 : Facts.C19.clientRandomOffset = 11 ∧ Facts.C19.clientRandomLength = 32 := by decide

theorem writeAll_eq (ws : List Bytes) : writeAll ws = writeAllWith writeSplit false ws := by
  have : writeOne = writeSplit := by funext b; simp [writeOne, write_splits.1]
  simp [writeAll, this]

/-- Splitting is only done when needed: a write of at most 65 535 bytes (every MTProto frame of
ordinary size, and the empty write) goes out as exactly one application record carrying it whole. -/
theorem small_write_single_record (b : Bytes) (h : b.length ≤ 65535) :
    writeOne b = record tApp writeVersion b := by
  have hw : writeOne = writeSplit := by funext b; simp [writeOne, write_splits.1]
  rw [hw]
  unfold writeSplit chunks
  cases hb : b.length with
  | zero => simp [chunksF]
  | succ n =>
    have : splitNeeded (n + 1) = false := by rw [write_splits.2.1]; simp; omega
    simp [chunksF, hb, this]

/-- **Every record stays within the 16-bit length**: the connection bytes are a sequence of records
(first-packet ChangeCipherSpec or application data) each carrying at most 65 535 bytes, whose
application payloads concatenate to the written bytes. -/
theorem record_len_le_65535 (ws : List Bytes) :
    ∃ rs : List (Bool × Bytes), writeAll ws = (rs.map recBytes).flatten
      ∧ (∀ r ∈ rs, r.2.length ≤ 65535) ∧ (rs.map appOf).flatten = ws.flatten :=
  ⟨recsOf false ws, by rw [writeAll_eq]; exact writeAllWith_split_eq ws false, recsOf_le ws false, recsOf_app ws false⟩

/-- **Stream theorem.**  For every sequence of writes of any lengths (0, 65 535, 65 536, MiB…), what a
FakeTLS peer reads from the connection is exactly the concatenation of the writes, and then a clean
end of stream. -/
theorem tls_stream (ws : List Bytes) : delivered (writeAll ws) = (ws.flatten, .eof) := by
  rw [writeAll_eq, writeAllWith_split_eq]
  unfold delivered
  rw [appData_records (recsOf false ws) _ (recsOf_le ws false)
    (by have := records_length_le (recsOf false ws); omega)]
  rw [recsOf_app]

/-- **Any read chunking**: a `Read` with a buffer of any size `k` returns at most `k` (and, for
`k > 0`, at least one) of the pending bytes and leaves the others pending, in order — so the
concatenation of what any sequence of `Read` calls returns is a prefix of `delivered`. -/
theorem read_any_chunking (k : Nat) (st st' : RState) (out : Bytes)
    (h : readCall (st.conn.length + 1) k st = .ok (out, st')) :
    st.buf ++ (delivered st.conn).1 = out ++ (st'.buf ++ (delivered st'.conn).1)
      ∧ (delivered st'.conn).2 = (delivered st.conn).2 ∧ out.length ≤ k ∧ (0 < k → out ≠ []) :=
  readCall_ok _ k st st' out (by omega) h

/-- A `Read` fails only once everything pending has been returned, with the stream's own error. -/
theorem read_fails_only_at_end (k : Nat) (st : RState) (e : Err)
    (h : readCall (st.conn.length + 1) k st = .error e) : st.buf = [] ∧ delivered st.conn = ([], e) :=
  readCall_err _ k st e (by omega) h

/-- Tie: the final comparison of `readServerHello` covers all 32 digest bytes. -/
theorem digest_compared_in_full : Facts.C19.digestCmpLen = 32 := by decide

/-- **Server digest.**  `readServerHello` accepts iff the record structure is the expected one and the
32 bytes at offset 11 of the consumed packet equal `HMAC(secret, clientRandom ‖ packet with those 32
bytes zeroed)`. -/
theorem serverHello_ok_iff (hmac : Bytes → Bytes → Bytes) (hlen : ∀ k m, (hmac k m).length = 32)
    (clientRandom secret s rest : Bytes) :
    readServerHello hmac clientRandom secret s = .ok rest ↔
      helloShape s = .ok rest ∧
      hmac secret (clientRandom ++ zeroDigest (packetOf s rest)) = digestOf (packetOf s rest) := by
  have hcmp : Facts.C19.digestCmpLen = 32 := by decide
  have htake : ∀ r : Bytes, ((hmac secret (clientRandom ++ zeroDigest (packetOf s r))).take 32
        = (digestOf (packetOf s r)).take 32) ↔
      hmac secret (clientRandom ++ zeroDigest (packetOf s r)) = digestOf (packetOf s r) := by
    intro r
    rw [List.take_of_length_le (by rw [hlen]; omega),
      List.take_of_length_le (by unfold digestOf; simp only [List.length_take]; omega)]
  unfold readServerHello
  rw [hcmp]
  cases h : helloShape s with
  | error e => simp
  | ok r =>
    simp only [htake]
    constructor
    · intro hh
      split at hh
      · simp only [Except.ok.injEq] at hh; subst hh; exact ⟨rfl, by assumption⟩
      · simp at hh
    · rintro ⟨hr, hd⟩
      simp only [Except.ok.injEq] at hr; subst hr
      simp [hd]

/-- The packet the digest is computed over is exactly what was consumed from the stream and contains
the whole 32-byte digest field. -/
theorem serverHello_packet (s rest : Bytes) (h : helloShape s = .ok rest) :
    s = packetOf s rest ++ rest ∧ 43 ≤ (packetOf s rest).length :=
  helloShape_split h

/-- A hello whose digest was made with another secret or client random is rejected whenever that
changes the HMAC value (no collision assumption is made: the hypothesis is the inequality itself). -/
theorem serverHello_wrong_key_rejected (hmac : Bytes → Bytes → Bytes) (hlen : ∀ k m, (hmac k m).length = 32)
    (cr secret cr' secret' s rest : Bytes)
    (hshape : helloShape s = .ok rest)
    (hmade : digestOf (packetOf s rest) = hmac secret' (cr' ++ zeroDigest (packetOf s rest)))
    (hdiff : hmac secret (cr ++ zeroDigest (packetOf s rest)) ≠ hmac secret' (cr' ++ zeroDigest (packetOf s rest))) :
    readServerHello hmac cr secret s = .error .digest := by
  cases hr : readServerHello hmac cr secret s with
  | ok r =>
    have := (serverHello_ok_iff hmac hlen cr secret s r).mp hr
    rw [hshape] at this
    obtain ⟨hrr, hd⟩ := this
    simp only [Except.ok.injEq] at hrr
    subst hrr
    rw [hmade] at hd
    exact absurd hd hdiff
  | error e =>
    unfold readServerHello at hr
    rw [hshape] at hr
    simp only at hr
    split at hr
    · simp at hr
    · simp only [Except.error.injEq] at hr; rw [← hr]

/-- **ClientHello.**  `writeClientHello` changes only the 32-byte random field of the generated
record, returns that field as the client random, and makes it the HMAC of the record (random zeroed)
under the secret with the little-endian Unix time XORed into its last four bytes: the equation an
MTProxy server verifies.  (`hmac` is a parameter; only its 32-byte output length is used.) -/
theorem clientHello_digest (hmac : Bytes → Bytes → Bytes) (hlen : ∀ k m, (hmac k m).length = 32)
    (secret : Bytes) (now : Int) (record out rnd : Bytes)
    (h : finishClientHello hmac secret now record = .ok (out, rnd)) :
    out.length = record.length ∧ zeroRandom out = zeroRandom record ∧ (out.drop 11).take 32 = rnd ∧
    xorBytes rnd (hmac secret (zeroRandom out)) = List.replicate 28 0 ++ tsBytes now :=
  finishClientHello_spec hmac secret now record out rnd hlen h

/-- It succeeds on every record that contains the random field. -/
theorem clientHello_succeeds (hmac : Bytes → Bytes → Bytes) (secret : Bytes) (now : Int) (record : Bytes)
    (h : 43 ≤ record.length) : ∃ out rnd, finishClientHello hmac secret now record = .ok (out, rnd) := by
  unfold finishClientHello
  have : ¬ record.length < clientRandomOffset + clientRandomLength := by rw [cro, crl]; omega
  simp only [this, if_false]
  exact ⟨_, _, rfl⟩

/-! ### The pinned tree violated the property (defect D7) -/

/-- Pinned tree (`Write` = one record per call): a single write of 65 536 zero bytes gets length field
0; the peer reads **nothing** and fails with "unknown protocol version". -/
theorem pinned_write_65536_counterexample :
    delivered (writeAllWith writePinned false [List.replicate 65536 0]) = ([], .badVersion)
    ∧ (List.replicate 65536 (0 : UInt8)).length = 65536 :=
  ⟨pinned_65536, List.length_replicate⟩

/-! ### Non-vacuity -/

example : delivered (writeAll [[1, 2, 3], [], [4]]) = ([1, 2, 3, 4], .eof) := tls_stream _
example : writeAll [[7]] = [0x14, 3, 3, 0, 1, 1, 0x17, 3, 3, 0, 1, 7] := by decide
/-- A hello that is accepted exists (HMAC = constant 32 bytes, digest field = the same bytes). -/
example : (readServerHello (fun _ _ => List.replicate 32 9) [] []
    (record tHandshake [3, 3] ([2, 0, 0, 0, 3, 3] ++ List.replicate 32 9) ++ record tCCS [3, 3] [1] ++ record tApp [3, 3] [5])).toOption
    = some [] := by decide

end TdModel.C19
