/-
C21 — property theorems (generic over the schema; the generated tg/mt/e2e types are the
instances on which the driver evaluates `Schema.wf` on every run).
-/
import TdModel.Lemmas.C21
import TdModel.Lemmas.C21Dec
import TdModel.Lemmas.C21Flags
import TdModel.Lemmas.C21Depth
import TdModel.Lemmas.C21FullA
import TdModel.Lemmas.C21FullB

namespace TdModel.C21
open TdModel TdModel.Bin

/-- Round trip, one theorem for all constructors: on a well-formed schema, for every type `t`
and every value `v` that `Encode` accepts (`encTy … = some e`), decoding `e` followed by any
bytes yields exactly `v` and leaves exactly those bytes. -/
theorem tl_roundtrip (S : Schema) (hwf : S.wf = true) (t : Ty) (v : Val) (e rest : Bytes) (fuel d : Nat)
    (henc : encTy S t v = some e) (hfuel : v.size ≤ fuel) (hdepth : v.depth ≤ d) :
    decTy S fuel d t (e ++ rest) = .ok (v, rest) :=
  (rt_all S hwf).1 v t e rest fuel d henc hfuel hdepth

/-- … in particular with the nesting budget of `bin.Buffer`: every value nested at most 1000
deep round-trips (deeper ones are rejected by design, see `tl_nesting_bounded`). -/
theorem tl_roundtrip_1000 (S : Schema) (hwf : S.wf = true) (t : Ty) (v : Val) (e rest : Bytes)
    (henc : encTy S t v = some e) (hdepth : v.depth ≤ 1000) :
    decTy S v.size 1000 t (e ++ rest) = .ok (v, rest) :=
  tl_roundtrip S hwf t v e rest v.size 1000 henc (Nat.le_refl _) hdepth

/-- Corollary, for every well-formed schema and every type: `Encode` is injective and prefix-free —
two accepted values whose encodings, each followed by arbitrary bytes, give the same stream are the
same value with the same remainder (no two API objects share a wire form; a vector element can never
be cut in two ways). -/
theorem tl_encoding_unambiguous (S : Schema) (hwf : S.wf = true) (t : Ty) (v w : Val) (e f r₁ r₂ : Bytes)
    (hv : encTy S t v = some e) (hw : encTy S t w = some f) (h : e ++ r₁ = f ++ r₂) :
    v = w ∧ r₁ = r₂ := by
  have h1 := tl_roundtrip S hwf t v e r₁ (max v.size w.size) (max v.depth w.depth) hv
    (Nat.le_max_left _ _) (Nat.le_max_left _ _)
  have h2 := tl_roundtrip S hwf t w f r₂ (max v.size w.size) (max v.depth w.depth) hw
    (Nat.le_max_right _ _) (Nat.le_max_right _ _)
  rw [h, h2] at h1
  injection h1 with h1; injection h1 with a b
  exact ⟨a.symm, b.symm⟩

/-- The nesting limit is enforced for arbitrary bytes: a successful decode with budget `d` went
through at most `d` nested boxed objects (calls of a generated `DecodeXxx`, the only recursion
points of the generated code) — the recursion depth of the decoder is bounded by the budget,
never by the length of the input. -/
theorem tl_nesting_bounded (S : Schema) (fuel d : Nat) (t : Ty) (b : Bytes) (v : Val) (rest : Bytes)
    (h : decTy S fuel d t b = .ok (v, rest)) : boxDepthTy S t v ≤ d :=
  (depth_all S fuel).1 d t b v rest h

theorem max_nesting_depth_is_1000 : Facts.C21.maxNestingDepth = 1000 := by decide

/-- every generated `DecodeXxx` spends the budget: `EnterObject` before its switch, `LeaveObject` deferred. -/
theorem every_interface_decoder_guarded : Facts.C21.ifacesUnguarded = 0 := by decide

/-- Generic (`!X`) wrappers — invokeWithLayer, initConnection, … — are covered by the same theorem:
the constructor of the object held by the generic field is a parameter of the schema
(`Schema.generic`), irrelevant to well-formedness. -/
theorem wf_ignores_generic (S : Schema) (g : Option Nat) : ({ S with generic := g } : Schema).wf = S.wf :=
  wf_generic S g

/-- Re-encoding the decoded value yields identical bytes. -/
theorem tl_reencode_identical (S : Schema) (hwf : S.wf = true) (t : Ty) (v : Val) (e rest : Bytes)
    (henc : encTy S t v = some e) :
    ∃ v' r, decTy S v.size v.depth t (e ++ rest) = .ok (v', r) ∧ r = rest ∧ encTy S t v' = some e :=
  ⟨v, rest, tl_roundtrip S hwf t v e rest v.size v.depth henc (Nat.le_refl _) (Nat.le_refl _), rfl, henc⟩

/-- Arbitrary input: whatever bytes the decoder accepts (any schema, any type, any fuel), it has
consumed only a prefix of the input (`rest` is a suffix of `b`: nothing outside the buffer is
read) and the result is a well-typed value: `Encode` accepts it. -/
theorem tl_decoded_is_value (S : Schema) (fuel d : Nat) (t : Ty) (b : Bytes) (v : Val) (rest : Bytes)
    (h : decTy S fuel d t b = .ok (v, rest)) : rest <:+ b ∧ ∃ e, encTy S t v = some e := by
  obtain ⟨h1, h2⟩ := (dec_ok_all S fuel).1 d t b v rest h
  exact ⟨h1, isSome_some h2⟩

/-- … and its canonical re-encoding is a fixed point: it decodes to the same value (with any
trailing bytes left untouched), so decode → encode → decode → encode yields identical bytes even
when the original input was not canonical (non-zero padding, long-form short strings). -/
theorem tl_decode_reencode_stable (S : Schema) (hwf : S.wf = true) (fuel d : Nat) (t : Ty) (b : Bytes)
    (v : Val) (rest : Bytes) (h : decTy S fuel d t b = .ok (v, rest)) :
    ∃ e, encTy S t v = some e ∧ ∀ rest', decTy S v.size v.depth t (e ++ rest') = .ok (v, rest') := by
  obtain ⟨_, e, he⟩ := tl_decoded_is_value S fuel d t b v rest h
  exact ⟨e, he, fun rest' => tl_roundtrip S hwf t v e rest' v.size v.depth he (Nat.le_refl _) (Nat.le_refl _)⟩

/-- Flag bits are derived from field presence: bit `bit` of the mask that `SetFlags` ORs into
flags word `k` is set iff some conditional field reading that bit holds a non-zero value. -/
theorem setflags_bits_iff_presence (S : Schema) (k bit : Nat) (fs : List Field) (vs : Vals) :
    (presenceBits S k fs vs).testBit bit = true ↔ HasPresent S k bit fs vs :=
  presenceBits_iff S k bit fs vs

/-- The model's decoder has exactly two outcomes (a value or an error class); there is no
panic outcome for any bytes, any type, any schema (also ill-formed ones). -/
theorem tl_decode_total (S : Schema) (fuel d : Nat) (t : Ty) (b : Bytes) :
    (∃ v r, decTy S fuel d t b = .ok (v, r)) ∨ (∃ err, decTy S fuel d t b = .error err) := by
  cases h : decTy S fuel d t b with
  | ok p => exact .inl ⟨p.1, p.2, rfl⟩
  | error e => exact .inr ⟨e, rfl⟩

/-- Vector preallocation: the capacity every generated decoder passes to `make` is below 1024
for every header length (also 2^31-1). -/
theorem prealloc_le_1024 (headerLen : Nat) : vecCap headerLen < 1024 := by
  unfold vecCap
  split
  · exact Nat.mod_lt _ (by decide)
  · decide

/-- … and that is the form of *every* `make(` in every generated `DecodeBare` (regenerated fact). -/
theorem every_make_is_capped : Facts.C21.vectorMakes = Facts.C21.vectorMakesCapped := by decide

theorem prealloc_limit_is_1024 : Facts.C21.preallocateLimit = 1024 := by decide

/-- The translator understood every generated constructor, and encode/decode bodies agree. -/
theorem all_constructors_translated : Facts.C21.untranslated = 0 := by decide

/-- Every generic (`!X`, Go `bin.Object`) field is nil-checked before Encode/Decode dereference
it (a `nil` there was a panic, not an error). -/
theorem generic_fields_nil_checked : Facts.C21.genericUnchecked = 0 := by decide

/-- No generated type uses the generator's (defective) double-vector loop. -/
theorem no_double_vectors : Facts.C21.doubleVectors = 0 := by decide

/-! ### Kernel-checked instances: the MTProto (mt/) and end-to-end (tg/e2e/) schemas

`coreSchema` is the regenerated schema of the 139 mt + e2e constructors as a Lean term; its
well-formedness is checked by the kernel, so for these the round trip holds without trusting the
compiled evaluator (the 2490 tg constructors are covered by `Schema.wf` evaluated in the driver,
which also checks that the data file starts with exactly `coreSchema`). -/

theorem core_schema_wf : coreSchema.wf = true := by decide +kernel

theorem core_schema_size : coreSchema.ctors.size = 139 ∧ coreSchema.ifaces.size = 17 := by decide +kernel

theorem core_roundtrip (t : Ty) (v : Val) (e rest : Bytes) (henc : encTy coreSchema t v = some e) :
    decTy coreSchema v.size v.depth t (e ++ rest) = .ok (v, rest) :=
  tl_roundtrip coreSchema core_schema_wf t v e rest v.size v.depth henc (Nat.le_refl _) (Nat.le_refl _)

/-! ### Kernel-checked instance: the WHOLE regenerated schema (mt, e2e, tg: all 2629 constructors)

`fullSchema` (Gen/C21Full*.lean) is the translated schema as a Lean term.  Its well-formedness is
derived by `wf_of_cert` (proved once, for every schema) from a regenerated certificate that the
kernel evaluates in linear passes plus two-level id lookups (`Lemmas/C21FullA/B.lean`,
`decide +kernel`; about 30 s CPU each, built in parallel).  `full_schema_digest` pins the digest
of the term to the one the translator computed; the driver prints the digest of the data file it
loaded and the harness compares the two, so the instance the correspondence runs on is this term. -/

theorem full_schema_wf : TdModel.Facts.C21Full.fullSchema.wf = true :=
  wf_of_cert _ TdModel.Facts.C21Full.idChunks TdModel.Facts.C21Full.cert
    full_ctors_ok full_chunks_ok full_ids_ok full_cert_ok

theorem full_schema_digest :
    TdModel.Facts.C21Full.fullSchema.digest = Facts.C21.schemaDigest := full_digest

/-- The round trip for every generated constructor / interface / vector type of tg, mt, e2e, with
no hypothesis left about the schema. -/
theorem full_roundtrip (t : Ty) (v : Val) (e rest : Bytes)
    (henc : encTy TdModel.Facts.C21Full.fullSchema t v = some e) (hdepth : v.depth ≤ 1000) :
    decTy TdModel.Facts.C21Full.fullSchema v.size 1000 t (e ++ rest) = .ok (v, rest) :=
  tl_roundtrip _ full_schema_wf t v e rest v.size 1000 henc (Nat.le_refl _) hdepth

/-! Non-vacuity: a small schema with an interface of two constructors, a flags word, a
conditional field, a true-flag and a vector; it is well-formed and the value is encodable. -/

def exSchema : Schema :=
  { ctors := #[
      { id := some 0x11111111, fields := [⟨.flags, none⟩, ⟨.trueFlag, some (0, 1)⟩, ⟨.int, some (0, 0)⟩,
                                          ⟨.vec false (.boxed 0), none⟩] },
      { id := some 0x22222222, fields := [⟨.str, none⟩] }],
    ifaces := #[[0, 1]] }

def exVal : Val :=
  .obj 0 (.cons (.num 3) (.cons (.bool true) (.cons (.num 7)
    (.cons (.vec (.cons (.obj 1 (.cons (.raw [1, 2, 3]) .nil)) .nil)) .nil))))

example : exSchema.wf = true := by decide
example : (encTy exSchema (.boxed 0) exVal).isSome = true := by decide

end TdModel.C21
