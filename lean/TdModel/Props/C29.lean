/-
C29 — requests survive primary connection loss without duplicate execution.

Property theorems only, over the composed model `TdModel/Model/C29.lean` with the configuration
regenerated from `telegram/invoke.go`, `telegram/client.go`, `telegram/internal/manager/conn.go` and
`rpc/engine.go` (part of it interpreted in Lean from regenerated statement-order lists), for ANY number
of requests, ANY number of connection epochs and ANY order of the events (binding to a connection,
initialisation, writes, acknowledgements, results, kills at every protocol step — also of a replacement
connection that is not yet initialised —, fail-over, reconnects, close).
-/
import TdModel.Lemmas.C29c

namespace TdModel.C29

/-- The regenerated facts: `errRetryableOnNewConn` is exactly `ErrConnDead ∨ ErrEngineClosed`, an
un-acknowledged forced close reports the cause `ErrEngineClosed`, an acknowledged one reports the plain
context error, `invokeConn` waits for `connChanged` / the client context, `replaceConn` signals, a
failed transport send is mapped to `pool.ErrConnDead`; and, interpreted from the regenerated statement
order: `conn` and `connChanged` are read in one `connMux` critical section before `conn.Invoke`,
`manager.Conn.Run` defers `dead.Signal()` before it runs the protocol, `waitSession` watches `dead`,
`mtproto.Conn.readLoop` waits for its handler goroutines before it returns, `NotifyAcks` skips an unknown
id with `continue`. -/
theorem source_facts :
    cfgOfSource = { unackedRetryable := true, ackedNotRetryable := true, closeUnblocks := true,
                    sendErrorSurfaces := false, snapshotBeforeInvoke := true, deadAlwaysSignalled := true,
                    readRegisters := true } := by
  decide

theorem snap_source : cfgOfSource.snapshotBeforeInvoke = true := by decide

/-- **Acknowledged requests are not sent again**: once the client has processed the acknowledgement
(or the result) of request `r` on connection epoch `a`, the server never receives a copy of `r` on a
later connection. -/
theorem acked_not_resent (n : Nat) (s : State) (h : Reachable cfgOfSource n s) (r : Nat) (q : Req)
    (hq : s.reqs[r]? = some q) (a : Nat) (ha : q.ackSeen = some a) (k : Nat) (hk : (r, k) ∈ s.arrivals) :
    k ≤ a :=
  (((inv_reachable h).req r q hq).2.2.2.1 a ha).2 k hk

/-- **An acknowledgement that was read is not lost**: when the client has read from the wire the
acknowledgement (or the result) of the copy of `r` it wrote on epoch `k`, and that connection then dies
(noticed by its read loop; the client is not being closed), the request cannot be failed over (`fail` is
disabled) — the engine registers the message first (`seen` is enabled and makes the request acknowledged),
hence (by `acked_not_resent`) the request is not sent again. -/
theorem read_ack_not_failed_over (s : State) (hc : s.closed = false) (r : Nat) (q : Req) (hq : s.reqs[r]? = some q)
    (k : Nat) (hp : q.phase = .sent k) (hr : q.read = some k) (hw : k ∉ s.wdead)
    (ha : (r, k) ∈ s.acks ∨ (r, k) ∈ s.results) :
    step cfgOfSource s (.fail r) = none ∧
    ∃ s', step cfgOfSource s (.seen r) = some s' ∧
      s'.reqs[r]? = some { q with phase := .acked k, ackSeen := some k } := by
  have hlt := lt_of_getElem? hq
  refine ⟨?_, setReq s r { q with phase := .acked k, ackSeen := some k }, ?_, by simp [setReq, hlt]⟩
  · simp [step, hq, hp, readPending, hr, hw, hc, source_facts]
  · simp [step, seenStep, hq, hp, ha]

/-- **At most one copy per connection**: the server never receives the same request twice on one
connection epoch (with retransmission disabled; every further copy is a re-send on a new connection). -/
theorem unacked_retried_once_per_conn (n : Nat) (s : State) (h : Reachable cfgOfSource n s) :
    s.arrivals.Nodup :=
  (inv_reachable h).nodup

/-- **An un-acknowledged request is never failed while the client is open**: `Invoke` cannot return an
error for a request that has not been acknowledged (about to pick a connection, inside `conn.Invoke`
waiting for the session or writing, written but not acknowledged, parked for a reconnect). -/
theorem unacked_not_failed (s : State) (r : Nat) (q : Req) (hq : s.reqs[r]? = some q) (hc : s.closed = false)
    (hp : q.phase = .ready ∨ (∃ k, q.phase = .bound k) ∨ (∃ k, q.phase = .sent k) ∨ (∃ w, q.phase = .parked w)) :
    step cfgOfSource s (.retErr r) = none ∧ step cfgOfSource s (.sendFail r) = none := by
  rcases hp with hp | ⟨k, hp⟩ | ⟨k, hp⟩ | ⟨w, hp⟩ <;> simp [step, hq, hp, hc, source_facts]

/-- **Fail-over is always possible**: a request inside `conn.Invoke` on a connection that is dead —
written but not acknowledged (and no acknowledgement read from the wire is about to be registered), or still waiting for the session of a connection that died before it was
initialised, or about to write on it — gets a retryable error (`fail` is enabled) and parks. -/
theorem failed_over (s : State) (r : Nat) (q : Req) (hq : s.reqs[r]? = some q) (k : Nat)
    (hp : q.phase = .sent k ∨ q.phase = .bound k) (hd : connDead s k = true)
    (hr : readPending cfgOfSource s q k = false) :
    ∃ s', step cfgOfSource s (.fail r) = some s' ∧ s'.reqs[r]? = some { q with phase := .parked k } := by
  have hlt := lt_of_getElem? hq
  rcases hp with hp | hp
  · rw [source_facts] at hr
    exact ⟨_, by simp [step, hq, hp, hd, hr, source_facts]; rfl, by simp [setReq, hlt]⟩
  · by_cases hi : k ∈ s.inited
    · exact ⟨_, by simp [step, hq, hp, hd, hi, source_facts]; rfl, by simp [setReq, hlt]⟩
    · exact ⟨_, by simp [step, hq, hp, hd, hi, source_facts]; rfl, by simp [setReq, hlt]⟩

/-- **A parked invocation is woken by the replacement**: in every reachable state, an invocation parked
for a reconnect waits on the `connChanged` channel of an epoch that is already over as soon as a live
connection is in place — so it can pick the new connection (`bind` is enabled); it never waits for a
"further" replacement of a healthy connection. -/
theorem parked_wakes (n : Nat) (s : State) (h : Reachable cfgOfSource n s) (r : Nat) (q : Req)
    (hq : s.reqs[r]? = some q) (w : Nat) (hp : q.phase = .parked w) (ha : s.alive = true) :
    w < s.epoch ∧ ∃ s', step cfgOfSource s (.bind r) = some s' := by
  have hI := inv_reachable h
  obtain ⟨hle, hal, _⟩ := ((hI.req r q hq).2.2.2.2.2.2.2.1) w hp
  have hlt : w < s.epoch := by
    rcases Nat.lt_or_ge w s.epoch with h' | h'
    · exact h'
    · have := hal snap_source (Nat.le_antisymm hle h')
      rw [ha] at this; cases this
  exact ⟨hlt, _, by simp [step, hq, hp, hlt]; rfl⟩

/-- **A request on a healthy connection can be written**: bound to the current, alive, initialised
connection, its write (`arr`) is enabled — it has not been written on this epoch before. -/
theorem bound_can_send (n : Nat) (s : State) (h : Reachable cfgOfSource n s) (r : Nat) (q : Req)
    (hq : s.reqs[r]? = some q) (hp : q.phase = .bound s.epoch) (hi : s.epoch ∈ s.inited) :
    ∃ s', step cfgOfSource s (.arr r s.epoch) = some s' := by
  have hI := inv_reachable h
  have hno : (r, s.epoch) ∉ s.arrivals := by
    intro hm
    have := ((hI.req r q hq).2.2.2.2.2.2.1 s.epoch hp).2 s.epoch hm
    omega
  exact ⟨_, by simp [step, hq, hp, hi, hno]; rfl⟩

/-- **Errors are returned only for acknowledged requests whose connection was lost, or because the
client was closed**. -/
theorem error_only_if_acked_or_closed (n : Nat) (s : State) (h : Reachable cfgOfSource n s) (r : Nat) (q : Req)
    (hq : s.reqs[r]? = some q) (hp : q.phase = .doneErr) :
    (q.reason = .ackedLost ∧ q.ackSeen ≠ none) ∨ (q.reason = .closed ∧ s.closed = true) := by
  obtain ⟨as, hrun⟩ := h
  have hne := noSendErr_run cfgOfSource (by decide) as (noSendErr_init n) hrun r q hq
  rcases ((inv_reachable ⟨as, hrun⟩).req r q hq).2.2.2.2.1 hp with h' | h' | h'
  · exact Or.inl h'
  · exact Or.inr h'
  · exact absurd h' hne

/-- **A closed client returns**: once the client is closed, every invocation that has not returned
yet can return (with an error) — it does not wait for a reconnect, and no reconnect happens. -/
theorem closed_client_returns (s : State) (hc : s.closed = true) (r : Nat) (q : Req)
    (hq : s.reqs[r]? = some q) (hp : q.phase ≠ .idle ∧ q.phase ≠ .doneOk ∧ q.phase ≠ .doneErr) :
    (∃ s', step cfgOfSource s (.retErr r) = some s') ∧ step cfgOfSource s .reconnect = none := by
  refine ⟨?_, by simp [step, hc]⟩
  cases hph : q.phase with
  | idle => exact absurd hph hp.1
  | doneOk => exact absurd hph hp.2.1
  | doneErr => exact absurd hph hp.2.2
  | ready => exact ⟨_, by simp [step, hq, hph, hc, source_facts]; rfl⟩
  | bound k => exact ⟨_, by simp [step, hq, hph, hc, source_facts]; rfl⟩
  | sent k => exact ⟨_, by simp [step, hq, hph, hc, source_facts]; rfl⟩
  | acked k => exact ⟨_, by simp [step, hq, hph, hc, source_facts]; rfl⟩
  | parked w => exact ⟨_, by simp [step, hq, hph, hc, source_facts]; rfl⟩

/-- The driver's executable monitor holds in every reachable state. -/
theorem holdsB_reachable (n : Nat) (s : State) (h : Reachable cfgOfSource n s) : holdsB s = true := by
  have hI := inv_reachable h
  unfold holdsB
  simp only [Bool.and_eq_true, List.all_eq_true, List.mem_range, decide_eq_true_eq]
  refine ⟨?_, hI.nodup⟩
  intro r _
  split
  · rename_i q hq
    rw [Bool.and_eq_true, Bool.and_eq_true]
    refine ⟨⟨?_, ?_⟩, ?_⟩
    · split
      · rename_i a ha
        rw [List.all_eq_true]
        intro e he
        have := (((hI.req r q hq).2.2.2.1 a ha).2)
        by_cases her : e.1 = r
        · have hm : (r, e.2) ∈ s.arrivals := by rw [← her]; exact he
          simp [her, this e.2 hm]
        · simp [her]
      · rfl
    · by_cases hp : q.phase = .doneErr
      · rcases error_only_if_acked_or_closed n s h r q hq hp with ⟨h', _⟩ | ⟨h', _⟩ <;> simp [h']
      · simp [hp]
    · split
      · rename_i w hp
        cases ha : s.alive with
        | false => simp
        | true => simp [(parked_wakes n s h r q hq w hp ha).1]
      · rfl
  · rfl

/-! Counterexamples: each regenerated fact is load-bearing. -/

/-- Pre-fix behaviour (repaired by 958ee5b91): while a failed transport send surfaced, a request issued
after the transport died but before the client noticed was returned to the caller with the write error. -/
theorem unsent_error_counterexample :
    ∃ s, run { cfgOfSource with sendErrorSurfaces := true } (init 1) [.inv 0, .bind 0, .init, .kill, .sendFail 0] = some s ∧
      s.closed = false ∧
      s.reqs[0]? = some { phase := .doneErr, reason := .sendError, ackSeen := none, read := none } ∧ s.arrivals = [] ∧
      holdsB s = false := ⟨_, rfl, by decide⟩

/-- Lost wake-up: if `connChanged` is read only after `conn.Invoke` failed, an invocation that fails
after the replacement already happened parks on the NEW channel and is never woken although a healthy
connection is in place. -/
theorem late_snapshot_counterexample :
    ∃ s, run { cfgOfSource with snapshotBeforeInvoke := false } (init 1)
        [.inv 0, .bind 0, .init, .arr 0 0, .kill, .reconnect, .init, .fail 0] = some s ∧
      s.alive = true ∧ s.reqs[0]? = some { phase := .parked 1, reason := .none, ackSeen := none, read := none } ∧
      step { cfgOfSource with snapshotBeforeInvoke := false } s (.bind 0) = none ∧ holdsB s = false :=
  ⟨_, rfl, by decide⟩

/-- If `Run` does not signal `dead` when the connection fails before its initialisation, an invocation
waiting for that connection's session is stuck: no fail-over, no write, no return. -/
theorem dead_unsignalled_counterexample :
    ∃ s, run { cfgOfSource with deadAlwaysSignalled := false } (init 1)
        [.inv 0, .bind 0, .init, .arr 0 0, .kill, .fail 0, .reconnect, .bind 0, .kill, .reconnect, .init] = some s ∧
      s.reqs[0]? = some { phase := .bound 1, reason := .none, ackSeen := none, read := none } ∧ s.alive = true ∧
      step { cfgOfSource with deadAlwaysSignalled := false } s (.fail 0) = none ∧
      step { cfgOfSource with deadAlwaysSignalled := false } s (.arr 0 2) = none ∧
      step { cfgOfSource with deadAlwaysSignalled := false } s (.retErr 0) = none := ⟨_, rfl, by decide⟩

/-- If a message that was read could still be dropped when the connection's read loop fails (the read
loop does not wait for its handlers, or `NotifyAcks` stops at an unknown id of a batch), a request whose
acknowledgement the client has read is failed over and reaches the server a second time; with the
regenerated facts the same history is impossible. -/
theorem read_not_registered_counterexample :
    (∃ s, run { cfgOfSource with readRegisters := false } (init 1)
        [.inv 0, .bind 0, .init, .arr 0 0, .ack 0 0, .rd 0 0, .kill, .fail 0, .reconnect, .bind 0, .init, .arr 0 1] = some s ∧
      (0, 0) ∈ s.acks ∧ s.arrivals = [(0, 1), (0, 0)]) ∧
    run cfgOfSource (init 1)
        [.inv 0, .bind 0, .init, .arr 0 0, .ack 0 0, .rd 0 0, .kill, .fail 0, .reconnect, .bind 0, .init, .arr 0 1] = none :=
  ⟨⟨_, rfl, by decide⟩, by decide⟩

/-! Non-vacuity -/

/-- Kill after send, before the ack: the request is failed over, re-sent on epoch 1 and answered. -/
example : ∃ s, Reachable cfgOfSource 1 s ∧ s.reqs.map (·.phase) = [.doneOk] ∧ s.arrivals = [(0, 1), (0, 0)] ∧
    holdsB s = true :=
  ⟨_, ⟨[.inv 0, .bind 0, .init, .arr 0 0, .kill, .fail 0, .reconnect, .bind 0, .init, .arr 0 1, .res 0 1, .seen 0, .retOk 0],
    rfl⟩, by decide⟩

/-- The replacement connection dies before it is initialised while the request waits for its session:
it fails over once more and is answered on epoch 2. -/
example : ∃ s, Reachable cfgOfSource 1 s ∧ s.reqs.map (·.phase) = [.doneOk] ∧ s.arrivals = [(0, 2), (0, 0)] :=
  ⟨_, ⟨[.inv 0, .bind 0, .init, .arr 0 0, .kill, .fail 0, .reconnect, .bind 0, .kill, .fail 0, .reconnect, .bind 0,
        .init, .arr 0 2, .res 0 2, .seen 0, .retOk 0], rfl⟩, by decide⟩

/-- Kill after the ack was processed: error to the caller, no second copy. -/
example : ∃ s, Reachable cfgOfSource 1 s ∧ s.reqs.map (·.phase) = [.doneErr] ∧ s.arrivals = [(0, 0)] ∧
    holdsB s = true :=
  ⟨_, ⟨[.inv 0, .bind 0, .init, .arr 0 0, .ack 0 0, .seen 0, .kill, .retErr 0, .reconnect], rfl⟩, by decide⟩

/-- The connection dies right after the acknowledgement was read (before the engine has processed it): the
caller gets an error, the request is not sent again. -/
example : ∃ s, Reachable cfgOfSource 1 s ∧ s.reqs.map (·.phase) = [.doneErr] ∧ s.arrivals = [(0, 0)] ∧
    holdsB s = true :=
  ⟨_, ⟨[.inv 0, .bind 0, .init, .arr 0 0, .ack 0 0, .rd 0 0, .kill, .seen 0, .retErr 0, .reconnect], rfl⟩, by decide⟩

/-- Another task of the connection (a writer) notices the death first: the engine is closed at once, the
acknowledgement that was read is dropped, the request is failed over and sent again. -/
example : ∃ s, Reachable cfgOfSource 1 s ∧ s.arrivals = [(0, 1), (0, 0)] ∧ (0, 0) ∈ s.acks ∧ holdsB s = true :=
  ⟨_, ⟨[.inv 0, .bind 0, .init, .arr 0 0, .ack 0 0, .rd 0 0, .killw, .fail 0, .reconnect, .bind 0, .init, .arr 0 1], rfl⟩,
    by decide⟩

end TdModel.C29
