/-
C29 — requests survive primary connection loss without duplicate execution.

Property theorems only, over the composed model `TdModel/Model/C29.lean` with the configuration
regenerated from `telegram/invoke.go`, `telegram/client.go` and `rpc/engine.go`, for ANY number of
requests, ANY number of connection epochs and ANY order of the events (sends, acknowledgements,
results, kills at every protocol step, reconnects, close).
-/
import TdModel.Lemmas.C29c

namespace TdModel.C29

/-- The regenerated facts: `errRetryableOnNewConn` is exactly `ErrConnDead ∨ ErrEngineClosed`, an
un-acknowledged forced close reports the cause `ErrEngineClosed`, an acknowledged one reports the plain
context error, `invokeConn` waits for `connChanged` / the client context, `replaceConn` signals — and, on
the current tree, a failed transport send is returned to the caller as a plain error (the open finding). -/
theorem source_facts :
    cfgOfSource = { unackedRetryable := true, ackedNotRetryable := true, closeUnblocks := true,
                    sendErrorSurfaces := true } := by decide

/-- **Acknowledged requests are not sent again**: once the client has processed the acknowledgement
(or the result) of request `r` on connection epoch `a`, the server never receives a copy of `r` on a
later connection. -/
theorem acked_not_resent (n : Nat) (s : State) (h : Reachable cfgOfSource n s) (r : Nat) (q : Req)
    (hq : s.reqs[r]? = some q) (a : Nat) (ha : q.ackSeen = some a) (k : Nat) (hk : (r, k) ∈ s.arrivals) :
    k ≤ a :=
  (((inv_reachable h).req r q hq).2.2.2.1 a ha).2 k hk

/-- **At most one copy per connection**: the server never receives the same request twice on one
connection epoch (with retransmission disabled; every further copy is a re-send on a new connection). -/
theorem unacked_retried_once_per_conn (n : Nat) (s : State) (h : Reachable cfgOfSource n s) :
    s.arrivals.Nodup :=
  (inv_reachable h).nodup

/-- **An un-acknowledged request whose connection died is re-sent, not failed**: while the client is
not closed, `Invoke` cannot return an error for a request that is waiting for a connection or was sent
but not acknowledged; the engine fails it over (`fail`) and the send on the new epoch is enabled. -/
theorem unacked_not_failed (s : State) (r : Nat) (q : Req) (hq : s.reqs[r]? = some q) (hc : s.closed = false)
    (hp : q.phase = .waitConn ∨ ∃ k, q.phase = .sent k) :
    step cfgOfSource s (.retErr r) = none ∧
    (∀ k, q.phase = .sent k → s.alive = false ∨ k < s.epoch →
       ∃ s', step cfgOfSource s (.fail r) = some s' ∧
         ∃ q', s'.reqs[r]? = some q' ∧ q'.phase = .waitConn) := by
  have hlt := lt_of_getElem? hq
  refine ⟨?_, ?_⟩
  · rcases hp with hp | ⟨k, hp⟩ <;> simp [step, hq, hp, hc]
  · intro k hk hd
    refine ⟨_, by simp [step, hq, hk, hd, source_facts]; rfl, ?_⟩
    exact ⟨{ q with phase := .waitConn }, by simp [setReq, hlt], rfl⟩

/-- **Errors are returned only for acknowledged requests whose connection was lost, or because the
client was closed** — PARTIAL: proved for the configuration in which a failed transport send does not
surface (`sendErrorSurfaces := false`).  The full statement for the current source is false, see
`unsent_error_counterexample`; what holds for the current source is `error_reasons`. -/
theorem error_only_if_acked_or_closed_partial (n : Nat) (s : State)
    (h : Reachable { cfgOfSource with sendErrorSurfaces := false } n s) (r : Nat) (q : Req)
    (hq : s.reqs[r]? = some q) (hp : q.phase = .doneErr) :
    (q.reason = .ackedLost ∧ q.ackSeen ≠ none) ∨ (q.reason = .closed ∧ s.closed = true) := by
  -- `sendFail` is never enabled in this configuration, so the reason `sendError` is never assigned
  obtain ⟨as, hrun⟩ := h
  have hne := noSendErr_run _ rfl as (noSendErr_init n) hrun r q hq
  rcases ((inv_reachable ⟨as, hrun⟩).req r q hq).2.2.2.2.1 hp with h' | h' | h'
  · exact Or.inl h'
  · exact Or.inr h'
  · exact absurd h' hne

/-- What holds for the current source: an error is returned for an acknowledged request whose
connection was lost, because the client was closed, or because the send itself failed. -/
theorem error_reasons (n : Nat) (s : State) (h : Reachable cfgOfSource n s) (r : Nat) (q : Req)
    (hq : s.reqs[r]? = some q) (hp : q.phase = .doneErr) :
    (q.reason = .ackedLost ∧ q.ackSeen ≠ none) ∨ (q.reason = .closed ∧ s.closed = true) ∨ q.reason = .sendError :=
  ((inv_reachable h).req r q hq).2.2.2.2.1 hp

/-- **Counterexample (open finding)**: on the current source a request issued after the transport died
but before the client noticed fails with the transport's write error and is returned to the caller —
never sent, never acknowledged, client not closed. -/
theorem unsent_error_counterexample :
    ∃ s, run cfgOfSource (init 1) [.inv 0, .kill, .sendFail 0] = some s ∧ s.closed = false ∧
      s.reqs[0]? = some { phase := .doneErr, reason := .sendError, ackSeen := none } ∧ s.arrivals = [] ∧
      holdsB s = false := ⟨_, rfl, by decide⟩

/-- **A closed client returns**: once the client is closed, every invocation that has not returned
yet can return (with an error) — it does not wait for a reconnect, and no reconnect happens. -/
theorem closed_client_returns (s : State) (hc : s.closed = true) (r : Nat) (q : Req)
    (hq : s.reqs[r]? = some q) (hp : q.phase ≠ .idle ∧ q.phase ≠ .doneOk ∧ q.phase ≠ .doneErr) :
    (∃ s', step cfgOfSource s (.retErr r) = some s') ∧ step cfgOfSource s .reconnect = none := by
  refine ⟨?_, by simp [step, hc]⟩
  cases hph : q.phase with
  | idle => exact absurd hph hp.1
  | doneOk => exact absurd hph hp.2.1
  | doneErr => exact absurd hph hp.2.2
  | waitConn => exact ⟨_, by simp [step, hq, hph, hc, source_facts]; rfl⟩
  | sent k => exact ⟨_, by simp [step, hq, hph, hc, source_facts]; rfl⟩
  | acked k => exact ⟨_, by simp [step, hq, hph, hc, source_facts]; rfl⟩

/-! Non-vacuity -/

/-- Kill after send, before the ack: the request is failed over, re-sent on epoch 1 and answered. -/
example : ∃ s, Reachable cfgOfSource 1 s ∧ s.reqs.map (·.phase) = [.doneOk] ∧ s.arrivals = [(0, 1), (0, 0)] ∧
    holdsB s = true :=
  ⟨_, ⟨[.inv 0, .arr 0 0, .kill, .fail 0, .reconnect, .arr 0 1, .res 0 1, .seen 0, .retOk 0], rfl⟩, by decide⟩

/-- Kill after the ack was processed: error to the caller, no second copy. -/
example : ∃ s, Reachable cfgOfSource 1 s ∧ s.reqs.map (·.phase) = [.doneErr] ∧ s.arrivals = [(0, 0)] ∧
    holdsB s = true ∧ step cfgOfSource s (.arr 0 1) = none :=
  ⟨_, ⟨[.inv 0, .arr 0 0, .ack 0 0, .seen 0, .kill, .retErr 0, .reconnect], rfl⟩, by decide⟩

end TdModel.C29
