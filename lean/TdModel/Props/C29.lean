/-
C29 — requests survive primary connection loss without duplicate execution.

Property theorems only, over the composed model `TdModel/Model/C29.lean` with the configuration
regenerated from `telegram/invoke.go`, `telegram/client.go` and `rpc/engine.go`, for ANY number of
requests, ANY number of connection epochs and ANY order of the events (sends, acknowledgements,
results, kills at every protocol step, reconnects, close).
-/
import TdModel.Lemmas.C29c

namespace TdModel.C29

/-- The regenerated facts: `errRetryableOnNewConn` is exactly `ErrConnDead ∨ ErrEngineClosed`, an
un-acknowledged forced close reports the cause `ErrEngineClosed`, an acknowledged one reports the plain
context error, `invokeConn` waits for `connChanged` / the client context, `replaceConn` signals, and a failed transport send is mapped to `pool.ErrConnDead` by
`manager.Conn.Invoke` (so it does not surface to the caller). -/
theorem source_facts :
    cfgOfSource = { unackedRetryable := true, ackedNotRetryable := true, closeUnblocks := true,
                    sendErrorSurfaces := false } := by decide

/-- **Acknowledged requests are not sent again**: once the client has processed the acknowledgement
(or the result) of request `r` on connection epoch `a`, the server never receives a copy of `r` on a
later connection. -/
theorem acked_not_resent (n : Nat) (s : State) (h : Reachable cfgOfSource n s) (r : Nat) (q : Req)
    (hq : s.reqs[r]? = some q) (a : Nat) (ha : q.ackSeen = some a) (k : Nat) (hk : (r, k) ∈ s.arrivals) :
    k ≤ a :=
  (((inv_reachable h).req r q hq).2.2.2.1 a ha).2 k hk

/-- **At most one copy per connection**: the server never receives the same request twice on one
connection epoch (with retransmission disabled; every further copy is a re-send on a new connection). -/
theorem unacked_retried_once_per_conn (n : Nat) (s : State) (h : Reachable cfgOfSource n s) :
    s.arrivals.Nodup :=
  (inv_reachable h).nodup

/-- **An un-acknowledged request whose connection died is re-sent, not failed**: while the client is
not closed, `Invoke` cannot return an error for a request that is waiting for a connection or was sent
but not acknowledged; the engine fails it over (`fail`) and the send on the new epoch is enabled. -/
theorem unacked_not_failed (s : State) (r : Nat) (q : Req) (hq : s.reqs[r]? = some q) (hc : s.closed = false)
    (hp : q.phase = .waitConn ∨ ∃ k, q.phase = .sent k) :
    step cfgOfSource s (.retErr r) = none ∧
    (∀ k, q.phase = .sent k → s.alive = false ∨ k < s.epoch →
       ∃ s', step cfgOfSource s (.fail r) = some s' ∧
         ∃ q', s'.reqs[r]? = some q' ∧ q'.phase = .waitConn) := by
  have hlt := lt_of_getElem? hq
  refine ⟨?_, ?_⟩
  · rcases hp with hp | ⟨k, hp⟩ <;> simp [step, hq, hp, hc]
  · intro k hk hd
    refine ⟨_, by simp [step, hq, hk, hd, source_facts]; rfl, ?_⟩
    exact ⟨{ q with phase := .waitConn }, by simp [setReq, hlt], rfl⟩

/-- **Errors are returned only for acknowledged requests whose connection was lost, or because the
client was closed**: every request for which `Invoke` returned an error either had its acknowledgement
processed by the client before the connection died (it must not be sent again), or the client was closed.
In particular a request that the server had not acknowledged is never failed while the client is open. -/
theorem error_only_if_acked_or_closed (n : Nat) (s : State) (h : Reachable cfgOfSource n s) (r : Nat) (q : Req)
    (hq : s.reqs[r]? = some q) (hp : q.phase = .doneErr) :
    (q.reason = .ackedLost ∧ q.ackSeen ≠ none) ∨ (q.reason = .closed ∧ s.closed = true) := by
  obtain ⟨as, hrun⟩ := h
  have hne := noSendErr_run cfgOfSource (by decide) as (noSendErr_init n) hrun r q hq
  rcases ((inv_reachable ⟨as, hrun⟩).req r q hq).2.2.2.2.1 hp with h' | h' | h'
  · exact Or.inl h'
  · exact Or.inr h'
  · exact absurd h' hne

/-- Pre-fix behaviour (repaired by 958ee5b91): while a failed transport send surfaced, a request issued
after the transport died but before the client noticed was returned to the caller with the write error —
never sent, never acknowledged, client not closed. -/
theorem unsent_error_counterexample :
    ∃ s, run { cfgOfSource with sendErrorSurfaces := true } (init 1) [.inv 0, .kill, .sendFail 0] = some s ∧
      s.closed = false ∧
      s.reqs[0]? = some { phase := .doneErr, reason := .sendError, ackSeen := none } ∧ s.arrivals = [] ∧
      holdsB s = false := ⟨_, rfl, by decide⟩

/-- The driver's executable monitor holds in every reachable state. -/
theorem holdsB_reachable (n : Nat) (s : State) (h : Reachable cfgOfSource n s) : holdsB s = true := by
  have hI := inv_reachable h
  unfold holdsB
  simp only [Bool.and_eq_true, List.all_eq_true, List.mem_range, decide_eq_true_eq]
  refine ⟨?_, hI.nodup⟩
  intro r _
  split
  · rename_i q hq
    rw [Bool.and_eq_true]
    refine ⟨?_, ?_⟩
    · split
      · rename_i a ha
        rw [List.all_eq_true]
        intro e he
        have := (((hI.req r q hq).2.2.2.1 a ha).2)
        by_cases her : e.1 = r
        · have hm : (r, e.2) ∈ s.arrivals := by rw [← her]; exact he
          simp [her, this e.2 hm]
        · simp [her]
      · rfl
    · by_cases hp : q.phase = .doneErr
      · rcases error_only_if_acked_or_closed n s h r q hq hp with ⟨h', _⟩ | ⟨h', _⟩ <;> simp [h']
      · simp [hp]
  · rfl

/-- **A closed client returns**: once the client is closed, every invocation that has not returned
yet can return (with an error) — it does not wait for a reconnect, and no reconnect happens. -/
theorem closed_client_returns (s : State) (hc : s.closed = true) (r : Nat) (q : Req)
    (hq : s.reqs[r]? = some q) (hp : q.phase ≠ .idle ∧ q.phase ≠ .doneOk ∧ q.phase ≠ .doneErr) :
    (∃ s', step cfgOfSource s (.retErr r) = some s') ∧ step cfgOfSource s .reconnect = none := by
  refine ⟨?_, by simp [step, hc]⟩
  cases hph : q.phase with
  | idle => exact absurd hph hp.1
  | doneOk => exact absurd hph hp.2.1
  | doneErr => exact absurd hph hp.2.2
  | waitConn => exact ⟨_, by simp [step, hq, hph, hc, source_facts]; rfl⟩
  | sent k => exact ⟨_, by simp [step, hq, hph, hc, source_facts]; rfl⟩
  | acked k => exact ⟨_, by simp [step, hq, hph, hc, source_facts]; rfl⟩

/-! Non-vacuity -/

/-- Kill after send, before the ack: the request is failed over, re-sent on epoch 1 and answered. -/
example : ∃ s, Reachable cfgOfSource 1 s ∧ s.reqs.map (·.phase) = [.doneOk] ∧ s.arrivals = [(0, 1), (0, 0)] ∧
    holdsB s = true :=
  ⟨_, ⟨[.inv 0, .arr 0 0, .kill, .fail 0, .reconnect, .arr 0 1, .res 0 1, .seen 0, .retOk 0], rfl⟩, by decide⟩

/-- Kill after the ack was processed: error to the caller, no second copy. -/
example : ∃ s, Reachable cfgOfSource 1 s ∧ s.reqs.map (·.phase) = [.doneErr] ∧ s.arrivals = [(0, 0)] ∧
    holdsB s = true ∧ step cfgOfSource s (.arr 0 1) = none :=
  ⟨_, ⟨[.inv 0, .arr 0 0, .ack 0 0, .seen 0, .kill, .retErr 0, .reconnect], rfl⟩, by decide⟩

end TdModel.C29
