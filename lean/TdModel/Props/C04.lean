/-
C04 — encrypted messages round-trip between client and server; the encrypted body is a multiple of
16 bytes and the random padding is between 12 and 1024 bytes.

All theorems are `∀ P, LawfulPrims P → …` (SHA-256 and AES are parameters) and quantify over every
auth key (no length restriction is needed), key id, header, payload, random stream and direction.
The literals 12, 1024, 16, 4 are the specification's; the code's constants enter through the
regenerated `Facts.C04` (`countPadding` translation, `decryptChecks`, `alignment`).
Property theorems only (helper lemmas: TdModel/Lemmas/C04.lean, C04Ige.lean, C06.lean).
-/
import TdModel.Lemmas.C04
import TdModel.Lemmas.C04Gzip

namespace TdModel.C04
open TdModel TdModel.Bin
open TdModel.C06 (Side)

/-- `countPadding` (the regenerated translation of the Go function) always yields 12..1024 bytes
(in fact at most 267) that align the plaintext to the block size — for every length and random byte. -/
theorem countPadding_spec (l : Nat) (r : UInt8) :
    12 ≤ countPadding l r ∧ countPadding l r ≤ 1024 ∧ (l + countPadding l r) % 16 = 0 := by
  have := countPadding_bounds l r
  omega

/-- Same statement on the translated definition itself, for all non-negative Go `int` lengths. -/
theorem countPadding_translated_spec (l r : Int) (hl : 0 ≤ l) :
    12 ≤ Facts.C04.countPadding l r ∧ Facts.C04.countPadding l r ≤ 1024 ∧
      (l + Facts.C04.countPadding l r) % 16 = 0 := by
  have := cp_int l r hl
  omega

/-- **Header layout.**  The plaintext written by `EncryptedMessageData.Encode` — interpreted from the
`Put*` sequence regenerated from the source — is `salt:long session_id:long message_id:long seq_no:int
message_data_length:int message_data`, each integer little-endian on its own width (a merged or
reordered store changes the regenerated sequence and this equation stops holding). -/
theorem encode_layout_spec (salt sid mid seq len : Nat) (body : Bytes) :
    encodeData salt sid mid seq len body =
      leN 8 salt ++ leN 8 sid ++ leN 8 mid ++ leN 4 seq ++ leN 4 len ++ body :=
  encodeData_def salt sid mid seq len body

/-- Both encoder paths agree: `EncodeWithoutCopy` (with `Message ≠ nil`, length placeholder patched
afterwards) writes exactly what `Encode` writes for `MessageDataLen = len (encoded Message)`; hence
`Cipher.Encrypt` behaves identically on both paths and every theorem below covers both. -/
theorem encode_paths_agree (P : Prims) (side : Side) (ak keyId : Bytes) (salt sid mid seq : Nat)
    (payload rnd : Bytes) :
    encodeDataNoCopy salt sid mid seq payload = encodeData salt sid mid seq payload.length payload ∧
    encryptMessage P side ak keyId salt sid mid seq payload rnd =
      encrypt P side ak keyId salt sid mid seq payload rnd := by
  refine ⟨encodeDataNoCopy_def .., ?_⟩
  unfold encryptMessage encryptPlain encrypt encryptData
  rw [encodeDataNoCopy_def]

/-- The decoder reads back exactly that layout (regenerated reads, then the length test). -/
theorem decode_layout_spec (salt sid mid seq len : Nat) (body : Bytes)
    (h1 : salt < 2 ^ 64) (h2 : sid < 2 ^ 64) (h3 : mid < 2 ^ 64) (h4 : seq < 2 ^ 32) (h5 : len < 2 ^ 32)
    (h6 : toInt32 len ≤ (body.length : Int)) :
    decodeData (encodeData salt sid mid seq len body) = .ok ⟨salt, sid, mid, seq, len, body⟩ := by
  rw [decodeData_encodeData _ _ _ _ _ _ h1 h2 h3 h4 h5, if_neg (by omega)]

/-- Encryption succeeds whenever the random reader can deliver 268 bytes. -/
theorem encrypt_ok_of_random (P : Prims) (side : Side) (ak keyId : Bytes) (salt sid mid seq : Nat)
    (payload rnd : Bytes) (h : 268 ≤ rnd.length) :
    ∃ c, encrypt P side ak keyId salt sid mid seq payload rnd = .ok c := by
  unfold encrypt encryptData
  cases rnd with
  | nil => simp at h
  | cons r rest =>
    have := countPadding_bounds (encodeData salt sid mid seq payload.length payload).length r
    have hr : ¬ rest.length < countPadding (encodeData salt sid mid seq payload.length payload).length r := by
      simp at h; omega
    simp only [hr, if_false]
    exact ⟨_, rfl⟩

/-- **Round trip.**  A message encrypted by one side decrypts on the other side to exactly the same
salt, session id, message id, sequence number and payload (`Data()`), for both directions
(`side = client` or `server`), every payload whose length is a multiple of 4 below 2^31, every
random stream.  The ciphertext is 24 + 16k bytes and carries 12..1024 bytes of padding. -/
theorem decrypt_encrypt (P : Prims) (hP : LawfulPrims P) (side : Side) (ak keyId : Bytes)
    (salt sid mid seq : Nat) (payload rnd c : Bytes)
    (hk : keyId.length = 8) (h1 : salt < 2 ^ 64) (h2 : sid < 2 ^ 64) (h3 : mid < 2 ^ 64) (h4 : seq < 2 ^ 32)
    (hmod : payload.length % 4 = 0) (hl : payload.length < 2 ^ 31)
    (he : encrypt P side ak keyId salt sid mid seq payload rnd = .ok c) :
    ∃ d, decrypt P side.flip ak keyId c = .ok d ∧
      d.salt = salt ∧ d.sid = sid ∧ d.mid = mid ∧ d.seq = seq ∧ d.len = payload.length ∧ d.payload = payload ∧
      (c.length - 24) % 16 = 0 ∧ 24 ≤ c.length ∧
      12 ≤ d.body.length - d.len ∧ d.body.length - d.len ≤ 1024 := by
  obtain ⟨r, rest, _, hlen, hd⟩ := decrypt_encrypt' P hP side ak keyId salt sid mid seq payload rnd c hk h1 h2 h3 h4 hmod hl he
  have hcp := countPadding_bounds (32 + payload.length) r
  refine ⟨_, hd, rfl, rfl, rfl, rfl, rfl, ?_, by omega, by omega, ?_, ?_⟩
  · simp [Data.payload]
  · have hrest : countPadding (32 + payload.length) r ≤ rest.length := by
      unfold encrypt encryptData at he
      subst_vars
      simp only [encodeData_length] at he
      split at he
      · cases he
      · omega
    simp only [List.length_append, List.length_take]; omega
  · simp only [List.length_append, List.length_take]; omega

/-- **Round trip through the compression-threshold path.**  Whatever branch
`Conn.newEncryptedMessage` takes for the connection's threshold option (compression disabled → the
payload as `Message`; encoded payload longer than the threshold → `proto.GZIP{payload}`; otherwise raw
bytes with `MessageDataLen`), the other side decrypts to the same header fields, and unpacking the
message data (`gunzip` exactly when `gzip_packed` was sent) gives back the payload.  Compression is a
parameter with the single law `gunz (gz d) = d`; the compressed form must fit a TL `bytes` (< 2^24). -/
theorem newEncryptedMessage_roundtrip (P : Prims) (hP : LawfulPrims P) (G : Gz) (hG : LawfulGz G)
    (side : Side) (ak keyId : Bytes) (opt : Int) (salt sid mid seq : Nat) (payload rnd c : Bytes)
    (hk : keyId.length = 8) (h1 : salt < 2 ^ 64) (h2 : sid < 2 ^ 64) (h3 : mid < 2 ^ 64) (h4 : seq < 2 ^ 32)
    (hmod : payload.length % 4 = 0) (hl : payload.length < 2 ^ 31) (hz : (G.gz payload).length < 2 ^ 24)
    (he : newEncryptedMessage P G side ak keyId opt salt sid mid seq payload rnd = .ok c) :
    ∃ d, decrypt P side.flip ak keyId c = .ok d ∧
      d.salt = salt ∧ d.sid = sid ∧ d.mid = mid ∧ d.seq = seq ∧
      unwrap G (effectiveThreshold opt) payload.length d.payload = some payload ∧
      (c.length - 24) % 16 = 0 ∧ 12 ≤ d.body.length - d.len ∧ d.body.length - d.len ≤ 1024 := by
  unfold newEncryptedMessage at he
  unfold unwrap
  cases hp : choosePath (effectiveThreshold opt) payload.length with
  | message =>
    simp only [hp] at he
    rw [(encode_paths_agree P side ak keyId salt sid mid seq payload rnd).2] at he
    obtain ⟨d, hd, a1, a2, a3, a4, _, a6, a7, _, a9, a10⟩ :=
      decrypt_encrypt P hP side ak keyId salt sid mid seq payload rnd c hk h1 h2 h3 h4 hmod hl he
    exact ⟨d, hd, a1, a2, a3, a4, by simp [a6], a7, a9, a10⟩
  | raw =>
    simp only [hp] at he
    obtain ⟨d, hd, a1, a2, a3, a4, _, a6, a7, _, a9, a10⟩ :=
      decrypt_encrypt P hP side ak keyId salt sid mid seq payload rnd c hk h1 h2 h3 h4 hmod hl he
    exact ⟨d, hd, a1, a2, a3, a4, by simp [a6], a7, a9, a10⟩
  | gzip =>
    simp only [hp] at he
    rw [(encode_paths_agree P side ak keyId salt sid mid seq (gzipEncode G payload) rnd).2] at he
    have hg := gzipEncode_length G payload
    obtain ⟨d, hd, a1, a2, a3, a4, _, a6, a7, _, a9, a10⟩ :=
      decrypt_encrypt P hP side ak keyId salt sid mid seq (gzipEncode G payload) rnd c hk h1 h2 h3 h4 hg.1
        (by omega) he
    exact ⟨d, hd, a1, a2, a3, a4, by simp [a6, gzipDecode_gzipEncode G hG payload hz], a7, a9, a10⟩

/-- The three branches are exactly: threshold option < 0 → `Message`; otherwise (0 means 1024) the
encoded payload is gzip-packed iff it is longer than the threshold. -/
theorem choosePath_spec (opt : Int) (n : Nat) :
    choosePath (effectiveThreshold opt) n =
      if opt < 0 then .message
      else if (n : Int) > (if opt = 0 then 1024 else opt) then .gzip else .raw := by
  unfold choosePath effectiveThreshold Facts.C04.threshDisabled Facts.C04.threshCompress
  rw [show Facts.C04.defaultThreshold = 1024 from rfl]
  by_cases h0 : opt = 0
  · subst h0; simp
  · by_cases hn : opt < 0
    · have : opt ≤ 0 := by omega
      simp [h0, hn, this]
    · have : ¬ opt ≤ 0 := by omega
      simp [h0, hn, this]

/-- **Round trip on the raw path with a declared length.**  `Cipher.Encrypt` given
`MessageDataLen = len ≤ len(MessageDataWithPadding)` (mtproto's raw branch always has equality; a caller
may pass more bytes, which then travel as extra padding): the other side returns the same header fields,
`MessageDataLen = len` and `Data()` = the first `len` bytes, as long as the caller's extra bytes leave the
total padding within 1024 (`len(body) − len ≤ 757`). -/
theorem decrypt_encryptData (P : Prims) (hP : LawfulPrims P) (side : Side) (ak keyId : Bytes)
    (salt sid mid seq len : Nat) (body rnd c : Bytes)
    (hk : keyId.length = 8) (h1 : salt < 2 ^ 64) (h2 : sid < 2 ^ 64) (h3 : mid < 2 ^ 64) (h4 : seq < 2 ^ 32)
    (hmod : len % 4 = 0) (hl : len < 2 ^ 31) (hle : len ≤ body.length) (hextra : body.length - len ≤ 757)
    (he : encryptData P side ak keyId salt sid mid seq len body rnd = .ok c) :
    ∃ d, decrypt P side.flip ak keyId c = .ok d ∧
      d.salt = salt ∧ d.sid = sid ∧ d.mid = mid ∧ d.seq = seq ∧ d.len = len ∧ d.payload = body.take len := by
  obtain ⟨r, rest, _, _, hd⟩ :=
    decrypt_encryptData' P hP side ak keyId salt sid mid seq len body rnd c hk h1 h2 h3 h4 hmod hl hle hextra he
  refine ⟨_, hd, rfl, rfl, rfl, rfl, rfl, ?_⟩
  simp only [Data.payload]
  rw [List.take_append_of_le_length hle]

/-- **Encryption is injective on (header, payload)** — even across different random streams: if two
`Cipher.Encrypt` calls under the same key and direction produce the same ciphertext, they were given the
same salt, session id, message id, sequence number and payload. -/
theorem encrypt_injective (P : Prims) (hP : LawfulPrims P) (side : Side) (ak keyId : Bytes)
    (salt sid mid seq salt' sid' mid' seq' : Nat) (payload payload' rnd rnd' c : Bytes)
    (hk : keyId.length = 8)
    (h1 : salt < 2 ^ 64) (h2 : sid < 2 ^ 64) (h3 : mid < 2 ^ 64) (h4 : seq < 2 ^ 32)
    (h1' : salt' < 2 ^ 64) (h2' : sid' < 2 ^ 64) (h3' : mid' < 2 ^ 64) (h4' : seq' < 2 ^ 32)
    (hmod : payload.length % 4 = 0) (hl : payload.length < 2 ^ 31)
    (hmod' : payload'.length % 4 = 0) (hl' : payload'.length < 2 ^ 31)
    (he : encrypt P side ak keyId salt sid mid seq payload rnd = .ok c)
    (he' : encrypt P side ak keyId salt' sid' mid' seq' payload' rnd' = .ok c) :
    salt = salt' ∧ sid = sid' ∧ mid = mid' ∧ seq = seq' ∧ payload = payload' := by
  obtain ⟨d, hd, a1, a2, a3, a4, _, a6, _⟩ :=
    decrypt_encrypt P hP side ak keyId salt sid mid seq payload rnd c hk h1 h2 h3 h4 hmod hl he
  obtain ⟨d', hd', b1, b2, b3, b4, _, b6, _⟩ :=
    decrypt_encrypt P hP side ak keyId salt' sid' mid' seq' payload' rnd' c hk h1' h2' h3' h4' hmod' hl' he'
  rw [hd] at hd'
  cases hd'
  exact ⟨a1 ▸ b1, a2 ▸ b2, a3 ▸ b3, a4 ▸ b4, a6 ▸ b6⟩

/-- The encrypted body of anything `Cipher.Encrypt` outputs is a positive multiple of 16 bytes after
the 24-byte envelope (no hypothesis on payload or key). -/
theorem encrypt_len_mod16 (P : Prims) (hP : LawfulPrims P) (side : Side) (ak keyId : Bytes)
    (salt sid mid seq : Nat) (payload rnd c : Bytes) (hk : keyId.length = 8)
    (he : encrypt P side ak keyId salt sid mid seq payload rnd = .ok c) :
    24 ≤ c.length ∧ (c.length - 24) % 16 = 0 ∧ c.take 8 = keyId := by
  unfold encrypt encryptData at he
  cases rnd with
  | nil => cases he
  | cons r rest =>
    simp only [encodeData_length] at he
    split at he
    · cases he
    · rename_i hrest
      simp only [Except.ok.injEq] at he
      have hcp := countPadding_bounds (32 + payload.length) r
      have hpl : (rest.take (countPadding (32 + payload.length) r)).length = countPadding (32 + payload.length) r := by
        simp; omega
      have hmk := C06.impl_msgKey_length P hP ak
        (encodeData salt sid mid seq payload.length payload ++ rest.take (countPadding (32 + payload.length) r)) side
      have hiv := C06.impl_keys_iv_length P hP ak (C06.Impl.msgKey P ak
        (encodeData salt sid mid seq payload.length payload ++ rest.take (countPadding (32 + payload.length) r)) side) side
      have hal : (encodeData salt sid mid seq payload.length payload ++
          rest.take (countPadding (32 + payload.length) r)).length % 16 = 0 := by
        rw [List.length_append, encodeData_length, hpl]; omega
      have hel := Ige.enc_length (P.aesEnc (C06.Impl.keys P ak (C06.Impl.msgKey P ak
        (encodeData salt sid mid seq payload.length payload ++ rest.take (countPadding (32 + payload.length) r)) side) side).1)
        (hP.aesEnc_len _) _ _ hiv hal
      subst he
      refine ⟨?_, ?_, ?_⟩
      · simp only [List.length_append, hk, hmk]; omega
      · simp only [List.length_append, hk, hmk, hel]; simp only [List.length_append] at hal; omega
      · rw [List.append_assoc]; exact take_append_len _ _ 8 hk

/-- **Accepted padding is within bounds** (defect D2 repaired): whatever frame `DecryptFromBuffer`
accepts has a non-negative length field divisible by 4 and between 12 and 1024 bytes of padding. -/
theorem decrypt_padding_bounds (P : Prims) (side : Side) (ak keyId c : Bytes) (d : Data)
    (h : decrypt P side ak keyId c = .ok d) :
    0 ≤ toInt32 d.len ∧ toInt32 d.len % 4 = 0 ∧
      12 ≤ (d.body.length : Int) - toInt32 d.len ∧ (d.body.length : Int) - toInt32 d.len ≤ 1024 := by
  have := (decrypt_ok_iff' P side ak keyId c d).mp h
  exact ⟨this.2.2.2.2.2.1, this.2.2.2.2.2.2.1, this.2.2.2.2.2.2.2.1, this.2.2.2.2.2.2.2.2⟩

/-- Same, on naturals: `len ≤ |body|`, `12 ≤ |body| − len ≤ 1024`, `len % 4 = 0`, `len < 2^31`. -/
theorem decrypt_padding_bounds_nat (P : Prims) (side : Side) (ak keyId c : Bytes) (d : Data)
    (h : decrypt P side ak keyId c = .ok d) :
    d.len < 2 ^ 31 ∧ d.len % 4 = 0 ∧ d.len + 12 ≤ d.body.length ∧ d.body.length ≤ d.len + 1024 := by
  have hb := decrypt_padding_bounds P side ak keyId c d h
  have hd := (decodeData_ok _ d ((decrypt_ok_iff' P side ak keyId c d).mp h).2.2.2.2.1).2.2.2.2.2.2
  unfold toInt32 at hb
  split at hb <;> omega

/-- Header layouts and key-derivation sides the model assumes, as read from the source. -/
theorem layout_facts :
    Facts.C04.dataEncodeOrder = ["PutLong Salt", "PutLong SessionID", "PutLong MessageID", "PutInt32 SeqNo",
      "PutInt32 MessageDataLen", "Put MessageDataWithPadding"] ∧
    Facts.C04.dataDecodeOrder = ["Long Salt", "Long SessionID", "Long MessageID", "Int32 SeqNo", "Int32 MessageDataLen"] ∧
    Facts.C04.msgEncodeOrder = ["Put AuthKeyID[:]", "PutInt128 MsgKey", "Put EncryptedData"] ∧
    Facts.C04.msgDecodeOrder = ["ConsumeN AuthKeyID[:]", "Int128"] ∧
    Facts.C04.encMsgKeySide = "c.encryptSide" ∧ Facts.C04.encKeysSide = "c.encryptSide" ∧
    Facts.C04.decKeysSide = "c.encryptSide.DecryptSide()" ∧ Facts.C04.decMsgKeySide = "side" ∧
    Facts.C04.decSideIsFlipped = true ∧ Facts.C04.decryptSideFlips = true ∧
    Facts.C04.frameKeyIdLen = 8 ∧ Facts.C04.frameMsgKeyLen = 16 ∧ Facts.C04.dataLenChecked = true ∧
    Facts.C04.gzipTypeID = 0x3072cfa1 ∧ Facts.C04.gzipFraming = true ∧
    Facts.C04.dataDecodeCopy = Facts.C04.dataDecode ∧ Facts.C04.dataLenCheckedCopy = true ∧
    Facts.C04.dataEncodeNoCopy = Facts.C04.dataEncode :=
  ⟨rfl, rfl, rfl, rfl, rfl, rfl, rfl, rfl, rfl, rfl, rfl, rfl, rfl, rfl, rfl, by decide, rfl, by decide⟩

/-- Statement order of the cipher's control flow as read from the source — the order the hand-written
`encryptPlain` / `decryptMessage` / `decrypt` follow: the padding length is computed from the plaintext
length and one random byte *before* the padding is read; msg_key is taken over the padded plaintext,
then the keys, then IGE; on the way in: key id, alignment, keys, IGE, msg_key comparison, header
decoding, then the bounds switch. -/
theorem control_flow_facts :
    Facts.C04.encryptMessageOrder = ["offset-is-length", "read-rand-byte", "append-padding", "read-padding",
      "msg-key", "keys", "frame", "ige-encrypt"] ∧
    Facts.C04.encryptOrder = ["reset", "encode-data", "encrypt", "reset-again", "encode-message"] ∧
    Facts.C04.decryptMessageOrder = ["key-id-check", "align-check", "keys", "ige-decrypt"] ∧
    Facts.C04.decryptOrder = ["decrypt-message", "msg-key", "msg-key-check", "decode-data", "n", "padding-len",
      "checks", "return"] ∧
    Facts.C04.decryptFromBufferOrder = ["decode-frame", "decrypt"] :=
  ⟨rfl, rfl, rfl, rfl, rfl⟩

/-- Non-vacuity: the hypotheses of `decrypt_encrypt` hold for a concrete message, and the statement
is about a real ciphertext (toy primitives). -/
example : ∃ c, encrypt Prims.toy .client (List.replicate 256 3) (List.replicate 8 9) 1 2 3 4 [1, 2, 3, 4]
    (List.replicate 300 5) = .ok c :=
  encrypt_ok_of_random _ _ _ _ _ _ _ _ _ _ (by rw [List.length_replicate]; omega)

end TdModel.C04
