/-
C27 — the connection pool respects its limit and never shares a connection, and never hands out a
connection that has died.

Property theorems only.  The model is `TdModel/Model/C27Pool.lean` (a transition system of
`pool.DC.acquire / release / dead / Invoke` for ANY number of callers and connections) instantiated
with the facts regenerated from `/repo/pool` (`C27.cfgOfSource`); `Reachable` quantifies over ALL
interleavings of invocations, releases, connection deaths, readiness and cancellations.
-/
import TdModel.Model.C27
import TdModel.Lemmas.C28b

namespace TdModel.C27

/-- States reachable from an empty pool with limit `m` (0 = unlimited) and `n` callers. -/
def Reachable (m n : Nat) (s : State) : Prop := ∃ as, run cfgOfSource (init m n) as = some s

/-- The regenerated source facts have the values the proofs rest on: all four `return <conn>, nil` of
`acquire` are guarded by `c.alive`, which checks `Dead()`; a creator that gives up hands its
connection to `releaseWhenReady`; `transfer` sends under the lock; the stuck channel is captured under
the pool mutex; `total++` is guarded by the limit inside the critical section; waiter channels have
capacity 1; `dead` decrements once under the mutex; `release` is one critical section. -/
theorem source_facts :
    cfgOfSource = { handoutChecksDead := true, createCancelReleases := true, bgOffersWaiters := true,
                    totalUnderCheck := true, resetAlways := true } ∧ atomicityFacts = true ∧
    Facts.C27.handoutSites = 4 := by decide

theorem good_source : Good cfgOfSource := by unfold Good; decide

theorem reachable_inv {m n : Nat} {s : State} (h : Reachable m n s) : HInv m s := by
  obtain ⟨as, h⟩ := h
  exact hinv_run good_source as (hinv_init m n) h

/-- **Limit**: with a configured maximum `m ≥ 1` the number of live (created, not dead) connections plus
the slots reserved by callers that are about to create one never exceeds `m`; and `total` is exactly
that number. -/
theorem live_le_max (m n : Nat) (s : State) (h : Reachable m n s) (hm : 1 ≤ m) :
    liveCount s + nReserved s ≤ m ∧ s.total = liveCount s + nReserved s := by
  have hI := reachable_inv h
  have h1 := hI.lim (by rw [hI.maxc]; omega)
  have h2 := hI.tot
  have h3 := hI.maxc
  omega

/-- **Exclusive**: every connection has at most one holder — a caller that popped it / is creating it /
is using it, the free list, a waiter's channel, the background releaser — at every moment. -/
theorem exclusive (m n : Nat) (s : State) (h : Reachable m n s) (c : Nat) : holders s c ≤ 1 :=
  (reachable_inv h).one c

/-- In particular a connection in use is never handed to a second caller: two callers holding the
same connection are the same caller, and a held connection is neither idle nor in transfer. -/
theorem never_shared (m n : Nat) (s : State) (h : Reachable m n s) (i j : Nat) (x y : Caller) (c : Nat)
    (hx : s.callers[i]? = some x) (hy : s.callers[j]? = some y)
    (px : heldBy x.pc = some c) (py : heldBy y.pc = some c) :
    i = j ∧ nFree s c = 0 ∧ nInbox s c = 0 ∧ nOrphan s c = 0 :=
  ⟨holders_exclusive (reachable_inv h) i j x y c hx hy px py,
   held_not_elsewhere (reachable_inv h) i x c hx px⟩

/-- **Hand-out alive**: whenever a step makes caller `i` the user of connection `c`, the connection's
`Dead()` flag was not set when that step was taken (on all four paths: free list, freshly created,
transferred, polled after a stuck signal). -/
theorem handout_alive (s s' : State) (a : Action) (h : step cfgOfSource s a = some s')
    (i : Nat) (y : Caller) (c : Nat) (hy : s'.callers[i]? = some y) (hp : y.pc = .using c)
    (hnot : ∀ x, s.callers[i]? = some x → x.pc ≠ .using c) : isDead s c = false :=
  handout_checks good_source a h i y c hy hp hnot

/-- The driver's executable monitor (limit + holder clauses) follows from the invariant. -/
theorem monitor_limit_holders (m n : Nat) (s : State) (h : Reachable m n s) :
    (s.total == liveCount s + nReserved s) = true ∧ (s.max == 0 || decide (s.total ≤ s.max)) = true ∧
    ∀ c, c < s.conns.length → holders s c ≤ 1 ∧ (isDead s c = true ∨ s.closed = true ∨ holders s c = 1) := by
  have hI := reachable_inv h
  refine ⟨by simp [hI.tot], ?_, ?_⟩
  · by_cases hm : s.max = 0
    · simp [hm]
    · simp [hI.lim hm]
  · intro c hc
    refine ⟨hI.one c, ?_⟩
    have hx : s.conns[c]? = some s.conns[c] := List.getElem?_eq_getElem hc
    cases hd : (s.conns[c]).dead with
    | true => left; simp [isDead, hx, hd]
    | false =>
      cases hcl : s.closed with
      | true => right; left; rfl
      | false => right; right; exact hI.live hcl c _ hx hd

/-- The complete executable monitor `holdsB` that the drivers evaluate on every state of every replayed
implementation trace holds in every reachable state (limit, total, holders, live reader and valid id of
every connection in a channel, valid ids in the free list). -/
theorem holdsB_reachable (m n : Nat) (s : State) (h : Reachable m n s) : holdsB s = true := by
  have hI := reachable_inv h
  obtain ⟨as, hr⟩ := h
  have hK := kinv_run good_source as (kinv_init m n) hr
  obtain ⟨h1, h2, h3⟩ := monitor_limit_holders m n s ⟨as, hr⟩
  have hpos : ∀ c, 1 ≤ holders s c → c < s.conns.length := by
    intro c hc
    rcases Nat.lt_or_ge c s.conns.length with h' | h'
    · exact h'
    · have := hI.dang c h'; omega
  unfold holdsB
  simp only [Bool.and_eq_true, List.all_eq_true, List.mem_range, decide_eq_true_eq]
  refine ⟨⟨⟨⟨h1, h2⟩, ?_⟩, ?_⟩, ?_⟩
  · intro c hc
    obtain ⟨a, b⟩ := h3 c hc
    refine ⟨a, ?_⟩
    rcases b with b | b | b
    · simp [b]
    · simp [b]
    · simp [b]
  · intro e he
    refine ⟨?_, ?_⟩
    · obtain ⟨i, x, hx, hk⟩ := hK.rd_inbox e he
      unfold hasReader
      rw [List.any_eq_true]
      refine ⟨x, List.mem_of_getElem? hx, ?_⟩
      cases hp : x.pc <;> rw [hp] at hk <;> simp [pcKey] at hk <;> simp [hk]
    · apply hpos
      have : 1 ≤ nInbox s e.2 := by
        unfold nInbox
        exact List.countP_pos_iff.2 ⟨e, he, by simp⟩
      simp only [holders]; omega
  · intro c hc
    apply hpos
    have : 1 ≤ nFree s c := by
      unfold nFree
      exact List.count_pos_iff.2 hc
    simp only [holders]; omega

/-- Pre-fix behaviour (D16): without the `Dead()` check on the transfer path a dead connection is
handed out — max 1, two callers, the connection dies while it sits in the second caller's channel. -/
theorem handout_dead_counterexample :
    ∃ s, run { cfgOfSource with handoutChecksDead := false } (init 1 2)
        [.start 0, .enter 0, .mk 0, .ready 0, .cwake 0 .ready, .start 1, .enter 1, .finish 0 .ok (some 0), .die 0,
         .wwake 1 .ch] = some s ∧
      s.callers[1]? = some { pc := .using 0, cancelled := false } ∧ isDead s 0 = true := ⟨_, rfl, by decide⟩

/-- If `total++` is not in the critical section of the limit check (seeded C27-2: moved into
`createConnection`), two callers pass the check before either has counted its connection: two live
connections with limit 1. -/
theorem total_outside_check_counterexample :
    ∃ s, run { cfgOfSource with totalUnderCheck := false } (init 1 2)
        [.start 0, .start 1, .enter 0, .enter 1, .mk 0, .mk 1] = some s ∧
      s.max = 1 ∧ s.total = 2 ∧ liveCount s = 2 ∧ holdsB s = false := ⟨_, rfl, by decide⟩

/-! Non-vacuity -/

/-- A transfer to a waiter, then the connection is used by the second caller, limit 1. -/
example : ∃ s, Reachable 1 2 s ∧ s.callers.map (·.pc) = [.done, .using 0] ∧ holders s 0 = 1 ∧ s.total = 1 :=
  ⟨_, ⟨[.start 0, .enter 0, .mk 0, .ready 0, .cwake 0 .ready, .start 1, .enter 1, .finish 0 .ok (some 0), .wwake 1 .ch], rfl⟩,
    by decide⟩

/-- With the check, the same death is caught: the second caller retries and creates connection 1. -/
example : ∃ s, Reachable 1 2 s ∧ s.callers.map (·.pc) = [.done, .creating 1] ∧ liveCount s = 1 :=
  ⟨_, ⟨[.start 0, .enter 0, .mk 0, .ready 0, .cwake 0 .ready, .start 1, .enter 1, .finish 0 .ok (some 0), .die 0,
        .wwake 1 .ch, .enter 1, .mk 1], rfl⟩, by decide⟩

end TdModel.C27
