/-
C05 — tampered, reflected or foreign ciphertexts are rejected; a rejected message never yields
header fields or payload.

What is provable without cryptographic assumptions is the *decision structure*: every acceptance
passes the key-id comparison, the alignment check and the msg_key equation computed with the
**decrypt side's** `x` over the decrypted plaintext (`decrypt_ok_iff`); modifications of the key id,
truncations/extensions that break the 16-byte alignment and foreign keys are rejected outright; a
body/msg_key modification or a reflected message can only be accepted if the recomputed msg_key
happens to equal the transmitted one.  That last event is excluded only by the MAC property of
SHA-256, which is an explicit, named hypothesis (`MacDiffers`) — never an axiom; the strongest
assumption-free form is `accepted_tamper_is_msgkey_collision`.
Property theorems only (helper lemmas: TdModel/Lemmas/C05.lean, C04.lean).
-/
import TdModel.Lemmas.C05
import TdModel.Gen.C05

namespace TdModel.C05
open TdModel TdModel.Bin TdModel.C04
open TdModel.C06 (Side)

/-- **Decision structure.**  `DecryptFromBuffer` (receiving cipher with `encryptSide = side`) accepts
frame `c` with result `d` iff: the frame has the 24-byte envelope, its auth key id equals the
session key's id, the body is a multiple of 16 bytes, the specification's msg_key of the decrypted
plaintext **for the decrypt side** (`side.flip`, i.e. `x = 8` on a client) equals the transmitted
msg_key, the plaintext parses to `d`, and `d`'s length field is ≥ 0, divisible by 4, with 12..1024
bytes of padding. -/
theorem decrypt_ok_iff (P : Prims) (hP : LawfulPrims P) (side : Side) (ak keyId c : Bytes) (d : Data) :
    decrypt P side ak keyId c = .ok d ↔
      24 ≤ c.length ∧ keyId = c.take 8 ∧ (c.length - 24) % 16 = 0 ∧
      C06.Spec.msgKey P ak (specPlaintext P side ak c) side.flip = (c.drop 8).take 16 ∧
      decodeData (specPlaintext P side ak c) = .ok d ∧
      0 ≤ toInt32 d.len ∧ toInt32 d.len % 4 = 0 ∧
      12 ≤ (d.body.length : Int) - toInt32 d.len ∧ (d.body.length : Int) - toInt32 d.len ≤ 1024 := by
  rw [decrypt_ok_iff', plaintextOf_eq_spec P hP, C06.msgKey_eq P hP]

/-- The cryptographic assumption, as a named hypothesis about one concrete frame: the msg_key
recomputed by the receiver differs from the transmitted one. -/
def MacDiffers (P : Prims) (side : Side) (ak c : Bytes) : Prop :=
  C06.Spec.msgKey P ak (specPlaintext P side ak c) side.flip ≠ (c.drop 8).take 16

/-- A message under a different auth key id is rejected outright (no assumption). -/
theorem foreign_key_rejected (P : Prims) (side : Side) (ak keyId c : Bytes) (h24 : 24 ≤ c.length)
    (hk : c.take 8 ≠ keyId) : decrypt P side ak keyId c = .error .keyId := by
  unfold decrypt decryptMessage
  rw [show Facts.C04.checksKeyID = true from rfl, show Facts.C04.frameKeyIdLen = 8 from rfl,
    show Facts.C04.frameMsgKeyLen = 16 from rfl]
  have h1 : ¬ c.length < 8 + 16 := by omega
  have h2 : (keyId != c.take 8) = true := by simp; exact fun e => hk e.symm
  simp only [h1, if_false, Bool.true_and, h2, if_true]

/-- Any modification of the auth-key-id field of a frame addressed to this key is rejected. -/
theorem keyid_tamper_rejected (P : Prims) (side : Side) (ak keyId c c' : Bytes) (h24 : 24 ≤ c'.length)
    (horig : c.take 8 = keyId) (hmod : c'.take 8 ≠ c.take 8) :
    decrypt P side ak keyId c' = .error .keyId :=
  foreign_key_rejected P side ak keyId c' h24 (horig ▸ hmod)

/-- Frames shorter than the envelope are rejected. -/
theorem truncated_envelope_rejected (P : Prims) (side : Side) (ak keyId c : Bytes) (h : c.length < 24) :
    decrypt P side ak keyId c = .error .eof := by
  unfold decrypt
  rw [show Facts.C04.frameKeyIdLen = 8 from rfl, show Facts.C04.frameMsgKeyLen = 16 from rfl]
  have : c.length < 8 + 16 := by omega
  simp only [this, if_true]

/-- Truncating or extending a frame by a number of bytes that is not a multiple of 16 is rejected
outright (whatever the bytes are). -/
theorem misaligned_rejected (P : Prims) (side : Side) (ak keyId c : Bytes)
    (ha : (c.length - 24) % 16 ≠ 0) : ∃ e, decrypt P side ak keyId c = .error e := by
  cases h : decrypt P side ak keyId c with
  | error e => exact ⟨e, rfl⟩
  | ok d => exact absurd ((decrypt_ok_iff' P side ak keyId c d).mp h).2.2.1 ha

/-- **Tampering.**  Under `MacDiffers` for the modified frame, it is rejected — whatever was changed
(msg_key bits, body bits, aligned truncation or extension). -/
theorem tamper_rejected (P : Prims) (hP : LawfulPrims P) (side : Side) (ak keyId c' : Bytes)
    (hmac : MacDiffers P side ak c') : ∃ e, decrypt P side ak keyId c' = .error e := by
  cases h : decrypt P side ak keyId c' with
  | error e => exact ⟨e, rfl⟩
  | ok d => exact absurd ((decrypt_ok_iff P hP side ak keyId c' d).mp h).2.2.2.1 hmac

/-- **Reflection.**  A message produced by a side's own cipher (`encrypt P side …`, i.e. derived with
that side's `x`) and fed back to the same side is checked against the *other* `x`: under
`MacDiffers` it is rejected. -/
theorem reflection_rejected (P : Prims) (hP : LawfulPrims P) (side : Side) (ak keyId : Bytes)
    (salt sid mid seq : Nat) (payload rnd c : Bytes)
    (_he : encrypt P side ak keyId salt sid mid seq payload rnd = .ok c)
    (hmac : MacDiffers P side ak c) : ∃ e, decrypt P side ak keyId c = .error e :=
  tamper_rejected P hP side ak keyId c hmac

/-- **Where reflection is undetectable — exactly characterised on the key side.**  For a *side-blind*
auth key (the three key ranges read by MTProto 2.0 coincide with their 8-byte shifts:
`substr(k,88,32) = substr(k,96,32)`, `substr(k,0,36) = substr(k,8,36)`, `substr(k,40,36) = substr(k,48,36)`)
the client and the server cipher decide identically on *every* frame; in particular a message is
accepted by the side that produced it.  Every key of period 8 (e.g. a constant key) is side-blind.
So `MacDiffers` for reflected messages is false for these keys by construction of the protocol, not by
a defect of the implementation; for all other keys it is the SHA-256 assumption. -/
theorem reflection_accepted_for_sideBlind_keys (P : Prims) (hP : LawfulPrims P) (side : Side) (ak keyId : Bytes)
    (salt sid mid seq : Nat) (payload rnd c : Bytes) (hblind : SideBlind ak)
    (hk : keyId.length = 8) (h1 : salt < 2 ^ 64) (h2 : sid < 2 ^ 64) (h3 : mid < 2 ^ 64) (h4 : seq < 2 ^ 32)
    (hmod : payload.length % 4 = 0) (hl : payload.length < 2 ^ 31)
    (he : encrypt P side ak keyId salt sid mid seq payload rnd = .ok c) :
    ∃ d, decrypt P side ak keyId c = .ok d ∧ d.payload = payload ∧ ¬ MacDiffers P side ak c := by
  obtain ⟨r, rest, _, _, hd⟩ :=
    decrypt_encrypt' P hP side ak keyId salt sid mid seq payload rnd c hk h1 h2 h3 h4 hmod hl he
  rw [← sideBlind_decrypt_eq P hP ak keyId c hblind side] at hd
  refine ⟨_, hd, by simp [Data.payload], ?_⟩
  intro hmac
  exact hmac ((decrypt_ok_iff P hP side ak keyId c _).mp hd).2.2.2.1

/-- Keys of period 8 — `k[i+8] = k[i]` throughout, e.g. all bytes equal — are side-blind. -/
theorem period8_keys_are_sideBlind (ak : Bytes) (h : Period8 ak) (hl : 128 ≤ ak.length) : SideBlind ak :=
  period8_sideBlind ak h hl

/-- Non-vacuity: the all-`0x07` 2048-bit key has period 8 (hence is side-blind); the key
`0,1,2,…,255` is not side-blind. -/
example : Period8 (List.replicate 256 7) := period8_replicate 256 7
example : ¬ SideBlind ((List.range 256).map UInt8.ofNat) := by
  intro h; exact absurd h.1 (by decide)

/-- **Assumption-free form of tamper resistance.**  If two *different* frames with the same 24-byte
envelope (key id, msg_key) are both accepted, then two different plaintexts have the same msg_key
— an explicit collision of `substr (SHA256 (substr (auth_key, 88+x, 32) + ·), 8, 16)`. -/
theorem accepted_tamper_is_msgkey_collision (P : Prims) (hP : LawfulPrims P) (side : Side)
    (ak keyId c c' : Bytes) (d d' : Data)
    (h : decrypt P side ak keyId c = .ok d) (h' : decrypt P side ak keyId c' = .ok d')
    (henv : c.take 24 = c'.take 24) (hne : c ≠ c') :
    specPlaintext P side ak c ≠ specPlaintext P side ak c' ∧
      C06.Spec.msgKey P ak (specPlaintext P side ak c) side.flip =
        C06.Spec.msgKey P ak (specPlaintext P side ak c') side.flip := by
  have a := (decrypt_ok_iff P hP side ak keyId c d).mp h
  have a' := (decrypt_ok_iff P hP side ak keyId c' d').mp h'
  refine ⟨plaintext_injective P hP side ak c c' a.2.2.1 a'.2.2.1 henv hne, ?_⟩
  rw [a.2.2.2.1, a'.2.2.2.1]
  have e1 : (c.drop 8).take 16 = (c.take 24).drop 8 := by rw [List.drop_take]
  have e2 : (c'.drop 8).take 16 = (c'.take 24).drop 8 := by rw [List.drop_take]
  rw [e1, e2, henv]

/-- A rejected message yields no header fields or payload: the result is an error value and nothing
else (the implementation side — `nil` pointer with every error — is a regenerated fact below and is
monitored on every mutant). -/
theorem error_carries_no_data (P : Prims) (side : Side) (ak keyId c : Bytes) (e : C04.Err)
    (h : decrypt P side ak keyId c = .error e) : ∀ d, decrypt P side ak keyId c ≠ .ok d := by
  intro d hd; rw [h] at hd; cases hd

/-- Source facts: every `return` with an error in DecryptFromBuffer / Decrypt / decryptMessage
returns a nil result; the key-id and msg_key comparisons are present; the msg_key is recomputed with
`side := c.encryptSide.DecryptSide()`, which flips the side; the copying decoders size their
slices to exactly the incoming bytes (a reused struct keeps no stale tail). -/
theorem rejection_facts :
    Facts.C05.errorReturnsNil = true ∧ Facts.C05.checksKeyID = true ∧ Facts.C05.checksMsgKey = true ∧
    Facts.C05.decMsgKeySide = "side" ∧ Facts.C05.decSideIsFlipped = true ∧ Facts.C05.decryptSideFlips = true ∧
    Facts.C05.decKeysSide = "c.encryptSide.DecryptSide()" ∧
    Facts.C05.msgDecodeExactSize = true ∧ Facts.C05.dataDecodeExactSize = true :=
  ⟨rfl, rfl, rfl, rfl, rfl, rfl, rfl, rfl, rfl⟩

/-- Non-vacuity of `MacDiffers`: with the toy primitives a reflected frame does satisfy it. -/
example : MacDiffers Prims.toy .client ((List.range 256).map UInt8.ofNat)
    (List.replicate 8 1 ++ List.replicate 16 2 ++ List.replicate 48 3) := by
  unfold MacDiffers
  decide

end TdModel.C05
