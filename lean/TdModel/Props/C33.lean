/-
C33 — downloads reproduce the remote file exactly.
Property theorems only (helper lemmas live in TdModel/Lemmas/C33.lean).
-/
import TdModel.Lemmas.C33

namespace TdModel.C33
open TdModel

/-- The loop conditions read from the source are the ones the protocol prescribes: an empty chunk ends
the download, a chunk shorter than the part size is the last one (and is still written), offsets
advance by the part size; the default part size is 512 KiB. -/
theorem source_rules :
    Facts.C33.emptyStops = true ∧ Facts.C33.lastIsShorter = true ∧ Facts.C33.allocStepIsPartSize = true ∧
    Facts.C33.writeBeforeLastCheck = true ∧ Facts.C33.defaultPartSize = 512 * 1024 ∧
    Facts.C33.readerRetryUnbounded = true ∧ Facts.C33.verifierRetryUnbounded = true ∧
    Facts.C33.nextReturnsChunkAsIs = true ∧ Facts.C33.offsetIsInt64 = true := by decide

/-- Streaming: for every file and part size ≥ 1 the bytes handed to the `io.Writer`, in order, are
exactly the file (no gap, no duplicate, correct length), the loop terminates, and the reported file type
is the type `T` the server attaches to its answers (also when the download ends with the empty answer
after an exact multiple of the part size, and for the 0-byte file). -/
theorem stream_exact (file : Bytes) (tag : Nat → Nat) (T : Nat) (htag : ∀ off, tag off = T)
    (ps : Nat) (hps : 0 < ps) (fuel : Nat) (hfuel : file.length < fuel) :
    (stream (fileServer file) tag ps fuel 0).writes.flatten = file ∧
    (stream (fileServer file) tag ps fuel 0).done = true ∧
    (stream (fileServer file) tag ps fuel 0).typ = some T := by
  have := stream_exact_gen file tag T htag ps hps fuel 0 (by simpa using hfuel)
  simpa using this

/-- Every request of a streamed download is `(k·ps, ps)` for consecutive `k` starting at 0, ends with
the first block that is short or empty, and every offset fits a signed 64-bit integer with room to spare
whenever the file does (the implementation keeps the offset as an `int64` advanced in 64-bit arithmetic:
`offsetIsInt64` in `source_rules`) — in particular for files beyond 2 GiB. -/
theorem stream_requests (file : Bytes) (tag : Nat → Nat) (ps fuel : Nat) :
    (stream (fileServer file) tag ps fuel 0).reqs = streamReqs file.length ps fuel 0 :=
  stream_reqs_eq file tag ps fuel 0

theorem stream_request_offsets (size ps : Nat) (hps : 0 < ps) : ∀ (fuel k : Nat),
    ∀ r ∈ streamReqs size ps fuel k, r.2 = ps ∧ r.1 % ps = 0 ∧ r.1 ≤ max size (k * ps) := by
  intro fuel
  induction fuel with
  | zero => intro k r h; simp [streamReqs] at h
  | succ fuel ih =>
    intro k r h
    rw [streamReqs] at h
    simp only [offsetOf_eq, isEndN_eq, isLastN_eq] at h
    have hk : (k + 1) * ps = k * ps + ps := by rw [Nat.add_mul]; omega
    split at h
    · simp only [List.mem_singleton] at h; subst h
      exact ⟨rfl, Nat.mul_mod_left k ps, by omega⟩
    · split at h
      · simp only [List.mem_singleton] at h; subst h
        exact ⟨rfl, Nat.mul_mod_left k ps, by omega⟩
      · rcases List.mem_cons.mp h with h | h
        · subst h; exact ⟨rfl, Nat.mul_mod_left k ps, by omega⟩
        · rename_i h1 h2
          simp only [decide_eq_true_eq, Nat.not_lt] at h1 h2
          have := ih (k + 1) r h
          refine ⟨this.1, this.2.1, ?_⟩
          have h3 := this.2.2
          rw [hk] at h3
          omega

/-- Parallel: for **any number of workers and any interleaving** (any list of `alloc` / `complete i`
actions from the initial state), once every worker has returned, the blocks handed to the `WriterAt` are
— each exactly once — the blocks `(i·ps, file[i·ps, i·ps+ps))` with `i·ps < len`: nothing beyond the
length, no duplicate, no gap; and those blocks in offset order concatenate to the file. -/
theorem parallel_exact (file : Bytes) (tag : Nat → Nat) (ps : Nat) (hps : 0 < ps) (acts : List PAct) (s : PState)
    (hrun : prun (fileServer file) tag ps {} acts = some s) (hfin : s.finished = true) :
    s.writes.Perm (((List.range s.k).filter (live file ps)).map (blk file ps)) ∧
    (∀ i, live file ps i = true → i < s.k) ∧
    ((((List.range s.k).filter (live file ps)).map (blk file ps)).map (·.2)).flatten = file := by
  have hinv := pinv_run file tag ps hps acts {} s (pinv_init file ps) hrun
  simp only [PState.finished, Bool.and_eq_true, List.isEmpty_iff] at hfin
  have hlen := hinv.stop hfin.2
  refine ⟨?_, ?_, ?_⟩
  · have := hinv.perm
    simpa [hfin.1] using this
  · intro i hi
    rw [live_eq] at hi
    simp only [decide_eq_true_eq] at hi
    apply Classical.byContradiction
    intro hge
    have : s.k * ps ≤ i * ps := Nat.mul_le_mul_right ps (by omega)
    omega
  · rw [blocks_concat, List.take_of_length_le hlen]

/-- Every write of a parallel download — finished or not — is a genuine block at a part-size offset
(safety at every moment: whatever has been written so far is correct). -/
theorem parallel_writes_genuine (file : Bytes) (tag : Nat → Nat) (ps : Nat) (hps : 0 < ps) (acts : List PAct) (s : PState)
    (hrun : prun (fileServer file) tag ps {} acts = some s) :
    ∀ w ∈ s.writes, ∃ i, i < s.k ∧ live file ps i = true ∧ w = blk file ps i := by
  intro w hw
  have hinv := pinv_run file tag ps hps acts {} s (pinv_init file ps) hrun
  have hm : w ∈ ((List.range s.k).filter (live file ps)).map (blk file ps) :=
    hinv.perm.subset (List.mem_append_left _ hw)
  obtain ⟨i, hi, rfl⟩ := List.mem_map.mp hm
  have := List.mem_filter.mp hi
  exact ⟨i, List.mem_range.mp this.1, this.2, rfl⟩

/-- The reported file type of a parallel download: for any server (not only the genuine file), any
number of workers and any interleaving, once stop has been signalled the type stored by `typOnce` is the
type `T` the server attaches to its answers — including downloads that end with an empty answer. -/
theorem parallel_type_reported (srv : Server) (tag : Nat → Nat) (T : Nat) (htag : ∀ off, tag off = T)
    (ps : Nat) (acts : List PAct) (s : PState)
    (hrun : prun srv tag ps {} acts = some s) (hstop : s.stopped = true) : s.typ = some T := by
  have h := tinv_run srv tag T htag ps acts {} s ⟨by intro h; simp at h, by intro h; simp at h⟩ hrun
  exact h.typ (h.set hstop)

/-- Flood waits and retryable timeouts only re-issue the same `(offset, limit)`: a script without a
hard error always ends with the chunk obtained. -/
theorem retries_transparent (l : List Resp) (h : Resp.err ∉ l) : (attempts l).2 = true := by
  induction l with
  | nil => simp [attempts]
  | cons r l ih =>
    cases r with
    | ok => simp [attempts]
    | err => simp at h
    | flood => simp only [attempts]; exact ih (by intro hm; exact h (List.mem_cons_of_mem _ hm))
    | timeout => simp only [attempts]; exact ih (by intro hm; exact h (List.mem_cons_of_mem _ hm))

/-- Retry transparency is unbounded: after ANY number `n` of consecutive retryable faults (each a
FLOOD_WAIT or a retryable timeout) on one `(offset, limit)` the chunk is still obtained, with exactly
`n + 1` identical requests.  (The retry branch of `reader.next` / `verifier.next` has no limit:
`readerRetryUnbounded`, `verifierRetryUnbounded` in `source_rules`.) -/
theorem retries_unbounded (faults : List Resp) (hf : ∀ r ∈ faults, r = .flood ∨ r = .timeout)
    (rest : List Resp) (hrest : rest = [] ∨ rest.head? = some .ok) :
    attempts (faults ++ rest) = (faults.length + 1, true) := by
  induction faults with
  | nil =>
    rcases hrest with h | h
    · subst h; rfl
    · cases rest with
      | nil => rfl
      | cons x t => simp only [List.head?_cons, Option.some.injEq] at h; subst h; rfl
  | cons r faults ih =>
    have := ih (fun x hx => hf x (List.mem_cons_of_mem _ hx))
    rcases hf r (List.mem_cons_self) with h | h <;> subst h <;>
      simp only [List.cons_append, attempts, this, List.length_cons]

/-- Non-vacuity: 25 timeouts in a row, then the chunk. -/
example : attempts (List.replicate 25 .timeout ++ [.ok]) = (26, true) := by decide

/-- Non-vacuity: a 7-byte file with part size 3 streams as 3+3+1 bytes in three requests … -/
example : stream (fileServer [1, 2, 3, 4, 5, 6, 7]) (fun _ => 5) 3 8 0 =
    { writes := [[1, 2, 3], [4, 5, 6], [7]], reqs := [(0, 3), (3, 3), (6, 3)], typ := some 5, done := true } := by decide
/-- … an exact multiple needs the extra empty chunk … -/
example : (stream (fileServer [1, 2, 3, 4]) (fun _ => 5) 2 5 0).reqs = [(0, 2), (2, 2), (4, 2)] := by decide
/-- … requests of a 5 GiB file with 512 MiB parts (lengths only): offsets beyond 2^31 and 2^32 … -/
example : (streamReqs 5368709125 536870912 20 0).map (·.1) =
    [0, 536870912, 1073741824, 1610612736, 2147483648, 2684354560, 3221225472, 3758096384, 4294967296,
     4831838208, 5368709120] := by decide
/-- … and a parallel run with three workers completing out of order (block 2 first) finishes. -/
example : (prun (fileServer [1, 2, 3, 4, 5]) (fun _ => 5) 2 {} [.alloc, .alloc, .alloc, .complete 2, .complete 0, .complete 1]).map
    (fun s => (s.writes, s.finished, s.typ)) = some ([(4, [5]), (0, [1, 2]), (2, [3, 4])], true, some 5) := by decide

end TdModel.C33
