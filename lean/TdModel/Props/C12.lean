/-
C12 — each key-exchange step is bounded by the exchange timeout.
Property theorems only (helper lemmas live in TdModel/Lemmas/C12.lean).

`steps` is the interpretation (`interp`, TdModel/Model/C12.lean) of the statement skeletons of
`ClientExchange.Run` and of the `unencryptedWriter` methods, regenerated from
/repo/exchange/{client_flow.go,proto.go} on every run; `all_steps_timed` and `steps_shape` are
therefore re-decided against the *current* source.
-/
import TdModel.Lemmas.C12

namespace TdModel.C12

/-- Every transport call of `ClientExchange.Run` — including the re-read after a skipped −404 frame —
is given a context derived by an unconditional `context.WithTimeout(ctx, w.timeout)`.
(Fails on a tree where some call is bare, or where the timeout is applied conditionally.) -/
theorem all_steps_timed : steps.all (·.timed) = true := by decide

/-- The flow is the specification's three request/response pairs
(req_pq → ResPQ, req_DH_params → Server_DH_Params, set_client_DH_params → dh_gen_*): six call
sites, and only the ResPQ read sits in a retry loop (the −404 skip of `readUnencrypted`). -/
theorem steps_shape :
    steps.map (fun s => (s.recv, s.inLoop)) =
      [(false, false), (true, true), (false, false), (true, false), (false, false), (true, false)] := by decide

/-- A peer that stalls at any step: the call returns, no later than `timeout` after the step
started, whatever the caller's deadline is — in particular with none (PFS connect, re-keying). -/
theorem stall_bounded (s : Step) (hs : s ∈ steps) (start timeout : Nat) (deadline : Option Nat) :
    ∃ t, ctxEnd s start timeout deadline = some t ∧ start ≤ t ∧ t ≤ start + timeout :=
  ctxEnd_timed s (List.all_eq_true.mp all_steps_timed s hs) start timeout deadline

/-- Any peer behaviour (per step: arbitrary local computation time, any number of −404 frames with
arbitrary latencies, then an answer with arbitrary latency or silence): every transport call the run
executes returns within `timeout` of its own start, so the run never blocks forever. -/
theorem every_step_bounded (timeout : Nat) (deadline : Option Nat) (beh : List Beh) (now : Nat) :
    ∀ e ∈ runTrace timeout deadline (steps.zip beh) now,
      ∃ t, e.stop = some t ∧ e.start ≤ t ∧ t ≤ e.start + timeout := by
  apply runTrace_bounded
  intro x hx
  exact List.all_eq_true.mp all_steps_timed x.1 (List.of_mem_zip hx).1

/-- The quantifier of the property: peer honest for the first `k` steps, silent afterwards. -/
theorem stall_at_each_step_bounded (k gap lat timeout : Nat) (deadline : Option Nat) (now : Nat) :
    ∀ e ∈ runTrace timeout deadline (stallAt steps k gap lat) now,
      ∃ t, e.stop = some t ∧ e.start ≤ t ∧ t ≤ e.start + timeout :=
  runTrace_bounded timeout deadline _ (stallAt_timed steps k gap lat all_steps_timed) now

/-- "The exchange *fails*": a peer silent at a step makes that call fail (`ok = false`) at the end of
its context, and `Run` returns there — no later transport call is executed, whatever the rest of
the schedule is.  (Model equation, any step.) -/
theorem run_stops_at_silent_step (s : Step) (gap : Nat) (rest : List (Step × Beh))
    (timeout : Nat) (deadline : Option Nat) (now : Nat) :
    runTrace timeout deadline ((s, ⟨gap, [], none⟩) :: rest) now =
      [⟨now + gap, ctxEnd s (now + gap) timeout deadline, false⟩] := by
  simp [runTrace, callRun, ioEnd]

/-- …and for every step of the current source the failure comes no later than `timeout` after the
step started: the whole remaining run is the single failed call `[start, t]`, `t ≤ start + timeout`. -/
theorem silent_step_fails_in_time (s : Step) (hs : s ∈ steps) (gap : Nat) (rest : List (Step × Beh))
    (timeout : Nat) (deadline : Option Nat) (now : Nat) :
    ∃ t, runTrace timeout deadline ((s, ⟨gap, [], none⟩) :: rest) now = [⟨now + gap, some t, false⟩] ∧
      now + gap ≤ t ∧ t ≤ now + gap + timeout := by
  obtain ⟨t, ht, h1, h2⟩ := stall_bounded s hs (now + gap) timeout deadline
  exact ⟨t, by rw [run_stops_at_silent_step, ht], h1, h2⟩

/-- −404 frames re-arm the timeout once each and no more: a step during which the peer sends `n`
such frames (and then anything, including nothing) is over within `(n + 1) · timeout` of its start;
with `n = 0` — the silent peer of the property — within `timeout`. -/
theorem step_with_skips_bounded (s : Step) (hs : s ∈ steps) (timeout : Nat) (deadline : Option Nat)
    (skips : List Nat) (final : Option Nat) (start : Nat) :
    ∀ e ∈ (callRun s timeout deadline skips final start).1,
      ∃ t, e.stop = some t ∧ t ≤ start + (skips.length + 1) * timeout :=
  callRun_total s (List.all_eq_true.mp all_steps_timed s hs) timeout deadline skips final start

/-- **The whole exchange is bounded.**  Any peer behaviour, any caller deadline (including none):
every call of the run has returned by `now + budget`, where the budget is the peer-independent sum of
the client's own computation time and one timeout per transport call (six, plus one per −404 frame
skipped) — `Run` as a whole, not only each step, cannot block forever. -/
theorem whole_run_bounded (timeout : Nat) (deadline : Option Nat) (beh : List Beh) (now : Nat) :
    ∀ e ∈ runTrace timeout deadline (steps.zip beh) now,
      ∃ t, e.stop = some t ∧ t ≤ now + budget timeout (steps.zip beh) := by
  apply runTrace_total
  intro x hx
  exact List.all_eq_true.mp all_steps_timed x.1 (List.of_mem_zip hx).1

/-- Non-vacuity: a peer that answers every step after 1 with no client computation: budget 6·timeout. -/
example : budget 150 (stallAt steps 6 0 1) = 900 := by decide

/-- The default per-request exchange timeout is the documented one minute (in ns). -/
theorem default_timeout_is_one_minute : Facts.C12.defaultTimeoutNs = 60 * 1000000000 := by decide

/-- The timeout the steps run under is the configured one: `WithTimeout` stores it, the
unencrypted writer receives it, `mtproto.Conn.runExchange` passes `ExchangeTimeout`. -/
theorem timeout_wiring :
    (Facts.C12.withTimeoutSetsField && Facts.C12.writerGetsTimeout && Facts.C12.connPassesExchangeTimeout) = true := by
  decide

/-- The flow before the repair of D5 (steps 5 and 7 bare `c.conn.Recv`, same helpers): a peer
silent at step 5 (index 3) with no caller deadline blocks the client forever. -/
theorem before_fix_counterexample :
    ∃ e ∈ runTrace 150 none (stallAt stepsBeforeFix 3 0 1) 0, e.stop = none := by decide

/-- Non-vacuity: the stalled run really reaches the stalled step and fails there at exactly
`start + timeout`, with a nearer caller deadline at that deadline; a −404 frame at the ResPQ read is
skipped and the re-read is bounded on its own. -/
example : (runTrace 150 none (stallAt steps 3 10 1) 0).getLast? = some ⟨43, some 193, false⟩ := by decide
example : (runTrace 150 (some 100) (stallAt steps 3 10 1) 0).getLast? = some ⟨43, some 100, false⟩ := by decide
example : runTrace 150 none (steps.zip [⟨0, [], some 1⟩, ⟨0, [20], none⟩]) 0 =
    [⟨0, some 1, true⟩, ⟨1, some 21, true⟩, ⟨21, some 171, false⟩] := by decide

end TdModel.C12
