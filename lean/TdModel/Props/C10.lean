/-
C10 — the key exchange never completes with an unauthenticated or tampered server.
Property theorems only (lemmas: TdModel/Lemmas/C09.lean, C09Run.lean, C10.lean).

The client of the shared exchange model (TdModel/Model/C09.lean: `cstep`, `crun`) is fed an
*arbitrary* sequence of incoming messages — whatever a man in the middle chooses to deliver — for
arbitrary primitives `P` (no law is assumed: these are statements about the decision structure of
`ClientExchange.Run`).  What cannot be proved without cryptographic assumptions ("a peer without
the private key cannot produce an answer that decrypts under the temporary key") is not claimed;
`no_valid_answer_no_success` states exactly where that assumption would enter.
-/
import TdModel.Lemmas.C10
import TdModel.Lemmas.C10Prog
import TdModel.Lemmas.C10Bytes

namespace TdModel.C09
open TdModel

/-- Every path to success passes every check: if the client ends in `done` after receiving `ms`,
then the first three messages were a ResPQ, a Server_DH_Params-ok and a dh_gen_ok such that
* the ResPQ echoed the client's nonce and offered the fingerprint of a key the client trusts;
* all three carried the client's nonce, and the last two the server nonce of the ResPQ;
* the encrypted answer decrypted, under the temporary key derived from the client's secret
  new_nonce, to inner data carrying the same two nonces;
* `CheckDH` accepted generator and prime, `CheckDHParams` accepted g, g_a and the client's g_b;
* the new-nonce hash equals `NonceHash1(new_nonce, g_a^b mod p)`;
and the result is that key with salt `new_nonce[0:8] xor server_nonce[0:8]`. -/
theorem client_success_implies {Ct} (P : XP Ct) (cfg : CCfg) (t : CTape) (ms : List (Msg Ct))
    (r : CResult) (outs : List (Msg Ct)) (h : crun P cfg t .waitResPQ ms = (.done r, outs)) :
    ∃ sn pq fps fp ans d hash rest,
      ms = .resPQ t.nonce sn pq fps :: .dhOk t.nonce sn ans :: .genOk t.nonce sn hash :: rest ∧
      fp ∈ cfg.keys ∧ fp ∈ fps ∧ pq ≤ 2 ^ 63 ∧ 1 < pq ∧ P.isPrime pq = false ∧
      P.decS (tempAESKeys P.sha1 t.newNonce sn) ans = some d ∧
      d.nonce = t.nonce ∧ d.serverNonce = sn ∧
      checkDH P.isPrime d.g d.dhPrime = true ∧
      checkDHParams d.dhPrime d.g.toNat d.gA (powMod d.g.toNat t.b d.dhPrime) = true ∧
      hash = nonceHash1 P.sha1 t.newNonce (keyBytes (d.gA ^ t.b % d.dhPrime)) ∧
      r = ⟨d.gA ^ t.b % d.dhPrime, serverSalt t.newNonce sn, t.sessionId⟩ := by
  obtain ⟨sn, pq, fps, fp, p, q, ans, d, hash, rest, hms, hsel, hpq, hcomp, _, hdec, hn, hsn, hdh, hpar, hh, hr⟩ :=
    crun_done_implies P cfg t ms r outs h
  have hmem := selectKey_mem _ _ _ hsel
  refine ⟨sn, pq, fps, fp, ans, d, hash, rest, hms, hmem.1, hmem.2, ?_, hcomp.1, hcomp.2, hdec, hn, hsn, hdh, hpar, ?_, ?_⟩
  · have : pqMax = 2 ^ 63 := by decide
    omega
  · rw [← hh, powMod_eq]
  · rw [hr, powMod_eq]

/-- The same on the byte level: the client fed frame *payloads* (`crunB`: TL decoding per step with
the layouts regenerated from package mt, primitives on byte strings) ends in `done` only if the
first three payloads TL-decode — ResPQ.Decode, DecodeServerDHParams, DecodeSetClientDHParamsAnswer —
to a ResPQ / server_DH_params_ok / dh_gen_ok carrying the client's nonce and one server nonce, the
`encrypted_answer` bytes decrypt (`DecryptExchangeAnswer` under the temporary key) to bytes that
TL-decode to server_DH_inner_data with the same nonces, and the decoded numbers pass `CheckDH` /
`CheckDHParams` and the decoded hash equals `NonceHash1(new_nonce, g_a^b mod p)`. -/
theorem client_success_implies_bytes (B : XPB) (cfg : CCfg) (t : CTape) (ps : List Bytes) (r : CResult)
    (h : (crunB B cfg t .waitResPQ ps).1 = .done r) :
    ∃ p1 p2 p3 rest sn pq fps fp ans plain d hash,
      ps = p1 :: p2 :: p3 :: rest ∧
      decServerMsg 0 p1 = .resPQ t.nonce sn pq fps ∧
      decServerMsg 1 p2 = .dhOk t.nonce sn ans ∧
      decServerMsg 2 p3 = .genOk t.nonce sn hash ∧
      fp ∈ cfg.keys ∧ fp ∈ fps ∧ pq ≤ 2 ^ 63 ∧ 1 < pq ∧ B.isPrime pq = false ∧
      B.ansDec (tempAESKeys B.sha1 t.newNonce sn) ans = some plain ∧ decSInner plain = some d ∧
      d.nonce = t.nonce ∧ d.serverNonce = sn ∧
      checkDH B.isPrime d.g d.dhPrime = true ∧
      checkDHParams d.dhPrime d.g.toNat d.gA (d.g.toNat ^ t.b % d.dhPrime) = true ∧
      hash = nonceHash1 B.sha1 t.newNonce (keyBytes (d.gA ^ t.b % d.dhPrime)) ∧
      r = ⟨d.gA ^ t.b % d.dhPrime, serverSalt t.newNonce sn, t.sessionId⟩ := by
  obtain ⟨p1, p2, p3, rest, sn, pq, fps, fp, p, q, ans, d, hash, hps, h1, h2, h3, hsel, hpq, hcomp, _, hdec, hn, hsn,
    hdh, hpar, hh, hr⟩ := crunB_done B cfg t ps r h
  have hmem := selectKey_mem _ _ _ hsel
  have hdec' : (B.ansDec (tempAESKeys B.sha1 t.newNonce sn) ans).bind decSInner = some d := hdec
  cases hp : B.ansDec (tempAESKeys B.sha1 t.newNonce sn) ans with
  | none => rw [hp] at hdec'; simp at hdec'
  | some plain =>
    rw [hp] at hdec'
    have hpm : pqMax = 2 ^ 63 := by decide
    refine ⟨p1, p2, p3, rest, sn, pq, fps, fp, ans, plain, d, hash, hps, h1, h2, h3, hmem.1, hmem.2, by omega,
      hcomp.1, hcomp.2, hp, by simpa using hdec', hn, hsn, hdh, ?_, ?_, ?_⟩
    · rw [← powMod_eq]; exact hpar
    · rw [← hh, powMod_eq]
    · rw [hr, powMod_eq]

/-- Unsafe DH parameters are always refused: whatever else the message contains, a
Server_DH_Params whose (correctly decrypting) inner data has a generator outside 2…7, a prime that is
not 2048 bits long or fails the primality / safe-prime test or the residue condition, or a `g_a`
outside `(2^1984, p − 2^1984)` (in particular 0, 1, p−1, p) makes the step fail. -/
theorem unsafe_params_refused {Ct} (P : XP Ct) (t : CTape) (sn n sn' : Bytes) (ans : Ct) (d : SInner)
    (hdec : P.decS (tempAESKeys P.sha1 t.newNonce sn) ans = some d)
    (hbad : d.g < 2 ∨ 7 < d.g ∨ bitLen d.dhPrime ≠ 2048 ∨ checkGP d.g d.dhPrime = false ∨
            P.isPrime d.dhPrime = false ∨ P.isPrime ((d.dhPrime - 1) / 2) = false ∨
            d.gA ≤ 2 ^ 1984 ∨ d.dhPrime - 2 ^ 1984 ≤ d.gA ∨ d.gA ≤ 1 ∨ d.dhPrime - 1 ≤ d.gA) :
    ∃ e, onDHParams P t sn (.dhOk n sn' ans) = (.failed e, none) := by
  rcases onDHParams_cases P t sn (.dhOk n sn' ans) with h | ⟨c, o, h⟩
  · exact h
  · exfalso
    obtain ⟨ans', d', hm, hdec', _, _, hdh, hpar, _, _⟩ := onDHParams_some P t sn _ c o h
    simp only [Msg.dhOk.injEq] at hm
    obtain ⟨_, _, rfl⟩ := hm
    rw [hdec] at hdec'
    simp only [Option.some.injEq] at hdec'
    subst hdec'
    obtain ⟨hb, hg2, hg7, hgp, hp1, hp2⟩ := checkDH_true _ _ _ hdh
    obtain ⟨_, _, ha1, ha2, _, _, ha3, ha4, _, _⟩ := checkDHParams_true _ _ _ _ hpar
    have hbits : Facts.C09.rsaKeyBits = 2048 := by decide
    have hmin : safetyMin = 2 ^ 1984 := by unfold safetyMin; rw [hbits]
    rw [hbits] at hb
    rw [hmin] at ha3 ha4
    generalize (2 : Nat) ^ 1984 = M at *
    rcases hbad with h | h | h | h | h | h | h | h | h | h
    · omega
    · omega
    · exact h hb
    · rw [hgp] at h; exact Bool.noConfusion h
    · rw [hp1] at h; exact Bool.noConfusion h
    · rw [hp2] at h; exact Bool.noConfusion h
    · omega
    · omega
    · omega
    · omega

/-- The client never sends an unsafe `g_b` of its own and completes: if it ends in `done`, its
`g_b = g^b mod p` passed the same range tests as `g_a` (a client whose random `b` gives a weak `g_b`
aborts with "bad g_b"). -/
theorem success_implies_safe_gb {Ct} (P : XP Ct) (cfg : CCfg) (t : CTape) (ms : List (Msg Ct))
    (r : CResult) (outs : List (Msg Ct)) (h : crun P cfg t .waitResPQ ms = (.done r, outs)) :
    ∃ sn ans d, Msg.dhOk t.nonce sn ans ∈ ms ∧
      P.decS (tempAESKeys P.sha1 t.newNonce sn) ans = some d ∧
      1 < d.g.toNat ^ t.b % d.dhPrime ∧ d.g.toNat ^ t.b % d.dhPrime < d.dhPrime - 1 ∧
      2 ^ 1984 < d.g.toNat ^ t.b % d.dhPrime ∧ d.g.toNat ^ t.b % d.dhPrime < d.dhPrime - 2 ^ 1984 ∧
      2 ^ 1984 < d.gA ∧ d.gA < d.dhPrime - 2 ^ 1984 := by
  obtain ⟨sn, pq, fps, fp, ans, d, hash, rest, hms, _, _, _, _, _, hdec, _, _, _, hpar, _⟩ :=
    client_success_implies P cfg t ms r outs h
  obtain ⟨_, _, _, _, hb1, hb2, ha3, ha4, hb3, hb4⟩ := checkDHParams_true _ _ _ _ hpar
  have hmin : safetyMin = 2 ^ 1984 := by
    unfold safetyMin; rw [show Facts.C09.rsaKeyBits = 2048 by decide]
  rw [powMod_eq] at hb1 hb2 hb3 hb4
  rw [hmin] at ha3 ha4 hb3 hb4
  exact ⟨sn, ans, d, by rw [hms]; simp, hdec, hb1, hb2, hb3, hb4, ha3, ha4⟩

/-- The DH validators the model interprets are the ones in crypto/dh.go, check_dh.go, check_gp.go
(regenerated on every run): the ordered `InRange` tests of `CheckDHParams` (which value against
which bounds), the definitions of the four bounds and of `InRange`, the order of `CheckDH`'s tests,
`checkPrime`, and `CheckGP`'s switch table. -/
theorem dh_validators_are :
    Facts.C09.dhParamChecks =
      [("g", "one", "dhPrimeMinusOne"), ("gA", "one", "dhPrimeMinusOne"), ("gB", "one", "dhPrimeMinusOne"),
       ("gA", "safetyRangeMin", "safetyRangeMax"), ("gB", "safetyRangeMin", "safetyRangeMax")] ∧
    Facts.C09.dhBound_one = "big.NewInt(1)" ∧
    Facts.C09.dhBound_dhPrimeMinusOne = "big.NewInt(0).Sub(dhPrime, one)" ∧
    Facts.C09.dhBound_safetyRangeMin = "big.NewInt(0).Exp(big.NewInt(2), big.NewInt(RSAKeyBits-64), nil)" ∧
    Facts.C09.dhBound_safetyRangeMax = "big.NewInt(0).Sub(dhPrime, safetyRangeMin)" ∧
    Facts.C09.inRangeBody = "return x.Cmp(min) > 0 && x.Cmp(max) < 0" ∧
    Facts.C09.checkDHOrder = "p.BitLen() != RSAKeyBits | err := CheckGP(g, p); err != nil | return checkPrime(p)" ∧
    Facts.C09.checkPrimeTestsBoth = true ∧ Facts.C09.checkSubgroupIsRem = true ∧
    Facts.C09.gpTable = [(2, 8, [7]), (3, 3, [2]), (4, 1, [0]), (5, 5, [1, 4]), (6, 24, [19, 23]), (7, 7, [3, 5, 6])] := by
  decide

/-- A ResPQ that does not echo the client's nonce, or offers no trusted fingerprint, or a pq above
2^63, or a pq that is 0, 1 or prime (not a product of two primes: `DecomposePQ` would divide by zero
or never return), is refused — before the factorisation is attempted. -/
theorem bad_respq_refused {Ct} (P : XP Ct) (cfg : CCfg) (t : CTape) (n sn : Bytes) (pq : Nat) (fps : List Nat)
    (hbad : n ≠ t.nonce ∨ (∀ k ∈ cfg.keys, k ∉ fps) ∨ 2 ^ 63 < pq ∨ pq ≤ 1 ∨ P.isPrime pq = true) :
    ∃ e, onResPQ P cfg t (.resPQ n sn pq fps) = (.failed e, none) := by
  rcases onResPQ_cases P cfg t (.resPQ n sn pq fps) with h | ⟨c, o, h⟩
  · exact h
  · exfalso
    obtain ⟨sn', pq', fps', fp, p, q, hm, hsel, hpq, hcomp, _, _, _⟩ := onResPQ_some P cfg t _ c o h
    simp only [Msg.resPQ.injEq] at hm
    obtain ⟨rfl, rfl, rfl, rfl⟩ := hm
    have hmem := selectKey_mem _ _ _ hsel
    have : pqMax = 2 ^ 63 := by decide
    rcases hbad with h | h | h | h | h
    · exact h rfl
    · exact h fp hmem.1 hmem.2
    · omega
    · omega
    · rw [hcomp.2] at h; exact Bool.noConfusion h

/-- Altered nonces or an answer that does not decrypt under the temporary key are refused. -/
theorem bad_dh_params_refused {Ct} (P : XP Ct) (t : CTape) (sn n sn' : Bytes) (ans : Ct)
    (hbad : n ≠ t.nonce ∨ sn' ≠ sn ∨ P.decS (tempAESKeys P.sha1 t.newNonce sn) ans = none ∨
      (∃ d, P.decS (tempAESKeys P.sha1 t.newNonce sn) ans = some d ∧ (d.nonce ≠ t.nonce ∨ d.serverNonce ≠ sn))) :
    ∃ e, onDHParams P t sn (.dhOk n sn' ans) = (.failed e, none) := by
  rcases onDHParams_cases P t sn (.dhOk n sn' ans) with h | ⟨c, o, h⟩
  · exact h
  · exfalso
    obtain ⟨ans', d', hm, hdec', hn, hsn, _, _, _, _⟩ := onDHParams_some P t sn _ c o h
    simp only [Msg.dhOk.injEq] at hm
    obtain ⟨rfl, rfl, rfl⟩ := hm
    rcases hbad with h | h | h | ⟨d, hd, h⟩
    · exact h rfl
    · exact h rfl
    · rw [h] at hdec'; simp at hdec'
    · rw [hd] at hdec'
      simp only [Option.some.injEq] at hdec'
      subst hdec'
      rcases h with h | h
      · exact h hn
      · exact h hsn

/-- A dh_gen answer with altered nonces or a wrong new-nonce hash — and every dh_gen_retry,
dh_gen_fail or other message — never completes the exchange. -/
theorem bad_dh_gen_refused {Ct} (P : XP Ct) (t : CTape) (sn : Bytes) (k : Nat) (m : Msg Ct)
    (hbad : ∀ hash, m = .genOk t.nonce sn hash → hash ≠ nonceHash1 P.sha1 t.newNonce (keyBytes k)) :
    ∃ e, onDhGen P t sn k m = (.failed e, none) := by
  rcases onDhGen_cases P t sn k m with h | ⟨r, h⟩
  · exact h
  · exfalso
    obtain ⟨hash, hm, hh, _, _⟩ := onDhGen_done P t sn k m r none h
    exact hbad hash hm hh.symm

/-- Where the cryptographic assumption enters: if none of the delivered messages carries an answer
that decrypts under the temporary key of *some* server nonce (the key is derived from the client's
secret new_nonce, which leaves the client only RSA-encrypted to a trusted key), the client never
completes. -/
theorem no_valid_answer_no_success {Ct} (P : XP Ct) (cfg : CCfg) (t : CTape) (ms : List (Msg Ct))
    (hno : ∀ n sn ans, Msg.dhOk n sn ans ∈ ms → P.decS (tempAESKeys P.sha1 t.newNonce sn) ans = none)
    (r : CResult) (outs : List (Msg Ct)) : crun P cfg t .waitResPQ ms ≠ (.done r, outs) := by
  intro h
  obtain ⟨sn, pq, fps, fp, ans, d, hash, rest, hms, _, _, _, _, _, hdec, _⟩ := client_success_implies P cfg t ms r outs h
  have := hno t.nonce sn ans (by rw [hms]; simp)
  rw [this] at hdec
  simp at hdec

/-- The client these theorems are about *is* the source: interpreting the statement list
regenerated from `ClientExchange.Run` (order of receives, guards and sends; the two operands of every
`!=`; the argument lists of `DecomposePQ`, `DecryptExchangeAnswer`, `CheckDH`, `CheckDHParams`; the
expression stored in every field of the three requests and of the two inner-data objects; the error
of every exit; the branches of the type switches) with the name bindings of
TdModel/Model/C10Prog.lean gives exactly the step function of the model, on every state and message. -/
theorem program_is_model {Ct} (P : XP Ct) (cfg : CCfg) (t : CTape) (s : CState) (m : Msg Ct) :
    cstepI P cfg t s m = cstep P cfg t s m := cstepI_eq P cfg t s m

theorem program_run_is_model {Ct} (P : XP Ct) (cfg : CCfg) (t : CTape) (s : CState) (ms : List (Msg Ct)) :
    crunI P cfg t s ms = crun P cfg t s ms := crunI_eq P cfg t ms s

/-- … the program opens with the nonce draw and `req_pq_multi{Nonce: nonce}`, and its three receives
are `readUnencrypted(&res)`, `tryRead`, `tryRead`. -/
theorem program_opening : initOK Facts.C10.clientProgram Facts.C10.clientLiterals = true := init_ok

/-- … and the locals the rows mention are defined as the name bindings assume. -/
theorem client_defs_are :
    Facts.C10.clientDefs = [
      ("nonce", "crypto.RandInt128(c.rand)"),
      ("serverNonce", "res.ServerNonce"),
      ("pq", "big.NewInt(0).SetBytes(res.Pq)"),
      ("pqMax", "big.NewInt(0).Exp(big.NewInt(2), big.NewInt(63), nil)"),
      ("pBytes", "p.Bytes()"),
      ("qBytes", "q.Bytes()"),
      ("newNonce", "crypto.RandInt256(c.rand)"),
      ("key", "crypto.TempAESKeys(newNonce.BigInt(), serverNonce.BigInt())"),
      ("dhPrime", "big.NewInt(0).SetBytes(innerData.DhPrime)"),
      ("g", "big.NewInt(int64(innerData.G))"),
      ("gA", "big.NewInt(0).SetBytes(innerData.GA)"),
      ("randMax", "big.NewInt(0).SetBit(big.NewInt(0), crypto.RSAKeyBits, 1)"),
      ("bParam", "rand.Int(c.rand, randMax)"),
      ("gB", "big.NewInt(0).Exp(g, bParam, dhPrime)"),
      ("authKey", "big.NewInt(0).Exp(gA, bParam, dhPrime)"),
      ("nonceHash1", "crypto.NonceHash1(newNonce, key)"),
      ("serverSalt", "crypto.ServerSalt(newNonce, v.ServerNonce)"),
      ("authKeyID", "key.ID()"),
      ("sessionID", "crypto.NewSessionID(c.rand)")] := by
  rfl

/-- The checks the theorems above are about are the ones in the source, in this order
(regenerated from `ClientExchange.Run` on every run). -/
theorem client_guards_are :
    Facts.C10.clientGuards = [
      ("", "res.Nonce != nonce", "ResPQ nonce mismatch"),
      ("", "selectedPubKey.Zero()", "ErrKeyFingerprintNotFound"),
      ("", "pq.Cmp(pqMax) > 0", "server provided bad pq"),
      ("", "pq.Cmp(big.NewInt(1)) <= 0 || pq.ProbablyPrime(0)", "server provided bad pq: not composite"),
      ("", "p.Nonce != nonce", "ServerDHParamsOk nonce mismatch"),
      ("", "p.ServerNonce != serverNonce", "ServerDHParamsOk server nonce mismatch"),
      ("", "err != nil", "exchange answer decrypt"),
      ("", "innerData.Nonce != nonce", "ServerDHInnerData nonce mismatch"),
      ("", "innerData.ServerNonce != serverNonce", "ServerDHInnerData server nonce mismatch"),
      ("err := crypto.CheckDH(innerData.G, dhPrime)", "err != nil", "check DH params"),
      ("err := crypto.CheckDHParams(dhPrime, g, gA, gB)", "err != nil", "key exchange failed: invalid params"),
      ("", "v.Nonce != nonce", "DhGenOk nonce mismatch"),
      ("", "v.ServerNonce != serverNonce", "DhGenOk server nonce mismatch"),
      ("", "nonceHash1 != v.NewNonceHash1", "key exchange verification failed: hash mismatch"),
      ("case", "*mt.DhGenRetry", "retry required: %x"),
      ("case", "*mt.DhGenFail", "dh_hen_fail: %x"),
      ("case", "default", "unexpected SetClientDHParamsRequest result %T"),
      ("case", "*mt.ServerDHParamsFail", "server respond with server_DH_params_fail"),
      ("case", "default", "unexpected ReqDHParamsRequest result %T")] := by
  rfl

/-- Non-vacuity: a successful run exists (the honest composition under the symbolic primitives),
so `client_success_implies` is not about an empty set — see `exchange_completes` in Props/C09. -/
example {Ct} (P : XP Ct) (cfg : CCfg) (t : CTape) : crun P cfg t .waitResPQ [] = (.waitResPQ, []) := rfl

end TdModel.C09
