/-
C26 — closing or cancelling never strands callers and classifies retryability.

Property theorems only, over the transition system `TdModel.Rpc` (`Model/C24.lean`): any number of
concurrent calls, `ForceClose` / `Close` / cancellation at every point relative to send, ack,
result and retry timer.
-/
import TdModel.Lemmas.C26Live
import TdModel.Model.C26Cfg

namespace TdModel.C26
open TdModel.Rpc

/-! `C26.cfg maxRetries interval` (`Model/C26Cfg.lean`) is the engine as it is in the source. -/

theorem source_understood : raw.understood = true := by decide

/-- **The source has the shape the theorems are about** (`Cfg.std`): in particular both blocking
`select`s have the close-context case, the loop's close branch prefers a concurrent ack and `Do`'s
close branch a concurrent result (`done`), the cancel branch issues the drop request only if the
request was sent, and `NotifyAcks` processes the whole batch. -/
theorem source_shape (mr iv : Nat) : (cfg mr iv).std = true := by
  rw [cfg, Cfg.ofRaw_std]; decide

theorem guard_in_source {mr iv : Nat} : (cfg mr iv).std = true := source_shape mr iv

/-- `ForceClose` = `reqCancel(ErrEngineClosed)` then `Close()`. -/
theorem force_close_in_source : Facts.C26.forceCloseCancelsWithErrEngineClosed = true := by decide

/-- Both `errRetryableOnNewConn` (pool and client) treat exactly a dead connection and
`rpc.ErrEngineClosed` as safe to retry on a new connection. -/
theorem retryable_set_in_source :
    Facts.C26.poolRetryable = ["ErrConnDead", "ErrEngineClosed"] ∧
    Facts.C26.clientRetryable = ["ErrConnDead", "ErrEngineClosed"] := by decide

/-- Both blocking points of `Do` listen to the engine's close context. -/
theorem close_ctx_in_selects :
    "<-e.reqCtx.Done()" ∈ Facts.C26.doSelect ∧ "<-e.reqCtx.Done()" ∈ Facts.C26.loopSelect := by decide

/-- **Force close unblocks every caller.**  In every reachable state in which the engine has been
force-closed, every call that has not returned has an enabled step of its own thread — or is parked
at the handler guard waiting for the notifier that is decoding its result, and that notifier has an
enabled step.  No environment action (result, ack, cancellation, timer) is needed. -/
theorem forceClose_unblocks (mr iv : Nat) {s : State} (hr : Reachable (cfg mr iv) s) (hclosed : s.reqC = true)
    {i : Nat} {c : Call} (hc : s.calls i = some c) (hret : c.ret = none) :
    (∃ a, a.ofCall i = true ∧ (step (cfg mr iv) s a).isSome = true) ∨
    (c.pc = .guard ∧ ∃ nid n a, c.owner = some (.notif nid) ∧ s.notifs nid = some n ∧
        a.ofNotif nid = true ∧ (step (cfg mr iv) s a).isSome = true) := by
  exact unblocked (cfg := cfg mr iv) guard_in_source (reachable_inv guard_in_source hr)
    (reachable_close guard_in_source hr) hclosed hc hret

/-- **Bounded termination after `ForceClose`.**  From every reachable state in which the engine has been
force-closed there is a schedule consisting of thread steps only — steps of `Do` goroutines and of
notifier goroutines already inside the engine; no result, acknowledgement, cancellation, clock travel
or new call — of length at most `total s` (the sum of the ranks: ≤ 10 per call, ≤ 4 per notifier) after
which every `Do` has returned; `Close` / `ForceClose` can then return (`close_returns_iff_all_returned`). -/
theorem forceClose_terminates (mr iv : Nat) {s : State} (hr : Reachable (cfg mr iv) s) (hclosed : s.reqC = true) :
    ∃ as s', (∀ a ∈ as, a.isThread = true) ∧ as.length ≤ total s ∧ run (cfg mr iv) s as = some s' ∧
      (∀ i c, s'.calls i = some c → c.ret ≠ none) :=
  forceClose_terminates_aux (cfg := cfg mr iv) guard_in_source (total s) s hr hclosed (Nat.le_refl _)

/-- **… and returns after boundedly many own steps.**  Every step of a call's own thread strictly
decreases its rank (`≤ 10`), every step of a notifier strictly decreases the notifier's rank (`≤ 4`),
and no action other than clock travel increases a call's rank: between two clock advances a call
takes at most `rank` own steps before `Do` has returned ("promptly" up to scheduling fairness). -/
theorem own_steps_bounded (mr iv : Nat) {s s' : State} {a : Action} (hs : step (cfg mr iv) s a = some s') :
    (∀ i c c', s.calls i = some c → s'.calls i = some c' →
      c.rank ≤ 10 ∧ (a.isAdvance = false → c'.rank ≤ c.rank) ∧ (a.ofCall i = true → c'.rank < c.rank)) ∧
    (∀ k n n', s.notifs k = some n → s'.notifs k = some n' →
      n.rank ≤ 4 ∧ n'.rank ≤ n.rank ∧ (a.ofNotif k = true → n'.rank < n.rank)) := by
  obtain ⟨h1, h2⟩ := rank_step (cfg := cfg mr iv) guard_in_source hs
  refine ⟨fun i c c' hc hc' => ⟨?_, h1 i c c' hc hc'⟩, fun k n n' hn hn' => ⟨?_, h2 k n n' hn hn'⟩⟩
  · unfold Call.rank; split <;> split <;> omega
  · unfold Notif.rank; split <;> omega

/-- rank 0 means returned: a call whose rank is 0 is at `fin`. -/
theorem rank_zero_returned (mr iv : Nat) {s : State} (hr : Reachable (cfg mr iv) s)
    {i : Nat} {c : Call} (hc : s.calls i = some c) (h0 : c.rank = 0) : c.ret ≠ none := by
  have hi := reachable_inv (cfg := cfg mr iv) guard_in_source hr
  apply (hi.fin_ret i c hc).2
  unfold Call.rank at h0
  split at h0 <;> first | assumption | omega

/-- **Close is final and admits no new calls.**  Once the engine is closed it stays closed (and the
close-context stays cancelled after `ForceClose`), and a `Do` started on a closed engine returns
`ErrEngineClosed` at once without registering anything: the set of calls `Close` waits for can only shrink. -/
theorem closed_is_final (mr iv : Nat) {s s' : State} (hr : Reachable (cfg mr iv) s) {a : Action}
    (hs : step (cfg mr iv) s a = some s') :
    (s.closed = true → s'.closed = true) ∧ (s.reqC = true → s'.reqC = true) ∧
    (s.closed = true → ∀ i q b, a = .start i q b →
      ∃ c, s'.calls i = some c ∧ c.ret = some .closedRetry ∧ c.sends = 0 ∧ s'.rpc = s.rpc ∧ s'.ack = s.ack) := by
  obtain ⟨_, h2, h3⟩ := listed_step (cfg := cfg mr iv) guard_in_source (reachable_listed guard_in_source hr) hs
  refine ⟨h2, h3, fun hc i q b ha => ?_⟩
  subst ha
  simp only [step, stepStart] at hs
  split at hs
  · simp at hs
  · try dsimp only at hs
    simp only [hc, if_true, Option.some.injEq] at hs
    subst hs
    refine ⟨{ newCall q b s.now with owner := some .caller, pc := .fin, sends := 0, ret := some .closedRetry },
      ?_, rfl, rfl, rfl, rfl⟩
    simp [setCall]

/-- **`Close` / `ForceClose` return exactly when every `Do` has returned.**  The `wg.Wait()` of a close
invocation can return iff it is waiting and every call of the state has returned; in particular when
it returns no `Do` is pending. -/
theorem close_returns_iff_all_returned (mr iv : Nat) {s : State} (hr : Reachable (cfg mr iv) s) (k : Nat) :
    (step (cfg mr iv) s (.cret k)).isSome = true ↔
      (k ∈ s.closers ∧ ∀ i c, s.calls i = some c → c.ret ≠ none) := by
  have hl := reachable_listed (cfg := cfg mr iv) guard_in_source hr
  simp only [step]
  constructor
  · intro h
    split at h
    · next hcond =>
      simp only [Bool.and_eq_true, List.contains_eq_mem, decide_eq_true_eq, List.all_eq_true] at hcond
      refine ⟨hcond.1, fun i c hc => ?_⟩
      have := hcond.2 i (hl.1 i (by simp [hc]))
      simp [hc] at this
      intro hn; simp [hn] at this
    · simp at h
  · intro ⟨hk, hall⟩
    have : (s.closers.contains k && s.started.all (fun i => match s.calls i with
        | some c => c.ret.isSome
        | none => true)) = true := by
      simp only [Bool.and_eq_true, List.contains_eq_mem, decide_eq_true_eq, List.all_eq_true]
      refine ⟨hk, fun i _ => ?_⟩
      cases hc : s.calls i with
      | none => rfl
      | some c =>
        have := hall i c hc
        cases hr' : c.ret with
        | none => exact absurd hr' this
        | some r => simp [hr']
    split
    · rfl
    · next hn => exact absurd this hn

/-- **Retryability by acknowledgement.**  A call fails with the retryable engine-closed error
(`errors.Is(err, ErrEngineClosed)`) only if its request was never acknowledged; a call whose own
context was never cancelled fails with the non-retryable close error only if its request had been
acknowledged.  (Together: for calls that were not cancelled, retryable ⇔ not acknowledged.) -/
theorem class_by_ack (mr iv : Nat) {s : State} (hr : Reachable (cfg mr iv) s)
    {i : Nat} {c : Call} (hc : s.calls i = some c) :
    (c.ret = some .closedRetry → c.acked = false) ∧
    (c.ret = some .closedNoRetry → c.ctxC = false → c.acked = true) := by
  have hcl := reachable_close (cfg := cfg mr iv) guard_in_source hr
  refine ⟨hcl.retry_ret i c hc, fun h hx => ?_⟩
  rcases hcl.noretry_ret i c hc h with h1 | h1
  · exact h1
  · rw [hx] at h1; cases h1

/-- **Exactly one drop request iff cancelled after the request was sent.**  A call issues at most
one drop request; a call that returned its context's error issued exactly one if its request had
been sent and none otherwise; a call that returned anything else issued none. -/
theorem drop_iff_sent (mr iv : Nat) {s : State} (hr : Reachable (cfg mr iv) s)
    {i : Nat} {c : Call} (hc : s.calls i = some c) :
    c.drops ≤ 1 ∧
    (c.ret = some .ctxErr → (c.drops = 1 ↔ c.sent = true) ∧ c.ctxC = true) ∧
    (∀ r, c.ret = some r → r ≠ .ctxErr → c.drops = 0) := by
  have hcl := reachable_close (cfg := cfg mr iv) guard_in_source hr
  refine ⟨hcl.drops_le i c hc, fun h => ⟨⟨fun hd => ?_, fun hsent => hcl.ctx_sent_ret i c hc h hsent⟩,
    hcl.ctx_cancelled_ret i c hc h⟩, fun r h hne => hcl.other_ret i c r hc h hne⟩
  cases hsent : c.sent with
  | true => rfl
  | false => have := hcl.ctx_unsent_ret i c hc h hsent; omega

/-- Non-vacuity: force close after the ack gives the non-retryable error, before it the retryable one;
a cancelled, sent call issues one drop request. -/
example : ∃ s, Reachable (cfg 2 3) s ∧ ∃ c, s.calls 1 = some c ∧ c.ret = some .closedNoRetry ∧ c.acked = true :=
  ⟨_, ⟨[.start 1 1 7, .sret 1 .ok, .ack [1], .loopSel 1 .ack, .fclose 0, .waitSel 1 .closed], rfl⟩, _, rfl, by decide, by decide⟩

example : ∃ s, Reachable (cfg 2 3) s ∧ ∃ c, s.calls 1 = some c ∧ c.ret = some .closedRetry ∧ c.acked = false :=
  ⟨_, ⟨[.start 1 1 7, .sret 1 .ok, .fclose 0, .loopSel 1 .closed], rfl⟩, _, rfl, by decide, by decide⟩

example : ∃ s, Reachable (cfg 2 3) s ∧ ∃ c, s.calls 1 = some c ∧ c.ret = some .ctxErr ∧ c.drops = 1 ∧ c.sent = true :=
  ⟨_, ⟨[.start 1 1 7, .sret 1 .ok, .cancel 1, .loopSel 1 .ctx, .waitSel 1 .ctx, .dret 1 .ok], rfl⟩, _, rfl,
    by decide, by decide, by decide⟩

end TdModel.C26
