/-
C09 — key exchange with an honest server yields the same key on both sides.
Property theorems only (lemmas: TdModel/Lemmas/C09.lean, C09Run.lean).

The model (TdModel/Model/C09.lean) is the message-level protocol of exchange/client_flow.go and
exchange/server_flow.go; both random streams are explicit tapes, the mode (`cc.temp`) and the
datacenter ids are parameters, and the composite primitives are parameters `P` constrained only by
their round-trip laws (`LawfulXP`).
-/
import TdModel.Lemmas.C09Key
import TdModel.Lemmas.C09Sched
import TdModel.Lemmas.C09BytesRt

namespace TdModel.C09
open TdModel

/-- Diffie–Hellman agreement: both sides compute the same group element. -/
theorem dh_agree (g a b p : Nat) : (g ^ a % p) ^ b % p = (g ^ b % p) ^ a % p :=
  pow_mod_comm g a b p

/-- The executable modular exponentiation of the model (`big.Int.Exp`) is exponentiation mod `m`. -/
theorem powMod_is_pow (b e m : Nat) : powMod b e m = b ^ e % m := powMod_eq b m e

/-- The constants of the source are the specification's: `g = 3` on the server, `pq ≤ 2^63`,
2048-bit keys. -/
theorem server_generator_is_3 : serverG = 3 := by decide
theorem pq_bound_is_2_63 : pqMax = 2 ^ 63 := by decide
theorem key_size_is_2048 : Facts.C09.rsaKeyBits = 2048 := by decide

/-- For all tapes of client and server, both modes, any datacenter ids: whenever the client and the
server of the honest composition both finish, they finish with the same 2048-bit auth key value,
hence the same key bytes and key id, and the same server salt. -/
theorem exchange_agree {Ct} (P : XP Ct) (hP : LawfulXP P) (cc : CCfg) (ct : CTape) (sc : SCfg) (st : STape)
    (rc : CResult) (rs : SResult) (tr : List (Msg Ct))
    (h : honestRun P cc ct sc st = (.done rc, .done rs, tr)) :
    rc.key = rs.key ∧ keyBytes rc.key = keyBytes rs.key ∧
    keyID P.sha1 (keyBytes rc.key) = keyID P.sha1 (keyBytes rs.key) ∧ rc.salt = rs.salt := by
  obtain ⟨hk, hs⟩ := honest_agree P hP cc ct sc st rc rs tr h
  rw [hk]
  exact ⟨rfl, rfl, rfl, hs⟩

/-- … and they do finish — with the key `g^(a·b) mod p` — whenever the client trusts the server's
key, pq is composite and its factorisation succeeds, both are configured for the same DC, and the prime and the two
exponents drawn by the tapes pass the client's DH checks. -/
theorem exchange_completes {Ct} (P : XP Ct) (hP : LawfulXP P) (cc : CCfg) (ct : CTape) (sc : SCfg) (st : STape)
    (p q : Nat)
    (htrust : sc.fp ∈ cc.keys) (hpq : st.pq ≤ 2 ^ 63) (hpq1 : 1 < st.pq) (hcomp : P.isPrime st.pq = false)
    (hfac : P.factor st.pq = some (p, q))
    (hdc : cc.dc = sc.dc)
    (hdh : checkDH P.isPrime 3 st.dhPrime = true)
    (hpar : checkDHParams st.dhPrime 3 (3 ^ st.a % st.dhPrime) (3 ^ ct.b % st.dhPrime) = true) :
    (honestRun P cc ct sc st).1 =
      .done ⟨3 ^ (st.a * ct.b) % st.dhPrime, serverSalt ct.newNonce st.serverNonce, ct.sessionId⟩ ∧
    (honestRun P cc ct sc st).2.1 =
      .done ⟨3 ^ (st.a * ct.b) % st.dhPrime, serverSalt ct.newNonce st.serverNonce⟩ := by
  have hg := server_generator_is_3
  have h := honest_completes P hP cc ct sc st p q htrust (by rw [pq_bound_is_2_63]; exact hpq) hpq1 hcomp hfac hdc
    (by rw [hg]; exact hdh) (by simp only [powMod_eq, hg]; exact hpar)
  have e : powMod (powMod serverG st.a st.dhPrime) ct.b st.dhPrime = 3 ^ (st.a * ct.b) % st.dhPrime := by
    rw [powMod_eq, powMod_eq, ← Nat.pow_mod, ← Nat.pow_mul, hg]
  rw [e] at h
  exact h

/-- The in-tree server never offers a weak `g_a`: whatever its random stream draws, the exponent
`TestServerRNG.GA` settles on gives `1 < g_a < p − 1` and `2^1984 < g_a < p − 2^1984` — exactly the
`g_a` part of the client's `CheckDHParams`, so an honest exchange is never aborted for "bad g_a". -/
theorem server_ga_in_safe_range (p : Nat) (draws : List Nat) (a : Nat) (h : pickA p draws = some a) :
    1 < 3 ^ a % p ∧ 3 ^ a % p < p - 1 ∧ 2 ^ 1984 < 3 ^ a % p ∧ 3 ^ a % p < p - 2 ^ 1984 := by
  have hok : gaOK p a = true := by
    unfold pickA at h
    exact List.find?_some h
  unfold gaOK at hok
  simp only [Bool.and_eq_true] at hok
  have h1 := inRange_true _ _ _ hok.1
  have h2 := inRange_true _ _ _ hok.2
  have hg := server_generator_is_3
  have hmin : safetyMin = 2 ^ 1984 := by
    unfold safetyMin; rw [key_size_is_2048]
  rw [powMod_eq, hg] at h1 h2
  rw [hmin] at h2
  exact ⟨h1.1, h1.2, h2.1, h2.2⟩

/-- … and that loop is the one in the source (condition regenerated from exchange/generator.go). -/
theorem server_ga_loop_tests_both_ranges :
    Facts.C09.serverGACond =
      "crypto.InRange(ga, one, dhPrimeMinusOne) && crypto.InRange(ga, safetyRangeMin, safetyRangeMax)" ∧
    Facts.C09.serverGASafetyMin = "big.NewInt(0).Exp(big.NewInt(2), big.NewInt(crypto.RSAKeyBits-64), nil)" ∧
    Facts.C09.serverGASafetyMax = "big.NewInt(0).Sub(dhPrime, safetyRangeMin)" := by
  decide

/-- The client never returns a zero key on success: whatever it was sent, if it completes and the
dh_prime it accepted really is prime (`CheckDH` tests primality probabilistically; here it is a
hypothesis), the auth key value `g_a^b mod p` is non-zero and so are its 256 key bytes. -/
theorem key_nonzero {Ct} (P : XP Ct) (cfg : CCfg) (t : CTape) (ms : List (Msg Ct)) (r : CResult)
    (outs : List (Msg Ct)) (h : crun P cfg t .waitResPQ ms = (.done r, outs))
    (hprime : ∀ n sn ans d, Msg.dhOk n sn ans ∈ ms →
      P.decS (tempAESKeys P.sha1 t.newNonce sn) ans = some d → IsPrime d.dhPrime) :
    r.key ≠ 0 ∧ keyBytes r.key ≠ List.replicate 256 0 := by
  obtain ⟨sn, pq, fps, fp, p, q, ans, d, hash, rest, hms, _, _, _, _, hdec, _, _, hdh, hpar, _, hr⟩ :=
    crun_done_implies P cfg t ms r outs h
  have hp : IsPrime d.dhPrime := hprime t.nonce sn ans d (by rw [hms]; simp) hdec
  obtain ⟨_, _, ha1, ha2, _⟩ := checkDHParams_true _ _ _ _ hpar
  have hk : r.key = d.gA ^ t.b % d.dhPrime := by rw [hr, powMod_eq]
  have hne : r.key ≠ 0 := by
    rw [hk]; exact pow_mod_prime_ne_zero _ _ _ hp (by omega) (by omega)
  refine ⟨hne, fun hz => hne ?_⟩
  have hmod := natToBE_zero 256 r.key hz
  have hbits := (checkDH_true _ _ _ hdh).1
  have hlt : d.dhPrime < 2 ^ 2048 := by
    have h2 : Facts.C09.rsaKeyBits = 2048 := by decide
    rw [h2] at hbits
    unfold bitLen at hbits
    split at hbits
    · omega
    · have := @Nat.lt_log2_self d.dhPrime
      have e : d.dhPrime.log2 + 1 = 2048 := hbits
      rw [e] at this
      exact this
  have hkl : r.key < d.dhPrime := by
    rw [hk]; exact Nat.mod_lt _ (by have := hp.1; omega)
  have e256 : (256 : Nat) ^ 256 = 2 ^ 2048 := by
    rw [show (256 : Nat) = 2 ^ 8 from rfl, ← Nat.pow_mul]
  rw [e256] at hmod
  rw [Nat.mod_eq_of_lt (by omega)] at hmod
  exact hmod

/-- All read/write interleavings over the transport: in the asynchronous product of the two `Run`s
(`Sys`, TdModel/Model/C09Sched.lean: pending writes, two FIFO directions, any action order), every
schedule that runs until nothing is pending ends with client and server in the states of the
sequential composition `honestRun` — so `exchange_agree` / `exchange_completes` hold for every
interleaving. -/
theorem schedule_independent {Ct} (P : XP Ct) (cc : CCfg) (ct : CTape) (sc : SCfg) (st : STape)
    (as : List Act) (y : Sys Ct)
    (h : exec P cc ct sc st (Sys.init ct) as = some y) (hy : y.quiescent) :
    y.c = (honestRun P cc ct sc st).1 ∧ y.s = (honestRun P cc ct sc st).2.1 :=
  sched_independent P cc ct sc st as y h hy

/-- … and the interleaving is in fact forced (strict request/response): two schedules of the same
length are the same schedule. -/
theorem unique_run {Ct} (P : XP Ct) (cc : CCfg) (ct : CTape) (sc : SCfg) (st : STape)
    (as bs : List Act) (y z : Sys Ct)
    (h1 : exec P cc ct sc st (Sys.init ct) as = some y) (h2 : exec P cc ct sc st (Sys.init ct) bs = some z)
    (hl : as.length = bs.length) : as = bs :=
  exec_unique P cc ct sc st _ as bs y z (init_tokens ct) h1 h2 hl

/-- Non-vacuity of the schedule theorems: the first four actions of the run are enabled. -/
example {Ct} (P : XP Ct) (cc : CCfg) (ct : CTape) (sc : SCfg) (st : STape) :
    (exec P cc ct sc st (Sys.init ct) [.cSend, .sRecv, .sSend, .cRecv]).isSome = true := by
  simp [exec, step, Sys.init, sstep]

/-- The symbolic instance used by the driver satisfies the laws: the hypotheses are satisfiable. -/
theorem symXP_lawful (sha1 : Bytes → Bytes) (isPrime : Nat → Bool) (factor : Nat → Option (Nat × Nat)) :
    LawfulXP (symXP sha1 isPrime factor) where
  rsa_dec_enc := by intro fp d pad; simp [symXP]
  decS_encS := by intro k d pad; simp [symXP]
  decC_encC := by intro k d pad; simp [symXP]

/-- Non-vacuity of `exchange_completes` / `exchange_agree` / `client_success_implies`: a concrete
honest exchange exists in the model — symbolic primitives, p = 2^2047 (declared prime by the
oracle), a = 1300, b = 1301, pq = 21 = 3·7 — and both sides end with the key 3^(1300·1301) mod p. -/
example :
    let P := symXP (fun x => x) (fun n => n != 21) (fun n => if n = 21 then some (3, 7) else none)
    let cc : CCfg := ⟨[5], 2, false, 0⟩
    let ct : CTape := ⟨List.replicate 16 1, List.replicate 32 2, 0, 1301, 0, 9⟩
    let sc : SCfg := ⟨5, 2⟩
    let st : STape := ⟨List.replicate 16 3, 21, 2 ^ 2047, 1300, 0, 0⟩
    (honestRun P cc ct sc st).1 = .done ⟨3 ^ (1300 * 1301) % 2 ^ 2047, serverSalt ct.newNonce st.serverNonce, 9⟩ ∧
    (honestRun P cc ct sc st).2.1 = .done ⟨3 ^ (1300 * 1301) % 2 ^ 2047, serverSalt ct.newNonce st.serverNonce⟩ := by
  intro P cc ct sc st
  exact exchange_completes P (symXP_lawful _ _ _) cc ct sc st 3 7 (by decide) (by decide +kernel) (by decide) (by decide)
    (by decide) rfl (by decide +kernel) (by decide +kernel)

/-- The server half of the model is a transliteration of *this* program: `ServerExchange.Run`
regenerated as a statement list (order of receives, guards and sends incl. the `SendResPQ` loop for a
repeated req_pq, both DC comparisons, the error of every exit), the literals it sends or encrypts
field by field, and the definitions of its locals (`g := 3`, the temporary keys from the *client's*
new_nonce and its own server_nonce, the salt from the same two).  Any edit of these breaks this
theorem; the server is pinned, not interpreted (the client is: Props/C10 `program_is_model`). -/
theorem server_program_is :
    Facts.C09.serverProgram = [
  ("recv", "readUnencrypted", ["req"], "err"),
  ("callerr", "crypto.RandInt128", ["s.rand"], "generate server nonce"),
  ("callerr", "s.rng.PQ", [], "generate pq"),
  ("label", "SendResPQ", [], ""),
  ("send", "ResPQ", [], "err"),
  ("recv", "readUnencrypted", ["dhParams"], "err"),
  ("switch", "dhParams.Type", ["mt.ReqPqRequestTypeID", "mt.ReqPqMultiRequestTypeID"], ""),
  ("goto", "SendResPQ", [], ""),
  ("callerr", "crypto.DecodeRSAPad", ["dhParams.DH.EncryptedData", "s.key.RSA"], "wrapKeyNotFound(err)"),
  ("callerr", "mt.DecodePQInnerData", ["b"], "err"),
  ("caseok", "*mt.PQInnerDataDC", [], ""),
  ("ne", "innerDataDC.DC", ["s.dc"], "wrong DC ID, want %d, got %d"),
  ("caseok", "*mt.PQInnerDataTempDC", [], ""),
  ("ne", "innerDataDC.DC", ["s.dc"], "wrong DC ID, want %d, got %d"),
  ("callerr", "s.rng.DhPrime", [], "generate dh_prime"),
  ("callerr", "s.rng.GA", ["g", "dhPrime"], "generate g_a"),
  ("callerr", "data.Encode", ["b"], "err"),
  ("callerr", "crypto.EncryptExchangeAnswer", ["s.rand", "b.Raw()", "key", "iv"], "err"),
  ("send", "ServerDHParamsOk", [], "err"),
  ("recv", "readUnencrypted", ["clientDhParams"], "err"),
  ("callerr", "crypto.DecryptExchangeAnswer", ["clientDhParams.EncryptedData", "key", "iv"], "decrypt exchange answer"),
  ("callerr", "clientInnerData.Decode", ["b"], "wrapKeyNotFound(err)"),
  ("cond", "!crypto.FillBytes(big.NewInt(0).Exp(gB, a, dhPrime), authKey[:])", [], "auth_key is too big"),
  ("send", "DhGenOk", [], "err"),
  ("ret", "", [], "")] ∧
    Facts.C09.serverLiterals = [
  ("ResPQ", [("Pq", "pq.Bytes()"), ("Nonce", "req.Nonce"), ("ServerNonce", "serverNonce"), ("ServerPublicKeyFingerprints", "[]int64{ s.key.Fingerprint(), }")]),
  ("PQInnerData", [("Pq", "d.GetPq()"), ("P", "d.GetP()"), ("Q", "d.GetQ()"), ("Nonce", "d.GetNonce()"), ("ServerNonce", "d.GetServerNonce()"), ("NewNonce", "d.GetNewNonce()")]),
  ("ServerDHInnerData", [("Nonce", "req.Nonce"), ("ServerNonce", "serverNonce"), ("G", "g"), ("GA", "ga.Bytes()"), ("DhPrime", "dhPrime.Bytes()"), ("ServerTime", "int(s.clock.Now().Unix())")]),
  ("ServerDHParamsOk", [("Nonce", "req.Nonce"), ("ServerNonce", "serverNonce"), ("EncryptedAnswer", "answer")]),
  ("DhGenOk", [("Nonce", "req.Nonce"), ("ServerNonce", "serverNonce"), ("NewNonceHash1", "crypto.NonceHash1(innerData.NewNonce, authKey)")])] ∧
    Facts.C09.serverDefs = [
  ("serverNonce", "crypto.RandInt128(s.rand)"),
  ("pq", "s.rng.PQ()"),
  ("dhPrime", "s.rng.DhPrime()"),
  ("g", "3"),
  ("a", "s.rng.GA(g, dhPrime)"),
  ("key", "crypto.TempAESKeys(innerData.NewNonce.BigInt(), serverNonce.BigInt())"),
  ("answer", "crypto.EncryptExchangeAnswer(s.rand, b.Raw(), key, iv)"),
  ("decrypted", "crypto.DecryptExchangeAnswer(clientDhParams.EncryptedData, key, iv)"),
  ("gB", "big.NewInt(0).SetBytes(clientInnerData.GB)"),
  ("serverSalt", "crypto.ServerSalt(innerData.NewNonce, serverNonce)")] := by
  refine ⟨rfl, rfl, rfl⟩

/-- `exchange_completes` for the in-tree server: when the exponent `a` is the one
`TestServerRNG.GA` settles on (`pickA` of the server's draws), nothing has to be assumed about `g_a`,
and nothing about `g = 3` beyond the prime being large: what remains is the client's own `g_b`. -/
theorem exchange_completes_intree {Ct} (P : XP Ct) (hP : LawfulXP P) (cc : CCfg) (ct : CTape) (sc : SCfg) (st : STape)
    (p q : Nat) (draws : List Nat)
    (ha : pickA st.dhPrime draws = some st.a)
    (htrust : sc.fp ∈ cc.keys) (hpq : st.pq ≤ 2 ^ 63) (hpq1 : 1 < st.pq) (hcomp : P.isPrime st.pq = false)
    (hfac : P.factor st.pq = some (p, q)) (hdc : cc.dc = sc.dc)
    (hdh : checkDH P.isPrime 3 st.dhPrime = true)
    (hgb : 2 ^ 1984 < 3 ^ ct.b % st.dhPrime ∧ 3 ^ ct.b % st.dhPrime < st.dhPrime - 2 ^ 1984) :
    (honestRun P cc ct sc st).1 =
      .done ⟨3 ^ (st.a * ct.b) % st.dhPrime, serverSalt ct.newNonce st.serverNonce, ct.sessionId⟩ ∧
    (honestRun P cc ct sc st).2.1 =
      .done ⟨3 ^ (st.a * ct.b) % st.dhPrime, serverSalt ct.newNonce st.serverNonce⟩ := by
  obtain ⟨a1, a2, a3, a4⟩ := server_ga_in_safe_range st.dhPrime draws st.a ha
  apply exchange_completes P hP cc ct sc st p q htrust hpq hpq1 hcomp hfac hdc hdh
  have hmin : safetyMin = 2 ^ 1984 := by unfold safetyMin; rw [key_size_is_2048]
  -- the prime has 2048 bits: in particular it is larger than 8
  have hp8 : 8 ≤ st.dhPrime := by
    have hb := (checkDH_true _ _ _ hdh).1
    rw [key_size_is_2048] at hb
    unfold bitLen at hb
    split at hb
    · omega
    · rename_i hne
      have h1 : 2 ^ st.dhPrime.log2 ≤ st.dhPrime := Nat.log2_self_le hne
      have h2 : st.dhPrime.log2 = 2047 := by omega
      rw [h2] at h1
      have h3 : (2 : Nat) ^ 3 ≤ 2 ^ 2047 := Nat.pow_le_pow_right (by omega) (by omega)
      omega
  simp only [checkDHParams, Facts.C09.dhParamChecks, List.all_cons, List.all_nil, dhVal, dhBnd, Bool.and_true,
    Bool.and_eq_true, inRange, decide_eq_true_eq]
  have hM : 1 ≤ safetyMin := by rw [hmin]; exact Nat.one_le_two_pow
  rw [← hmin] at a3 a4 hgb
  refine ⟨⟨by omega, by omega⟩, ⟨a1, a2⟩, ⟨by omega, by omega⟩, ⟨a3, a4⟩, hgb⟩

/-! ## the byte level (TdModel/Model/C09Bytes.lean): TL encoding of the exchange's constructors,
interpreted from the layouts regenerated from package mt -/

/-- For each of the 14 constructors: the generated `EncodeBare` writes the same kinds of fields, in
the same order, as the generated `DecodeBare` reads; ids fit 32 bits; `Encode`/`Decode` = id + bare. -/
theorem tl_layouts_consistent :
    Facts.C09.tlLayouts.all (fun r => r.2.2.1.map (·.1) == r.2.2.2 && decide (r.2.1 < 2 ^ 32)) = true ∧
    Facts.C09.tlBoxedIsIdThenBare = true := layouts_consistent

/-- Generic object round trip: for every constructor with consistent layouts, whatever `T.Encode`
produces (for field values of the right kinds and sizes) `T.Decode` reads back, field by field,
leaving exactly the bytes that followed the object. -/
theorem tl_object_roundtrip (T : String) (L : Layout) (hL : layoutOf T = some L)
    (hcons : L.enc.map (·.1) = L.dec) (hid : L.id < 2 ^ 32)
    (fields : String → Option FV) (b rest : Bytes) (h : encObj T fields = some b) :
    ∃ vs, collect fields L.enc = some vs ∧ decObj T (b ++ rest) = .ok ((L.enc.map (·.2)).zip vs, rest) :=
  decObj_encObj T L hL hcons hid fields b rest h

/-- `SetBytes(x.Bytes()) = x`. -/
theorem big_bytes_roundtrip (n : Nat) : beNat (natBE n) = n := beNat_natBE n

/-- The three inner-data objects round-trip through their TL bytes (any bytes may follow: random
padding, trailing data), for nonces of the right length and numbers below 2^32768. -/
theorem server_inner_roundtrip (d : SInner) (h : d.wf) :
    ∃ b, encSInner d = some b ∧ ∀ rest, decSInner (b ++ rest) = some d := sinner_roundtrip d h
theorem client_inner_roundtrip (d : CInner) (h : d.wf) :
    ∃ b, encCInner d = some b ∧ ∀ rest, decCInner (b ++ rest) = some d := cinner_roundtrip d h
theorem pq_inner_roundtrip (d : PQInner) (h : d.wf) :
    ∃ b, encPQInner d = some b ∧ ∀ rest, decPQInner (b ++ rest) = some d := pqinner_roundtrip d h

/-- The messages the client reads decode, with the decoder of their step, to what was encoded. -/
theorem resPQ_bytes_roundtrip (n sn : Bytes) (pq : Nat) (fps : List Nat)
    (h1 : n.length = 16) (h2 : sn.length = 16) (h3 : pq < 256 ^ 4096)
    (h4 : fps.length < 2147483648) (h5 : ∀ x ∈ fps, x < 18446744073709551616) :
    ∃ b, encMsg (.resPQ n sn pq fps) = some b ∧ ∀ rest, decServerMsg 0 (b ++ rest) = .resPQ n sn pq fps :=
  resPQ_roundtrip n sn pq fps h1 h2 h3 h4 h5
theorem dhOk_bytes_roundtrip (n sn ct : Bytes) (h1 : n.length = 16) (h2 : sn.length = 16) (h3 : ct.length < 2 ^ 24) :
    ∃ b, encMsg (.dhOk n sn ct) = some b ∧ ∀ rest, decServerMsg 1 (b ++ rest) = .dhOk n sn ct :=
  dhOk_roundtrip n sn ct h1 h2 h3
theorem genOk_bytes_roundtrip (n sn hash : Bytes) (h1 : n.length = 16) (h2 : sn.length = 16) (h3 : hash.length = 16) :
    ∃ b, encMsg (.genOk n sn hash) = some b ∧ ∀ rest, decServerMsg 2 (b ++ rest) = .genOk n sn hash :=
  genOk_roundtrip n sn hash h1 h2 h3
theorem reqPQ_bytes_roundtrip (n : Bytes) (h1 : n.length = 16) :
    ∃ b, encMsg (.reqPQ n) = some b ∧ ∀ rest, decClientMsg (b ++ rest) = .reqPQ n := reqPQ_roundtrip n h1

-- Non-vacuity: the documented sample ResPQ payload
-- (core.telegram.org/mtproto/samples-auth_key) decodes to its fields.
set_option maxRecDepth 20000 in
example : decServerMsg 0 [99, 36, 22, 5, 62, 5, 73, 130, 140, 202, 39, 233, 102, 179, 1, 164, 143, 236, 226, 252, 165, 207, 77, 51, 244, 161, 30, 168, 119, 186, 74, 165, 115, 144, 115, 48, 8, 23, 237, 72, 148, 26, 8, 249, 129, 0, 0, 0, 21, 196, 181, 28, 1, 0, 0, 0, 33, 107, 232, 108, 2, 43, 180, 195] =
    .resPQ [62, 5, 73, 130, 140, 202, 39, 233, 102, 179, 1, 164, 143, 236, 226, 252] [165, 207, 77, 51, 244, 161, 30, 168, 119, 186, 74, 165, 115, 144, 115, 48]
      1724114033281923457 [14101943622620965665] := by decide

end TdModel.C09
