/-
C09 — key exchange with an honest server yields the same key on both sides.
Property theorems only (lemmas: TdModel/Lemmas/C09.lean, C09Run.lean).

The model (TdModel/Model/C09.lean) is the message-level protocol of exchange/client_flow.go and
exchange/server_flow.go; both random streams are explicit tapes, the mode (`cc.temp`) and the
datacenter ids are parameters, and the composite primitives are parameters `P` constrained only by
their round-trip laws (`LawfulXP`).
-/
import TdModel.Lemmas.C09Run

namespace TdModel.C09
open TdModel

/-- Diffie–Hellman agreement: both sides compute the same group element. -/
theorem dh_agree (g a b p : Nat) : (g ^ a % p) ^ b % p = (g ^ b % p) ^ a % p :=
  pow_mod_comm g a b p

/-- The executable modular exponentiation of the model (`big.Int.Exp`) is exponentiation mod `m`. -/
theorem powMod_is_pow (b e m : Nat) : powMod b e m = b ^ e % m := powMod_eq b m e

/-- The constants of the source are the specification's: `g = 3` on the server, `pq ≤ 2^63`,
2048-bit keys. -/
theorem server_generator_is_3 : serverG = 3 := by decide
theorem pq_bound_is_2_63 : pqMax = 2 ^ 63 := by decide
theorem key_size_is_2048 : Facts.C09.rsaKeyBits = 2048 := by decide

/-- For all tapes of client and server, both modes, any datacenter ids: whenever the client and the
server of the honest composition both finish, they finish with the same 2048-bit auth key value,
hence the same key bytes and key id, and the same server salt. -/
theorem exchange_agree {Ct} (P : XP Ct) (hP : LawfulXP P) (cc : CCfg) (ct : CTape) (sc : SCfg) (st : STape)
    (rc : CResult) (rs : SResult) (tr : List (Msg Ct))
    (h : honestRun P cc ct sc st = (.done rc, .done rs, tr)) :
    rc.key = rs.key ∧ keyBytes rc.key = keyBytes rs.key ∧
    keyID P.sha1 (keyBytes rc.key) = keyID P.sha1 (keyBytes rs.key) ∧ rc.salt = rs.salt := by
  obtain ⟨hk, hs⟩ := honest_agree P hP cc ct sc st rc rs tr h
  rw [hk]
  exact ⟨rfl, rfl, rfl, hs⟩

/-- … and they do finish — with the key `g^(a·b) mod p` — whenever the client trusts the server's
key, the factorisation succeeds, both are configured for the same DC, and the prime and the two
exponents drawn by the tapes pass the client's DH checks. -/
theorem exchange_completes {Ct} (P : XP Ct) (hP : LawfulXP P) (cc : CCfg) (ct : CTape) (sc : SCfg) (st : STape)
    (p q : Nat)
    (htrust : sc.fp ∈ cc.keys) (hpq : st.pq ≤ 2 ^ 63) (hfac : P.factor st.pq = some (p, q))
    (hdc : cc.dc = sc.dc)
    (hdh : checkDH P.isPrime 3 st.dhPrime = true)
    (hpar : checkDHParams st.dhPrime 3 (3 ^ st.a % st.dhPrime) (3 ^ ct.b % st.dhPrime) = true) :
    (honestRun P cc ct sc st).1 =
      .done ⟨3 ^ (st.a * ct.b) % st.dhPrime, serverSalt ct.newNonce st.serverNonce, ct.sessionId⟩ ∧
    (honestRun P cc ct sc st).2.1 =
      .done ⟨3 ^ (st.a * ct.b) % st.dhPrime, serverSalt ct.newNonce st.serverNonce⟩ := by
  have hg := server_generator_is_3
  have h := honest_completes P hP cc ct sc st p q htrust (by rw [pq_bound_is_2_63]; exact hpq) hfac hdc
    (by rw [hg]; exact hdh) (by simp only [powMod_eq, hg]; exact hpar)
  have e : powMod (powMod serverG st.a st.dhPrime) ct.b st.dhPrime = 3 ^ (st.a * ct.b) % st.dhPrime := by
    rw [powMod_eq, powMod_eq, ← Nat.pow_mod, ← Nat.pow_mul, hg]
  rw [e] at h
  exact h

/-- The symbolic instance used by the driver satisfies the laws: the hypotheses are satisfiable. -/
theorem symXP_lawful (sha1 : Bytes → Bytes) (isPrime : Nat → Bool) (factor : Nat → Option (Nat × Nat)) :
    LawfulXP (symXP sha1 isPrime factor) where
  rsa_dec_enc := by intro fp d pad; simp [symXP]
  decS_encS := by intro k d pad; simp [symXP]
  decC_encC := by intro k d pad; simp [symXP]

end TdModel.C09
