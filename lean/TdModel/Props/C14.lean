/-
C14 — RSA padding schemes round-trip and follow the specification.
Property theorems only.  Literals (144, 192, 32, 256, 255, 235, 20) are the specification's; the
model computes with the constants regenerated from /repo/crypto (`Facts.C14`).
`P : Prims` (SHA-1, SHA-256, AES-256 block) and `Q : NumPrims` (modular exponentiation) are
arbitrary lawful primitives; the RSA key pair enters through the single hypothesis
`∀ m < N, (m^e mod N)^d mod N = m`, which `rsa_correct` (Mathlib part, below) discharges for textbook RSA.
-/
import TdModel.Lemmas.C14
import TdModel.Mathlib.C14

namespace TdModel.C14
open TdModel TdModel.Bin

/-! ### Regenerated facts equal the specification -/

theorem sizes_are_spec :
    Facts.C14.rsaPadDataLimit = 144 ∧ Facts.C14.dataWithPaddingLength = 192 ∧ Facts.C14.tempKeySize = 32 ∧
    Facts.C14.rsaLen = 256 ∧ Facts.C14.rsaWithHashLen = 255 ∧ Facts.C14.sha1Size = 20 ∧
    Facts.C14.sha256Size = 32 := by decide

theorem source_shape :
    Facts.C14.padLimitCond = "len(data) > rsaPadDataLimit" ∧
    Facts.C14.hashedLimitCond = "len(data) > rsaDataLen" ∧
    Facts.C14.rsaDataLenSrc = "rsaWithHashLen - sha1.Size" ∧
    Facts.C14.dataWithHashLengthSrc = "dataWithPaddingLength + sha256.Size" ∧
    Facts.C14.padRetryCond = "keyAESEncryptedBig.Cmp(key.N) >= 0" ∧
    Facts.C14.guessLoopCond = "i <= len(paddedData)" ∧
    Facts.C14.fillBytesCond = "(bits+7)/8 > len(to)" := by decide

/-- The operands of every step of `RSAPad` / `DecodeRSAPad`, **regenerated from the source and
interpreted by the model** (`Model/C14.lean`: `W`): what is copied and reversed, the `h.Write` sequences
(`temp_key`, `data_with_padding`), cipher key / IV / source of the IGE calls, the xor operands, the
order of the `append`s building `data_with_hash` and `key_aes_encrypted`, the slices taken by the
decoder (`[:32]`, `[32:]`, `[:192]`, `[192:]`), what is compared with the hash, and **every use of the
random source** — all `io.ReadFull`, which is what makes the byte-tape model valid for every chunking
of the reader (`rsaPad` / `rsaEncryptHashed` answer `shortRead` otherwise). -/
theorem pad_operands_are_spec :
    Facts.C14.encCopies = [(.dataWithPadding, .data), (.dataPadReversed, .dataWithPadding)] ∧
    Facts.C14.encReverseArg = [.dataPadReversed] ∧
    Facts.C14.encAppends = [(.dataWithHash, .dataPadReversed), (.keyAESEncrypted, .tempKeyXor),
      (.keyAESEncrypted, .aesEncrypted)] ∧
    Facts.C14.encHashWrites = [.tempKey, .dataWithPadding] ∧
    Facts.C14.encCipherKey = [.tempKey] ∧ Facts.C14.encIgeArgs = [.zeroIV, .aesEncrypted, .dataWithHash] ∧
    Facts.C14.encSum256Arg = [.aesEncrypted] ∧ Facts.C14.encXorArgs = [.tempKeyXor, .tempKey, .aesEncryptedHash] ∧
    Facts.C14.encRsaArg = [.keyAESEncrypted, .unknown] ∧
    Facts.C14.decRsaDst = .encryptedData ∧
    Facts.C14.decSlices = [(.tempKeyXor, .encryptedData, none, some 32), (.aesEncrypted, .encryptedData, some 32, none),
      (.dataWithPadding, .dataWithHash, none, some 192), (.hash, .dataWithHash, some 192, none)] ∧
    Facts.C14.decSum256Arg = [.aesEncrypted] ∧ Facts.C14.decXorArgs = [.tempKey, .tempKeyXor, .aesEncryptedHash] ∧
    Facts.C14.decCipherKey = [.tempKey] ∧ Facts.C14.decIgeArgs = [.zeroIV, .dataWithHash, .aesEncrypted] ∧
    Facts.C14.decReverseArg = [.dataWithPadding] ∧ Facts.C14.decHashWrites = [.tempKey, .dataWithPadding] ∧
    Facts.C14.decCompare = .hash ∧ Facts.C14.decCompareWith = "h.Sum(nil)" ∧
    Facts.C14.padRandomReads = [("io.ReadFull", "dataWithPadding[len(data):]"), ("io.ReadFull", "tempKey")] ∧
    Facts.C14.hashedRandomReads = [("io.ReadFull", "dataWithHash[:]")] :=
  ⟨rfl, rfl, rfl, rfl, rfl, rfl, rfl, rfl, rfl, rfl, rfl, rfl, rfl, rfl, rfl, rfl, rfl, rfl, rfl, rfl, rfl⟩

/-! ### RSA_PAD -/

/-- Size limit: data longer than 144 bytes is refused, up to 144 bytes never for its length. -/
theorem rsaPad_limit (P : Prims) (Q : NumPrims) (key : PubKey) (data tape : Bytes) :
    rsaPad P Q key data tape = .error .tooLong ↔ 144 < data.length := by
  rw [rsaPad_eq_core]; unfold rsaPadCore
  rw [rsaPadDataLimit_eq]
  by_cases h : 144 < data.length
  · simp [h]
  · simp only [gt_iff_lt, h, if_false, iff_false]
    split
    · simp
    · intro hc
      generalize tape.length = fuel at hc
      generalize (data ++ tape.take (dataWithPaddingLength - data.length)) = dwp at hc
      generalize tape.drop (dataWithPaddingLength - data.length) = t at hc
      induction fuel generalizing t with
      | zero => simp [rsaPadLoop] at hc
      | succ n ih =>
        simp only [rsaPadLoop] at hc
        split at hc
        · cases hc
        · split at hc
          · exact ih _ hc
          · cases hc

/-- **Round trip.** Whatever `RSAPad` returns for `data` (necessarily ≤ 144 bytes) decodes, with the
matching private key, to `data` followed by its random padding (the first `192 − len(data)` bytes of
the random source), for every random tape, including every number of `temp_key` retries. -/
theorem rsaPad_roundtrip (P : Prims) (hP : LawfulPrims P) (Q : NumPrims) (hQ : LawfulNum Q)
    (pub : PubKey) (priv : PrivKey) (hn : priv.n = pub.n) (hN : pub.n ≤ 256 ^ 256)
    (hrsa : ∀ m, m < pub.n → (m ^ pub.e % pub.n) ^ priv.d % pub.n = m)
    (data tape c : Bytes) (h : rsaPad P Q pub data tape = .ok c) :
    data.length ≤ 144 ∧ c.length = 256 ∧
      decodeRsaPad P Q priv c = .ok (data ++ tape.take (192 - data.length)) := by
  rw [rsaPad_eq_core] at h; unfold rsaPadCore at h
  rw [rsaPadDataLimit_eq, dataWithPaddingLength_eq] at h
  split at h
  · cases h
  · rename_i hl
    split at h
    · cases h
    · rename_i ht
      obtain ⟨tk, htk, hlt, rfl⟩ := rsaPadLoop_ok P Q pub _ _ _ _ h
      have hd : (data ++ tape.take (192 - data.length)).length = 192 := by
        rw [List.length_append, List.length_take]; omega
      exact ⟨by omega, by simp [rsaEncrypt, rsaLen_eq],
        decode_keyAesEncrypted P hP Q hQ pub priv hn hN hrsa _ tk hd htk hlt⟩

/-- **The encryption is the RSA_PAD construction of the specification.**  For `data` of at most 144
bytes and a random tape holding the padding and `k` whole temp keys, `RSAPad` returns exactly what
the specification text (`Spec.rsaPad`: steps 1–9 with the first acceptable temp key) prescribes, and
fails only when no temp key of the tape is acceptable. -/
theorem rsaPad_is_spec (P : Prims) (Q : NumPrims) (hQ : LawfulNum Q) (key : PubKey)
    (data tape : Bytes) (k : Nat) (hd : data.length ≤ 144)
    (ht : tape.length = (192 - data.length) + 32 * k) :
    rsaPad P Q key data tape =
      match Spec.rsaPad P key.n key.e data (tape.take (192 - data.length))
          (chunks32 k (tape.drop (192 - data.length))) with
      | some c => .ok c
      | none => .error .tape := by
  rw [rsaPad_eq_core]; unfold rsaPadCore Spec.rsaPad Spec.dataWithPadding
  rw [rsaPadDataLimit_eq, dataWithPaddingLength_eq]
  have h1 : ¬ data.length > 144 := by omega
  have h2 : ¬ tape.length < 192 - data.length := by omega
  simp only [h1, h2, if_false]
  rw [rsaPadLoop_eq_spec P Q hQ key _ k tape.length _ (by rw [List.length_drop]; omega) (by omega)]
  generalize List.find? _ _ = o
  cases o <;> rfl

/-- Success of the decoder implies the SHA-256 equation of step 4 for the recovered `temp_key`: a
ciphertext that was altered or made under another key is accepted only if it hits that equation
(rejecting it outright needs preimage resistance of SHA-256 and is exercised, not proved). -/
theorem decodePad_ok_hash (P : Prims) (Q : NumPrims) (key : PrivKey) (c x : Bytes)
    (h : decodeRsaPad P Q key c = .ok x) :
    ∃ enc, rsaDecrypt Q key c 256 = some enc ∧
      let tk := Ige.xorB (enc.take 32) (P.sha256 (enc.drop 32))
      let dwh := Ige.dec (P.aesDec tk) (List.replicate 32 0) (enc.drop 32)
      x = (dwh.take 192).reverse ∧ dwh.drop 192 = P.sha256 (tk ++ x) := by
  rw [decodeRsaPad_unfold, rsaLen_eq] at h
  split at h
  · cases h
  · rename_i enc he
    refine ⟨enc, he, ?_⟩
    simp only at h ⊢
    split at h
    · rename_i heq
      injection h with h
      subst h
      exact ⟨rfl, heq⟩
    · cases h

/-! ### Legacy hashed scheme -/

/-- **Round trip of the hashed scheme**, for data of at most 235 bytes and a modulus of at least
2^2040, under the explicit hypothesis that no *longer* prefix of `data + padding` has the SHA-1 of
`data` (the decoder tries the longest prefix first; a collision there is the only way to fail). -/
theorem hashed_roundtrip (P : Prims) (hP : LawfulPrims P) (Q : NumPrims) (hQ : LawfulNum Q)
    (pub : PubKey) (priv : PrivKey) (hn : priv.n = pub.n) (hN : pub.n ≤ 256 ^ 256)
    (hN' : 256 ^ 255 ≤ pub.n)
    (hrsa : ∀ m, m < pub.n → (m ^ pub.e % pub.n) ^ priv.d % pub.n = m)
    (data tape c : Bytes) (h : rsaEncryptHashed P Q pub data tape = .ok c)
    (hcoll : ∀ k, data.length < k → k ≤ 235 →
      P.sha1 ((data ++ (tape.take 255).drop (20 + data.length)).take k) ≠ P.sha1 data) :
    data.length ≤ 235 ∧ rsaDecryptHashed P Q priv c = .ok data := by
  rw [rsaEncryptHashed_eq_core] at h; unfold rsaEncryptHashedCore at h
  rw [rsaDataLen_eq, rsaWithHashLen_eq, sha1Size_eq] at h
  split at h
  · cases h
  · rename_i hl
    split at h
    · cases h
    · rename_i ht
      injection h with h
      subst h
      refine ⟨by omega, ?_⟩
      have hlen : (P.sha1 data ++ data ++ (tape.take 255).drop (20 + data.length)).length = 255 := by
        simp only [List.length_append, hP.sha1_len, List.length_drop, List.length_take]; omega
      have hlt : beNat (P.sha1 data ++ data ++ (tape.take 255).drop (20 + data.length)) < pub.n :=
        Nat.lt_of_lt_of_le (by have := beNat_lt (P.sha1 data ++ data ++ (tape.take 255).drop (20 + data.length)); rwa [hlen] at this) hN'
      unfold rsaDecryptHashed
      rw [rsaWithHashLen_eq, sha1Size_eq,
        rsaDecrypt_rsaEncrypt Q hQ pub priv hn 255 (by rw [rsaLen_eq]; exact hN) hrsa _ hlen hlt]
      simp only [List.append_assoc]
      rw [take_append_len _ _ _ (hP.sha1_len data), drop_append_len _ _ _ (hP.sha1_len data)]
      have hpl : (data ++ (tape.take 255).drop (20 + data.length)).length = 235 := by
        simp only [List.length_append, List.length_drop, List.length_take]; omega
      rw [hpl, guessData_eq P _ _ 235 data.length (by omega) (by simp) (by
        intro k h1 h2; exact hcoll k h1 h2)]
      simp

/-- Success of the hashed decoder implies the SHA-1 equation. -/
theorem hashedDecrypt_ok_hash (P : Prims) (Q : NumPrims) (key : PrivKey) (c d : Bytes)
    (h : rsaDecryptHashed P Q key c = .ok d) :
    ∃ blk, rsaDecrypt Q key c 255 = some blk ∧ P.sha1 d = blk.take 20 := by
  unfold rsaDecryptHashed at h
  rw [rsaWithHashLen_eq, sha1Size_eq] at h
  split at h
  · cases h
  · rename_i blk hb
    refine ⟨blk, hb, ?_⟩
    simp only at h
    split at h
    · rename_i d' hg
      injection h with h
      subst h
      exact guessData_hash P _ _ _ _ hg
    · cases h

/-! ### Key fingerprint -/

/-- `RSAFingerprint` is a 64-bit value, and the minimal big-endian form it hashes (`big.Int.Bytes()`)
denotes the key's numbers (no leading-zero ambiguity: `beNat (beMin n) = n`). -/
theorem rsaFingerprint_wellformed (P : Prims) (hP : LawfulPrims P) (key : PubKey) :
    rsaFingerprint P key < 2 ^ 64 ∧ beNat (beMin key.n) = key.n ∧ beNat (beMin key.e) = key.e :=
  ⟨rsaFingerprint_lt P hP key, beMin_beNat_roundtrip _, beMin_beNat_roundtrip _⟩

/-! ### Real RSA keys -/

/-- The round trip for a textbook RSA key pair: `N = p·q` (distinct primes, `N ≤ 2^2048`),
`e·d ≡ 1 (mod lcm (p−1) (q−1))` — the RSA law is `rsa_correct` (Mathlib). -/
theorem rsaPad_roundtrip_rsa (P : Prims) (hP : LawfulPrims P) (Q : NumPrims) (hQ : LawfulNum Q)
    (p q e d : Nat) (hp : p.Prime) (hq : q.Prime) (hpq : p ≠ q)
    (hed : e * d ≡ 1 [MOD Nat.lcm (p - 1) (q - 1)]) (hN : p * q ≤ 256 ^ 256)
    (data tape c : Bytes) (h : rsaPad P Q ⟨p * q, e⟩ data tape = .ok c) :
    decodeRsaPad P Q ⟨p * q, d⟩ c = .ok (data ++ tape.take (192 - data.length)) :=
  (rsaPad_roundtrip P hP Q hQ ⟨p * q, e⟩ ⟨p * q, d⟩ rfl hN
    (fun m hm => rsa_correct p q e d m hp hq hpq hed hm) data tape c h).2.2

/-! ### Non-vacuity -/

/-- The hypotheses are jointly satisfiable and the conclusion is not vacuous: the toy primitives are
lawful, `b^e % m` is a lawful `powMod`, `N = 256^256, e = d = 1` satisfies the RSA law, and with them
`RSAPad` succeeds on a 3-byte message (which then round-trips by `rsaPad_roundtrip`). -/
example (tape : Bytes) (ht : tape.length = 221) : ∃ (pub : PubKey) (priv : PrivKey) (c : Bytes),
    LawfulPrims Prims.toy ∧ LawfulNum ⟨fun b e m => b ^ e % m⟩ ∧
    priv.n = pub.n ∧ pub.n ≤ 256 ^ 256 ∧ (∀ m, m < pub.n → (m ^ pub.e % pub.n) ^ priv.d % pub.n = m) ∧
    rsaPad Prims.toy ⟨fun b e m => b ^ e % m⟩ pub [1, 2, 3] tape = .ok c ∧
    decodeRsaPad Prims.toy ⟨fun b e m => b ^ e % m⟩ priv c = .ok ([1, 2, 3] ++ tape.take 189) := by
  obtain ⟨N, hN⟩ : ∃ N, N = 256 ^ 256 := ⟨_, rfl⟩
  have hQ : LawfulNum ⟨fun b e m => b ^ e % m⟩ := fun _ _ _ => rfl
  have hrsa : ∀ m, m < N → (m ^ 1 % N) ^ 1 % N = m := by
    intro m hm
    simp only [Nat.pow_one, Nat.mod_mod]
    exact Nat.mod_eq_of_lt hm
  obtain ⟨c, hc⟩ := rsaPad_ok_of_full Prims.toy Prims.toy_lawful ⟨fun b e m => b ^ e % m⟩ ⟨N, 1⟩
    (Nat.le_of_eq hN.symm) [1, 2, 3] tape (by decide) (by rw [ht]; rfl)
  refine ⟨⟨N, 1⟩, ⟨N, 1⟩, c, Prims.toy_lawful, hQ, rfl, Nat.le_of_eq hN, hrsa, hc, ?_⟩
  exact (rsaPad_roundtrip Prims.toy Prims.toy_lawful _ hQ ⟨N, 1⟩ ⟨N, 1⟩ rfl (Nat.le_of_eq hN) hrsa
    [1, 2, 3] tape c hc).2.2

end TdModel.C14
