/-
C08 — outgoing message ids are unique, increasing and client-typed; seqno rule.
Property theorems only (helper lemmas live in TdModel/Lemmas/C08.lean).

A *call* of `MessageIDGen.New(t)` is a pair (clock reading : Int, message type : Nat); the clock
is arbitrary (frozen, coarse, backwards, advancing by 1..3 ns, before 1970).  A *critical section*
of `Conn.nextMsgSeq(content)` is (clock reading, content?).  Since `nextMsgSeq` is one critical
section of `reqMux` (fact `nextMsgSeqLocked`) that contains the id generation
(`nextMsgSeqCallsGen`, itself one critical section of the generator's mutex, `genNewLocked`),
every concurrent interleaving of callers is a *list* of critical sections, over which the
theorems quantify.
-/
import TdModel.Lemmas.C08

namespace TdModel.C08
open TdModel

/-! ### what the model reads from the source on every run -/

/-- The specification's literals: ids carry 2 type bits (mod 4), client yield 0, 10 ns bump,
seconds in the high 32 bits. -/
theorem constants_are_spec :
    Facts.C08.messageIDModulo = 4 ∧ Facts.C08.yieldClient = 0 ∧ Facts.C08.minResolutionNanos = 10 ∧
    Facts.C08.nanoPerSec = 1000000000 ∧ Facts.C08.idShift = 32 := by decide

/-- `proto.newMessageID` as translated from the Go source on this run (`Facts.C08.newMessageIDT`,
over `Int`, Go's truncating `/ %`, `&= -4`, `<< 32 |`) is the hand-written model, for every
non-negative time and every yield. -/
theorem newMessageID_translated_eq_model (nowNano yield : Int) (h0 : 0 ≤ nowNano) (h1 : 0 ≤ yield) :
    Facts.C08.newMessageIDT nowNano yield = (newMessageID nowNano.toNat yield.toNat : Int) := by
  have := newMessageIDT_eq nowNano.toNat yield.toNat
  rwa [Int.toNat_of_nonneg h0, Int.toNat_of_nonneg h1] at this

/-- `proto.NewMessageIDNano` (the type → yield switch) as translated from the source. -/
theorem newMessageIDNano_translated_eq_model (nano typ : Nat) :
    Facts.C08.newMessageIDNanoT (nano : Int) (typ : Int) = (newMessageIDNano nano typ : Int) :=
  newMessageIDNanoT_eq nano typ

/-- **The body of `MessageIDGen.New` as translated from the source on this run** (state `g.nano`,
input = the clock reading; lock statements dropped) computes the model's `genNext` and the model's
id — for every stored time, every clock reading (also negative) and every requested type.  A
changed condition, operator, mask, bump or branch changes `Facts.C08.genNewT` and breaks this. -/
theorem gen_new_translated_eq_model (g : Nat) (clock : Int) (typ : Nat) :
    genNewT g clock typ = (newMessageID (genNext g clock) (yieldOf typ), genNext g clock) :=
  genNewT_eq g clock typ

/-- **The body of `Conn.nextMsgSeq` as translated from the source** (state
`c.sentContentMessages`, input = the id from `c.newMessageID()`, which asks for
`Facts.C08.connNewType` = client) is the model's critical section. -/
theorem next_msg_seq_translated_eq_model (s : Conn) (clock : Int) (content : Bool) :
    nextMsgSeqT s clock content = nextMsgSeq s clock content :=
  nextMsgSeqT_eq s clock content

/-- What the slices leave out: `MessageIDGen.New` uses `g.nano` / `g.now()` only inside its
`g.mux` critical section, `Conn.nextMsgSeq` uses `c.sentContentMessages` / `c.newMessageID()` only
inside its `c.reqMux` critical section (so any interleaving of callers is a list of critical
sections), and `Conn.newMessageID` asks for a client-typed id. -/
theorem lock_scope :
    Facts.C08.genNewLocked = true ∧ Facts.C08.nextMsgSeqLocked = true ∧ Facts.C08.connNewType = 1 := by decide

/-- Where `(msg_id, seq_no)` pairs come from and go: every `c.nextMsgSeq(…)` call passes a literal
flag — `true` in `Invoke`, `false` in `writeServiceMessage` (acks, pings, get_future_salts) —
`Invoke` builds its request once and passes that same value to every `rpc.Do` (a bad-salt retry
re-sends the same message, it does not mint a new id), `Conn.write` hands its `msgID, seqNo` to
`newEncryptedMessage`, which puts them into every `EncryptedMessageData` it builds. -/
theorem id_seq_reach_the_wire :
    (∀ s ∈ Facts.C08.nextMsgSeqSites, s.2 = "true" ∨ s.2 = "false") ∧
    ("Invoke", "true") ∈ Facts.C08.nextMsgSeqSites ∧
    ("writeServiceMessage", "false") ∈ Facts.C08.nextMsgSeqSites ∧
    Facts.C08.writePassesIdSeq = true ∧
    Facts.C08.invokeRequestWrites = 1 ∧ Facts.C08.invokeAlwaysSendsSameRequest = true ∧
    Facts.C08.encryptedDataLiterals = Facts.C08.encryptedDataLiteralsWithId ∧
    Facts.C08.encryptedDataLiterals = Facts.C08.encryptedDataLiteralsWithSeq ∧
    0 < Facts.C08.encryptedDataLiterals := by decide

/-! ### message ids -/

/-- Every id a generator hands out is strictly greater than all earlier ones — for every sequence
of clock readings and requested types. -/
theorem gen_strict_mono (calls : List (Int × Nat)) :
    (genIds 0 (calls.map fun p => (p.1, yieldOf p.2))).Pairwise (· < ·) :=
  genIds_pairwise _ 0 (by
    intro p hp
    obtain ⟨q, _, rfl⟩ := List.mem_map.mp hp
    exact yieldOf_lt q.2)

/-- "Unique": no two calls of one generator ever return the same id — whatever the clock does
(standing still, going backwards, jumping) and whatever types are requested. -/
theorem gen_ids_unique (calls : List (Int × Nat)) :
    (genIds 0 (calls.map fun p => (p.1, yieldOf p.2))).Nodup :=
  (gen_strict_mono calls).imp (fun h => by omega)

/-- Client-typed ids (the only type `Conn` asks for) are divisible by 4. -/
theorem gen_client_ids_mod4 (clocks : List Int) :
    ∀ id ∈ genIds 0 (clocks.map fun c => (c, yieldOf typFromClient)), id % 4 = 0 :=
  genIds_all_mod4 _ 0 (by
    intro p hp
    obtain ⟨q, _, rfl⟩ := List.mem_map.mp hp
    exact yieldOf_client)

/-- The time an id encodes (the library's `MessageID.Time`) strictly increases along a run, so no
id encodes a time earlier than a previously generated one. -/
theorem gen_time_increasing (calls : List (Int × Nat)) :
    (genIds 0 (calls.map fun p => (p.1, yieldOf p.2))).Pairwise (fun a b => idTime a < idTime b) :=
  genIds_pairwise_of idTime_lt _ 0 (by
    intro p hp
    obtain ⟨q, _, rfl⟩ := List.mem_map.mp hp
    exact yieldOf_lt q.2)

/-- Close to the clock: with `g` the stored time before the call and `c` the clock reading, the
new client id encodes a time at most 3 ns behind the reading, and ahead of it only as far as the
previous id's time plus one 10 ns bump (+3 ns rounding). -/
theorem gen_time_close (g : Nat) (c : Int) :
    c - 3 ≤ idTime (newMessageID (genNext g c) 0) ∧
    idTime (newMessageID (genNext g c) 0) ≤ max (idTime (newMessageID g 0) + 13) c := by
  rw [idTime_newMessageID _ 0 (by omega), idTime_newMessageID _ 0 (by omega)]
  have := genNext_bounds g c
  omega

/-- The stored time itself: never behind the clock or the previous value, ahead by ≤ 10 ns. -/
theorem gen_state_bounds (g : Nat) (c : Int) :
    c ≤ (genNext g c : Int) ∧ g ≤ genNext g c ∧ (genNext g c : Int) ≤ max ((g : Int) + 10) c :=
  genNext_bounds g c

/-- Range: while the stored time is before 2038-01-19 the id is a non-negative `int64`
(the model's `Nat` ids are then exactly Go's). -/
theorem id_fits_int64 (n t : Nat) (hn : n < 2 ^ 31 * 1000000000) : newMessageIDNano n t < 2 ^ 63 :=
  newMessageID_lt_2_63 n _ (yieldOf_lt t) hn

/-- The unrepaired generator (`if nano > g.nano`) returns the same id twice when the clock advances
by 2 ns: the witness of defect D3. -/
theorem gen_old_counterexample :
    genIdsWith genNextOld 0 [(1700000000000001000, 0), (1700000000000001002, 0)]
      = [7301444403200001000, 7301444403200001000] := by decide

/-! ### sequence numbers -/

/-- The i-th message gets twice the number of earlier content messages, plus one if it is itself
a content message — for every sequence of content/service flags. -/
theorem seq_rule (flags : List Bool) (i : Nat) (h : i < flags.length) :
    (seqRun 0 flags)[i]? = some (2 * (flags.take i).count true + (if flags[i] then 1 else 0)) := by
  have := seqRun_getElem flags 0 i h
  simpa using this

/-- Content messages get odd, service messages even sequence numbers. -/
theorem seq_parity (flags : List Bool) (i : Nat) (h : i < flags.length) :
    ∃ s, (seqRun 0 flags)[i]? = some s ∧ (s % 2 = 1 ↔ flags[i] = true) := by
  refine ⟨_, seq_rule flags i h, ?_⟩
  cases flags[i] <;> simp <;> omega

/-! ### the connection: any interleaving of `nextMsgSeq` callers -/

/-- For every list of critical sections (= every interleaving of any number of callers, with any
clock behaviour): ids strictly increase in critical-section order, are client-typed, and the
sequence numbers follow the rule. -/
theorem conn_ids_and_seqs (secs : List (Int × Bool)) :
    ((connRun {} secs).map (·.1)).Pairwise (· < ·) ∧
    (∀ id ∈ (connRun {} secs).map (·.1), id % 4 = 0) ∧
    (∀ i (h : i < secs.length), ((connRun {} secs).map (·.2))[i]? =
      some (2 * ((secs.map (·.2)).take i).count true + (if (secs[i]).2 then 1 else 0))) := by
  rw [connRun_ids, connRun_seqs]
  refine ⟨?_, ?_, ?_⟩
  · exact genIds_pairwise _ 0 (by
      intro p hp
      obtain ⟨q, _, rfl⟩ := List.mem_map.mp hp
      exact yieldOf_lt typFromClient)
  · exact genIds_all_mod4 _ 0 (by
      intro p hp
      obtain ⟨q, _, rfl⟩ := List.mem_map.mp hp
      exact yieldOf_client)
  · intro i h
    have h' : i < (secs.map (·.2)).length := by simpa using h
    have := seq_rule (secs.map (·.2)) i h'
    simpa using this

/-- The same property as one executable check: `holds` — the decidable statement the driver also
evaluates on the implementation's observed `(id, seq_no, content)` triples — is true of every run
of the model, for every interleaving and clock behaviour. -/
theorem conn_holds (secs : List (Int × Bool)) : holds (obsFrom {} secs) = true :=
  holdsFrom_obsFrom secs {} none (Or.inl rfl)

/-! ### the same statements about the regenerated code -/

/-- Ids computed by the translated `MessageIDGen.New` are the model's, hence strictly increasing
for every sequence of clock readings and types. -/
theorem gen_strict_mono_code (calls : List (Int × Nat)) : (genIdsT 0 calls).Pairwise (· < ·) := by
  rw [genIdsT_eq]; exact gen_strict_mono calls

/-- Every run of the translated `nextMsgSeq` satisfies the property's executable statement. -/
theorem conn_code_eq_model (secs : List (Int × Bool)) : connRunT {} secs = connRun {} secs :=
  connRunT_eq secs {}

/-! ### non-vacuity -/

/-- A frozen clock, a clock advancing by 1 ns, one jumping backwards: ids still distinct. -/
example : genIds 0 [(1000, 0), (1000, 0), (1001, 0), (1002, 0), (3, 0), (1004, 0)]
    = [1000, 1008, 1020, 1028, 1040, 1048] := by decide

example : seqRun 0 [true, false, true, true, false] = [1, 2, 3, 5, 6] := by decide

example : connRun {} [(1000, true), (1002, false), (900, true)] = [(1000, 1), (1008, 2), (1020, 3)] := by decide

example : holds [(1000, 1, true), (1008, 2, false), (1020, 3, true)] = true := by decide
example : holds [(1000, 1, true), (1000, 2, false)] = false := by decide

end TdModel.C08
