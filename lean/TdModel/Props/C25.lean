/-
C25 — unacknowledged requests are retransmitted with the same identity, boundedly.

Property theorems only, over the transition system `TdModel.Rpc` (`Model/C24.lean`) of the RPC
engine; `Reachable cfg s` quantifies over all interleavings of any number of calls with acks,
lost acks, results, send failures, cancellation, close and every timing of the (fake) clock.
-/
import TdModel.Lemmas.C25Env
import TdModel.Lemmas.C25Stable
import TdModel.Lemmas.C24Ack
import TdModel.Model.C25Cfg

namespace TdModel.C25
open TdModel.Rpc

/-! `C25.cfg maxRetries interval` (`Model/C25Cfg.lean`) is the engine as it is in the source: the raw
facts regenerated from `rpc/engine.go` / `rpc/ack.go`, interpreted by `Cfg.ofRaw`. -/

theorem source_understood : raw.understood = true := by decide

/-- **The source has the shape the theorems are about** (`Cfg.std`): in particular the timer branch
re-checks `ackChan` and `ctx.Err()` before re-sending, the retry loop selects on exactly context /
close-context / ack channel / timer, `retryUntilAck` unregisters its ack channel when it returns, and
`NotifyAcks` closes and unregisters the channel of every known id and *continues* after an unknown one. -/
theorem source_shape (mr iv : Nat) : (cfg mr iv).std = true := by
  rw [cfg, Cfg.ofRaw_std]; decide

theorem recheck_in_source (mr iv : Nat) : (cfg mr iv).std = true := source_shape mr iv
theorem guard_in_source (mr iv : Nat) : (cfg mr iv).std = true := source_shape mr iv

/-- The retry loop selects on exactly: its context, the engine's close context, the ack channel, the timer. -/
theorem loop_select_in_source :
    Facts.C25.loopSelect = ["<-ctx.Done()", "<-e.reqCtx.Done()", "<-ackChan", "<-timer.C()"] := by decide

/-- `retries++` then `retries >= e.maxRetries` ⇒ `RetryLimitReachedErr`; timer created and reset with `e.retryInterval`. -/
theorem retry_accounting_in_source : Facts.C25.retryLimitCmp = true ∧ Facts.C25.timerUsesInterval = true := by decide

/-- Defaults of `Options.setDefaults`: 5 retries, 10 seconds. -/
theorem defaults_in_source : Facts.C25.defaultMaxRetries = 5 ∧ Facts.C25.defaultRetryIntervalSec = 10 := by decide

/-- **Same identity.**  Every transmission in the log carries the message id, sequence number and
body registered by the call with that id; the log holds exactly the transmissions counted per call. -/
theorem resend_same_identity (mr iv : Nat) (hm : 1 ≤ mr) {s : State} (hr : Reachable (cfg mr iv) s) :
    (∀ j q b, (j, q, b) ∈ s.log → ∃ c, s.calls j = some c ∧ c.seq = q ∧ c.body = b) ∧
    (∀ i c, s.calls i = some c → logCount s.log i = c.sends) := by
  have h := reachable_retry (cfg := cfg mr iv) (guard_in_source mr iv) hm hr
  refine ⟨fun j q b hmem => ?_, h.log_count⟩
  cases hc : s.calls j with
  | none => exact absurd hc (h.log_ex j q b hmem)
  | some c => exact ⟨c, rfl, h.log_ident j q b c hmem hc⟩

/-- the registered identity of a call never changes. -/
theorem identity_immutable (mr iv : Nat) {s s' : State} {a : Action} {i : Nat} {c : Call}
    (hc : s.calls i = some c) (hs : step (cfg mr iv) s a = some s') :
    ∃ c', s'.calls i = some c' ∧ c'.seq = c.seq ∧ c'.body = c.body := by
  obtain ⟨hex, hk⟩ := keeps_step (cfg := cfg mr iv) (recheck_in_source mr iv) hc hs
  cases hc' : s'.calls i with
  | none => exact absurd hc' hex
  | some c' => exact ⟨c', rfl, (hk c' hc').2.2.2.1, (hk c' hc').2.2.2.2.1⟩

/-- **Bounded.**  A call transmits at most `1 + maxRetries` times (failed `send` calls included), for
every retry limit `≥ 1`. -/
theorem sends_le (mr iv : Nat) (hm : 1 ≤ mr) {s : State} (hr : Reachable (cfg mr iv) s)
    {i : Nat} {c : Call} (hc : s.calls i = some c) : c.sends ≤ 1 + mr := by
  have h := reachable_retry (cfg := cfg mr iv) (guard_in_source mr iv) hm hr
  have h1 := h.count_hi i c hc
  have h2 := h.count_extra i c hc
  have h3 := h.retries_le i c hc
  simp only [cfg, Cfg.ofRaw] at h2 h3
  omega

/-- **Retry limit exactly.**  `Do` fails with `RetryLimitReachedErr{Retries: n}` exactly when the
request has been transmitted `1 + maxRetries` times without acknowledgement, and then `n = maxRetries`. -/
theorem retry_limit_iff (mr iv : Nat) (hm : 1 ≤ mr) {s : State} (hr : Reachable (cfg mr iv) s)
    {i : Nat} {c : Call} (hc : s.calls i = some c) :
    (∀ n, c.ret = some (.retryLimit n) → n = mr ∧ c.retries = mr ∧ c.sends = 1 + mr) ∧
    (c.retries = mr → c.ret = some (.retryLimit mr) ∨ (c.pc = .guard ∧ c.pend = .retryLimit mr)) := by
  have h := reachable_retry (cfg := cfg mr iv) (guard_in_source mr iv) hm hr
  refine ⟨fun n hn => ?_, fun hn => h.limit_out i c hc hn⟩
  obtain ⟨h1, h2⟩ := h.out_limit i c n hc (Or.inl hn)
  have h3 := h.count_hi i c hc
  have h4 := h.count_extra i c hc
  have h5 := h.count_lo i c hc
  simp only [cfg, Cfg.ofRaw] at h1 h2 h4
  refine ⟨h1, h2, ?_⟩
  rcases h5 with h5 | ⟨_, _, h6, _⟩
  · omega
  · rw [hn] at h6; cases h6

/-- **Never sent again after an acknowledgement or the result.**  Acknowledgement and result are
stable, and from a state in which the call is acknowledged or has its result no action transmits
it: its transmission count and its entries in the log stay the same. -/
theorem no_send_after_ack_or_result (mr iv : Nat) {s s' : State} {a : Action} {i : Nat} {c : Call}
    (hc : s.calls i = some c) (hs : step (cfg mr iv) s a = some s') :
    ∃ c', s'.calls i = some c' ∧ (c.acked = true → c'.acked = true) ∧ (c.done = true → c'.done = true) ∧
      ((c.acked = true ∨ c.done = true) → c'.sends = c.sends ∧ logCount s'.log i = logCount s.log i) := by
  obtain ⟨hex, hk⟩ := keeps_step (cfg := cfg mr iv) (recheck_in_source mr iv) hc hs
  cases hc' : s'.calls i with
  | none => exact absurd hc' hex
  | some c' =>
    obtain ⟨h1, h2, _, _, _, _, h7⟩ := hk c' hc'
    exact ⟨c', rfl, h1, h2, h7⟩

/-- … along any continuation. -/
theorem no_send_after_ack_or_result_run (mr iv : Nat) {as : List Action} {s s' : State} {i : Nat} {c : Call}
    (hc : s.calls i = some c) (hk : c.acked = true ∨ c.done = true) (hs : run (cfg mr iv) s as = some s') :
    ∃ c', s'.calls i = some c' ∧ c'.sends = c.sends ∧ logCount s'.log i = logCount s.log i := by
  induction as generalizing s c with
  | nil => simp [run] at hs; subst hs; exact ⟨c, hc, rfl, rfl⟩
  | cons a as ih =>
    simp only [run] at hs
    split at hs
    · next s1 h1 =>
      obtain ⟨c1, hc1, ha, hd, hsame⟩ := no_send_after_ack_or_result mr iv hc h1
      have hk1 : c1.acked = true ∨ c1.done = true := hk.elim (fun h => Or.inl (ha h)) (fun h => Or.inr (hd h))
      obtain ⟨c', hc', e1, e2⟩ := ih hc1 hk1 hs
      obtain ⟨e3, e4⟩ := hsame hk
      exact ⟨c', hc', by omega, by omega⟩
    · simp at hs

/-- **Every retry interval.**  Two consecutive transmissions of a call are at least one retry interval
apart on the engine's clock: the timer branch can only run one interval after the latest transmission. -/
theorem retransmission_spacing (mr iv : Nat) (hm : 1 ≤ mr) {s s' : State} (hr : Reachable (cfg mr iv) s)
    {i : Nat} {c : Call} (hc : s.calls i = some c)
    (hs : step (cfg mr iv) s (.loopSel i .tick) = some s') : c.sentAt + iv ≤ s.now := by
  have h := reachable_retry (cfg := cfg mr iv) (guard_in_source mr iv) hm hr
  simp only [step, stepLoop, hc] at hs
  split at hs
  · simp at hs
  · split at hs
    · next hf => exact h.fired_ge i c hc hf
    · simp at hs

/-- … and the timer does fire then: after the clock has travelled, every armed timer whose moment has
come has fired, and a fired timer of an unacknowledged, unanswered, uncancelled call makes the
re-send enabled. -/
theorem timer_fires_and_resends (mr iv d : Nat) {s : State} {i t : Nat} {c : Call}
    (hc : s.calls i = some c) (hd : c.deadline = some t) (ht : t ≤ s.now + d) :
    ∃ c', (stepAdvance s d).calls i = some c' ∧ c'.fired = true ∧
      (c.pc = .loop → c.acked = false → c.ctxC = false → c.done = false →
        ∃ s'', step (cfg mr iv) (stepAdvance s d) (.loopSel i .tick) = some s'' ∧
          ∃ c'', s''.calls i = some c'' ∧ c''.sends = c.sends + 1 ∧ c''.pc = .sendR) := by
  refine ⟨Call.tickTimer (s.now + d) c, by simp [stepAdvance, hc], by simp [Call.tickTimer, hd, ht], ?_⟩
  intro hpc ha hx hdn
  simp [step, stepLoop, stepAdvance, hc, Call.tickTimer, hd, ht, hpc, ha, hx, hdn, Call.retC, setCall,
    Cfg.std_all (source_shape mr iv)]

def ackedAndSends (s : Option State) : Option (Bool × Nat) :=
  s.bind (fun s => (s.calls 1).map (fun c => (c.acked, c.sends)))

/-- **A batch acknowledges every pending id in it.**  `NotifyAcks(ids)` in any reachable state: every
id of the batch that has a registered waiter is acknowledged and unregistered afterwards — whatever
else the batch contains before or after it (ids nobody waits for, ids of finished calls, repeated
ids).  So an acknowledgement that was received is never lost inside the engine. -/
theorem ack_batch_acks_all (mr iv : Nat) {s : State} (hr : Reachable (cfg mr iv) s) (ids : List Nat)
    {i : Nat} (hmem : i ∈ ids) (hreg : s.ack i = true) :
    ∃ c, (stepAck (cfg mr iv) s ids).calls i = some c ∧ c.acked = true ∧ (stepAck (cfg mr iv) s ids).ack i = false :=
  ack_batch (source_shape mr iv) ids s (reachable_inv (source_shape mr iv) hr) i hmem hreg

/-- `NotifyAcks` never closes a channel twice (no "close of closed channel" panic), for any batches. -/
theorem acks_never_panic (mr iv : Nat) {s : State} (hr : Reachable (cfg mr iv) s) : s.panicked = false :=
  (reachable_inv (source_shape mr iv) hr).not_panicked

/-- If the loop of `NotifyAcks` stopped at an unknown id (`break` / `return` instead of `continue`), the
pending request after it would stay unacknowledged … -/
theorem ack_stop_counterexample :
    ackedAndSends (run { Cfg.standard 2 3 with ackUnknown := .stop } init [.start 1 1 7, .sret 1 .ok, .ack [90, 1]])
      = some (false, 1) ∧
    ackedAndSends (run (cfg 2 3) init [.start 1 1 7, .sret 1 .ok, .ack [90, 1]]) = some (true, 1) := by
  decide

/-- … and without `delete(e.ack, id)` a repeated id would close the channel twice. -/
theorem ack_nodelete_counterexample :
    ((run { Cfg.standard 2 3 with ackDelete := false } init [.start 1 1 7, .sret 1 .ok, .ack [1, 1]]).map (·.panicked))
      = some true := by
  decide

/-! ### The defect D14 (pinned tree): without the re-check the property is false -/

/-- The engine with the guard of D13 but without the re-check in the timer branch. -/
def cfgNoRecheck : Cfg := { Cfg.standard 2 3 with recheckAck := false, recheckCtx := false }

/-- send; the acknowledgement arrives; the clock reaches the retry moment; the retry loop's `select`
finds both the ack channel and the timer ready and takes the timer. -/
def d14Trace : List Action := [.start 1 1 7, .sret 1 .ok, .ack [1], .advance 3, .loopSel 1 .tick]

/-- Without the re-check the acknowledged request is transmitted a second time; with it the same
`select` choice leaves the retry loop without sending. -/
theorem d14_counterexample :
    ackedAndSends (run cfgNoRecheck init (d14Trace.take 4)) = some (true, 1) ∧
    ackedAndSends (run cfgNoRecheck init d14Trace) = some (true, 2) ∧
    ackedAndSends (run (cfg 2 3) init d14Trace) = some (true, 1) := by
  decide

/-- Non-vacuity: a reachable state in which a call failed with the retry limit after `1 + 2` transmissions. -/
example : ∃ s, Reachable (cfg 2 3) s ∧ ∃ c, s.calls 1 = some c ∧ c.ret = some (.retryLimit 2) ∧ c.sends = 3 := by
  refine ⟨_, ⟨[.start 1 1 7, .sret 1 .ok, .advance 3, .loopSel 1 .tick, .sret 1 .ok, .advance 3, .loopSel 1 .tick,
    .sret 1 .ok], rfl⟩, ?_⟩
  exact ⟨_, rfl, by decide, by decide⟩

end TdModel.C25
