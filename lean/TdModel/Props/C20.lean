/-
C20 — TL primitive encoding round-trips and is always 4-byte aligned; decoding any bytes as any
primitive never panics and short / malformed input is an error.

Property theorems only (helper lemmas: TdModel/Lemmas/Bin.lean).  `Bytes = List UInt8`;
`bin.Buffer` is "the remaining bytes"; every decoder returns (value, rest), so
`dec (enc v ++ rest) = ok (v, rest)` says at once: same value, exactly `enc v` consumed, the bytes
that follow untouched.  Model: TdModel/Model/Bin.lean (transliteration of /repo/bin).
-/
import TdModel.Lemmas.C20

namespace TdModel.C20
open TdModel TdModel.Bin

/-! ## Facts regenerated from /repo/bin agree with the specification's literals and the model -/

/-- `bin.Word`, the 253/254 short/long switch and the sizes of Int128/Int256 are the TL values, and
are the values the model computes with. -/
theorem facts_layout :
    Facts.C20.word = 4 ∧ Facts.C20.maxSmallStringLength = 253 ∧ Facts.C20.firstLongStringByte = 254 ∧
    Facts.C20.int128Size = 16 ∧ Facts.C20.int256Size = 32 ∧
    Bin.word = Facts.C20.word ∧ Bin.maxSmall = Facts.C20.maxSmallStringLength ∧
    Bin.firstLong = Facts.C20.firstLongStringByte ∧ Bin.int128Size = Facts.C20.int128Size ∧
    Bin.int256Size = Facts.C20.int256Size := by decide

/-- Type ids of the basic TL types (`bin.Type*`) are the schema's, and the model's. -/
theorem facts_type_ids :
    Facts.C20.typeTrue = 0x997275b5 ∧ Facts.C20.typeFalse = 0xbc799737 ∧ Facts.C20.typeVector = 0x1cb5c415 ∧
    Facts.C20.typeIntID = 0xa8509bda ∧ Facts.C20.typeLongID = 0x22076cba ∧ Facts.C20.typeDoubleID = 0x2210c154 ∧
    Facts.C20.typeStringID = 0xb5286e24 ∧ Facts.C20.typeBytes = 0xe937bb82 ∧
    Bin.typeTrue = Facts.C20.typeTrue ∧ Bin.typeFalse = Facts.C20.typeFalse ∧
    Bin.typeVector = Facts.C20.typeVector := by decide

/-- The padding rule regenerated (translated) from `bin.nearestPaddedValueLength` is the model's
`padded` on every length. -/
theorem padding_translated_eq_model (l : Nat) :
    Facts.C20.nearestPaddedValueLength (l : Int) = (padded l : Int) := padG l

/-- …and it is the specification's rule: the least multiple of 4 that is ≥ l. -/
theorem padding_is_next_multiple_of_4 (l : Nat) :
    padded l % 4 = 0 ∧ l ≤ padded l ∧ padded l < l + 4 :=
  ⟨padded_mod l, padded_ge l, padded_lt l⟩

/-- **Encoders regenerated.**  `encodeBytes` and `encodeString` assembled from the pieces translated out
of the Go source — the short-form condition `l <= maxSmallStringLength`, the header bytes
(`byte(l)`; `firstLongStringByte, byte(l), byte(l>>8), byte(l>>16)`), `currentLen`, the padding
amount `nearestPaddedValueLength(currentLen) - currentLen` and the order of the three appends — are,
for every value, the model's `putBytes` / `putString` used in the theorems below. -/
theorem encoders_regenerated (v : Bytes) :
    putBytesG encB v = some (putBytes v) ∧ putBytesG encS v = some (putString v) :=
  ⟨putBytesG_encB v, putBytesG_encS v⟩

/-- **Decoders regenerated.**  `decodeBytes` and `decodeString` assembled from the translated
conditions (`len(b) == 0`, `b[0] == firstLongStringByte`, `len(b) < 4`, `len(b) < strLen+4`,
`len(b) < strLen+1`, `strLen > maxSmallStringLength`), the two length computations, the consumed
lengths and the slice bounds are, for every input, the model's `decodeBytes`; with the translated
padded-length checks and advances of `Buffer.Bytes` / `Buffer.String` they are the model's
`getBytes`. -/
theorem decoders_regenerated (b : Bytes) :
    decodeBytesG decB b = decodeBytes b ∧ decodeBytesG decS b = decodeBytes b ∧
    getBytesG false b = getBytes b ∧ getBytesG true b = getString b :=
  ⟨decodeBytesG_decB b, decodeBytesG_decS b, getBytesG_eq false b, getBytesG_eq true b⟩

/-- **Buffer bounds checks regenerated.**  The translated checks and advances of `PeekID`/`Uint32`,
`Uint64`, `PeekN`/`ConsumeN`, `ConsumeID` and the sign test of `VectorHeader` give, for every input,
the model's decoders. -/
theorem buffer_checks_regenerated (b : Bytes) (n id : Nat) :
    getU32G b = getU32 b ∧ getU64G b = getU64 b ∧ getNG n b = getN n b ∧
    consumeIDG id b = consumeID id b ∧ getVectorHeaderG b = getVectorHeader b :=
  ⟨getU32G_eq b, getU64G_eq b, getNG_eq n b, consumeIDG_eq id b, getVectorHeaderG_eq b⟩

/-- **Bool switch tables regenerated.**  `PutBool` / `Bool` interpreting the `switch` tables extracted
from the source (value ↦ type id, type id ↦ value, default = unexpected id) are the model's. -/
theorem bool_tables_regenerated (v : Bool) (b : Bytes) :
    putBoolG v = some (putBool v) ∧ getBoolG b = getBool b := ⟨putBoolG_eq v, getBoolG_eq b⟩

/-! ## Round trips: `dec (enc v ++ rest) = ok (v, rest)` for every value of every primitive -/

/-- int (`PutInt32`/`PutInt` then `Int32`/`Int`), every int32. -/
theorem int_roundtrip (i : Int) (h : -2 ^ 31 ≤ i ∧ i < 2 ^ 31) (rest : Bytes) :
    getInt32 (putInt32 i ++ rest) = .ok (i, rest) := getInt32_putInt32 i rest h

/-- uint32 / type id (`PutUint32`/`PutID` then `Uint32`/`ID`). -/
theorem uint32_roundtrip (v : Nat) (h : v < 2 ^ 32) (rest : Bytes) :
    getU32 (putU32 v ++ rest) = .ok (v, rest) := getU32_putU32 v rest h

/-- long (`PutLong`/`PutInt53` then `Long`/`Int53`), every int64. -/
theorem long_roundtrip (i : Int) (h : -2 ^ 63 ≤ i ∧ i < 2 ^ 63) (rest : Bytes) :
    getInt64 (putInt64 i ++ rest) = .ok (i, rest) := getInt64_putInt64 i rest h

/-- uint64. -/
theorem uint64_roundtrip (v : Nat) (h : v < 2 ^ 64) (rest : Bytes) :
    getU64 (putU64 v ++ rest) = .ok (v, rest) := getU64_putU64 v rest h

/-- double, as its 64-bit IEEE-754 pattern (so NaN payloads and −0 are covered). -/
theorem double_roundtrip (bits : Nat) (h : bits < 2 ^ 64) (rest : Bytes) :
    getDouble (putDouble bits ++ rest) = .ok (bits, rest) := getU64_putU64 bits rest h

/-- Bool. -/
theorem bool_roundtrip (b : Bool) (rest : Bytes) : getBool (putBool b ++ rest) = .ok (b, rest) :=
  getBool_putBool b rest

/-- int128 (a 16-byte array). -/
theorem int128_roundtrip (v : Bytes) (h : v.length = 16) (rest : Bytes) :
    getInt128 (putInt128 v ++ rest) = .ok (v, rest) := getN_append v rest 16 h

/-- int256 (a 32-byte array). -/
theorem int256_roundtrip (v : Bytes) (h : v.length = 32) (rest : Bytes) :
    getInt256 (putInt256 v ++ rest) = .ok (v, rest) := getN_append v rest 32 h

/-- bytes, every length up to 2^24 − 1 (both the 1-byte and the 254-prefixed 4-byte header). -/
theorem bytes_roundtrip (v : Bytes) (h : v.length < 2 ^ 24) (rest : Bytes) :
    getBytes (putBytes v ++ rest) = .ok (v, rest) := getBytes_putBytes v rest h

/-- string (the same wire format on the string's bytes), every length up to 2^24 − 1. -/
theorem string_roundtrip (v : Bytes) (h : v.length < 2 ^ 24) (rest : Bytes) :
    getString (putString v ++ rest) = .ok (v, rest) := getBytes_putBytes v rest h

/-- vector header, every length an int32 can carry. -/
theorem vector_header_roundtrip (n : Nat) (h : n < 2 ^ 31) (rest : Bytes) :
    getVectorHeader (putVectorHeader n ++ rest) = .ok (n, rest) := getVectorHeader_put n rest h

/-- **Unambiguous concatenation.**  The encodings are prefix-free: when two field sequences start
with encoded byte strings (resp. int32, int64) and are equal as byte streams, the values and the
remainders are equal — a decoder can never split one stream in two ways, and two different values
never encode to the same bytes (take `r₁ = r₂ = []`). -/
theorem encodings_prefix_free :
    (∀ v w r₁ r₂ : Bytes, v.length < 2 ^ 24 → w.length < 2 ^ 24 →
      putBytes v ++ r₁ = putBytes w ++ r₂ → v = w ∧ r₁ = r₂) ∧
    (∀ (i j : Int) (r₁ r₂ : Bytes), (-2 ^ 31 ≤ i ∧ i < 2 ^ 31) → (-2 ^ 31 ≤ j ∧ j < 2 ^ 31) →
      putInt32 i ++ r₁ = putInt32 j ++ r₂ → i = j ∧ r₁ = r₂) ∧
    (∀ (i j : Int) (r₁ r₂ : Bytes), (-2 ^ 63 ≤ i ∧ i < 2 ^ 63) → (-2 ^ 63 ≤ j ∧ j < 2 ^ 63) →
      putInt64 i ++ r₁ = putInt64 j ++ r₂ → i = j ∧ r₁ = r₂) := by
  refine ⟨?_, ?_, ?_⟩
  · intro v w r₁ r₂ hv hw h
    have h1 := bytes_roundtrip v hv r₁
    rw [h, bytes_roundtrip w hw r₂] at h1
    injection h1 with h1; injection h1 with a b
    exact ⟨a.symm, b.symm⟩
  · intro i j r₁ r₂ hi hj h
    have h1 := int_roundtrip i hi r₁
    rw [h, int_roundtrip j hj r₂] at h1
    injection h1 with h1; injection h1 with a b
    exact ⟨a.symm, b.symm⟩
  · intro i j r₁ r₂ hi hj h
    have h1 := long_roundtrip i hi r₁
    rw [h, long_roundtrip j hj r₂] at h1
    injection h1 with h1; injection h1 with a b
    exact ⟨a.symm, b.symm⟩

/-- The 2^24 bound is sharp for the wire format: the 3-byte length field cannot carry 2^24, so the
encoder's header for a 2^24-byte value is the header of an empty long-form value. -/
theorem bytes_header_wraps_at_2_pow_24 : bytesHeader (2 ^ 24) = [254, 0, 0, 0] := by decide

/-! ## Alignment and consumed length -/

/-- Every encoding is a whole number of 4-byte words. -/
theorem encodings_aligned :
    (∀ v, (putU32 v).length % 4 = 0) ∧ (∀ i, (putInt32 i).length % 4 = 0) ∧
    (∀ v, (putU64 v).length % 4 = 0) ∧ (∀ i, (putInt64 i).length % 4 = 0) ∧
    (∀ v, (putDouble v).length % 4 = 0) ∧ (∀ b, (putBool b).length % 4 = 0) ∧
    (∀ v : Bytes, v.length = 16 → (putInt128 v).length % 4 = 0) ∧
    (∀ v : Bytes, v.length = 32 → (putInt256 v).length % 4 = 0) ∧
    (∀ v, (putBytes v).length % 4 = 0) ∧ (∀ v, (putString v).length % 4 = 0) ∧
    (∀ n, (putVectorHeader n).length % 4 = 0) := by
  refine ⟨?_, ?_, ?_, ?_, ?_, ?_, ?_, ?_, putBytes_length_mod, putBytes_length_mod, ?_⟩
  · intro v; simp [putU32]
  · intro i; simp [putInt32, putU32]
  · intro v; simp [putU64]
  · intro i; simp [putInt64, putU64]
  · intro v; simp [putDouble, putU64]
  · intro b; simp [putBool_length]
  · intro v h; simp [putInt128, h]
  · intro v h; simp [putInt256, h]
  · intro n; simp [putVectorHeader_length]

/-- The exact sizes: 4, 8, 8, 4, 16, 32, 8 bytes; strings/bytes: header (1 or 4) + length, rounded up
to a multiple of 4, with the switch at 253/254. -/
theorem encoded_sizes (v : Bytes) :
    (∀ x, (putU32 x).length = 4) ∧ (∀ x, (putU64 x).length = 8) ∧ (∀ b, (putBool b).length = 4) ∧
    (∀ n, (putVectorHeader n).length = 8) ∧
    (putBytes v).length = (if v.length ≤ 253 then padded (v.length + 1) else padded (v.length + 4)) ∧
    (v.length ≤ 253 → (putBytes v).head? = some (UInt8.ofNat v.length)) ∧
    (254 ≤ v.length → (putBytes v).head? = some 254) := by
  refine ⟨putU32_length, putU64_length, putBool_length, putVectorHeader_length, putBytes_length v, ?_, ?_⟩
  · intro h; simp [putBytes, maxSmall, h]
  · intro h
    have : ¬ v.length ≤ 253 := by omega
    simp [putBytes, maxSmall, firstLong, this]

/-- Consumed length = encoded length: whenever a decoder returns the rest that followed an
encoding, it consumed exactly the encoding (one statement for all primitives). -/
theorem consumed_eq_encoded (enc rest : Bytes) : consumed (enc ++ rest) rest = enc.length := by
  simp [consumed]

/-- For arbitrary input, a successful string/bytes decode consumes a positive multiple of 4 bytes
that covers the value, never more than the input, and the value is shorter than 2^24. -/
theorem bytes_decode_consumes_words (b v r : Bytes) (h : getBytes b = .ok (v, r)) :
    consumed b r % 4 = 0 ∧ v.length < 2 ^ 24 ∧ v.length < consumed b r ∧ r.length ≤ b.length :=
  getBytes_ok_consumed h

/-! ## The other direction -/

/-- Fixed-size primitives: whatever was decoded re-encodes to exactly the bytes consumed (decoding
is injective: no two byte strings give the same int / long / id). -/
theorem fixed_size_decode_then_encode (b r : Bytes) :
    (∀ v, getU32 b = .ok (v, r) → putU32 v ++ r = b) ∧ (∀ i, getInt32 b = .ok (i, r) → putInt32 i ++ r = b) ∧
    (∀ v, getU64 b = .ok (v, r) → putU64 v ++ r = b) ∧ (∀ i, getInt64 b = .ok (i, r) → putInt64 i ++ r = b) ∧
    (∀ x n, getN n b = .ok (x, r) → x ++ r = b ∧ x.length = n) ∧
    (∀ id u, consumeID id b = .ok (u, r) → putU32 id ++ r = b) :=
  ⟨fun _ h => getU32_inv h, fun _ h => getInt32_inv h, fun _ h => getU64_inv h, fun _ h => getInt64_inv h,
   fun _ _ h => getN_inv h, fun _ _ h => consumeID_inv h⟩

/-- Strings/bytes are different: the decoder also accepts non-canonical encodings — the long form
for a short value, and padding bytes that are not zero — so decoding is *not* injective there
(observation; the property only asks for `decode ∘ encode = id`). -/
theorem bytes_noncanonical_accepted :
    getBytes [254, 1, 0, 0, 97, 0, 0, 0] = .ok ([97], []) ∧ getBytes [1, 97, 7, 7] = .ok ([97], []) ∧
    putBytes [97] = [1, 97, 0, 0] := by
  refine ⟨by rfl, by rfl, by decide⟩

/-! ## Totality: no decoder panics; short or malformed input is an error

`getU32P … getBytesP` are the transliterations of decode.go / bytes.go / string.go over Go's slice
primitives with their run-time checks made explicit (`Out.panic`).  They are equal to the total
decoders used above, hence never panic, for every input. -/

theorem decoders_never_panic (b : Bytes) :
    getU32P b ≠ .panic ∧ getInt32P b ≠ .panic ∧ getU64P b ≠ .panic ∧ getInt64P b ≠ .panic ∧
    getBoolP b ≠ .panic ∧ getNP 16 b ≠ .panic ∧ getNP 32 b ≠ .panic ∧ getBytesP b ≠ .panic ∧
    getVectorHeaderP b ≠ .panic ∧ (∀ id, consumeIDP id b ≠ .panic) := by
  refine ⟨?_, ?_, ?_, ?_, ?_, ?_, ?_, ?_, ?_, ?_⟩
  · rw [getU32P_eq]; exact Out.ofExcept_ne_panic _
  · rw [getInt32P_eq]; exact Out.ofExcept_ne_panic _
  · rw [getU64P_eq]; exact Out.ofExcept_ne_panic _
  · rw [getInt64P_eq]; exact Out.ofExcept_ne_panic _
  · rw [getBoolP_eq]; exact Out.ofExcept_ne_panic _
  · rw [getNP_eq]; exact Out.ofExcept_ne_panic _
  · rw [getNP_eq]; exact Out.ofExcept_ne_panic _
  · rw [getBytesP_eq]; exact Out.ofExcept_ne_panic _
  · rw [getVectorHeaderP_eq]; exact Out.ofExcept_ne_panic _
  · intro id; rw [consumeIDP_eq]; exact Out.ofExcept_ne_panic _

/-- The panic-explicit decoders compute exactly the decoders of the round-trip theorems. -/
theorem panic_explicit_agrees (b : Bytes) :
    getU32P b = Out.ofExcept (getU32 b) ∧ getInt32P b = Out.ofExcept (getInt32 b) ∧
    getU64P b = Out.ofExcept (getU64 b) ∧ getInt64P b = Out.ofExcept (getInt64 b) ∧
    getBoolP b = Out.ofExcept (getBool b) ∧ getNP 16 b = Out.ofExcept (getInt128 b) ∧
    getNP 32 b = Out.ofExcept (getInt256 b) ∧ getBytesP b = Out.ofExcept (getBytes b) ∧
    getVectorHeaderP b = Out.ofExcept (getVectorHeader b) :=
  ⟨getU32P_eq b, getInt32P_eq b, getU64P_eq b, getInt64P_eq b, getBoolP_eq b, getNP_eq 16 b, getNP_eq 32 b,
   getBytesP_eq b, getVectorHeaderP_eq b⟩

/-- Fixed-size primitives: input shorter than the encoding is `io.ErrUnexpectedEOF`. -/
theorem short_input_is_error (b : Bytes) :
    (b.length < 4 → getU32 b = .error .eof ∧ getInt32 b = .error .eof ∧ getBool b = .error .eof) ∧
    (b.length < 8 → getU64 b = .error .eof ∧ getInt64 b = .error .eof ∧ getDouble b = .error .eof) ∧
    (b.length < 16 → getInt128 b = .error .eof) ∧ (b.length < 32 → getInt256 b = .error .eof) ∧
    (b.length < 8 → getVectorHeader b = .error .eof ∨ getVectorHeader b = .error .unexpectedID) :=
  ⟨fun h => ⟨getU32_short b h, getInt32_short b h, getBool_short b h⟩,
   fun h => ⟨getU64_short b h, getInt64_short b h, getU64_short b h⟩,
   getN_short 16 b, getN_short 32 b, getVectorHeader_short b⟩

/-- Strings/bytes: *every proper prefix* of an encoding is rejected with `io.ErrUnexpectedEOF`
(missing header bytes, missing payload, or missing padding). -/
theorem truncated_bytes_is_error (v : Bytes) (h : v.length < 2 ^ 24) (k : Nat)
    (hk : k < (putBytes v).length) : getBytes ((putBytes v).take k) = .error .eof :=
  getBytes_truncated v h k hk

/-- Malformed: a first byte 255 is never accepted; a Bool must be one of the two ids; a vector
header must carry the vector id and a non-negative length. -/
theorem malformed_is_error (t : Bytes) :
    (getBytes (255 :: t) = .error .eof ∨ getBytes (255 :: t) = .error .invalidLength) ∧
    (∀ v, v < 2 ^ 32 → v ≠ 0x997275b5 → v ≠ 0xbc799737 → getBool (putU32 v ++ t) = .error .unexpectedID) ∧
    (∀ v, v < 2 ^ 32 → v ≠ 0x1cb5c415 → getVectorHeader (putU32 v ++ t) = .error .unexpectedID) ∧
    (∀ n, 2 ^ 31 ≤ n → n < 2 ^ 32 →
      getVectorHeader (putU32 0x1cb5c415 ++ putU32 n ++ t) = .error .invalidLength) := by
  refine ⟨getBytes_prefix_255 t, ?_, ?_, ?_⟩
  · intro v hv h1 h2
    have hl : (putU32 v).length = 4 := putU32_length v
    unfold getBool
    rw [take_append_len _ _ 4 hl]
    have : ¬ (putU32 v ++ t).length < 4 := by simp [hl]
    simp only [this, if_false]
    unfold putU32
    rw [fromLE_leN 4 v (by simpa using hv)]
    simp [typeTrue, typeFalse, h1, h2]
  · intro v hv h1
    have hl : (putU32 v).length = 4 := putU32_length v
    unfold getVectorHeader consumeID
    rw [take_append_len _ _ 4 hl]
    have : ¬ (putU32 v ++ t).length < 4 := by simp [hl]
    simp only [this, if_false]
    unfold putU32
    rw [fromLE_leN 4 v (by simpa using hv)]
    simp [typeVector, h1]
  · intro n h1 h2
    have e : (0x1cb5c415 : Nat) = typeVector := rfl
    rw [e]
    unfold getVectorHeader
    rw [List.append_assoc, consumeID_putU32 typeVector (putU32 n ++ t) (by simp [typeVector])]
    simp only
    rw [getU32_putU32 _ _ h2]
    simp only [toInt32]
    have : ¬ n < 2 ^ 31 := by omega
    simp [this]
    omega

/-! ## `bin.Fields` — the flags word of conditional fields -/

/-- `Set`, `Unset`, `Has` on bit positions 0..31 of a 32-bit word: set makes the bit present, unset
absent, neither touches another position, both stay 32-bit. -/
theorem fields_laws (f n m : Nat) (hf : f < 2 ^ 32) (hn : n < 32) :
    fieldsHas (fieldsSet f n) n = true ∧ fieldsHas (fieldsUnset f n) n = false ∧
    (m ≠ n → fieldsHas (fieldsSet f n) m = fieldsHas f m ∧ fieldsHas (fieldsUnset f n) m = fieldsHas f m) ∧
    fieldsSet f n < 2 ^ 32 ∧ fieldsUnset f n < 2 ^ 32 ∧ (∀ k, fieldsHas 0 k = false) := by
  refine ⟨?_, ?_, ?_, fieldsSet_lt f n hf, fieldsUnset_lt f n hf, ?_⟩
  · rw [fieldsHas_eq, testBit_fieldsSet]; simp [hn]
  · rw [fieldsHas_eq, testBit_fieldsUnset f n n hf]; simp
  · intro hm
    have h1 : ¬ n = m := fun h => hm h.symm
    constructor
    · rw [fieldsHas_eq, fieldsHas_eq, testBit_fieldsSet]; simp [h1]
    · rw [fieldsHas_eq, fieldsHas_eq, testBit_fieldsUnset f n m hf]; simp [h1]
  · intro k; rw [fieldsHas_eq]; simp

/-- Positions ≥ 32 do not exist in a `uint32`: `Has` is false, `Set`/`Unset` change nothing. -/
theorem fields_out_of_range (f n : Nat) (hf : f < 2 ^ 32) (hn : 32 ≤ n) :
    fieldsHas f n = false ∧ fieldsSet f n = f ∧ fieldsUnset f n = f := by
  have hb := bit32_ge n hn
  refine ⟨?_, ?_, ?_⟩
  · rw [fieldsHas_eq]; have : ¬ n < 32 := by omega
    simp [this]
  · simp [fieldsSet, hb]
  · unfold fieldsUnset
    rw [hb, Nat.xor_zero]
    apply Nat.eq_of_testBit_eq
    intro i
    rw [Nat.testBit_and, Nat.testBit_two_pow_sub_one]
    by_cases hi : i < 32
    · simp [hi]
    · have : f.testBit i = false :=
        Nat.testBit_lt_two_pow (Nat.lt_of_lt_of_le hf (Nat.pow_le_pow_right (by decide) (by omega)))
      simp [this]

/-- The flags word round-trips (`Encode` = `PutUint32`, `Decode` = `Int32` reinterpreted). -/
theorem fields_roundtrip (f : Nat) (hf : f < 2 ^ 32) (rest : Bytes) :
    getFields (putFields f ++ rest) = .ok (f, rest) ∧ (putFields f).length % 4 = 0 :=
  ⟨getFields_putFields f hf rest, by simp [putFields, putU32]⟩

/-! ## `bin.Buffer` housekeeping and `bin.Pool` (buffer reuse as the codecs use it) -/

/-- `ResetN`/`Expand` give zero bytes of the requested length (a negative length is the `make`
panic); `Skip` of an encoding's length lands exactly behind it; a buffer taken from the pool is
clean whatever was in it when it was put back. -/
theorem buffer_housekeeping (b x rest recycled : Bytes) (n : Nat) :
    bufResetN (n : Int) = .ok (zeros n) ∧ bufExpand b (n : Int) = .ok (b ++ zeros n) ∧
    bufResetN (-(n : Int) - 1) = .panic ∧
    bufSkip (x ++ rest) x.length = .ok rest ∧
    (b.length < n → bufSkip b n = .panic) ∧
    poolGetSize recycled (n : Int) = .ok (zeros n) ∧ poolGet recycled = [] := by
  have hn0 : ¬ ((n : Int) < 0) := by omega
  refine ⟨?_, ?_, ?_, ?_, ?_, ?_, rfl⟩
  · simp [bufResetN, goMake, hn0]
  · simp [bufExpand, goMake, hn0]
  · have : (-(n : Int) - 1 < 0) := by omega
    simp [bufResetN, goMake, this]
  · simp [bufSkip, goFrom]
  · intro h
    have : ¬ n ≤ b.length := by omega
    simp [bufSkip, goFrom, this]
  · simp [poolGetSize, bufResetN, goMake, hn0]

/-- `Buffer.Read` is a faithful `io.Reader`: for any sequence of read sizes the chunks delivered,
in order, followed by what is left, are the buffer's content; with positive sizes summing to at
least the length the buffer is drained. -/
theorem buffer_read_is_reader (ks : List Nat) (b : Bytes) :
    (readChunks ks b).1.flatten ++ (readChunks ks b).2 = b ∧
    ((∀ k ∈ ks, 0 < k) → b.length ≤ ks.sum → (readChunks ks b).2 = []) :=
  ⟨readChunks_concat ks b, readChunks_drains ks b⟩

/-! ## Non-vacuity: concrete values on both sides of the 253/254 switch -/

example : getBytes (putBytes (List.replicate 253 7) ++ [1, 2]) = .ok (List.replicate 253 7, [1, 2]) :=
  bytes_roundtrip _ (by rw [List.length_replicate]; omega) _
example : getBytes (putBytes (List.replicate 254 7) ++ [1, 2]) = .ok (List.replicate 254 7, [1, 2]) :=
  bytes_roundtrip _ (by rw [List.length_replicate]; omega) _
example : (putBytes (List.replicate 253 7)).length = 256 ∧ (putBytes (List.replicate 254 7)).length = 260 := by
  constructor <;> (rw [putBytes_length, List.length_replicate]; simp [padded, word])
example : putBytes [0x61, 0x62, 0x63] = [3, 0x61, 0x62, 0x63] := by decide
example : getInt32 (putInt32 (-1) ++ [9]) = .ok (-1, [9]) := int_roundtrip (-1) (by omega) [9]
example : getBytes [254, 1, 0] = .error .eof := by rfl
example : getBytesP [254, 1, 0] = .err .eof := by rfl

end TdModel.C20
