/-
C01 — sequenced updates reach the handler in order and at most once.
Property theorems only (helper lemmas live in TdModel/Lemmas/C01.lean).

Model: TdModel/Model/C01.lean (`checkGap` regenerated from the Go source, `gapBuffer.Consume`,
`sequenceBox.Handle/applyPending/SetState`, `gaps.Clear`).  One box = one sequence (common pts,
qts, seq, or one channel's pts); `Sys` is any number of boxes.
-/
import TdModel.Lemmas.C01
import TdModel.Lemmas.C01Prog

namespace TdModel.C01

/-- The classification regenerated from `updates.checkGap` is the specification's:
no position (0) or exactly contiguous → apply; already covered → ignore; ahead → refetch. -/
theorem checkGap_classification (l r c : Int) :
    checkGap l r c =
      if r = 0 then .apply else if l + c = r then .apply
      else if l + c > r then .ignore else .refetch :=
  checkGap_eq l r c

/-- The regenerated result codes are the three distinct iota values. -/
theorem gap_codes : Facts.C01.gapApply = 1 ∧ Facts.C01.gapIgnore = 2 ∧ Facts.C01.gapRefetch = 3 := by
  decide

/-- **The control structure of `sequenceBox.Handle`, `sequenceBox.applyPending` (with its loop)
and `gapBuffer.Consume` (its loop body), regenerated from the Go AST, is the expected one**: the
same statements and conditions, in the same order and nesting, with the same returns, `continue`
and `break`.  (`Lemmas/C01Prog.lean`: the interpreter run on the expected programs is the model
`handle` / `applyPending` / `consume` that every theorem below is about.) -/
theorem programs_regenerated : regenProgs = expProgs ∧ Facts.C01.consumeTailProg = [6] := by decide

/-- The small helpers the programs call, pinned by source text. -/
theorem helpers_src :
    Facts.C01.updStartSrc = "{ return u.State - u.Count }" ∧ Facts.C01.updEndSrc = "{ return u.State }" ∧
    Facts.C01.gapsEnableSrc = "{ if len(b.gaps) > 0 { panic(\"unreachable\") } b.gaps = append(b.gaps, gap{from, to}) }" ∧
    Facts.C01.gapsHasSrc = "{ return len(b.gaps) > 0 }" ∧ Facts.C01.gapsClearSrc = "{ b.gaps = make([]gap, 0, 1) }" ∧
    Facts.C01.setStateSrc = "{ old := s.state s.state = state s.log.Debug(context.Background(), \"State changed\", log.Int(\"old\", old), log.Int(\"new\", state), log.String(\"reason\", reason), ) }" :=
  ⟨rfl, rfl, rfl, rfl, rfl, rfl⟩

/-- **The model follows the code**: one op of the box, computed by interpreting the programs
regenerated from the current source, is one op of the model. -/
theorem step_follows_code (b : Box) (op : Op) : stepI regenProgs b op = step b op := by
  rw [programs_regenerated.1]; exact stepI_eq b op

/-- … in particular `Consume`. -/
theorem consume_follows_code (gaps : List Gap) (u : Upd) : consumeI regenProgs.consumeBody gaps u = consume gaps u := by
  rw [programs_regenerated.1]; exact consumeI_eq gaps u

/-- The fast gap timeout is 500 ms. -/
theorem fastgap_is_500ms : Facts.C01.fastgapTimeoutNs = 500 * 1000 * 1000 := by decide

/-- Outside `sequenceBox`'s own methods the fields of a pts/qts/seq box are touched only where
the model has an op for it: `gaps.Clear()` in the two `getDifference`s (op `clearGaps`), reading
`len(pending)` on shutdown and selecting on `gapTimeout.C` in the two `Run` loops. -/
theorem box_fields_accessed_only_as_modelled :
    Facts.C01.boxFieldAccesses =
      ["channelState.Run:pts.gapTimeout", "channelState.Run:pts.pending",
       "channelState.getDifference:pts.gaps",
       "internalState.Run:pts.gapTimeout", "internalState.Run:pts.pending",
       "internalState.Run:qts.gapTimeout", "internalState.Run:qts.pending",
       "internalState.Run:seq.gapTimeout", "internalState.Run:seq.pending",
       "internalState.getDifference:pts.gaps", "internalState.getDifference:qts.gaps",
       "internalState.getDifference:seq.gaps"] := rfl

/-- Each box is owned by one struct: apart from the two constructors, only methods of
`internalState` / `channelState` (each run by exactly one goroutine) mention `.pts/.qts/.seq`. -/
theorem boxes_owned :
    Facts.C01.boxRefsOutsideOwners = ["newChannelState:pts", "newState:pts", "newState:qts", "newState:seq"] :=
  rfl

/-- The apply callbacks of the pts, qts and channel-pts boxes return only `nil`. -/
theorem apply_callbacks_never_fail :
    Facts.C01.applyPtsReturnsNilOnly = true ∧ Facts.C01.applyQtsReturnsNilOnly = true ∧
    Facts.C01.channelApplyPtsReturnsNilOnly = true := by decide

/-- A batch handed to `internalState.applyPts` / `channelState.applyPts` may contain `affectedPts`
markers (pts-only results of the client's own actions, `Manager.HandleAffected`); the statement that
skips a marker in the conversion loop is `continue`, so the updates after it are still dispatched
(regenerated from the AST; the per-sequence consequences are proved in Props/C02 and C03). -/
theorem marker_skip_is_continue : Facts.C01.applyPtsSkip = 0 ∧ Facts.C01.chApplyPtsSkip = 0 := by decide

/-- `applyPending`: the accepted batch is a chain from the box state to the new state, and what
stays pending is empty or begins with an update still ahead of the new state. -/
theorem applyPending_chain (state : Int) (pending : List Upd) :
    let r := walk state (sortByStart pending)
    chain state r.1 = some r.2.1 ∧
    (r.2.2 = [] ∨ ∃ u us, r.2.2 = u :: us ∧ checkGap r.2.1 u.state u.count = .refetch) :=
  ⟨walk_chain _ _, walk_rest _ _⟩

/-- `Handle` emits nothing, or exactly one batch that is a non-empty chain starting at the box
state; the state afterwards is the end of that batch (or unchanged if the callback failed). -/
theorem handle_emits_chain (b : Box) (u : Upd) (ok : Bool) :
    ((handle b u ok).2 = [] ∧ (handle b u ok).1.state = b.state) ∨
    (∃ ns us, (handle b u ok).2 = [.apply ns us ok] ∧ chain b.state us = some ns ∧ us ≠ [] ∧
        (handle b u ok).1.state = if ok then ns else b.state) :=
  handle_shape b u ok

/-- The local position moves only to the end of a batch delivered in order, or to a position set
by a fetched difference. -/
theorem state_moves_only_by_apply_or_setState (b : Box) (op : Op)
    (h : (step b op).1.state ≠ b.state) :
    (∃ x, op = .setState x ∧ (step b op).1.state = x) ∨
    (∃ us, (step b op).2 = [.apply (step b op).1.state us true] ∧
        chain b.state us = some (step b op).1.state ∧ us ≠ []) := by
  cases op with
  | setState x => left; exact ⟨x, rfl, rfl⟩
  | clearGaps => exact absurd rfl h
  | handle u ok =>
    right
    rcases handle_shape b u ok with ⟨_, h2⟩ | ⟨ns, us, h1, h2, h3, h4⟩
    · exact absurd h2 h
    · cases ok
      · exact absurd (by simpa [step] using h4) h
      · have h4' : (handle b u true).1.state = ns := by simpa using h4
        exact ⟨us, by simp only [step]; rw [h4', h1], by simp only [step]; rw [h4']; exact h2, h3⟩
  | applyPending ok =>
    right
    rcases applyPending_shape b ok b rfl with ⟨_, h2⟩ | ⟨ns, us, h1, h2, h3, h4⟩
    · exact absurd h2 h
    · cases ok
      · exact absurd (by simpa [step] using h4) h
      · have h4' : (applyPending b true).1.state = ns := by simpa using h4
        exact ⟨us, by simp only [step]; rw [h4', h1], by simp only [step]; rw [h4']; exact h2, h3⟩

/-- **In order.** For every starting box (reachable or not) and every op list — any interleaving
of arrivals with loss, duplication, reordering, overlapping multi-count updates, differences,
gap clears and failing callbacks — every batch handed to the callback is a chain from the current
position, the callback's new state is the end of the batch, and `State()` after every op equals
that cursor. -/
theorem run_holds (b : Box) (ops : List Op) : holds b.state (observe b ops) = true :=
  holds_observe ops b

/-- **At most once.** If differences never move the position backwards and every offered or
initially pending update has a positive position and a non-negative count, the delivered updates
are ordered: each ends at or before the start of every later one. -/
theorem delivered_disjoint (b : Box) (ops : List Op)
    (hpos : ∀ u, u ∈ offered ops ∨ u ∈ b.pending → 0 < u.state ∧ 0 ≤ u.count)
    (hmono : monoDiffs b.state (events b ops) = true) :
    (delivered (events b ops)).Pairwise (fun u v => u.state ≤ v.start) := by
  have hp : ∀ u ∈ delivered (events b ops), u.state ≠ 0 ∧ 0 ≤ u.count := by
    intro u hu
    have := hpos u (delivered_sub ops b u hu)
    exact ⟨by omega, this.2⟩
  exact orderedRanges_pairwise _ (walkEvs_ordered _ _ _ (events_walkEvs ops b) hmono hp).2

/-- … hence no position is handed to the callback twice: at most one delivered update covers
any given position `p` (`start < p ≤ end`). -/
theorem position_delivered_at_most_once (b : Box) (ops : List Op) (p : Int)
    (hpos : ∀ u, u ∈ offered ops ∨ u ∈ b.pending → 0 < u.state ∧ 0 ≤ u.count)
    (hmono : monoDiffs b.state (events b ops) = true) :
    ((delivered (events b ops)).filter (covers p)).length ≤ 1 := by
  have hp : ∀ u ∈ delivered (events b ops), u.state ≠ 0 ∧ 0 ≤ u.count := by
    intro u hu
    have := hpos u (delivered_sub ops b u hu)
    exact ⟨by omega, this.2⟩
  exact ordered_covers_le_one _ p (walkEvs_ordered _ _ _ (events_walkEvs ops b) hmono hp).2
    (fun u hu => (hp u hu).2)

/-- **Independent sequences.** In any interleaving of ops on any number of boxes, the events and
the final state of box `k` are those of box `k` run alone on its own ops (each `sequenceBox` is
owned by one goroutine, see `boxes_owned`). -/
theorem boxes_independent (s : Sys) (k : Nat) (ops : List (Nat × Op)) :
    Sys.events s k ops = events (s k) (proj k ops) ∧ (Sys.run s ops) k = run (s k) (proj k ops) :=
  ⟨sys_events_proj k ops s, sys_run_proj k ops s⟩

/-! ### Non-vacuity -/

/-- `TestSequenceBox`'s history (initial 3; 2, 3 outdated; 4 applied; 6 parked; 5 fills the gap;
8 opens a new gap), then a fetched difference. -/
def testHistory : List Op :=
  [.handle ⟨2, 1, 1⟩ true, .handle ⟨3, 1, 2⟩ true, .handle ⟨4, 1, 3⟩ true, .handle ⟨6, 1, 4⟩ true,
   .handle ⟨5, 1, 5⟩ true, .handle ⟨8, 1, 6⟩ true, .clearGaps, .setState 8]

example : delivered (events { state := 3 } testHistory) = [⟨4, 1, 3⟩, ⟨5, 1, 5⟩, ⟨6, 1, 4⟩] := by decide
example : (run { state := 3 } testHistory).state = 8 := by decide
example : monoDiffs 3 (events { state := 3 } testHistory) = true := by decide

/-- Overlapping multi-count updates: (13..15] parked, (10..13] fills the gap; the overlapping
(10..12] and (12..13] arrive late and are dropped as outdated. -/
def overlapHistory : List Op :=
  [.handle ⟨15, 2, 1⟩ true, .handle ⟨13, 3, 2⟩ true, .handle ⟨12, 2, 3⟩ true, .handle ⟨13, 1, 4⟩ true]

example : delivered (events { state := 10 } overlapHistory) = [⟨13, 3, 2⟩, ⟨15, 2, 1⟩] := by decide

/-- The monotonicity hypothesis is needed: a difference that moves the position backwards makes
the box deliver position 11 twice. -/
example : delivered (events { state := 10 } [.handle ⟨11, 1, 1⟩ true, .setState 10, .handle ⟨11, 1, 2⟩ true])
    = [⟨11, 1, 1⟩, ⟨11, 1, 2⟩] := by decide

end TdModel.C01
