/-
C16 — transport codecs deliver exactly the frames that were sent.
Property theorems only (helper lemmas: TdModel/Lemmas/C16C17.lean, C16.lean, C16Send.lean).

Model: `TdModel.Codec` (Model/C16C17.lean) — writers, panic-explicit readers, headers, detection —
instantiated with the configuration `TdModel.C16.cfg` regenerated from the source; the sender
transition system `TdModel.C16.sstep` (Model/C16.lean).  `crc` (hash/crc32) is a parameter of which
only `crc x < 2^32` is used.  Reading is `take n` on the whole remaining stream (`io.ReadFull`), so
every statement holds for every chunking of the byte stream into reads.
-/
import TdModel.Model.C16
import TdModel.Lemmas.C16
import TdModel.Lemmas.C16Send

namespace TdModel.C16
open TdModel TdModel.Bin TdModel.Codec

/-- Tie: every decision and arithmetic expression translated from the current source *means* what the
specification says (frame limit 2^24 on the payload when writing and on the wire length minus the
writer's envelope when reading, alignment 4, abridged switch at 127 words with marker 0x7f, full
length word `len+12`, padding `last byte % 4`, tags `ef`, `eeeeeeee`, `dddddddd`) — proved by
arithmetic for all arguments, field by field. -/
theorem cfg_is_spec : cfg = Cfg.spec := by
  have tm : ∀ (a : Nat), Int.tmod (a : Int) 4 = ((a % 4 : Nat) : Int) := fun a => (Int.ofNat_tmod a 4).symm
  apply Cfg.ext
  case lenRejects => funext n e; simp only [cfg, Cfg.spec, Facts.C16.lenRejects]; rw [Bool.eq_iff_iff]; simp; omega
  case outRejects => funext n; simp only [cfg, Cfg.spec, Facts.C16.outRejects]; rw [Bool.eq_iff_iff]; simp; omega
  case abrShort => funext n; simp only [cfg, Cfg.spec, Facts.C16.abrShort]; rw [Bool.eq_iff_iff]; simp; omega
  case abrLong => funext n; simp only [cfg, Cfg.spec, Facts.C16.abrLong]; rw [Bool.eq_iff_iff]; simp; omega
  case abrRejects => funext n; simp only [cfg, Cfg.spec, Facts.C16.abrRejects]; rw [Bool.eq_iff_iff]; simp; omega
  case fullRejects => funext n; simp only [cfg, Cfg.spec, Facts.C16.fullRejects]; rw [Bool.eq_iff_iff]; simp; omega
  case misaligned => funext n; simp only [cfg, Cfg.spec, Facts.C16.misaligned, tm]; rw [Bool.eq_iff_iff]; simp; omega
  case isCode => funext n; simp only [cfg, Cfg.spec, Facts.C16.notCode]; rw [Bool.eq_iff_iff]; simp; omega
  case abrWords => funext n; simp only [cfg, Cfg.spec, Facts.C16.abrWords]; try omega
  case abrBytes => funext n; simp only [cfg, Cfg.spec, Facts.C16.abrBytes]; try omega
  case fullExpand => funext n; simp only [cfg, Cfg.spec, Facts.C16.fullExpand]; try omega
  case fullInnerHi => funext n; simp only [cfg, Cfg.spec, Facts.C16.fullInnerHi]; try omega
  case fullPayload => funext n; simp only [cfg, Cfg.spec, Facts.C16.fullPayload]; try omega
  case fullCrcHi => funext n; simp only [cfg, Cfg.spec, Facts.C16.fullCrcHi]; try omega
  case fullCopyHi => funext n; simp only [cfg, Cfg.spec, Facts.C16.fullCopyHi]; try omega
  case fullWire => funext n; simp only [cfg, Cfg.spec, Facts.C16.fullWire]; try omega
  case padOf => funext n; simp only [cfg, Cfg.spec, Facts.C16.padOf, tm]; try omega
  case padStrip => funext n; simp only [cfg, Cfg.spec, Facts.C16.padStrip, tm]; try omega
  case fullInnerLo => funext n; simp only [cfg, Cfg.spec, Facts.C16.fullInnerLo]
  case fullCrcLo => funext n; simp only [cfg, Cfg.spec, Facts.C16.fullCrcLo]
  case fullCopyLo => funext n; simp only [cfg, Cfg.spec, Facts.C16.fullCopyLo]
  case abrMark => decide
  case fullEnvelope => decide
  case fullSeqAfterCheck => decide
  case padEnvelope => decide
  case tagAbridged => decide
  case tagIntermediate => decide
  case tagPadded => decide

theorem frame_limit_is_16MiB : Facts.C16.maxMessageSize = 2 ^ 24 ∧
    (∀ l : Nat, cfg.outRejects l = decide (l > 2 ^ 24 ∨ l = 0)) := by
  refine ⟨by decide, fun l => ?_⟩
  rw [cfg_is_spec]; rfl
theorem abridged_switch_is_127 : (∀ w : Nat, cfg.abrShort w = decide (w < 127)) ∧
    (∀ b : Nat, cfg.abrLong b = decide (b ≥ 127)) ∧ cfg.abrMark = 0x7f := by
  rw [cfg_is_spec]; exact ⟨fun _ => rfl, fun _ => rfl, rfl⟩
theorem tags : cfg.tagAbridged = [0xef] ∧ cfg.tagIntermediate = [0xee, 0xee, 0xee, 0xee]
    ∧ cfg.tagPadded = [0xdd, 0xdd, 0xdd, 0xdd] := by decide

/-- Call-site fact: the readers reach the stream only through `io.ReadFull` (⇒ chunking independence). -/
theorem reads_only_via_ReadFull : Facts.C16.readsOnlyViaReadFull = true := by decide
/-- Lock-scope facts: `Send` holds `writeMux` (and `Recv` holds `readMux`) across the codec call. -/
theorem send_holds_writeMux : Facts.C16.sendHoldsWriteMux = true := by decide
theorem recv_holds_readMux : Facts.C16.recvHoldsReadMux = true := by decide
theorem detect_shape : Facts.C16.detectShape = true := by decide

/-- A payload the property quantifies over: 8 … 2^24 bytes, a multiple of 4. -/
def Valid (p : Bytes) : Prop := 8 ≤ p.length ∧ p.length ≤ 2 ^ 24 ∧ p.length % 4 = 0

instance (p : Bytes) : Decidable (Valid p) := by unfold Valid; infer_instance

/-- The writer accepts every valid payload. -/
theorem write_accepts (crc : Bytes → Nat) (k : Kind) (seq : Int) (rnd p : Bytes) (hp : Valid p) :
    enc cfg crc k seq rnd p = .ok (encRaw cfg crc k seq rnd p) := by
  obtain ⟨h8, hmax, h4⟩ := hp
  have hmax' : p.length ≤ 16777216 := hmax
  rw [cfg_is_spec]
  unfold enc
  have h1 : Cfg.spec.outRejects p.length = false := by
    rw [spec_outRejects, decide_eq_false_iff_not]; omega
  have h2 : ¬ (k ≠ .full ∧ Cfg.spec.misaligned p.length = true) := by
    rw [spec_misaligned]; simp [h4]
  simp only [h1, h2, Bool.false_eq_true, if_false]

/-- **One frame.**  For every protocol, reading what `Write` produced for a valid payload — followed
by any further bytes — returns exactly that payload and leaves exactly those further bytes. -/
theorem frame_roundtrip (crc : Bytes → Nat) (hcrc : ∀ x, crc x < 2 ^ 32) (k : Kind) (seq : Int)
    (hseq : -2 ^ 31 ≤ seq ∧ seq < 2 ^ 31) (rnd : Bytes) (hrnd : rnd.length = 4)
    (p rest : Bytes) (hp : Valid p) :
    (read cfg crc k seq (encRaw cfg crc k seq rnd p ++ rest)).out = .ok p rest := by
  obtain ⟨h8, hmax, h4⟩ := hp
  rw [cfg_is_spec]
  exact read_encRaw crc k seq rnd p rest (by omega) (by omega) (fun _ => h4) (by omega) hcrc hseq (by omega)

/-- Corollary: frame boundaries are unambiguous.  If the wire forms of two valid payloads (same
protocol and counter, any padding randomness), each followed by arbitrary bytes, are the same byte
stream, then the payloads and the following bytes are the same — no stream can be framed in two ways. -/
theorem frame_boundaries_unambiguous (crc : Bytes → Nat) (hcrc : ∀ x, crc x < 2 ^ 32) (k : Kind) (seq : Int)
    (hseq : -2 ^ 31 ≤ seq ∧ seq < 2 ^ 31) (rnd₁ rnd₂ : Bytes) (h1 : rnd₁.length = 4) (h2 : rnd₂.length = 4)
    (p q r₁ r₂ : Bytes) (hp : Valid p) (hq : Valid q)
    (h : encRaw cfg crc k seq rnd₁ p ++ r₁ = encRaw cfg crc k seq rnd₂ q ++ r₂) : p = q ∧ r₁ = r₂ := by
  have a := frame_roundtrip crc hcrc k seq hseq rnd₁ h1 p r₁ hp
  have b := frame_roundtrip crc hcrc k seq hseq rnd₂ h2 q r₂ hq
  rw [h, b] at a
  injection a with x y
  exact ⟨x.symm, y.symm⟩

/-- **Whole streams.**  A receiver reading the stream produced for any sequence of valid payloads gets
exactly that sequence, in order, and the stream is used up (full: counters `seq, seq+1, …`). -/
theorem stream_roundtrip (crc : Bytes → Nat) (hcrc : ∀ x, crc x < 2 ^ 32) (k : Kind) (seq : Int)
    (rnd : Nat → Bytes) (hrnd : ∀ i, (rnd i).length = 4) (ps : List Bytes) (hps : ∀ p ∈ ps, Valid p)
    (hlo : -2 ^ 31 ≤ seq) (hhi : seq + ps.length ≤ 2 ^ 31) :
    let stream := encAll cfg crc k seq rnd ps
    decAll cfg crc k (stream.length + 1) seq stream = (ps.map .frame, none) := by
  rw [cfg_is_spec]
  have hv : ∀ p ∈ ps, 0 < p.length ∧ p.length ≤ 16777216 ∧ (k ≠ .full → p.length % 4 = 0) ∧ p.length ≠ 4 := by
    intro p hp
    obtain ⟨h8, hmax, h4⟩ := hps p hp
    exact ⟨by omega, by omega, fun _ => h4, by omega⟩
  have hlen := encAll_length_ge Cfg.spec crc k ps seq rnd (fun p hp => (hv p hp).1)
  exact decAll_encAll crc k hcrc ps seq rnd _ hv (fun i => by rw [hrnd i]; omega) hlo hhi (by omega)

/-- **A failed write changes nothing.**  A `Write` that is rejected (empty payload, payload over the
limit, unaligned payload) puts nothing on the wire and leaves the codec's counter where it was
(tie: `Full.Write` takes its sequence number only after the checks — statement-order fact
`fullSeqAfterCheck`, interpreted by `writeOp`). -/
theorem rejected_write_keeps_state (crc : Bytes → Nat) (k : Kind) (wSeq : Int) (rnd p : Bytes)
    (h : accepts cfg k p = false) :
    (writeOp cfg crc k wSeq rnd p).2 = wSeq ∧ sessionWire [(writeOp cfg crc k wSeq rnd p).1] = [] := by
  rw [cfg_is_spec] at h ⊢; exact writeOp_rejected crc k wSeq rnd p h

/-- **Sessions.**  Any sequence of `Write` calls on one codec object, valid payloads mixed with
rejected ones in any order: the receiver reading what reached the wire gets exactly the accepted
payloads, in order, and the stream is used up — the rejected calls leave no gap in the numbering. -/
theorem session_delivers_accepted (crc : Bytes → Nat) (hcrc : ∀ x, crc x < 2 ^ 32) (k : Kind) (seq : Int)
    (ops : List (Bytes × Bytes)) (hrnd : ∀ o ∈ ops, o.1.length = 4)
    (hvalid : ∀ o ∈ ops, accepts cfg k o.2 = true → Valid o.2)
    (hlo : -2 ^ 31 ≤ seq) (hhi : seq + ops.length ≤ 2 ^ 31) :
    let wire := sessionWire (writeSession cfg crc k seq ops).1
    decAll cfg crc k (wire.length + 1) seq wire
      = (((ops.filter fun o => accepts cfg k o.2).map (·.2)).map .frame, none) := by
  rw [cfg_is_spec]
  rw [cfg_is_spec] at hvalid
  simp only
  let acc := ops.filter fun o => accepts Cfg.spec k o.2
  have hacc : ∀ o ∈ acc, accepts Cfg.spec k o.2 = true := fun o ho => (List.mem_filter.mp ho).2
  rw [(session_filter crc k ops seq).1, (session_all_accepted crc k acc seq hacc).1]
  have hlen : acc.length ≤ ops.length := List.length_filter_le _ _
  have hv : ∀ p ∈ acc.map (·.2), 0 < p.length ∧ p.length ≤ 16777216 ∧ (k ≠ .full → p.length % 4 = 0) ∧ p.length ≠ 4 := by
    intro p hp
    obtain ⟨o, ho, rfl⟩ := List.mem_map.mp hp
    obtain ⟨h8, hmax, h4⟩ := hvalid o (List.mem_filter.mp ho).1 (hacc o ho)
    have hmax' : o.2.length ≤ 16777216 := hmax
    exact ⟨by omega, hmax', fun _ => h4, by omega⟩
  have hlenw := encAll_length_ge Cfg.spec crc k (acc.map (·.2)) seq (fun i => (acc.getD i ([], [])).1)
    (fun p hp => (hv p hp).1)
  -- random bytes: every accepted op carries four; indices past the end are never used
  have hdec := decAll_encAll crc k hcrc (acc.map (·.2)) seq (fun i => if i < acc.length then (acc.getD i ([], [])).1 else [0, 0, 0])
    ((encAll Cfg.spec crc k seq (fun i => (acc.getD i ([], [])).1) (acc.map (·.2))).length + 1) hv
    (by
      intro i
      by_cases hi : i < acc.length
      · simp only [hi, if_true]
        have hm : acc.getD i ([], []) ∈ acc := by
          rw [List.getD_eq_getElem?_getD, List.getElem?_eq_getElem hi]; exact List.getElem_mem _
        rw [hrnd _ (List.mem_filter.mp hm).1]; omega
      · simp [hi])
    hlo (by simp only [List.length_map]; omega) (by simp only [List.length_map] at hlenw ⊢; omega)
  have hsame : encAll Cfg.spec crc k seq (fun i => if i < acc.length then (acc.getD i ([], [])).1 else [0, 0, 0]) (acc.map (·.2))
      = encAll Cfg.spec crc k seq (fun i => (acc.getD i ([], [])).1) (acc.map (·.2)) := by
    apply encAll_rnd_congr
    intro i hi
    simp only [List.length_map] at hi
    simp [hi]
  rw [hsame] at hdec
  exact hdec

/-- **Four-byte frames are transport error codes** (`-code` as an int32), for every protocol. -/
theorem four_bytes_is_error_code (crc : Bytes → Nat) (hcrc : ∀ x, crc x < 2 ^ 32) (k : Kind) (seq : Int)
    (hseq : -2 ^ 31 ≤ seq ∧ seq < 2 ^ 31) (rnd : Bytes) (hrnd : rnd.length = 4)
    (p rest : Bytes) (h : p.length = 4) :
    (read cfg crc k seq (encRaw cfg crc k seq rnd p ++ rest)).out = .err (.proto (negInt32 (fromLE p))) := by
  rw [cfg_is_spec]
  exact read_encRaw_code crc k seq rnd p rest h hcrc hseq (by omega)

/-- **Detection, tagged protocols**: the listener recognises the header and hands the codec exactly
what follows it. -/
theorem detect_correct (k : Kind) (hk : k ≠ .full) (s : Bytes) :
    detect cfg (header cfg k ++ s) = .ok (k, s) := by
  rw [cfg_is_spec]; exact detect_header k hk s

/-- **Explicit protocol** (`transport.ListenCodec`): `ReadHeader` accepts what `WriteHeader` wrote and
hands the codec exactly what follows; anything else of the same length is a header mismatch. -/
theorem readHeader_correct (k : Kind) (s : Bytes) : readHeader cfg k (header cfg k ++ s) = .ok s :=
  readHeader_header cfg k s

theorem readHeader_rejects (k : Kind) (s : Bytes) (hlen : (header cfg k).length ≤ s.length)
    (hne : s.take (header cfg k).length ≠ header cfg k) : readHeader cfg k s = .error .headerMismatch := by
  unfold readHeader
  have : ¬ s.length < (header cfg k).length := by omega
  simp [this, hne]

/-- **Detection, full protocol** (no header): the first frame of a valid payload starts with none of
the reserved tags, is detected as `full`, and nothing of it is consumed. -/
theorem detect_full (crc : Bytes → Nat) (seq : Int) (rnd p rest : Bytes) (hp : Valid p) :
    detect cfg (header cfg .full ++ encRaw cfg crc .full seq rnd p ++ rest)
      = .ok (.full, encRaw cfg crc .full seq rnd p ++ rest) := by
  obtain ⟨h8, hmax, h4⟩ := hp
  rw [cfg_is_spec]
  simp only [header, encRaw, encHead, List.nil_append, List.append_assoc]
  exact detect_full_of_aligned (p.length + 12) _ (by omega)

/-- **Concurrent senders.**  Any number of senders, any interleaving of their `Send` calls and of the
partial writes inside them: whenever no `Send` is in progress, the bytes on the connection decode to
exactly the payloads in lock-acquisition order, nothing else, and each sender's payloads appear in
that sender's own order (as a prefix of what it set out to send). -/
theorem concurrent_senders (crc : Bytes → Nat) (hcrc : ∀ x, crc x < 2 ^ 32) (k : Kind)
    (rnd : Nat → Bytes) (hrnd : ∀ i, (rnd i).length = 4) (seq0 : Int) (pend0 : Nat → List Bytes)
    (hvalid : ∀ t, ∀ p ∈ pend0 t, Valid p) (acts : List SAct) (s : SState)
    (hrun : srun cfg crc k rnd (sinit seq0 pend0) acts = some s) (hidle : s.cur = none)
    (hlo : -2 ^ 31 ≤ seq0) (hhi : seq0 + s.log.length ≤ 2 ^ 31) :
    decAll cfg crc k (s.wire.length + 1) seq0 s.wire = ((s.log.map (·.2)).map .frame, none)
    ∧ ∀ t, ((s.log.filter (fun e => e.1 = t)).map (·.2)) <+: pend0 t := by
  have inv := sinv_run cfg crc k rnd seq0 pend0 acts _ s (sinv_init cfg crc k rnd seq0 pend0) hrun
  have hwire : s.wire = encAll cfg crc k seq0 rnd (s.log.map (·.2)) := by
    have := inv.stream
    simpa [curRem, hidle] using this
  have hmem : ∀ p ∈ s.log.map (·.2), Valid p := by
    intro p hp
    obtain ⟨e, he, rfl⟩ := List.mem_map.mp hp
    apply hvalid e.1
    rw [← inv.order e.1]
    apply List.mem_append_left
    exact List.mem_map.mpr ⟨e, List.mem_filter.mpr ⟨he, by simp⟩, rfl⟩
  constructor
  · rw [hwire]
    exact stream_roundtrip crc hcrc k seq0 rnd hrnd _ hmem hlo (by simpa using hhi)
  · intro t
    exact ⟨s.pending t, inv.order t⟩

/-! ### The pinned tree violated the property at the frame limit -/

/-- Pinned tree, full protocol: a payload of `2^24 - 8 … 2^24` bytes is accepted by `Write` and
rejected by `Read` (`invalid message length`). -/
theorem pinned_full_counterexample (crc : Bytes → Nat) (seq : Int) (rnd p rest : Bytes)
    (hlo : 2 ^ 24 - 12 < p.length) (hhi : p.length ≤ 2 ^ 24) :
    (enc Cfg.pinned crc .full seq rnd p = .ok (encRaw Cfg.pinned crc .full seq rnd p)) ∧
    (read Cfg.pinned crc .full seq (encRaw Cfg.pinned crc .full seq rnd p ++ rest)).out
      = .err (.badLen (p.length + 12)) := by
  constructor
  · unfold enc
    have hhi' : p.length ≤ 16777216 := hhi
    have hlo' : 16777216 - 12 < p.length := hlo
    have h1 : Cfg.pinned.outRejects p.length = false := by
      show decide (p.length > 16777216 ∨ p.length = 0) = false
      rw [decide_eq_false_iff_not]; omega
    simp only [h1, Bool.false_eq_true, if_false]
    simp
  · exact pinned_full_rejects crc seq rnd p rest hlo hhi

/-- Pinned tree, padded intermediate: a `2^24`-byte payload whose last byte is not ≡ 0 (mod 4). -/
theorem pinned_padded_counterexample (crc : Bytes → Nat) (seq : Int) (rnd p rest : Bytes)
    (hlen : p.length = 2 ^ 24) (hpad : 0 < padLen Cfg.pinned p) :
    (read Cfg.pinned crc .padded seq (encRaw Cfg.pinned crc .padded seq rnd p ++ rest)).out
      = .err (.badLen (p.length + padLen Cfg.pinned p)) :=
  pinned_padded_rejects crc seq rnd p rest hlen hpad

/-! ### Non-vacuity -/

example : Valid (List.replicate 16777216 1) := by
  unfold Valid; rw [List.length_replicate]; decide
example : 0 < padLen Cfg.pinned (List.replicate 16777216 1) := by
  have : lastByte (List.replicate 16777216 (1 : UInt8)) = 1 := by
    unfold lastByte; rw [List.getLast?_replicate]; rfl
  rw [padLen, this]; decide
example : Valid [1, 2, 3, 4, 5, 6, 7, 8] := by decide
example : (read cfg (fun _ => 5) .abridged 0 (encRaw cfg (fun _ => 5) .abridged 0 [9, 9, 9, 9] [1, 2, 3, 4, 5, 6, 7, 8] ++ [0xaa])).out
    = .ok [1, 2, 3, 4, 5, 6, 7, 8] [0xaa] := by decide
/-- The sender system does run: two senders, frames interleaved at the lock only. -/
example : (srun cfg (fun _ => 0) .intermediate (fun _ => [0, 0, 0, 0])
    (sinit 0 (fun t => if t = 0 then [[1, 1, 1, 1, 1, 1, 1, 1]] else if t = 1 then [[2, 2, 2, 2, 2, 2, 2, 2]] else []))
    [.acquire 1, .write 1 5, .write 1 7, .release 1, .acquire 0, .write 0 12, .release 0]).map (·.wire)
    = some [8, 0, 0, 0, 2, 2, 2, 2, 2, 2, 2, 2, 8, 0, 0, 0, 1, 1, 1, 1, 1, 1, 1, 1] := by decide

end TdModel.C16
