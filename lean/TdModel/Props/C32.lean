/-
C32 — uploads split the source into a complete, well-formed part sequence.
Property theorems only (helper lemmas live in TdModel/Lemmas/C32.lean).  `Facts.C32.computeParts`,
`computePartSize`, `checkPartSize` are the translations of the Go functions regenerated from
/repo/telegram/uploader/part.go on every run; the theorems below are about those translations.
-/
import TdModel.Lemmas.C32

namespace TdModel.C32
open TdModel

/-- The constants of /repo/constant used by the uploader are the documented ones. -/
theorem constants_spec :
    Facts.C32.bigFileLimit = 10 * 1024 * 1024 ∧ Facts.C32.partsLimit = 3999 ∧
    Facts.C32.defaultPartSize = 128 * 1024 ∧ Facts.C32.paddingPartSize = 1024 ∧
    Facts.C32.maximumPartSize = 512 * 1024 := by decide

/-- The per-part retry loops of `smallLoop` and `uploadBigFilePart` have no attempt counter or limit
(control skeleton regenerated from the source). -/
theorem retry_loops_unbounded : Facts.C32.retryLoopsUnbounded = true := by decide

/-- Bytes in part order equal the source (any source, any part size ≥ 1). -/
theorem chunks_concat (ps : Nat) (hps : 0 < ps) (src : Bytes) : (chunks ps src).flatten = src :=
  chunksF_flatten ps hps _ src (Nat.le_refl _)

/-- Every part except the last has exactly the part size. -/
theorem chunks_all_but_last_full (ps : Nat) (src : Bytes) (pre : List Bytes) (c : Bytes) (post : List Bytes)
    (h : chunks ps src = pre ++ c :: post) (hpost : post ≠ []) : c.length = ps :=
  chunksF_full ps _ src pre c post h hpost

/-- No part is empty and none exceeds the part size (so the last one has 1..ps bytes). -/
theorem chunks_bounds (ps : Nat) (hps : 0 < ps) (src : Bytes) :
    ∀ c ∈ chunks ps src, 0 < c.length ∧ c.length ≤ ps :=
  chunksF_bounds ps hps _ src

/-- The number of parts read from the source is what the (translated) Go `computeParts` announces. -/
theorem chunks_count (ps : Nat) (hps : 0 < ps) (src : Bytes) :
    ((chunks ps src).length : Int) = Facts.C32.computeParts ps src.length := by
  rw [computeParts_nat ps src.length hps, chunks, chunksF_length ps hps _ _ (Nat.le_refl _)]

/-- Automatic part sizing keeps the part count within the 3999-part limit for every size up to the
largest file 3999 parts can hold (3999 · 512 KiB). -/
theorem autosize_le_3999 (total : Int) (h0 : 0 ≤ total) (hmax : total ≤ 3999 * 524288) :
    Facts.C32.computeParts (Facts.C32.computePartSize total) total ≤ 3999 :=
  autosize_parts total h0 hmax

/-- The automatic part size is one of 128/256/512 KiB and passes `checkPartSize` (divisible by 1 KiB,
divides 512 KiB), for every total (even beyond the limit). -/
theorem partSize_valid (total : Int) :
    (Facts.C32.computePartSize total = 131072 ∨ Facts.C32.computePartSize total = 262144 ∨
      Facts.C32.computePartSize total = 524288) ∧
    Facts.C32.checkPartSize (Facts.C32.computePartSize total) = false := by
  refine ⟨computePartSize_cases total, ?_⟩
  rcases computePartSize_cases total with h | h | h <;> rw [h] <;> decide

/-- The automatic part size is the smallest of the three that fits (minimality). -/
theorem autosize_minimal (total : Int) :
    (Facts.C32.computePartSize total = 262144 → Facts.C32.computeParts 131072 total > 3999) ∧
    (Facts.C32.computePartSize total = 524288 → Facts.C32.computeParts 262144 total > 3999) := by
  rw [computePartSize_spec]
  constructor <;> intro h <;> split at h <;> (try split at h) <;> first | omega | (simp at h)

/-- `checkPartSize` accepts exactly the part sizes Telegram documents. -/
theorem checkPartSize_spec (p : Int) (hp : 0 ≤ p) :
    Facts.C32.checkPartSize p = false ↔ (p ≠ 0 ∧ p % 1024 = 0 ∧ 524288 % p = 0) := by
  constructor
  · intro h
    have := checkPartSize_false p h
    rw [Int.tmod_eq_emod_of_nonneg hp, Int.tmod_eq_emod_of_nonneg (by decide)] at this
    exact this
  · intro ⟨h1, h2, h3⟩
    unfold Facts.C32.checkPartSize
    rw [Int.tmod_eq_emod_of_nonneg hp, Int.tmod_eq_emod_of_nonneg (by decide)]
    simp [h1, h2, h3]

/-- **Main statement.**  Known (= actual) or unknown total size, any admissible part size choice
(`prepare` succeeded: explicit and valid, or automatic), any thread count (the model is independent of
it), any flood-wait / `false` pattern after which every part is eventually accepted:
the parts sent are exactly the source split at the part size (ids `0..n-1`, each saved, bytes in order =
source), all of the small or all of the big kind, and the returned descriptor states `n` parts, the kind
by the 10 MiB threshold (or unknown size), and the MD5 of the source for small files. -/
theorem upload_exact (md5 : Bytes → Bytes) (c : Cfg) (script : Nat → List Resp) (src : Bytes)
    (ps : Nat) (big : Bool) (tp : Int)
    (hdecl : c.declared = src.length ∨ c.declared = -1)
    (hprep : prepare c = .ok (ps, big, tp))
    (hs : ∀ i, (attempts (script i)).2 = true) :
    let r := upload md5 c script src
    let n := (chunks ps src).length
    r.reqs.map (·.payload) = chunks ps src ∧
    (r.reqs.map (·.payload)).flatten = src ∧
    (∀ q ∈ r.reqs, q.saved = true ∧ q.big = big) ∧
    r.reqs.map (·.part) = (List.range n).map (fun (k : Nat) => (k : Int)) ∧
    r.outcome = .file big n (if big then none else some (md5 src)) ∧
    (big = true ↔ (c.declared = -1 ∨ c.declared > 10 * 1024 * 1024)) := by
  have h := upload_exact_lemma md5 c script src ps big tp hdecl hprep hs
  have hp := prepare_ok c ps big tp hprep
  refine ⟨h.1, ?_, h.2.1, h.2.2.1, h.2.2.2, hp.2.2.2.2.1⟩
  rw [h.1]
  exact chunks_concat ps hp.2.1 src

/-- Flood waits and `false` answers only repeat the identical request: a script without a hard error
always ends with the part saved, after `1 +` (number of refusals before the first `true`) requests. -/
theorem retries_transparent (l : List Resp) (h : Resp.err ∉ l) : (attempts l).2 = true ∧ 0 < (attempts l).1 :=
  ⟨attempts_saved l h, attempts_pos l⟩

/-- Statement structure of the two loops as read from the source and interpreted by the model: small
files number their parts `sentParts % partsLimit`, big files with the plain counter (passed on as
`FilePart: p.id`), the MD5 is fed by a `TeeReader` around the source (not per attempt), and
`FileTotalParts` is read from `upload.totalParts` when the request is built. -/
theorem loop_structure :
    Facts.C32.smallPartIsModLimit = true ∧ Facts.C32.bigPartIsCounter = true ∧
    Facts.C32.md5ViaTeeReader = true ∧ Facts.C32.totalPartsReadAtSend = true ∧
    Facts.C32.readFullLoops = true := by decide

/-- The unknown-size `totalParts` race, made explicit: a request is flagged "may carry −1 instead of
the final count" only in an unknown-size upload whose source ends with a short read, and never for the
last part (the reader publishes the count before it enqueues that part). -/
theorem unknown_flag_only_before_last {α} (script : Nat → List Resp) (tp : Int) (n : Nat) (ls : Bool) :
    ∀ (parts : List α) (i : Nat) (pre : List (Req α)) (q : Req α) (post : List (Req α)),
      bigReqs script tp n ls i parts = pre ++ q :: post → q.orUnknown = true →
      tp = -1 ∧ ls = true ∧ post ≠ [] := by
  intro parts
  induction parts with
  | nil => intro i pre q post h; simp [bigReqs] at h
  | cons p rest ih =>
    intro i pre q post h hq
    rw [bigReqs] at h
    cases pre with
    | nil =>
      simp only [List.nil_append, List.cons.injEq] at h
      obtain ⟨h1, h2⟩ := h
      subst h1
      simp only [Bool.and_eq_true, decide_eq_true_eq, Bool.not_eq_true'] at hq
      refine ⟨hq.1.1, hq.1.2, ?_⟩
      intro hp
      rw [hp] at h2
      have : rest = [] := by
        cases rest with
        | nil => rfl
        | cons a b => simp [bigReqs] at h2
      simp [this] at hq
    | cons x pre' =>
      simp only [List.cons_append, List.cons.injEq] at h
      exact ih (i + 1) pre' q post h.2 hq

/-- Observation (not a violation of the property, which speaks of *automatic part sizing*): an upload
of unknown size (`FromReader`) cannot be sized from its length — it keeps the default 128 KiB part size,
so the part count is `⌈len / 128 KiB⌉` and exceeds 3999 exactly when the stream is longer than
3999 · 128 KiB. -/
theorem unknown_size_part_count (src : Bytes) :
    (match prepare { declared := -1, explicitPs := none } with
      | .ok r => r == (131072, true, -1)
      | .error _ => false) = true ∧
    ((chunks 131072 src).length > 3999 ↔ src.length > 3999 * 131072) := by
  constructor
  · decide
  · rw [chunks, chunksF_length 131072 (by decide) _ _ (Nat.le_refl _)]
    unfold partsN
    split <;> omega

/-- Retry transparency is unbounded: after ANY number `n` of consecutive refusals (`false` or
FLOOD_WAIT) of one part the part is still saved, with exactly `n + 1` identical requests. -/
theorem retries_unbounded (faults : List Resp) (hf : ∀ r ∈ faults, r = .no ∨ r = .flood)
    (rest : List Resp) (hrest : rest = [] ∨ rest.head? = some .ok) :
    attempts (faults ++ rest) = (faults.length + 1, true) := by
  induction faults with
  | nil =>
    rcases hrest with h | h
    · subst h; rfl
    · cases rest with
      | nil => rfl
      | cons x t => simp only [List.head?_cons, Option.some.injEq] at h; subst h; rfl
  | cons r faults ih =>
    have := ih (fun x hx => hf x (List.mem_cons_of_mem _ hx))
    rcases hf r (List.mem_cons_self) with h | h <;> subst h <;>
      simp only [List.cons_append, attempts, this, List.length_cons]

/-- Non-vacuity: 40 refusals in a row, then `true`. -/
example : attempts (List.replicate 40 .no ++ [.ok]) = (41, true) := by decide

/-- Big-file parts carry the final part count once it is known: with a known size every part carries
it (it equals the number of parts actually sent); with an unknown size the part read together with the
end of the source carries it (earlier ones are flagged "−1 or n": the reader publishes the count
concurrently), and while no short read happened nothing but −1 is sent. -/
theorem big_parts_carry_total (md5 : Bytes → Bytes) (c : Cfg) (script : Nat → List Resp) (src : Bytes)
    (ps : Nat) (tp : Int)
    (hdecl : c.declared = src.length ∨ c.declared = -1)
    (hprep : prepare c = .ok (ps, true, tp)) :
    let r := upload md5 c script src
    let n := (chunks ps src).length
    (c.declared ≠ -1 → ∀ q ∈ r.reqs, q.total = n ∧ q.orUnknown = false) ∧
    (c.declared = -1 → src.length % ps ≠ 0 → ∀ q ∈ r.reqs, q.total = n) ∧
    (c.declared = -1 → src.length % ps = 0 → ∀ q ∈ r.reqs, q.total = -1 ∧ q.orUnknown = false) := by
  have hp := prepare_ok c ps true tp hprep
  obtain ⟨_, hpos, _, _, _, htp1, htp2⟩ := hp
  simp only [upload, uploadParts, hprep, if_true]
  have hsp := bigReqs_spec script tp (chunks ps src).length (decide (src.length % ps ≠ 0)) (chunks ps src) 0
  refine ⟨?_, ?_, ?_⟩
  · intro hd q hq
    have htp : tp = ((chunks ps src).length : Int) := by
      have hdecl' : c.declared = src.length := by
        rcases hdecl with h | h
        · exact h
        · exact absurd h hd
      rw [(htp2 hd).1, hdecl', chunks_count ps hpos src]
    have hne : tp ≠ -1 := by omega
    have := (hsp.2.2 q hq).2.2.1 hne
    exact ⟨by rw [this.1, htp], this.2⟩
  · intro hd hm q hq
    exact (hsp.2.2 q hq).2.2.2.2 (htp1 hd) (by simpa using hm)
  · intro hd hm q hq
    exact (hsp.2.2 q hq).2.2.2.1 (htp1 hd) (by simp [hm])

/-- Worker pool = any completion order: whatever order the accepted `(id, bytes)` parts reach the
server in, the file it assembles from ids `0..n-1` is the source. -/
theorem assembled_independent_of_order (ps : Nat) (hps : 0 < ps) (src : Bytes)
    (evs : List (Nat × Bytes)) (hperm : (accepted (chunks ps src)).Perm evs) :
    assemble (store evs) (chunks ps src).length = src := by
  rw [assemble_perm _ _ hperm]
  exact chunks_concat ps hps src

/-- Non-vacuity: a 2500-byte small upload with 1 KiB parts (three parts, last short) … -/
example : (match prepare { declared := 2500, explicitPs := some 1024 } with
    | .ok r => r == (1024, false, 3) | .error _ => false) = true := by decide
/-- … an unknown-size upload is big, … -/
example : (match prepare { declared := -1, explicitPs := none } with
    | .ok r => r == (131072, true, -1) | .error _ => false) = true := by decide
/-- … and a completion order different from the id order. -/
example : assemble (store [(1, [3]), (0, [1, 2])]) 2 = [1, 2, 3] := by decide

end TdModel.C32
