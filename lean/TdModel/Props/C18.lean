/-
C18 — obfuscated2 handshake agrees on protocol, DC and both byte streams.
Property theorems only (helper lemmas: TdModel/Lemmas/C18.lean).

Model: TdModel/Model/C18.lean.  AES-CTR is a primitive: every theorem holds for XOR with an
*arbitrary* keystream function `ks key iv : Nat → UInt8` (in particular AES-256-CTR's) and an
arbitrary `sha`.  A stream is (key, iv, keystream offset).
-/
import TdModel.Model.C18
import TdModel.Lemmas.C18
import TdModel.Lemmas.C16

namespace TdModel.C18
open TdModel

/-! ### Tie: facts read from the source -/

/-- The rejected first words contain the specification's: HEAD, POST, "GET ", OPTI, 16 03 01 02,
dd×4, ee×4 (little-endian words), and the rejected first byte is 0xef. -/
theorem reserved_covers_spec :
    ∀ w ∈ [0x44414548, 0x54534f50, 0x20544547, 0x4954504f, 0x02010316, 0xdddddddd, 0xeeeeeeee],
      w ∈ Facts.C18.reserved := by decide
theorem abridged_byte_is_ef : Facts.C18.abridgedByte = 0xef := by decide
theorem init_filter_shape : Facts.C18.secondIntZeroRejected = true ∧ Facts.C18.firstIntIsLE0to4 = true := by decide
/-- The byte ranges the handshake code uses — read from the source as numbers and *interpreted* by the
model (`createStreams`, `clientKeys`, `accept` index with them) — are MTProto's: key `init[8:40]`,
IV `init[40:56]`, decrypt key/IV from the reversed `init[8:56]` (`[:32]`, `[32:48]`), `secret[0:16]`
(shorter non-empty secrets are an error), tag at `[56:60]`, DC at `[60:62]`, header = `init[0:56]` ‖
`encrypted[56:64]` (64 bytes), metadata read from `decrypted[56:60]`, `[60:62]`; `Accept` swaps the
streams and `getDecryptInit` reverses. -/
theorem layout_is_spec :
    Facts.C18.encKeyLo = 8 ∧ Facts.C18.encKeyHi = 40 ∧ Facts.C18.encIVLo = 40 ∧ Facts.C18.encIVHi = 56 ∧
    Facts.C18.revLo = 8 ∧ Facts.C18.revHi = 56 ∧ Facts.C18.decKeyLo = 0 ∧ Facts.C18.decKeyHi = 32 ∧
    Facts.C18.decIVLo = 32 ∧ Facts.C18.decIVHi = 48 ∧ Facts.C18.secretCutLo = 0 ∧ Facts.C18.secretCutHi = 16 ∧
    Facts.C18.secretMin = 16 ∧ Facts.C18.tagLo = 56 ∧ Facts.C18.tagHi = 60 ∧ Facts.C18.dcLo = 60 ∧ Facts.C18.dcHi = 62 ∧
    Facts.C18.hdrPlainLo = 0 ∧ Facts.C18.hdrPlainHi = 56 ∧ Facts.C18.hdrEncLo = 56 ∧ Facts.C18.hdrEncHi = 64 ∧
    Facts.C18.hdrEncAt = 56 ∧ Facts.C18.headerLen = 64 ∧ Facts.C18.metaTagLo = 56 ∧ Facts.C18.metaTagHi = 60 ∧
    Facts.C18.metaDCLo = 60 ∧ Facts.C18.metaDCHi = 62 ∧ Facts.C18.decryptInitIsReversed = true ∧
    Facts.C18.acceptSwaps = true := layout_facts

/-! ### The stream cipher -/

/-- Encrypting a concatenation = encrypting the pieces at consecutive keystream offsets: the result
does not depend on how data is split into `Write` calls or into `Read` calls. -/
theorem xor_chunking (k : Nat → UInt8) (off : Nat) (a b : Bytes) :
    xorStream k off (a ++ b) = xorStream k off a ++ xorStream k (off + a.length) b :=
  xorStream_append k a b off

theorem xor_involutive (k : Nat → UInt8) (off : Nat) (d : Bytes) :
    xorStream k off (xorStream k off d) = d := xorStream_invol k d off

/-! ### Handshake -/

/-- **Agreement.**  For every 64-byte init, protocol tag, DC id (any integer, negative/test ids
included) and secret, if the client produces a header then the accepting side recovers the same tag
and `dc mod 2^16`, and its decrypt/encrypt streams are exactly the client's encrypt/decrypt streams,
keystream offset included. -/
theorem handshake_agree (ks : Bytes → Bytes → Nat → UInt8) (sha : Bytes → Bytes)
    (init tag : Bytes) (dc : Int) (secret header : Bytes) (ck : Keys)
    (hi : init.length = 64) (ht : tag.length = 4)
    (h : clientKeys (xorWith ks) sha init tag dc secret = .ok (header, ck)) :
    accept (xorWith ks) sha header secret
      = .ok (⟨tag, (dc % 2 ^ 16).toNat⟩, { encrypt := ck.decrypt, decrypt := ck.encrypt }) :=
  (accept_clientKeys ks sha init tag dc secret header ck hi ht h).2.2

/-- The client does produce a header for an empty secret and for every secret of at least 16 bytes. -/
theorem handshake_succeeds (X : Cipher) (sha : Bytes → Bytes) (init tag : Bytes) (dc : Int) (secret : Bytes)
    (hs : secret.length = 0 ∨ 16 ≤ secret.length) :
    ∃ header ck, clientKeys X sha init tag dc secret = .ok (header, ck) := by
  unfold clientKeys
  rw [createStreams_eq_mid]
  unfold createStreamsMid
  simp only
  rcases hs with hs | hs
  · have : ¬ secret.length > 0 := by omega
    simp only [this, if_false]
    exact ⟨_, _, rfl⟩
  · have h1 : secret.length > 0 := by omega
    have h2 : ¬ secret.length < 16 := by omega
    simp only [h1, h2, if_true, if_false]
    exact ⟨_, _, rfl⟩

/-- **Client → server.**  Whatever the sizes of the client's writes and however the connection cuts
the resulting bytes into reads, the server reads exactly the bytes written. -/
theorem client_to_server_stream (ks : Bytes → Bytes → Nat → UInt8) (sha : Bytes → Bytes)
    (init tag : Bytes) (dc : Int) (secret header : Bytes) (ck sk : Keys) (m : Meta)
    (hi : init.length = 64) (ht : tag.length = 4)
    (hc : clientKeys (xorWith ks) sha init tag dc secret = .ok (header, ck))
    (hs : accept (xorWith ks) sha header secret = .ok (m, sk))
    (writes chunks : List Bytes)
    (hwire : chunks.flatten = (writeAll (xorWith ks) ck.encrypt writes).1) :
    (readAll (xorWith ks) sk.decrypt chunks).1 = writes.flatten := by
  rw [handshake_agree ks sha init tag dc secret header ck hi ht hc] at hs
  simp only [Except.ok.injEq, Prod.mk.injEq] at hs
  rw [← hs.2]
  exact read_write ks ck.encrypt writes chunks hwire

/-- **Server → client**, likewise. -/
theorem server_to_client_stream (ks : Bytes → Bytes → Nat → UInt8) (sha : Bytes → Bytes)
    (init tag : Bytes) (dc : Int) (secret header : Bytes) (ck sk : Keys) (m : Meta)
    (hi : init.length = 64) (ht : tag.length = 4)
    (hc : clientKeys (xorWith ks) sha init tag dc secret = .ok (header, ck))
    (hs : accept (xorWith ks) sha header secret = .ok (m, sk))
    (writes chunks : List Bytes)
    (hwire : chunks.flatten = (writeAll (xorWith ks) sk.encrypt writes).1) :
    (readAll (xorWith ks) ck.decrypt chunks).1 = writes.flatten := by
  rw [handshake_agree ks sha init tag dc secret header ck hi ht hc] at hs
  simp only [Except.ok.injEq, Prod.mk.injEq] at hs
  rw [← hs.2] at hwire
  exact read_write ks ck.decrypt writes chunks hwire

/-- **A read that comes with an error still decrypts** (tie: `Obfuscated2.Read` never returns before
`XORKeyStream` — fact `readSkipsDecryptOn = 0`, interpreted by `readOne`): bytes that the connection
delivers together with `io.EOF` or with any other error — which callers must process and which
`io.ReadFull` hands on as data — are plaintext and advance the keystream, so the stream theorems hold
for such connections too. -/
theorem read_decrypts_with_error (X : Cipher) (s : Stream) (chunks : List (Bytes × RdErr)) :
    readAllE X s chunks = readAll X s (chunks.map (·.1)) := readAllE_eq X chunks s

theorem read_never_skips_decryption : Facts.C18.readSkipsDecryptOn = 0 := by decide

/-- **Obfuscated transport** (the "with obfuscation" case of C16, composed): a codec's frames written
through the client's obfuscated2 writer in any write sizes, cut into reads in any way, and
de-obfuscated by the accepting side decode to exactly the payloads sent.  (`Codec.Cfg.spec` is the
codec configuration that `TdModel.C16.cfg_is_spec` ties to the source.) -/
theorem obfuscated_codec_stream (ks : Bytes → Bytes → Nat → UInt8) (sha : Bytes → Bytes)
    (init tag : Bytes) (dc : Int) (secret header : Bytes) (ck sk : Keys) (m : Meta)
    (hi : init.length = 64) (ht : tag.length = 4)
    (hc : clientKeys (xorWith ks) sha init tag dc secret = .ok (header, ck))
    (hs : accept (xorWith ks) sha header secret = .ok (m, sk))
    (crc : Bytes → Nat) (hcrc : ∀ x, crc x < 2 ^ 32) (k : Codec.Kind) (seq : Int) (rnd : Nat → Bytes)
    (hrnd : ∀ i, (rnd i).length = 4) (ps : List Bytes)
    (hps : ∀ p ∈ ps, 8 ≤ p.length ∧ p.length ≤ 2 ^ 24 ∧ p.length % 4 = 0)
    (hlo : -2 ^ 31 ≤ seq) (hhi : seq + ps.length ≤ 2 ^ 31)
    (writes chunks : List Bytes)
    (hwrites : writes.flatten = Codec.encAll Codec.Cfg.spec crc k seq rnd ps)
    (hwire : chunks.flatten = (writeAll (xorWith ks) ck.encrypt writes).1) :
    let plain := (readAll (xorWith ks) sk.decrypt chunks).1
    Codec.decAll Codec.Cfg.spec crc k (plain.length + 1) seq plain = (ps.map .frame, none) := by
  have hplain := client_to_server_stream ks sha init tag dc secret header ck sk m hi ht hc hs writes chunks hwire
  simp only [hplain, hwrites]
  have hv : ∀ p ∈ ps, 0 < p.length ∧ p.length ≤ 16777216 ∧ (k ≠ .full → p.length % 4 = 0) ∧ p.length ≠ 4 := by
    intro p hp
    obtain ⟨h8, hmax, h4⟩ := hps p hp
    have hmax' : p.length ≤ 16777216 := hmax
    exact ⟨by omega, hmax', fun _ => h4, by omega⟩
  have hlen := Codec.encAll_length_ge Codec.Cfg.spec crc k ps seq rnd (fun p hp => (hv p hp).1)
  exact Codec.decAll_encAll crc k hcrc ps seq rnd _ hv (fun i => by rw [hrnd i]; omega) hlo hhi (by omega)

/-- **Reserved prefixes.**  Whatever the random source delivers, a header that `Handshake` sends
never starts with 0xef, never has one of the reserved first words, never has a zero second word. -/
theorem header_prefix_ok (ks : Bytes → Bytes → Nat → UInt8) (sha : Bytes → Bytes)
    (tape tag : Bytes) (dc : Int) (secret header : Bytes) (ck : Keys) (ht : tag.length = 4)
    (h : handshake (xorWith ks) sha tape tag dc secret = .ok (header, ck)) :
    header.length = 64 ∧ header.headD 0 ≠ 0xef
      ∧ le32 (header.take 4) ∉ [0x44414548, 0x54534f50, 0x20544547, 0x4954504f, 0x02010316, 0xdddddddd, 0xeeeeeeee]
      ∧ le32 ((header.drop 4).take 4) ≠ 0 := by
  unfold handshake at h
  cases hg : generateInit (tape.length / 64 + 1) tape with
  | error e => rw [hg] at h; simp at h
  | ok init =>
    rw [hg] at h
    simp only at h
    obtain ⟨hl, hr⟩ := generateInit_ok _ _ _ hg
    obtain ⟨hlen, hpre, _⟩ := accept_clientKeys ks sha init tag dc secret header ck hl ht h
    -- the first eight bytes of the header are those of the accepted candidate
    have h8 : header.take 8 = init.take 8 := by
      have := congrArg (List.take 8) hpre
      simpa [List.take_take] using this
    have hhead : header.headD 0 = init.headD 0 := by
      cases header with
      | nil => simp at hlen
      | cons a as =>
        cases init with
        | nil => simp at hl
        | cons b bs => simp only [List.take_succ_cons, List.cons.injEq] at h8; simp [h8.1]
    have h4 : header.take 4 = init.take 4 := by
      have := congrArg (List.take 4) h8
      simpa [List.take_take] using this
    have h48 : (header.drop 4).take 4 = (init.drop 4).take 4 := by
      have := congrArg (List.drop 4) h8
      rw [List.drop_take, List.drop_take] at this
      simpa using this
    simp only [rejected, Bool.or_eq_false_iff, decide_eq_false_iff_not] at hr
    obtain ⟨⟨hr1, hr2⟩, hr3⟩ := hr
    refine ⟨hlen, ?_, ?_, ?_⟩
    · rw [hhead]; intro hc; apply hr1; rw [hc]; decide
    · rw [h4]
      intro hmem
      have := reserved_covers_spec _ hmem
      have hc : Facts.C18.reserved.contains (le32 (init.take 4)) = true := by
        simpa using this
      rw [hc] at hr2
      exact absurd hr2 (by decide)
    · rw [h48]; exact hr3

/-! ### Non-vacuity -/

/-- A concrete handshake through the whole model with a toy keystream (`ks = iv byte ⊕ position`). -/
example :
    let ks : Bytes → Bytes → Nat → UInt8 := fun key iv i => (key.headD 0) ^^^ (iv.headD 0) ^^^ UInt8.ofNat i
    let init : Bytes := (List.range 64).map (fun i => UInt8.ofNat (i + 1))
    (match clientKeys (xorWith ks) id init [0xdd, 0xdd, 0xdd, 0xdd] (-2) [] with
     | .ok (header, _) => (match accept (xorWith ks) id header [] with
        | .ok (m, _) => some (m.protocol, m.dc)
        | .error _ => none)
     | .error _ => none) = some ([0xdd, 0xdd, 0xdd, 0xdd], 65534) := by decide

end TdModel.C18
