/-
C13 — DH and factorisation checks accept exactly the specification's inputs.
Property theorems only (helper lemmas live in TdModel/Lemmas/C13.lean and, for the number theory,
TdModel/Mathlib/C13.lean).  Literals below (2..7 and the residue table, 2048, 2^1984, 64, 15, 17, 18)
are the specification's, not the regenerated names: a changed constant in /repo breaks these proofs.
-/
import TdModel.Lemmas.C13
import TdModel.Mathlib.C13

namespace TdModel.C13
open TdModel

/-! ### Regenerated facts equal the specification -/

/-- The `switch g` of `CheckGP` is the table of the MTProto documentation:
p mod 8 = 7 for g = 2; p mod 3 = 2 for g = 3; nothing for g = 4; p mod 5 ∈ {1,4} for g = 5;
p mod 24 ∈ {19,23} for g = 6; p mod 7 ∈ {3,5,6} for g = 7. -/
theorem gpTable_is_spec :
    Facts.C13.gpTable = [(2, some (8, [7])), (3, some (3, [2])), (4, none), (5, some (5, [1, 4])),
      (6, some (24, [19, 23])), (7, some (7, [3, 5, 6]))] := by decide

/-- `CheckDH` rejects exactly on `p.BitLen() != 2048`; `Prime` runs 64 Miller–Rabin rounds. -/
theorem checkDH_source_shape :
    Facts.C13.checkDHBitsCond = "p.BitLen() != RSAKeyBits" ∧ Facts.C13.rsaKeyBits = 2048 ∧
      Facts.C13.primeRounds = 64 := by decide

/-- The pieces of `DecomposePQ` **translated from the source** compute what the model's reading says:
`v = ((r & 15) + 17) mod n`, `x = r mod (n−1) + 1`, `y = x`, `lim = 2^(i+18)`, `j = 1`; the
multiplication step is one round of double-and-add modulo `n`; the tail computes `z = x − y mod n`,
`g = gcd(z, n)`, saves `y` when `j` is a power of two, increments `j` and clears `flag` when `g ≠ 1`;
the result is `(g, n/g)` in ascending order; the loops continue while `¬(1 < g < n)`, `j < lim ∧ flag`,
`b > 0`; random words have 64 bits. -/
theorem decomposePQ_pieces_are_spec :
    (∀ r n, Facts.C13.pqDrawVT r n = ((r &&& 15) + 17) % n) ∧
    (∀ r n i, Facts.C13.pqRoundInitT r n i = (n - 1, r % (n - 1) + 1, r % (n - 1) + 1, 2 ^ (i + 18), 1, true)) ∧
    (∀ x v, Facts.C13.pqInnerInitT x v = (x, x, v)) ∧
    (∀ a b c n, Facts.C13.pqMulStepT a b c n =
      (b % 2, if b % 2 = 1 then addMod n a c else c, addMod n a a, b / 2)) ∧
    (∀ c y n j flag, Facts.C13.pqInnerTailT c y n j flag =
      (c, subMod n c y, Nat.gcd (subMod n c y) n, if j &&& (j - 1) = 0 then c else y, j + 1,
        if Nat.gcd (subMod n c y) n ≠ 1 then false else flag)) ∧
    (∀ g n, Facts.C13.pqFinishT g n = pqFinish n g) ∧
    (∀ g n, (!Facts.C13.pqOuterContT g n) = true ↔ 1 < g ∧ g < n) ∧
    (∀ j lim flag, Facts.C13.pqInnerContT j lim flag = (decide (j < lim) && flag)) ∧
    (∀ b, Facts.C13.pqMulContT b = decide (0 < b)) ∧
    Facts.C13.pqRndBits = 64 :=
  ⟨pqDrawVT_spec, pqRoundInitT_spec, pqInnerInitT_spec, pqMulStepT_spec, pqInnerTailT_spec, pqFinishT_spec,
    pqOuterContT_false_iff, pqInnerContT_spec, pqMulContT_spec, by decide⟩

/-! ### CheckGP -/

/-- `CheckGP` accepts `(g, p)` (p ≥ 0) exactly when `g ∈ {2,…,7}` and `p` satisfies the documented
residue condition for that `g`. -/
theorem checkGP_ok_iff (g p : Int) (hp : 0 ≤ p) :
    checkGP g p = .ok ↔
      (g = 2 ∧ p % 8 = 7) ∨ (g = 3 ∧ p % 3 = 2) ∨ g = 4 ∨ (g = 5 ∧ (p % 5 = 1 ∨ p % 5 = 4)) ∨
      (g = 6 ∧ (p % 24 = 19 ∨ p % 24 = 23)) ∨ (g = 7 ∧ (p % 7 = 3 ∨ p % 7 = 5 ∨ p % 7 = 6)) := by
  unfold checkGP
  rw [gpTable_is_spec]
  exact checkGPWith_spec_iff g p hp

/-- Every `g` outside 2..7 is refused (`unexpected g`), whatever `p` is. -/
theorem checkGP_badG_iff (g p : Int) : checkGP g p = .badG ↔ ¬ (2 ≤ g ∧ g ≤ 7) := by
  unfold checkGP
  rw [gpTable_is_spec]
  exact checkGPWith_badG_iff g p

/-- **The residue table is correct** (Mathlib: quadratic reciprocity and its supplements, the Legendre
symbol's multiplicativity for 6 = 2·3): for every safe prime `p > 7` — of any size — and `g ∈ 2..7`,
`CheckGP` accepts exactly when `g` is a quadratic residue modulo `p`, i.e. generates the subgroup of
prime order `(p−1)/2`. -/
theorem residue_table_correct (p : Nat) (hp : p.Prime) (hq : ((p - 1) / 2).Prime) (h7 : 7 < p)
    (g : Nat) (hg : 2 ≤ g ∧ g ≤ 7) :
    checkGP (g : Int) (p : Int) = .ok ↔ IsSquare ((g : Nat) : ZMod p) := by
  unfold checkGP
  rw [gpTable_is_spec]
  exact table_iff_isSquare p hp hq h7 g hg

/-! ### CheckDH -/

/-- `CheckDH` accepts exactly when `p` has 2048 bits (`2^2047 ≤ |p| < 2^2048`), `CheckGP` accepts,
and the primality oracle (`crypto.Prime` = `ProbablyPrime(64)`) says yes for `p` and `(p−1)/2`.
The full-strength corollary with real primality and "g is a quadratic residue" is
`checkDH_accepts_exactly_spec` below (Mathlib). -/
theorem checkDH_iff (isPrime : Int → Bool) (g p : Int) :
    checkDH isPrime g p = .ok ↔
      (2 ^ 2047 ≤ p.natAbs ∧ p.natAbs < 2 ^ 2048) ∧ checkGP g p = .ok ∧ isPrime p = true ∧
        isPrime (Int.tdiv (p - 1) 2) = true := by
  rw [checkDH_ok_iff, checkDH_source_shape.2.1]
  exact and_congr_left' (bitLen_eq_succ_iff p 2047)

/-- Non-vacuity: with a permissive oracle, `g = 4`, `p = 2^2047` passes the structural part. -/
example : checkDH (fun _ => true) 4 ((2 : Int) ^ 2047) = .ok := by
  rw [checkDH_iff]
  have hn : ((2 : Int) ^ 2047).natAbs = 2 ^ 2047 := by
    rw [Int.natAbs_pow]; rfl
  refine ⟨by rw [hn]; exact ⟨Nat.le_refl _, Nat.pow_lt_pow_right (by decide) (by decide)⟩, ?_, rfl, rfl⟩
  rw [checkGP_ok_iff _ _ (Int.le_of_lt (Int.pow_pos (by decide)))]
  exact Or.inr (Or.inr (Or.inl rfl))

/-- **`CheckDH` accepts exactly the specification's inputs**: given a correct primality oracle
(Go uses 64 Miller–Rabin rounds + Baillie–PSW; exactness of that test is the one assumption), `(g, p)`
is accepted iff `p` is a 2048-bit safe prime (`2^2047 < p < 2^2048`, `p` and `(p−1)/2` prime) and `g` is
one of 2..7 and a quadratic residue modulo `p`.  (The code tests `2^2047 ≤ p`; the FIXME in
check_dh.go is immaterial because `2^2047` is not prime.) -/
theorem checkDH_accepts_exactly_spec (isPrime : Int → Bool)
    (horacle : ∀ n : Int, isPrime n = true ↔ (0 ≤ n ∧ n.toNat.Prime)) (g : Int) (p : Nat) :
    checkDH isPrime g (p : Int) = .ok ↔
      (2 ^ 2047 < p ∧ p < 2 ^ 2048) ∧ p.Prime ∧ ((p - 1) / 2).Prime ∧ (2 ≤ g ∧ g ≤ 7) ∧
        IsSquare ((g.toNat : Nat) : ZMod p) :=
  checkDH_spec_bridge isPrime horacle checkDH_source_shape.2.1 gpTable_is_spec g p

/-- Negative "primes" are refused (a correct oracle says no). -/
theorem checkDH_negative_refused (isPrime : Int → Bool)
    (horacle : ∀ n : Int, isPrime n = true ↔ (0 ≤ n ∧ n.toNat.Prime)) (g p : Int) (hp : p < 0) :
    checkDH isPrime g p ≠ .ok := by
  intro h
  have := ((checkDH_iff isPrime g p).mp h).2.2.1
  have := ((horacle p).mp this).1
  omega

/-- For the **production prime** of Telegram's servers no oracle is needed for the structural part:
its size and residues are computed by the kernel, so `CheckGP` accepts exactly g ∈ {3, 4, 7}
(Telegram sends g = 3), and `CheckDH` accepts iff additionally the two primality tests succeed. -/
theorem production_prime_generators (g : Int) :
    checkGP g (productionPrime : Int) = .ok ↔ g = 3 ∨ g = 4 ∨ g = 7 := by
  rw [checkGP_ok_iff _ _ (Int.natCast_nonneg _)]
  obtain ⟨h8, h3, h5, h24, h7⟩ := productionPrime_residues
  omega

theorem production_prime_checkDH (isPrime : Int → Bool) (g : Int) :
    checkDH isPrime g (productionPrime : Int) = .ok ↔
      (g = 3 ∨ g = 4 ∨ g = 7) ∧ isPrime (productionPrime : Int) = true ∧
        isPrime (Int.tdiv ((productionPrime : Int) - 1) 2) = true := by
  rw [checkDH_iff, production_prime_generators, Int.natAbs_natCast]
  have := productionPrime_bits
  constructor
  · rintro ⟨_, h⟩; exact h
  · intro h; exact ⟨this, h⟩

/-! ### CheckDHParams -/

/-- `CheckDHParams` accepts exactly the values strictly inside `(1, p−1)` (g, g_a, g_b) and strictly
inside the `2^1984` safety margins (g_a, g_b).  The function this is proved about
(`Facts.C13.checkDHParamsT`, with `Facts.C13.inRangeT`) is **translated from the Go source on every
run**: which variable each check tests, against which bounds, the comparison directions, the
definitions of the bounds and the exponent `RSAKeyBits-64` all come from /repo. -/
theorem checkDHParams_iff (p g ga gb : Int) :
    checkDHParams p g ga gb = none ↔
      (1 < g ∧ g < p - 1) ∧ (1 < ga ∧ ga < p - 1) ∧ (1 < gb ∧ gb < p - 1) ∧
      ((2 : Int) ^ 1984 < ga ∧ ga < p - (2 : Int) ^ 1984) ∧
      ((2 : Int) ^ 1984 < gb ∧ gb < p - (2 : Int) ^ 1984) :=
  checkDHParams_none_iff p g ga gb

/-- Non-vacuity and boundaries: for `p = 4·2^1984`, `g_a = 2^1984 + 1` is accepted, `g_a = 2^1984` and
`g_a = p − 2^1984` are not. -/
example :
    checkDHParams (4 * (2 : Int) ^ 1984) 2 ((2 : Int) ^ 1984 + 1) (3 * (2 : Int) ^ 1984 - 1) = none ∧
    checkDHParams (4 * (2 : Int) ^ 1984) 2 ((2 : Int) ^ 1984) (3 * (2 : Int) ^ 1984 - 1) ≠ none ∧
    checkDHParams (4 * (2 : Int) ^ 1984) 2 ((2 : Int) ^ 1984 + 1) (3 * (2 : Int) ^ 1984) ≠ none := by
  have hs : (1 : Int) < (2 : Int) ^ 1984 := by
    have hn : 1 < (2 : Nat) ^ 1984 := Nat.one_lt_two_pow (by decide)
    have h : ((1 : Nat) : Int) < (((2 : Nat) ^ 1984 : Nat) : Int) := Int.ofNat_lt.mpr hn
    rw [Int.natCast_pow] at h
    exact h
  refine ⟨?_, ?_, ?_⟩
  · rw [checkDHParams_iff]; generalize (2 : Int) ^ 1984 = s at hs ⊢; omega
  · intro h; rw [checkDHParams_iff] at h; generalize (2 : Int) ^ 1984 = s at hs h; omega
  · intro h; rw [checkDHParams_iff] at h; generalize (2 : Int) ^ 1984 = s at hs h; omega

/-! ### DecomposePQ -/

/-- Soundness of the Pollard-rho loop for every input and every random tape: whatever it returns is a
factorisation into two non-trivial factors in ascending order.  (Termination is probabilistic and is
not claimed.)  For a product of two primes the result is therefore exactly that pair, ascending:
`decompose_semiprime` below (Mathlib). -/
theorem decompose_sound (n : Nat) (tape : List Nat) (p q : Nat)
    (h : decomposePQ n tape = .ok (p, q)) : p * q = n ∧ 1 < p ∧ p ≤ q := by
  unfold decomposePQ at h
  split at h
  · rename_i p' q' k hk
    injection h with h
    injection h with h1 h2
    subst h1 h2
    exact pqLoop_sound n tape 0 0 p' q' k (Or.inl (by omega)) hk
  · cases h

/-- The inner binary-multiplication loop of `DecomposePQ` is Pollard's polynomial step
`x ↦ (x² + v) mod n` (for `x, v < n`, which the outer loop guarantees). -/
theorem rho_step_is_square_plus_c (n x v : Nat) (hx : x < n) (hv : v < n) :
    mulAddLoop n x x v = (v + x * x) % n :=
  mulAddLoop_eq n x x v hx hv

/-- **Fuel adequacy**: the model's loops are fuel-bounded recursions; the fuel never truncates the Go
loops.  The inner loop started as in the code (`j = 1`, fuel `lim`) behaves the same with any larger
fuel (it stops by its own condition `j < lim && flag`), and the multiplication loop is given `b + 1`
steps, enough for its `⌈log₂ b⌉` iterations (`rho_step_is_square_plus_c` shows the complete product). -/
theorem inner_loop_fuel_adequate (n v lim k : Nat) (flag : Bool) (x y g : Nat) :
    rhoInner n v (lim + k) 1 lim flag x y g = rhoInner n v lim 1 lim flag x y g :=
  rhoInner_fuel n v lim k 1 lim flag x y g (by omega)

/-- **pq factorisation returns the two prime factors in ascending order**: for `n = p₁·p₂` with
`p₁ ≤ p₂` primes (of any size, in particular below 2^63), any successful run returns `(p₁, p₂)`. -/
theorem decompose_semiprime (p1 p2 : Nat) (hp1 : p1.Prime) (hp2 : p2.Prime) (hle : p1 ≤ p2)
    (tape : List Nat) (p q : Nat) (h : decomposePQ (p1 * p2) tape = .ok (p, q)) : p = p1 ∧ q = p2 := by
  obtain ⟨hmul, hgt, hpq⟩ := decompose_sound _ tape p q h
  exact semiprime_factors p1 p2 p q hp1 hp2 hle hmul hgt hpq

/-! ### Inputs outside the specification (observations, see notes/C13.md) -/

/-- On a **prime** input the loop never returns a factorisation, whatever the random source gives:
every run ends with the exhaustion of the random source — with `crypto/rand` it never ends.  (The
client calls `DecomposePQ` on the server-supplied `pq` after checking only `pq ≤ 2^63`.) -/
theorem decompose_prime_never_returns (n : Nat) (hn : n.Prime) (tape : List Nat) (p q : Nat) :
    decomposePQ n tape ≠ .ok (p, q) := by
  intro h
  obtain ⟨hmul, hgt, hpq⟩ := decompose_sound n tape p q h
  exact prime_no_factors n p q hn hmul hgt hpq

/-- `pq = 0` and `pq = 1` never return a result either: with at least two random words the Go code
panics (division by zero in `v.Mod(v, what)` resp. `x.Mod(x, whatNext)`), modelled as `.panic`. -/
theorem decompose_zero_one_panics (n : Nat) (hn : n ≤ 1) (r1 r2 : Nat) (rest : List Nat) :
    decomposePQ n (r1 :: r2 :: rest) = .error .panic := by
  unfold decomposePQ pqLoop
  have hc : ¬ ((!Facts.C13.pqOuterContT 0 n) = true) := by
    rw [pqOuterContT_false_iff]; omega
  rw [if_neg hc]
  have : n = 0 ∨ n = 1 := by omega
  simp [this]

/-- Non-vacuity: the model factors 15 with the two-word tape `[1, 1]` (v = 3, x = 2, x' = 7,
gcd(7 − 2, 15) = 5, result swapped into ascending order). -/
example : decomposePQ 15 [1, 1] = .ok (3, 5) := by
  have hm : mulAddLoop 15 2 2 3 = 7 := by
    rw [mulAddLoop_eq 15 2 2 3 (by decide) (by decide)]
  simp [decomposePQ, pqLoop, rhoInner, hm, pqDrawVT_spec, pqRoundInitT_spec,
    pqInnerInitT_spec, pqInnerTailT_spec, pqInnerContT_spec, pqFinishT_spec, subMod, pqFinish,
    Facts.C13.pqOuterContT, Facts.C13.pqRndBits]

end TdModel.C13
