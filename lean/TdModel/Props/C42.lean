/-
C42 — racing dials to a DC return one connection and close the rest.

Property theorems only.  They are stated for the configuration `cfgOfSource` that is regenerated from
`telegram/dcs/plain.go` on every run, for ANY number `n ≥ 1` of dialers (n = 1 is the single-address
path, which dials directly: the same observable transitions) and ANY action list
(completion orders, outcomes, late successes after the winner, caller cancellation at any point).
-/
import TdModel.Lemmas.C42b

namespace TdModel.C42

/-- The regenerated source facts are the ones the proofs rest on (unbuffered `results`, the
`<-ctx.Done()` branch closes, `defer dialCancel()` + dialers on `dialCtx`, `dialTransport` closes on
error) and the collector's shape is the modelled one. -/
theorem source_facts :
    cfgOfSource = { unbuffered := true, abandonCloses := true, cancelOnReturn := true, hsCloses := true } ∧
    Facts.C42.remainFromLen = true ∧ Facts.C42.successReturnsAtOnce = true ∧
    Facts.C42.singleDialsDirectly = true ∧
    Facts.C42.tryDialSelect = [1, 2] ∧ Facts.C42.connectOps = [10, 20, 21, 22, 30, 40] := by decide

theorem good_source : Good cfgOfSource := by unfold Good; decide

/-- **At most one connection is returned**: two dialers whose successful result was taken by the
collector are the same dialer, and it is exactly the one `connect` returned. -/
theorem at_most_one_returned (n : Nat) (hn : 1 ≤ n) (s : State) (h : Reachable cfgOfSource n s)
    (i j : Nat) (di dj : Dialer) (hi : s.ds[i]? = some di) (hj : s.ds[j]? = some dj)
    (h1 : di.phase = .delivered ∧ di.ok = true) (h2 : dj.phase = .delivered ∧ dj.ok = true) :
    i = j ∧ s.coll = .returned i := by
  have hI := inv_reachable good_source hn h
  have a := hI.win i di hi h1.1 h1.2
  have b := hI.win j dj hj h2.1 h2.2
  rw [a] at b
  cases b
  exact ⟨rfl, a⟩

/-- The returned connection is an established, still open connection of a dialer that delivered it. -/
theorem returned_is_open (n : Nat) (hn : 1 ≤ n) (s : State) (h : Reachable cfgOfSource n s) (i : Nat)
    (hr : s.coll = .returned i) :
    ∃ d, s.ds[i]? = some d ∧ d.phase = .delivered ∧ d.ok = true ∧ d.conn = .opened := by
  have hI := inv_reachable good_source hn h
  obtain ⟨d, hd, hp, hok⟩ := hI.ret i hr
  exact ⟨d, hd, hp, hok, (hI.loc i d hd).2.2.1 hok (Or.inr hp)⟩

/-- **An error is returned only when every dial failed**, and it combines all `n` failures:
if `connect` returned the combined error, the error count is `n`, every dialer delivered a failure,
and no connection is open. -/
theorem error_only_if_all_failed (n : Nat) (hn : 1 ≤ n) (s : State) (h : Reachable cfgOfSource n s)
    (e : Nat) (hf : s.coll = .failed e) :
    e = n ∧ ∀ (i : Nat) (d : Dialer), s.ds[i]? = some d → d.phase = .delivered ∧ d.ok = false ∧ d.conn ≠ .opened := by
  have hI := inv_reachable good_source hn h
  obtain ⟨he, hc⟩ := hI.cntF e hf
  refine ⟨he, ?_⟩
  have hall : ∀ a, a ∈ s.ds → isDelivered a = true :=
    (List.countP_eq_length).1 (by rw [hc, hI.len])
  intro i d hd
  have hm : d ∈ s.ds := List.mem_of_getElem? hd
  have hp : d.phase = .delivered := by simpa [isDelivered] using hall d hm
  have hok : d.ok = false := by
    cases hk : d.ok with
    | false => rfl
    | true =>
      have := hI.win i d hd hp hk
      rw [hf] at this; cases this
  exact ⟨hp, hok, (hI.loc i d hd).2.2.2 hok⟩

/-- **Error iff all failed** (no caller cancel): once nothing can happen any more, `connect` has
returned either one connection or the combined error of all `n` dials, and it is the error exactly
when no dial succeeded. -/
theorem error_iff_all_failed (n : Nat) (hn : 1 ≤ n) (s : State) (h : Reachable cfgOfSource n s)
    (ht : Terminal cfgOfSource s) (hnc : s.callerDone = false) :
    ((∃ i, s.coll = .returned i) ∨ s.coll = .failed n) ∧
    (s.coll = .failed n ↔ ∀ (i : Nat) (d : Dialer), s.ds[i]? = some d → d.ok = false) := by
  have hI := inv_reachable good_source hn h
  have hcase : (∃ i, s.coll = .returned i) ∨ s.coll = .failed n := by
    cases hc : s.coll with
    | returned i => exact Or.inl ⟨i, rfl⟩
    | failed e => have := (hI.cntF e hc).1; subst this; exact Or.inr rfl
    | cancelled => have := hI.cc hc; rw [hnc] at this; cases this
    | waiting r e =>
      exfalso
      obtain ⟨hsum, _, hr⟩ := hI.cntW r e hc
      have hlt : List.countP isDelivered s.ds < s.ds.length := by rw [hI.len]; omega
      obtain ⟨i, d, hd, hnd⟩ := exists_not_of_countP_lt isDelivered s.ds hlt
      have hdd : s.dialDone = false := by
        cases hx : s.dialDone with
        | false => rfl
        | true =>
          rcases hI.dd hx with h' | h'
          · rw [hnc] at h'; cases h'
          · exact absurd hc (h' r e)
      cases hp : d.phase with
      | dialing =>
        have := ht (.dialOk i) (by simp)
        simp [step, finishDial, hd, hp] at this
      | blocked =>
        have := ht (.deliver i) (by simp)
        simp [step, hd, hp, hc] at this
      | delivered => simp [isDelivered, hp] at hnd
      | abandoned =>
        have := hI.ab i d hd hp
        rw [hdd] at this; cases this
  refine ⟨hcase, ?_, ?_⟩
  · intro hf i d hd
    exact ((error_only_if_all_failed n hn s h n hf).2 i d hd).2.1
  · intro hall
    rcases hcase with ⟨i, hr⟩ | hf
    · obtain ⟨d, hd, _, hok⟩ := hI.ret i hr
      rw [hall i d hd] at hok; cases hok
    · exact hf

/-- **Every open connection is accounted for at every moment** (not only at the end): it is either
still held by its blocked dialer — which will deliver or close it — or it is the returned one. -/
theorem open_conn_accounted (n : Nat) (hn : 1 ≤ n) (s : State) (h : Reachable cfgOfSource n s)
    (i : Nat) (d : Dialer) (hd : s.ds[i]? = some d) (ho : d.conn = .opened) :
    d.ok = true ∧ (d.phase = .blocked ∨ (d.phase = .delivered ∧ s.coll = .returned i)) := by
  have hI := inv_reachable good_source hn h
  have hl := hI.loc i d hd
  have hok : d.ok = true := by
    cases hk : d.ok with
    | true => rfl
    | false => exact absurd ho (hl.2.2.2 hk)
  refine ⟨hok, ?_⟩
  cases hp : d.phase with
  | dialing => have := (hl.1 hp).1; rw [this] at ho; cases ho
  | blocked => exact Or.inl rfl
  | delivered => exact Or.inr ⟨rfl, hI.win i d hd hp hok⟩
  | abandoned => have := hl.2.1 hok hp; rw [this] at ho; cases ho

/-- **All other connections are closed**: when nothing but a caller cancel can happen any more
(every dial has completed — including successes that arrive after the winner or after the caller
cancelled — and every goroutine has taken its last step), every established connection that is
still open is the one `connect` returned; in particular after an error or a cancel none is open. -/
theorem terminal_all_closed (n : Nat) (hn : 1 ≤ n) (s : State) (h : Reachable cfgOfSource n s)
    (ht : Terminal cfgOfSource s) (i : Nat) (d : Dialer) (hd : s.ds[i]? = some d)
    (ho : d.conn = .opened) : s.coll = .returned i := by
  have hI := inv_reachable good_source hn h
  obtain ⟨_, hb | ⟨_, hr⟩⟩ := open_conn_accounted n hn s h i d hd ho
  · exfalso
    cases hc : s.coll with
    | waiting r e =>
      have := ht (.deliver i) (by simp)
      simp [step, hd, hb, hc] at this
    | returned k =>
      have hdn := hI.done (by intro r e; rw [hc]; simp)
      have := ht (.abandon i) (by simp)
      simp [step, hd, hb, hdn] at this
    | failed e =>
      have hdn := hI.done (by intro r e'; rw [hc]; simp)
      have := ht (.abandon i) (by simp)
      simp [step, hd, hb, hdn] at this
    | cancelled =>
      have hdn := hI.done (by intro r e; rw [hc]; simp)
      have := ht (.abandon i) (by simp)
      simp [step, hd, hb, hdn] at this
  · exact hr

/-- A caller cancel never lets `connect` hand out a second connection or leave one open: the
cancelled collector implies the caller cancelled, and then `terminal_all_closed` applies unchanged. -/
theorem cancel_only_if_caller_cancelled (n : Nat) (hn : 1 ≤ n) (s : State) (h : Reachable cfgOfSource n s)
    (hc : s.coll = .cancelled) : s.callerDone = true :=
  (inv_reachable good_source hn h).cc hc

/-- The executable monitor `holdsB` (evaluated by the driver on every replayed implementation trace)
is implied by the invariant: it holds in every reachable state. -/
theorem holdsB_reachable (n : Nat) (hn : 1 ≤ n) (s : State) (h : Reachable cfgOfSource n s) :
    holdsB s = true := by
  have hI := inv_reachable good_source hn h
  unfold holdsB
  simp only [Bool.and_eq_true, List.all_eq_true, List.mem_range]
  refine ⟨?_, ?_⟩
  · intro i _
    split
    · rename_i d hd
      simp only [Bool.and_eq_true, Bool.or_eq_true, bne_iff_ne, ne_eq, beq_iff_eq, Bool.not_eq_true',
        Bool.and_eq_false_imp]
      refine ⟨?_, ?_⟩
      · by_cases ho : d.conn = .opened
        · obtain ⟨_, hb | ⟨_, hr⟩⟩ := open_conn_accounted n hn s h i d hd ho
          · exact Or.inl (Or.inr hb)
          · exact Or.inr hr
        · exact Or.inl (Or.inl ho)
      · cases hk : d.ok with
        | false => simp
        | true =>
          by_cases hp : d.phase = .delivered
          · exact Or.inr (hI.win i d hd hp hk)
          · exact Or.inl (by simp [hp])
    · rfl
  · cases hc : s.coll with
    | waiting r e => simp
    | cancelled => simp
    | returned i =>
      obtain ⟨d, hd, hp, hok, ho⟩ := returned_is_open n hn s h i hc
      simp [hd, hp, hok, ho]
    | failed e =>
      obtain ⟨he, hall⟩ := error_only_if_all_failed n hn s h e hc
      simp only [Bool.and_eq_true, beq_iff_eq, List.all_eq_true, Bool.not_eq_true']
      refine ⟨by rw [he, hI.len], ?_⟩
      intro d hm
      obtain ⟨i, hi⟩ := List.getElem?_of_mem hm
      obtain ⟨hp, hok, _⟩ := hall i d hi
      exact ⟨hp, hok⟩

/-- The driver's executable `terminalB` (reported as `term=1` for every replayed implementation trace)
is exactly the `Terminal` hypothesis of `terminal_all_closed` / `error_iff_all_failed`. -/
theorem terminalB_is_terminal (s : State) : terminalB cfgOfSource s = true ↔ Terminal cfgOfSource s :=
  terminalB_iff cfgOfSource s

/-! Non-vacuity: concrete races of three dialers reach the states the theorems speak about. -/

/-- Two successes and a refusal: dialer 1 wins, the late success 0 is closed, terminal. -/
example : ∃ s, run cfgOfSource (init 3) [.dialOk 1, .dialFail 2, .deliver 2, .deliver 1, .dialOk 0, .abandon 0] = some s ∧
    s.coll = .returned 1 ∧ terminalB cfgOfSource s = true ∧
    s.ds.map (·.conn) = [.closed, .opened, .none] := ⟨_, rfl, by decide⟩

/-- All three fail (one after a handshake failure): the combined error counts three failures. -/
example : ∃ s, run cfgOfSource (init 3) [.dialFail 0, .dialHsFail 1, .deliver 1, .dialFail 2, .deliver 0, .deliver 2] = some s ∧
    s.coll = .failed 3 ∧ terminalB cfgOfSource s = true := ⟨_, rfl, by decide⟩

/-- Caller cancel with a success in flight: the connection is closed, nothing is returned. -/
example : ∃ s, run cfgOfSource (init 2) [.dialOk 0, .callerCancel, .collCancel, .abandon 0, .dialOk 1, .abandon 1] = some s ∧
    s.coll = .cancelled ∧ terminalB cfgOfSource s = true ∧ s.ds.map (·.conn) = [.closed, .closed] := ⟨_, rfl, by decide⟩

/-- With a buffered channel the property is false (this is why `resultsUnbuffered` is a fact):
the second success is accepted by the channel after `connect` returned and stays open forever. -/
theorem buffered_counterexample :
    ∃ s, run { unbuffered := false, abandonCloses := true, cancelOnReturn := true, hsCloses := true } (init 2)
        [.dialOk 0, .dialOk 1, .deliver 0, .deliver 1] = some s ∧ holdsB s = false := ⟨_, rfl, by decide⟩

/-- Without closing in the `<-ctx.Done()` branch the property is false as well. -/
theorem no_close_counterexample :
    ∃ s, run { unbuffered := true, abandonCloses := false, cancelOnReturn := true, hsCloses := true } (init 2)
        [.dialOk 0, .dialOk 1, .deliver 0, .abandon 1] = some s ∧ holdsB s = false := ⟨_, rfl, by decide⟩

end TdModel.C42
